(* C16: model of internal/resolver/resolve.go and toposort.go (scalar/array
   typing), of the part of internal/compiler/compiler.go that relies on it
   (scalarInfo / arrayInfo / array arguments), and the specification the
   resolver is measured against (a constraint system and [sat]).
   Definitions only.

   A program is abstracted to what the resolver reads:
     - the Go-defined (native) functions of ParserConfig.Funcs,
     - the AWK functions (name, parameters, events of the body), in source order,
     - the events of BEGIN blocks, pattern-actions and END blocks, in that order.
   An event is one thing mainVisitor.Visit reacts to:
     Use v TScalar   a VarExpr (or the loop variable of for-in)
     Use v TArray    IndexExpr / InExpr / DeleteStmt / for-in array / split's 2nd argument
     Use v TUnknown  length(v)
     Call f args     a UserCallExpr; an argument is either a bare variable
                     (ArgVar) or any other expression (ArgExpr, with the
                     events that occur inside it, in walk order).
   Go's "" (function name of the top level) is the empty name []. *)
From Verif Require Import Lib.Base.
Open Scope Z_scope.

(* ---------- names ---------------------------------------------------- *)

Definition name := bytes.
Definition neqb (a b : name) : bool := bytes_eqb a b.
Definition is_empty (n : name) : bool := match n with [] => true | _ => false end.
Definition mem (x : name) (l : list name) : bool := existsb (neqb x) l.

(* Go's string order (bytewise), used by sort.Strings *)
Fixpoint name_leb (a b : name) : bool :=
  match a, b with
  | [], _ => true
  | _ :: _, [] => false
  | x :: a', y :: b' => if x <? y then true else if y <? x then false else name_leb a' b'
  end.
Fixpoint insert_name (x : name) (l : list name) : list name :=
  match l with
  | [] => [x]
  | y :: r => if name_leb x y then x :: l else y :: insert_name x r
  end.
Definition sort_names (l : list name) : list name := fold_right insert_name [] l.

(* internal/ast/specialvars.go: specialVars *)
Definition special_names : list name :=
  [ [65;82;71;67] (* ARGC *);
    [67;79;78;86;70;77;84] (* CONVFMT *);
    [70;73;76;69;78;65;77;69] (* FILENAME *);
    [70;78;82] (* FNR *);
    [70;83] (* FS *);
    [73;78;80;85;84;77;79;68;69] (* INPUTMODE *);
    [78;70] (* NF *);
    [78;82] (* NR *);
    [79;70;77;84] (* OFMT *);
    [79;70;83] (* OFS *);
    [79;82;83] (* ORS *);
    [79;85;84;80;85;84;77;79;68;69] (* OUTPUTMODE *);
    [82;76;69;78;71;84;72] (* RLENGTH *);
    [82;83] (* RS *);
    [82;83;84;65;82;84] (* RSTART *);
    [82;84] (* RT *);
    [83;85;66;83;69;80] (* SUBSEP *) ].
Definition special (v : name) : bool := mem v special_names.   (* SpecialVarIndex(v) > 0 *)

Definition n_ARGV : name := [65;82;71;86].
Definition n_ENVIRON : name := [69;78;86;73;82;79;78].
Definition n_FIELDS : name := [70;73;69;76;68;83].

(* ---------- abstract programs ---------------------------------------- *)

Inductive ty := TUnknown | TScalar | TArray.      (* resolve.go: unknown / Scalar / Array *)
Definition ty_eqb (a b : ty) : bool :=
  match a, b with
  | TUnknown, TUnknown | TScalar, TScalar | TArray, TArray => true
  | _, _ => false
  end.

Inductive event :=
| Use (v : name) (t : ty)
| Call (f : name) (args : list arg)
with arg :=
| ArgVar (v : name)
| ArgExpr (es : list event).

Record fdef := { f_name : name; f_params : list name; f_body : list event }.
(* an entry of ParserConfig.Funcs: whether reflect.TypeOf of the value is a
   Func at all (false: nil or any other kind), and for a function its NumIn and
   IsVariadic *)
Record native := { n_name : name; n_in : Z; n_variadic : bool; n_func : bool }.
Record program := { p_natives : list native; p_funcs : list fdef; p_main : list event }.

(* The effects of mainVisitor.Visit on one UserCallExpr, in the order they
   happen: the checks at the head, then per argument either the array-parameter
   check followed by the walk of the argument expression, or the treatment of
   a bare variable.  [flat_event] lays a body out as this sequence of steps. *)
Inductive step :=
| SUse (v : name) (t : ty)
| SCallHead (f : name) (nargs : Z)
| SArgExpr (f : name) (i : nat)
| SArgVar (f : name) (i : nat) (v : name).

Fixpoint flat_event (e : event) : list step :=
  match e with
  | Use v t => [SUse v t]
  | Call f args =>
      SCallHead f (zlen args) ::
      (fix go (i : nat) (l : list arg) {struct l} : list step :=
         match l with
         | [] => []
         | ArgVar v :: r => SArgVar f i v :: go (S i) r
         | ArgExpr es :: r =>
             SArgExpr f i ::
             (fix fe (es : list event) : list step :=
                match es with [] => [] | e' :: es' => flat_event e' ++ fe es' end) es
             ++ go (S i) r
         end) O args
  end.
Definition flat_events (es : list event) : list step := flat_map flat_event es.

(* ---------- static function information ------------------------------ *)

Definition fnames (P : program) : list name := List.map f_name (p_funcs P).

Fixpoint find_func_from (fs : list fdef) (f : name) (i : Z) : option (Z * fdef) :=
  match fs with
  | [] => None
  | fd :: r => if neqb (f_name fd) f then Some (i, fd) else find_func_from r f (i + 1)
  end.
(* r.funcs[f] together with the index callGraphVisitor gave it (len(v.funcs)
   at its definition); function names are distinct when this is consulted
   (a second definition panics before anything else happens). *)
Definition find_func (P : program) (f : name) : option (Z * fdef) := find_func_from (p_funcs P) f 0.

Definition is_func (P : program) (f : name) : bool := mem f (fnames P).

Fixpoint find_native (ns : list native) (f : name) : option native :=
  match ns with
  | [] => None
  | n :: r => if neqb (n_name n) f then Some n else find_native r f
  end.
Fixpoint index_of (f : name) (l : list name) (i : Z) : option Z :=
  match l with
  | [] => None
  | x :: r => if neqb x f then Some i else index_of f r (i + 1)
  end.

Record finfo := { fi_native : bool; fi_index : Z; fi_params : list name }.

(* r.funcInfo[f]: natives get indexes in order of name; an AWK function of the
   same name overrides the native one. *)
Definition func_info (P : program) (f : name) : option finfo :=
  match find_func P f with
  | Some (i, fd) => Some {| fi_native := false; fi_index := i; fi_params := f_params fd |}
  | None =>
      match index_of f (sort_names (List.map n_name (p_natives P))) 0 with
      | Some i => Some {| fi_native := true; fi_index := i; fi_params := [] |}
      | None => None
      end
  end.

Definition params_of (P : program) (f : name) : list name :=
  match find_func P f with Some (_, fd) => f_params fd | None => [] end.

Fixpoint first_dup (seen : list name) (l : list name) : option name :=
  match l with
  | [] => None
  | x :: r => if mem x seen then Some x else first_dup (x :: seen) r
  end.

(* ---------- the variable table --------------------------------------- *)

Definition key := (name * name)%type.            (* (function or [], variable) *)
Definition key_eqb (a b : key) : bool := neqb (fst a) (fst b) && neqb (snd a) (snd b).
Definition vtable := list (key * ty).

Fixpoint get (t : vtable) (k : key) : option ty :=
  match t with
  | [] => None
  | (k', v) :: r => if key_eqb k k' then Some v else get r k
  end.
Fixpoint put (t : vtable) (k : key) (v : ty) : vtable :=
  match t with
  | [] => [(k, v)]
  | (k', v') :: r => if key_eqb k k' then (k, v) :: r else (k', v') :: put r k v
  end.

Record state := { st_vars : vtable; st_updates : Z }.

Inductive scope := Local | Special | Global.

Inductive rerr :=
| EAlreadyDefined (f : name)            (* function %q already defined *)
| EGlobalFunc (v : name)                (* global var %q can't also be a function *)
| ECallLocal (f : name)                 (* can't call local variable %q as function *)
| EUndefined (f : name)                 (* undefined function %q *)
| ETooManyArgs (f : name)               (* %q called with more arguments than declared *)
| ENotFunc (f : name)                   (* native function %q is not a function *)
| EUse (have : ty) (v : name) (want : ty)     (* can't use %s %q as %s *)
| EPassVar (have : ty) (v : name) (want : ty) (* can't pass %s %q as %s param *)
| EPassExpr                             (* can't pass scalar %s as array param *)
| ETooManyIter.                         (* too many iterations trying to resolve variable types *)

Inductive rres (A : Type) :=
| ROk (a : A)
| RErr (e : rerr)
| RPanic                                (* Go would panic with something else than a PositionError *)
| RFuel.                                (* the model's own fuel ran out (topoSort) *)
Arguments ROk {A} a.
Arguments RErr {A} e.
Arguments RPanic {A}.
Arguments RFuel {A}.

(* resolver.lookupVar: scope, type, function it is defined in *)
Definition lookup_var (t : vtable) (fn v : name) : option (scope * ty * name) :=
  match (if is_empty fn then None else get t (fn, v)) with
  | Some ty0 => Some (Local, ty0, fn)
  | None =>
      if special v then Some (Special, TScalar, [])
      else match get t ([], v) with
           | Some ty0 => Some (Global, ty0, [])
           | None => None
           end
  end.

(* resolver.recordVar *)
Definition record_var (P : program) (s : state) (fn v : name) (typ : ty) : rres state :=
  match lookup_var (st_vars s) fn v with
  | None =>
      let s' := {| st_vars := put (st_vars s) ([], v) typ; st_updates := st_updates s + 1 |} in
      if is_func P v then RErr (EGlobalFunc v) else ROk s'
  | Some (_, ity, vf) =>
      if negb (ty_eqb ity typ) && negb (ty_eqb ity TUnknown) && negb (ty_eqb typ TUnknown)
      then RErr (EUse ity v typ)
      else if ty_eqb ity TUnknown && negb (ty_eqb typ TUnknown)
      then ROk {| st_vars := put (st_vars s) (vf, v) typ; st_updates := st_updates s + 1 |}
      else ROk s
  end.

Definition type_of_lookup (t : vtable) (fn v : name) : ty :=
  match lookup_var t fn v with Some (_, ty0, _) => ty0 | None => TUnknown end.
Definition get_or_unknown (t : vtable) (k : key) : ty :=
  match get t k with Some ty0 => ty0 | None => TUnknown end.

(* mainVisitor.Visit, one step; [cur] is v.curFunc *)
Definition visit_step (P : program) (cur : name) (s : state) (st : step) : rres state :=
  match st with
  | SUse v t => record_var P s cur v t
  | SCallHead f nargs =>
      let is_local :=
        match lookup_var (st_vars s) cur f with
        | Some (_, _, vf) => negb (is_empty vf)
        | None => false
        end in
      if is_local then RErr (ECallLocal f)
      else match func_info P f with
           | None => RErr (EUndefined f)
           | Some fi =>
               if fi_native fi then
                 match find_native (p_natives P) f with
                 | None => RErr (ENotFunc f)  (* typ == nil *)
                 | Some nt =>
                     if negb (n_func nt) then RErr (ENotFunc f)   (* typ == nil || typ.Kind() != reflect.Func *)
                     else
                     let numParams := if n_variadic nt then 1000000000 else n_in nt in
                     if numParams <? nargs then RErr (ETooManyArgs f) else ROk s
                 end
               else if zlen (fi_params fi) <? nargs then RErr (ETooManyArgs f) else ROk s
           end
  | SArgExpr f i =>
      match func_info P f with
      | None => RPanic
      | Some fi =>
          if fi_native fi then ROk s
          else match nth_error (fi_params fi) i with
               | None => RPanic               (* funcInfo.Params[i] out of range *)
               | Some p =>
                   match get_or_unknown (st_vars s) (f, p) with
                   | TArray => RErr EPassExpr
                   | _ => ROk s
                   end
               end
      end
  | SArgVar f i v =>
      match func_info P f with
      | None => RPanic
      | Some fi =>
          if fi_native fi then record_var P s cur v TScalar
          else match nth_error (fi_params fi) i with
               | None => RPanic
               | Some p =>
                   let pty := get_or_unknown (st_vars s) (f, p) in
                   let vty := type_of_lookup (st_vars s) cur v in
                   if ty_eqb vty TUnknown && negb (ty_eqb pty TUnknown)
                   then record_var P s cur v pty
                   else if negb (ty_eqb vty TUnknown) && ty_eqb pty TUnknown
                   then record_var P s f p vty
                   else if negb (ty_eqb vty pty) && negb (ty_eqb vty TUnknown) && negb (ty_eqb pty TUnknown)
                   then RErr (EPassVar vty v pty)
                   else record_var P s cur v TUnknown
               end
      end
  end.

Fixpoint run_steps (P : program) (cur : name) (l : list step) (s : state) : rres state :=
  match l with
  | [] => ROk s
  | st :: r =>
      match visit_step P cur s st with
      | ROk s' => run_steps P cur r s'
      | RErr e => RErr e
      | RPanic => RPanic
      | RFuel => RFuel
      end
  end.

(* mainVisitor.walkOrdered: the functions in the given order, then BEGIN,
   actions and END *)
Fixpoint walk_funcs (P : program) (order : list name) (s : state) : rres state :=
  match order with
  | [] => ROk s
  | fn :: r =>
      if is_empty fn then walk_funcs P r s
      else match find_func P fn with
           | None => walk_funcs P r s
           | Some (_, fd) =>
               match run_steps P fn (flat_events (f_body fd)) s with
               | ROk s' => walk_funcs P r s'
               | RErr e => RErr e
               | RPanic => RPanic
               | RFuel => RFuel
               end
           end
  end.
Definition walk_ordered (P : program) (order : list name) (s : state) : rres state :=
  match walk_funcs P order s with
  | ROk s' => run_steps P [] (flat_events (p_main P)) s'
  | RErr e => RErr e
  | RPanic => RPanic
  | RFuel => RFuel
  end.

(* for i := 0; r.updates != updates; i++ { updates = r.updates; walkOrdered;
   if i >= cut { panic } }   with k = cut - i *)
Fixpoint pass_loop (P : program) (order : list name) (k : nat) (s : state) (updates : Z) : rres state :=
  if st_updates s =? updates then ROk s
  else match walk_ordered P order s with
       | ROk s' =>
           match k with
           | O => RErr ETooManyIter
           | S k' => pass_loop P order k' s' (st_updates s)
           end
       | RErr e => RErr e
       | RPanic => RPanic
       | RFuel => RFuel
       end.

(* resolver.numVars: the number of variables recorded so far *)
Definition num_vars (s : state) : Z := zlen (st_vars s).

(* The pass loop of Resolve as it is now:
     for i := 0; r.updates != updates; i++ { updates = r.updates; walkOrdered;
       if i >= 2*r.numVars() { panic } }
   [fuel] is the model's own ([pass_fuel] below); the loop with a constant limit
   above ([pass_loop]) is what the code was before and is kept for comparison. *)
Fixpoint pass_loop_dyn (P : program) (order : list name) (fuel : nat) (i : Z) (s : state) (updates : Z) : rres state :=
  if st_updates s =? updates then ROk s
  else match walk_ordered P order s with
       | ROk s' =>
           if 2 * num_vars s' <=? i then RErr ETooManyIter
           else match fuel with
                | O => RFuel
                | S fuel' => pass_loop_dyn P order fuel' (i + 1) s' (st_updates s)
                end
       | RErr e => RErr e
       | RPanic => RPanic
       | RFuel => RFuel
       end.

(* ---------- the result ------------------------------------------------ *)

Definition default_ty (t : ty) : ty := match t with TUnknown => TScalar | _ => t end.

(* indexes of one scope: separate counters for scalars and arrays *)
Fixpoint assign_idx (types : vtable) (fn : name) (names : list name) (scalar array : Z) : list (name * Z) :=
  match names with
  | [] => []
  | n :: r =>
      match get_or_unknown types (fn, n) with
      | TArray => (n, array) :: assign_idx types fn r scalar (array + 1)
      | _ => (n, scalar) :: assign_idx types fn r (scalar + 1) array
      end
  end.

Definition global_names (t : vtable) : list name :=
  List.map (fun e => snd (fst e)) (List.filter (fun e => is_empty (fst (fst e))) t).

Record final := {
  fin_types : vtable;                       (* VarInfo.Type of every entry of r.varInfo *)
  fin_gidx : list (name * Z);               (* VarInfo.Index of the globals *)
  fin_lidx : list (name * list (name * Z))  (* VarInfo.Index of the locals, per function *)
}.

Definition finalize (P : program) (s : state) : final :=
  let types := List.map (fun e => (fst e, default_ty (snd e))) (st_vars s) in
  {| fin_types := types;
     fin_gidx := assign_idx types [] (sort_names (global_names types)) 0 0;
     fin_lidx := List.map (fun fd => (f_name fd, assign_idx types (f_name fd) (f_params fd) 0 0)) (p_funcs P) |}.

Definition init_vars (P : program) : vtable :=
  fold_left (fun t fd => fold_left (fun t p => put t (f_name fd, p) TUnknown) (f_params fd) t) (p_funcs P) [].

Definition rbind2 {A B} (r : rres A) (f : A -> rres B) : rres B :=
  match r with ROk a => f a | RErr e => RErr e | RPanic => RPanic | RFuel => RFuel end.

(* resolver.Resolve after the call graph has been ordered; [cut] is the 100 of
   "if i >= 100". *)
Definition resolve_order (cut : nat) (order : list name) (P : program) : rres final :=
  match first_dup [] (fnames P) with
  | Some f => RErr (EAlreadyDefined f)
  | None =>
      let s0 := {| st_vars := init_vars P; st_updates := 0 |} in
      rbind2 (record_var P s0 [] n_ARGV TArray) (fun s1 =>
      rbind2 (record_var P s1 [] n_ENVIRON TArray) (fun s2 =>
      rbind2 (record_var P s2 [] n_FIELDS TArray) (fun s3 =>
      let updates := st_updates s3 in
      rbind2 (walk_ordered P order s3) (fun s4 =>
      rbind2 (pass_loop P order cut s4 updates) (fun s5 =>
      ROk (finalize P s5))))))
  end.

(* every key the table can ever hold: the parameters, and a global for every
   name that occurs as a variable or a parameter; twice their number bounds the
   number of passes, which gives the model's fuel *)
Definition step_names (st : step) : list name :=
  match st with SUse v _ => [v] | SArgVar _ _ v => [v] | _ => [] end.
Definition all_names (P : program) : list name :=
  [n_ARGV; n_ENVIRON; n_FIELDS] ++ flat_map f_params (p_funcs P)
  ++ flat_map (fun fd => flat_map step_names (flat_events (f_body fd))) (p_funcs P)
  ++ flat_map step_names (flat_events (p_main P)).
Definition table_keys (P : program) : list key :=
  flat_map (fun fd => List.map (fun p => (f_name fd, p)) (f_params fd)) (p_funcs P)
  ++ List.map (fun v => ([], v)) (all_names P).
Definition pass_fuel (P : program) : nat := S (2 * length (table_keys P)).

(* resolver.Resolve after the call graph has been ordered, as it is now *)
Definition resolve_order_impl (order : list name) (P : program) : rres final :=
  match first_dup [] (fnames P) with
  | Some f => RErr (EAlreadyDefined f)
  | None =>
      let s0 := {| st_vars := init_vars P; st_updates := 0 |} in
      rbind2 (record_var P s0 [] n_ARGV TArray) (fun s1 =>
      rbind2 (record_var P s1 [] n_ENVIRON TArray) (fun s2 =>
      rbind2 (record_var P s2 [] n_FIELDS TArray) (fun s3 =>
      let updates := st_updates s3 in
      rbind2 (walk_ordered P order s3) (fun s4 =>
      rbind2 (pass_loop_dyn P order (pass_fuel P) 0 s4 updates) (fun s5 =>
      ROk (finalize P s5))))))
  end.

(* ---------- call graph and topoSort ----------------------------------- *)

(* The order in which a collection of names is gone through: every such place
   asks the oracle, with a fresh counter value, in which order the names come.
   The code went through Go maps (any order); it now sorts the names first
   ([name_order_oracle] below).  The theorems hold for every oracle that
   returns a permutation. *)
Definition oracle := nat -> list name -> list name.

Definition graph := list (name * list name).
Fixpoint gget (g : graph) (n : name) : option (list name) :=
  match g with
  | [] => None
  | (k, v) :: r => if neqb n k then Some v else gget r n
  end.
Fixpoint gadd (g : graph) (n m : name) : graph :=
  match g with
  | [] => [(n, [m])]
  | (k, v) :: r => if neqb n k then (k, if mem m v then v else v ++ [m]) :: r else (k, v) :: gadd r n m
  end.

Definition add_calls (g : graph) (cur : name) (l : list step) : graph :=
  fold_left (fun g st => match st with SCallHead f _ => gadd g cur f | _ => g end) l g.

(* callGraphVisitor: calls[curFunc][callee] *)
Definition call_graph (P : program) : graph :=
  fold_left (fun g fd => add_calls g (f_name fd) (flat_events (f_body fd))) (p_funcs P)
            (add_calls [] [] (flat_events (p_main P))).

Definition remove_name (n : name) (l : list name) : list name :=
  List.filter (fun x => negb (neqb x n)) l.

Record tstate := {
  t_unmarked : list name; t_perm : list name; t_temp : list name;
  t_sorted : list name; t_ctr : nat }.

Definition succs (g : graph) (n : name) : list name :=
  match gget g n with Some l => l | None => [] end.

(* toposort.go: visit *)
Fixpoint visit (fuel : nat) (pi : oracle) (g : graph) (n : name) (ts : tstate) : option tstate :=
  match fuel with
  | O => None
  | S fuel' =>
      if mem n (t_perm ts) then Some ts
      else if mem n (t_temp ts) then Some ts
      else
        let ms := pi (t_ctr ts) (succs g n) in
        let ts1 := {| t_unmarked := t_unmarked ts; t_perm := t_perm ts; t_temp := n :: t_temp ts;
                      t_sorted := t_sorted ts; t_ctr := S (t_ctr ts) |} in
        match (fix go (ms : list name) (ts : tstate) {struct ms} : option tstate :=
                 match ms with
                 | [] => Some ts
                 | m :: r => match visit fuel' pi g m ts with
                             | Some ts' => go r ts'
                             | None => None
                             end
                 end) ms ts1 with
        | None => None
        | Some ts2 =>
            Some {| t_unmarked := remove_name n (t_unmarked ts2); t_perm := n :: t_perm ts2;
                    t_temp := remove_name n (t_temp ts2); t_sorted := t_sorted ts2 ++ [n];
                    t_ctr := t_ctr ts2 |}
        end
  end.

(* for len(unmarked) > 0 { var n string; for n = range unmarked { break }; visit(n) } *)
Fixpoint topo_loop (fuel vfuel : nat) (pi : oracle) (g : graph) (ts : tstate) : option tstate :=
  match t_unmarked ts with
  | [] => Some ts
  | _ :: _ =>
      match fuel with
      | O => None
      | S fuel' =>
          let n := match pi (t_ctr ts) (t_unmarked ts) with [] => [] | n :: _ => n end in
          let ts1 := {| t_unmarked := t_unmarked ts; t_perm := t_perm ts; t_temp := t_temp ts;
                        t_sorted := t_sorted ts; t_ctr := S (t_ctr ts) |} in
          match visit vfuel pi g n ts1 with
          | Some ts2 => topo_loop fuel' vfuel pi g ts2
          | None => None
          end
      end
  end.

Definition graph_nodes (g : graph) : list name :=
  flat_map (fun e => fst e :: snd e) g.

Definition topo_sort (pi : oracle) (g : graph) : option (list name * nat) :=
  match g with
  | [] => Some ([], O)
  | _ =>
      let unmarked := pi O (List.map fst g) in
      let n := S (S (length (graph_nodes g))) in
      match topo_loop n n pi g {| t_unmarked := unmarked; t_perm := []; t_temp := [];
                                   t_sorted := []; t_ctr := 1%nat |} with
      | Some ts => Some (t_sorted ts, t_ctr ts)
      | None => None
      end
  end.

(* orderedFuncs: topoSort(calls), then the functions that were not reached *)
Definition ordered_funcs (pi : oracle) (P : program) : option (list name) :=
  match topo_sort pi (call_graph P) with
  | None => None
  | Some (sorted, ctr) =>
      Some (sorted ++ List.filter (fun f => negb (mem f sorted)) (pi ctr (fnames P)))
  end.

Definition cutoff : nat := 100.

Definition resolve_cut (cut : nat) (pi : oracle) (P : program) : rres final :=
  match first_dup [] (fnames P) with
  | Some f => RErr (EAlreadyDefined f)
  | None =>
      match ordered_funcs pi P with
      | None => RFuel
      | Some order => resolve_order cut order P
      end
  end.
(* resolver.Resolve.  [pi] says in which order a collection of names is gone
   through; the code now sorts ([name_order_oracle]), the theorems hold for
   every order.  ([resolve_cut] is the resolver with the constant limit it had
   before; the two agree for every sufficiently large constant.) *)
Definition resolve (pi : oracle) (P : program) : rres final :=
  match first_dup [] (fnames P) with
  | Some f => RErr (EAlreadyDefined f)
  | None =>
      match ordered_funcs pi P with
      | None => RFuel
      | Some order => resolve_order_impl order P
      end
  end.

(* toposort.go and Resolve sort the nodes, the successors and the unreached
   functions by name before going through them *)
Definition name_order_oracle : oracle := fun _ l => sort_names l.
Definition resolve_impl (P : program) : rres final := resolve name_order_oracle P.

(* executable oracles for the model runner: rotate (and reverse) by a seed *)
Fixpoint rotate {A} (n : nat) (l : list A) : list A :=
  match n with
  | O => l
  | S n' => match l with [] => [] | x :: r => rotate n' (r ++ [x]) end
  end.
Definition seed_oracle (seed : nat) : oracle :=
  fun k l =>
    let l' := if Nat.odd (seed / 2 + k) then rev l else l in
    rotate (Nat.modulo (seed + 3 * k) (S (length l))) l'.

(* ---------- what the compiler relies on -------------------------------- *)

(* compiler.go: scalarInfo / arrayInfo / the UserCallExpr and length() cases,
   against the final types: [true] = none of the "internal error" panics, no
   failed type assertion of an argument to VarExpr, no index out of range *)
Definition cc_step (P : program) (types : vtable) (cur : name) (st : step) : bool :=
  match st with
  | SUse v TScalar => ty_eqb (type_of_lookup types cur v) TScalar
  | SUse v TArray => ty_eqb (type_of_lookup types cur v) TArray
  | SUse v TUnknown => negb (ty_eqb (type_of_lookup types cur v) TUnknown)
  | SCallHead _ _ => true
  | SArgExpr f i =>
      match func_info P f with
      | None => false
      | Some fi =>
          fi_native fi ||
          match nth_error (fi_params fi) i with
          | None => false
          | Some p => negb (ty_eqb (get_or_unknown types (f, p)) TArray)
          end
      end
  | SArgVar f i v =>
      match func_info P f with
      | None => false
      | Some fi =>
          if fi_native fi then ty_eqb (type_of_lookup types cur v) TScalar
          else match nth_error (fi_params fi) i with
               | None => false
               | Some p =>
                   if ty_eqb (get_or_unknown types (f, p)) TArray
                   then ty_eqb (type_of_lookup types cur v) TArray
                   else ty_eqb (type_of_lookup types cur v) TScalar
               end
      end
  end.

Definition compile_check (P : program) (F : final) : bool :=
  forallb (fun fd => forallb (cc_step P (fin_types F) (f_name fd)) (flat_events (f_body fd))) (p_funcs P)
  && forallb (cc_step P (fin_types F) []) (flat_events (p_main P)).

(* ---------- specification: the constraint system ------------------------ *)

(* the type variable a name denotes: static scoping *)
Definition scope_key (P : program) (cur v : name) : key :=
  if negb (is_empty cur) && mem v (params_of P cur) then (cur, v) else ([], v).

Inductive constr :=
| CIs (k : key) (t : ty)          (* TUnknown: no demand *)
| CEq (k1 k2 : key)
| CNotArr (k : key).

Definition constr_of_step (P : program) (cur : name) (st : step) : list constr :=
  match st with
  | SUse v t => [CIs (scope_key P cur v) t]
  | SCallHead _ _ => []
  | SArgExpr f i =>
      match func_info P f with
      | Some fi =>
          if fi_native fi then []
          else match nth_error (fi_params fi) i with
               | Some p => [CNotArr (f, p)]
               | None => []
               end
      | None => []
      end
  | SArgVar f i v =>
      match func_info P f with
      | Some fi =>
          if fi_native fi then [CIs (scope_key P cur v) TScalar]
          else match nth_error (fi_params fi) i with
               | Some p => [CEq (scope_key P cur v) (f, p)]
               | None => []
               end
      | None => []
      end
  end.

Definition base_constraints : list constr :=
  [CIs ([], n_ARGV) TArray; CIs ([], n_ENVIRON) TArray; CIs ([], n_FIELDS) TArray]
  ++ List.map (fun v => CIs ([], v) TScalar) special_names.

Definition constraints (P : program) : list constr :=
  base_constraints
  ++ flat_map (fun fd => flat_map (constr_of_step P (f_name fd)) (flat_events (f_body fd))) (p_funcs P)
  ++ flat_map (constr_of_step P []) (flat_events (p_main P)).

(* an assignment says for each type variable whether it is an array *)
Definition assignment := key -> bool.
Definition holds (rho : assignment) (c : constr) : Prop :=
  match c with
  | CIs k TArray => rho k = true
  | CIs k TScalar => rho k = false
  | CIs k TUnknown => True
  | CEq k1 k2 => rho k1 = rho k2
  | CNotArr k => rho k = false
  end.
Definition solution (P : program) (rho : assignment) : Prop :=
  forall c, In c (constraints P) -> holds rho c.
Definition sat (P : program) : Prop := exists rho, solution P rho.

Definition rho_of (types : vtable) : assignment :=
  fun k => match get types k with Some TArray => true | _ => false end.

(* ---------- the property's precondition --------------------------------- *)

(* "calls name defined functions with no more arguments than parameters",
   plus the name-clash rules of the resolver: a function is defined once, a
   global variable is not also a function, a parameter is not called. *)
Definition global_ok (P : program) (cur v : name) : bool :=
  (negb (is_empty cur) && mem v (params_of P cur)) || special v || negb (is_func P v).

(* argument i of a call of f exists as a parameter (always so after a call head
   that passed the arity check; [flat_event] numbers the arguments from 0) *)
Definition arg_ok (P : program) (f : name) (i : nat) : bool :=
  match func_info P f with
  | None => false
  | Some fi => fi_native fi || match nth_error (fi_params fi) i with Some _ => true | None => false end
  end.

Definition wf_step (P : program) (cur : name) (st : step) : bool :=
  match st with
  | SUse v _ => global_ok P cur v
  | SCallHead f nargs =>
      negb (negb (is_empty cur) && mem f (params_of P cur)) &&
      match func_info P f with
      | None => false
      | Some fi =>
          if fi_native fi then
            match find_native (p_natives P) f with
            | None => false
            | Some nt => n_func nt && negb ((if n_variadic nt then 1000000000 else n_in nt) <? nargs)
            end
          else negb (zlen (fi_params fi) <? nargs)
      end
  | SArgExpr f i => arg_ok P f i
  | SArgVar f i v => arg_ok P f i && global_ok P cur v
  end.

Definition wf (P : program) : bool :=
  match first_dup [] (fnames P) with Some _ => false | None => true end
  && forallb (fun fd => negb (is_empty (f_name fd))) (p_funcs P)
  && negb (is_func P n_ARGV) && negb (is_func P n_ENVIRON) && negb (is_func P n_FIELDS)
  && forallb (fun fd => forallb (wf_step P (f_name fd)) (flat_events (f_body fd))) (p_funcs P)
  && forallb (wf_step P []) (flat_events (p_main P)).

Definition is_type_error (e : rerr) : bool :=
  match e with EUse _ _ _ | EPassVar _ _ _ | EPassExpr => true | _ => false end.
