(* C05: the AWK value model of interp/value.go and the twelve comparison sites
   of interp/vm.go.  Definitions only.  Each function mirrors the Go function
   named in the comment above it; an index i into a Go string is the suffix
   s[i:] here (a [for i < len(s) && p(s[i])] loop is a [span]).

   strconv.ParseFloat is modelled in two layers: its *syntax* (special,
   readFloat, underscoreOK, "whole string consumed") byte by byte, yielding a
   descriptor, and its *value*, the documented contract "nearest double,
   round-half-even, +-Inf with ErrRange on overflow" computed exactly on
   integers ([desc_value]).  strconv.FormatFloat(x,'g',P,64) likewise: exact
   decimal expansion of the dyadic, round-half-even to P digits, %e/%f layout
   of strconv/ftoa.go. *)
From Verif Require Import Lib.Base Lib.Dyadic Lib.Utf8.

(* ------------------------------------------------------------------ *)
(* character classes                                                   *)
(* ------------------------------------------------------------------ *)

(* value.go isDigit / isHexDigit / asciiSpace *)
Definition is_digit (c : Z) : bool := (48 <=? c) && (c <=? 57).
Definition is_hex_digit (c : Z) : bool :=
  is_digit c || ((97 <=? c) && (c <=? 102)) || ((65 <=? c) && (c <=? 70)).
Definition ascii_space (c : Z) : bool :=
  (c =? 9) || (c =? 10) || (c =? 11) || (c =? 12) || (c =? 13) || (c =? 32).
Definition is_sign (c : Z) : bool := (c =? 43) || (c =? 45).

(* strconv lower(c) = c | ('x' - 'X'): set bit 5 *)
Definition lower (c : Z) : Z := if Z.testbit c 5 then c else c + 32.
Definition is_hex_letter (c : Z) : bool := (97 <=? lower c) && (lower c <=? 102).

Fixpoint span (p : Z -> bool) (s : bytes) : bytes * bytes :=
  match s with
  | c :: t => if p c then let '(a, b) := span p t in (c :: a, b) else ([], s)
  | [] => ([], [])
  end.

Definition is_nil {A} (l : list A) : bool := match l with [] => true | _ => false end.

Fixpoint contains (x : Z) (s : bytes) : bool :=
  match s with [] => false | c :: t => (c =? x) || contains x t end.

(* value.go hasHexPrefix / hasNaNPrefix / hasInfPrefix (callers guarantee the length) *)
Definition has_hex_prefix (s : bytes) : bool :=
  match s with
  | a :: b :: _ => (a =? 48) && ((b =? 120) || (b =? 88))
  | _ => false
  end.
Definition has_nan_prefix (s : bytes) : bool :=
  match s with
  | a :: b :: c :: _ =>
      ((a =? 110) || (a =? 78)) && ((b =? 97) || (b =? 65)) && ((c =? 110) || (c =? 78))
  | _ => false
  end.
Definition has_inf_prefix (s : bytes) : bool :=
  match s with
  | a :: b :: c :: _ =>
      ((a =? 105) || (a =? 73)) && ((b =? 110) || (b =? 78)) && ((c =? 102) || (c =? 70))
  | _ => false
  end.

(* optional sign at the head *)
Definition opt_sign (s : bytes) : bytes * bytes :=
  match s with
  | c :: t => if is_sign c then ([c], t) else ([], s)
  | [] => ([], [])
  end.
Definition opt_dot (s : bytes) : bytes * bytes :=
  match s with
  | c :: t => if c =? 46 then ([c], t) else ([], s)
  | [] => ([], [])
  end.

(* ------------------------------------------------------------------ *)
(* decimal digits of integers                                          *)
(* ------------------------------------------------------------------ *)

(* least significant digit first *)
Fixpoint digs_rev (fuel : nat) (n : Z) : list Z :=
  match fuel with
  | O => []
  | S f => if n <? 10 then [n] else (n mod 10) :: digs_rev f (n / 10)
  end.

(* digits of n >= 0, most significant first, [0] for 0 *)
Definition ndigits (n : Z) : list Z := rev (digs_rev (S (Z.to_nat (Z.log2 n))) n).

Definition digit_chars (d : list Z) : bytes := map (fun x => 48 + x) d.

(* strconv.FormatInt(z, 10) *)
Definition format_int (z : Z) : bytes :=
  if z <? 0 then 45 :: digit_chars (ndigits (- z)) else digit_chars (ndigits z).

(* value of a digit list in a base, most significant first *)
Definition digits_value (base : Z) (d : list Z) : Z := fold_left (fun a x => a * base + x) d 0.

(* ------------------------------------------------------------------ *)
(* strconv.ParseFloat: value of a descriptor                           *)
(* ------------------------------------------------------------------ *)

(* What readFloat/special extract from a well-formed text.  [DNum neg hex digs dp e]:
   significant digits (leading zeros skipped, most significant first), position of the
   point counted in digits from the first significant digit, and the signed exponent
   (power of ten, or of two for hex); the number denoted is
     0.d1d2...dn * B^dp * X^e,  (B,X) = (10,10) or (16,2). *)
Inductive desc : Type :=
| DNaN
| DInf (neg : bool)
| DNum (neg hex : bool) (digs : list Z) (dp e : Z).

(* nearest double (ties to even) of the positive rational num/den; the flag is
   strconv's ErrRange (rounded value beyond the largest double).  One division at a
   fine exponent e0 (quotient in (2^52, 2^54)), then the usual shift with a sticky
   remainder to the final exponent (one more for a 54-bit quotient; -1074 for
   subnormals). *)
Definition round_pos (num den : Z) : fnum * bool :=
  let e0 := Z.log2 num - Z.log2 den - 53 in
  (* num/den / 2^e0 = mant0 + (r2/2)/d0,  0 <= r2/2 < d0 *)
  let '(mant0, r2, d0) :=
    if 0 <=? e0 then
      (if den =? 1 then
         let q := Z.shiftr num e0 in (q, 2 * (num - Z.shiftl q e0), Z.shiftl 1 e0)
       else let d := Z.shiftl den e0 in (num / d, 2 * (num mod d), d))
    else let n := Z.shiftl num (- e0) in (n / den, 2 * (n mod den), den) in
  let e1 := if two53 <=? mant0 then e0 + 1 else e0 in
  let e := Z.max e1 (-1074) in
  let sh := e - e0 in
  let mant := Z.shiftr mant0 sh in
  let low := mant0 - Z.shiftl mant sh in
  let cmp_half :=
    if sh =? 0 then Z.compare r2 d0
    else match Z.compare low (Z.shiftl 1 (sh - 1)) with
         | Eq => if r2 =? 0 then Eq else Gt
         | c => c
         end in
  let up := match cmp_half with Gt => true | Eq => Z.odd mant | Lt => false end in
  let mant' := if up then mant + 1 else mant in
  if mant' =? 0 then (FFin 0 0, false)
  else if 1024 <? e + Z.log2 mant' + 1 then (FInf false, true)
  else (FFin mant' e, false).

Definition desc_value (d : desc) : fnum * bool :=
  match d with
  | DNaN => (FNaN, false)
  | DInf n => (FInf n, false)
  | DNum neg hex digs dp e =>
      let nd := zlen digs in
      let M := digits_value (if hex then 16 else 10) digs in
      if M =? 0 then (FFin 0 0, false)
      else
        let '(v, r) :=
          if hex then
            let X := 4 * (dp - nd) + e in
            let bl := Z.log2 M + 1 in
            if 1100 <? X + bl then (FInf false, true)
            else if X + bl <? -1100 then (FFin 0 0, false)
            else if 0 <=? X then round_pos (M * 2 ^ X) 1 else round_pos M (2 ^ (- X))
          else
            let E := dp - nd + e in
            if 400 <? E then (FInf false, true)
            else if nd + E <? -400 then (FFin 0 0, false)
            else if 0 <=? E then round_pos (M * 10 ^ E) 1 else round_pos M (10 ^ (- E)) in
        (if neg then fneg v else v, r)
  end.

(* ------------------------------------------------------------------ *)
(* strconv.ParseFloat: syntax                                          *)
(* ------------------------------------------------------------------ *)

(* atof.go commonPrefixLenIgnoreCase (prefix is lower case) *)
Fixpoint common_prefix_len_ic (s prefix : bytes) : Z :=
  match s, prefix with
  | c :: s', p :: p' =>
      let c' := if (65 <=? c) && (c <=? 90) then c + 32 else c in
      if c' =? p then 1 + common_prefix_len_ic s' p' else 0
  | _, _ => 0
  end.

Definition str_infinity : bytes := [105; 110; 102; 105; 110; 105; 116; 121].
Definition str_nan : bytes := [110; 97; 110].

(* the 'i','I' case of special (also reached by fallthrough after a sign) *)
Definition special_inf (neg : bool) (nsign : Z) (s : bytes) : option (desc * Z) :=
  let n := common_prefix_len_ic s str_infinity in
  let n := if (3 <? n) && (n <? 8) then 3 else n in
  if (n =? 3) || (n =? 8) then Some (DInf neg, nsign + n) else None.

(* atof.go special: (value, bytes consumed) *)
Definition special (s : bytes) : option (desc * Z) :=
  match s with
  | [] => None
  | c :: t =>
      if is_sign c then special_inf (c =? 45) 1 t
      else if (c =? 105) || (c =? 73) then special_inf false 0 s
      else if (c =? 110) || (c =? 78) then
        (if common_prefix_len_ic s str_nan =? 3 then Some (DNaN, 3) else None)
      else None
  end.

(* the mantissa loop of readFloat.  State: sawdot sawdigits underscores nd dp and the
   significant digits seen so far (most recent first).  Returns the state and the
   unconsumed suffix. *)
Fixpoint rf_loop (hex : bool) (s : bytes) (sawdot sawdigits und : bool) (nd dp : Z) (rdigs : list Z)
  : (bool * bool * bool * Z * Z * list Z) * bytes :=
  match s with
  | [] => ((sawdot, sawdigits, und, nd, dp, rdigs), [])
  | c :: t =>
      if c =? 95 then rf_loop hex t sawdot sawdigits true nd dp rdigs
      else if c =? 46 then
        (if sawdot then ((sawdot, sawdigits, und, nd, dp, rdigs), s)
         else rf_loop hex t true sawdigits und nd nd rdigs)
      else if is_digit c then
        (if (c =? 48) && (nd =? 0) then rf_loop hex t sawdot true und nd (dp - 1) rdigs
         else rf_loop hex t sawdot true und (nd + 1) dp ((c - 48) :: rdigs))
      else if hex && is_hex_letter c then
        rf_loop hex t sawdot true und (nd + 1) dp ((lower c - 97 + 10) :: rdigs)
      else ((sawdot, sawdigits, und, nd, dp, rdigs), s)
  end.

(* exponent digits: e saturates once it reaches 10000 *)
Fixpoint rf_exp_digits (s : bytes) (e : Z) (und : bool) : Z * bool * bytes :=
  match s with
  | c :: t =>
      if c =? 95 then rf_exp_digits t e true
      else if is_digit c then rf_exp_digits t (if e <? 10000 then e * 10 + (c - 48) else e) und
      else (e, und, s)
  | [] => (e, und, [])
  end.

(* atoi.go underscoreOK *)
Fixpoint uok_loop (hex : bool) (s : bytes) (saw : Z) : bool :=
  match s with
  | [] => negb (saw =? 95)
  | c :: t =>
      if is_digit c || (hex && is_hex_letter c) then uok_loop hex t 48
      else if c =? 95 then (if saw =? 48 then uok_loop hex t 95 else false)
      else if saw =? 95 then false
      else uok_loop hex t 33
  end.

Definition underscore_ok (s : bytes) : bool :=
  let s := match s with c :: t => if is_sign c then t else s | [] => s end in
  match s with
  | a :: b :: t =>
      if (a =? 48) && ((lower b =? 98) || (lower b =? 111) || (lower b =? 120))
      then uok_loop (lower b =? 120) t 48
      else uok_loop false s 94
  | _ => uok_loop false s 94
  end.

(* atof.go readFloat: descriptor, unconsumed suffix; None = !ok *)
Definition read_float (s : bytes) : option (desc * bytes) :=
  match s with
  | [] => None
  | c0 :: t0 =>
      let neg := c0 =? 45 in
      let u := if (c0 =? 43) || (c0 =? 45) then t0 else s in
      let '(hex, body) :=
        match u with
        | a :: b :: ((_ :: _) as r) => if (a =? 48) && (lower b =? 120) then (true, r) else (false, u)
        | _ => (false, u)
        end in
      let '((sawdot, sawdigits, und, nd, dp, rdigs), rest) := rf_loop hex body false false false 0 0 [] in
      if negb sawdigits then None
      else
        let dp := if sawdot then dp else nd in
        let exp_char := if hex then 112 else 101 in
        let finish (e : Z) (und : bool) (rest : bytes) :=
          let consumed := ztake (zlen s - zlen rest) s in
          if und && negb (underscore_ok consumed) then None
          else Some (DNum neg hex (rev rdigs) dp e, rest) in
        match rest with
        | c :: r1 =>
            if lower c =? exp_char then
              match r1 with
              | [] => None
              | c1 :: r2 =>
                  let esign := if c1 =? 45 then -1 else 1 in
                  let r3 := if (c1 =? 43) || (c1 =? 45) then r2 else r1 in
                  match r3 with
                  | [] => None
                  | c2 :: _ =>
                      if is_digit c2 then
                        let '(e, und', r4) := rf_exp_digits r3 0 und in
                        finish (e * esign) und' r4
                      else None
                  end
              end
            else if hex then None
            else finish 0 und rest
        | [] => if hex then None else finish 0 und []
        end
  end.

(* atof64 + ParseFloat's "n != len(s) => syntax error": None = ErrSyntax *)
Definition go_parse_desc (s : bytes) : option desc :=
  match special s with
  | Some (d, n) => if n =? zlen s then Some d else None
  | None =>
      match read_float s with
      | Some (d, rest) => if is_nil rest then Some d else None
      | None => None
      end
  end.

(* strconv.ParseFloat(s, 64) *)
Inductive gpf : Type :=
| GSyntax
| GVal (v : fnum) (range : bool).

Definition go_parse_float (s : bytes) : gpf :=
  match go_parse_desc s with
  | None => GSyntax
  | Some d => let '(v, r) := desc_value d in GVal v r
  end.

(* ------------------------------------------------------------------ *)
(* value.go trimASCIISpace                                             *)
(* ------------------------------------------------------------------ *)

(* the leading blanks of the asciiSpace table are dropped, then the trailing ones of what is
   left (the second loop of the Go code cannot move below [start]) *)
Definition ascii_trim (s : bytes) : bytes :=
  rev (snd (span ascii_space (rev (snd (span ascii_space s))))).

(* ------------------------------------------------------------------ *)
(* value.go parseFloat                                                 *)
(* ------------------------------------------------------------------ *)

Inductive pfres : Type :=
| PFOk (v : fnum)            (* err == nil *)
| PFErrSyntax                (* *NumError{ErrSyntax} from strconv *)
| PFErrUnderscore.           (* goawk's own strconv.ErrSyntax *)

Definition str_p0 : bytes := [112; 48].

(* the text parseFloat hands to strconv.ParseFloat, or None on the "+nan"/"-nan" shortcut *)
Definition parse_float_text (s : bytes) : option bytes :=
  let s := ascii_trim s in
  let nop := negb (contains 112 s) && negb (contains 80 s) in
  match s with
  | c :: t =>
      if (1 <? zlen s) && is_sign c then
        if (zlen s =? 4) && has_nan_prefix t then None
        else if (3 <? zlen s) && has_hex_prefix t && nop then Some (s ++ str_p0)
        else Some s
      else if (2 <? zlen s) && has_hex_prefix s && nop then Some (s ++ str_p0)
      else Some s
  | [] => Some s
  end.

Definition parse_float (s : bytes) : pfres :=
  match parse_float_text s with
  | None => PFOk FNaN
  | Some s' =>
      match go_parse_float s' with
      | GSyntax => PFErrSyntax
      | GVal v _ =>                 (* ErrRange is accepted: v is +-Inf *)
          if contains 95 s' then PFErrUnderscore else PFOk v
      end
  end.

(* ------------------------------------------------------------------ *)
(* value.go parseFloatPrefix / parseHexFloatPrefix                     *)
(* ------------------------------------------------------------------ *)

(* what the scanner decides: an immediate result, or the text s[start:end] it hands to
   strconv.ParseFloat ([patch]: "p0" is appended first) *)
Inductive pscan : Type :=
| PSNaN
| PSInf (neg : bool)
| PSZero
| PSNum (start : Z) (consumed : bytes) (patch : bool)
| PSPanic.

(* the exponent part shared by both scanners: text consumed ("" unless a digit follows) *)
Definition scan_exp (lo up : Z) (r : bytes) : bytes :=
  match r with
  | c :: r4 =>
      if (c =? lo) || (c =? up) then
        let '(es, r5) := opt_sign r4 in
        let '(ed, _) := span is_digit r5 in
        if is_nil ed then [] else c :: es ++ ed
      else []
  | [] => []
  end.

(* parseHexFloatPrefix(s, start, i) with i just after "0x": [sg] the sign, [pre] the two prefix bytes *)
Definition scan_hex (start : Z) (sg pre r : bytes) : pscan :=
  let '(d1, r1) := span is_hex_digit r in
  let '(dot, r2) := opt_dot r1 in
  let '(d2, r3) := span is_hex_digit r2 in
  if is_nil d1 && is_nil d2 then PSZero
  else
    let ex := scan_exp 112 80 r3 in
    PSNum start (sg ++ pre ++ d1 ++ dot ++ d2 ++ ex) (is_nil ex).

Definition scan_prefix (s : bytes) : pscan :=
  let '(ws, t) := span ascii_space s in
  let start := zlen ws in
  let '(sg, u) := opt_sign t in
  if (3 <=? zlen u) && has_nan_prefix u then PSNaN
  else if (3 <=? zlen u) && has_inf_prefix u then
    match t with                         (* s[start] == '-' *)
    | c :: _ => PSInf (c =? 45)
    | [] => PSPanic
    end
  else if (2 <? zlen u) && has_hex_prefix u then scan_hex start sg (ztake 2 u) (zdrop 2 u)
  else
    let '(d1, r1) := span is_digit u in
    let '(dot, r2) := opt_dot r1 in
    let '(d2, r3) := span is_digit r2 in
    if is_nil d1 && is_nil d2 then PSZero
    else PSNum start (sg ++ d1 ++ dot ++ d2 ++ scan_exp 101 69 r3) false.

(* the text handed to strconv.ParseFloat *)
Definition scan_text (consumed : bytes) (patch : bool) : bytes :=
  if patch then consumed ++ str_p0 else consumed.

Definition parse_float_prefix (s : bytes) : res fnum :=
  match scan_prefix s with
  | PSNaN => Ok FNaN
  | PSInf n => Ok (FInf n)
  | PSZero => Ok (FFin 0 0)
  | PSNum _ txt patch =>
      match go_parse_float (scan_text txt patch) with
      | GSyntax => Ok (FFin 0 0)         (* f, _ := ParseFloat: f = 0 on a syntax error *)
      | GVal v _ => Ok v                 (* +-Inf on ErrRange *)
      end
  | PSPanic => Panic
  end.

(* ------------------------------------------------------------------ *)
(* number to string                                                    *)
(* ------------------------------------------------------------------ *)

Definition strip_trailing_zeros (d : list Z) : list Z :=
  rev (snd (span (fun x => x =? 0) (rev d))).

(* floor and doubled remainder of m * 2^e * 10^t  (m > 0):  (q, 2*rem, den) with
   m * 2^e * 10^t = q + rem/den, 0 <= rem < den.  Powers of two are shifts. *)
Definition scaled (m e t : Z) : Z * Z * Z :=
  if 0 <=? e then
    let A := Z.shiftl m e in
    if 0 <=? t then (A * 10 ^ t, 0, 1)
    else let B := 10 ^ (- t) in (A / B, 2 * (A mod B), B)
  else
    let k := - e in
    if 0 <=? t then
      let X := m * 10 ^ t in
      let q := Z.shiftr X k in
      (q, 2 * (X - Z.shiftl q k), Z.shiftl 1 k)
    else let B := Z.shiftl (10 ^ (- t)) k in (m / B, 2 * (m mod B), B).

(* floor(log10 (m*2^e)) + 1 up to +-1, from the binary logarithm; corrected in [round_sig] *)
Definition dp_estimate (m e : Z) : Z := ((Z.log2 m + e) * 30103) / 100000 + 1.

(* |x| = m * 2^e, m > 0, rounded half-even to P >= 1 significant decimal digits:
   (digits without trailing zeros, dp) with |x| ~ 0.d1d2.. * 10^dp   (strconv decimalSlice) *)
Definition round_sig (m e P : Z) : list Z * Z :=
  let dp0 := dp_estimate m e in
  let s0 := scaled m e (P - dp0) in
  let q0 := fst (fst s0) in
  let dp := if q0 <? 10 ^ (P - 1) then dp0 - 1 else if 10 ^ P <=? q0 then dp0 + 1 else dp0 in
  let '(q, r2, den) := if dp =? dp0 then s0 else scaled m e (P - dp) in
  let up := (den <? r2) || ((den =? r2) && Z.odd q) in
  let D := ndigits (if up then q + 1 else q) in
  (strip_trailing_zeros D, dp + (zlen D - P)).

Definition digit_at (D : list Z) (j : Z) : Z :=
  if (0 <=? j) && (j <? zlen D) then nth (Z.to_nat j) D 0 else 0.

Definition zrange (n : Z) : list Z := map Z.of_nat (seq 0 (Z.to_nat n)).

(* ftoa.go fmtE with prec = nd - 1 (the %g caller), exponent at least two digits *)
Definition fmt_e (D : list Z) (dp : Z) : bytes :=
  let ex := dp - 1 in
  let first := match D with d :: _ => [48 + d] | [] => [48] end in
  let more := match D with _ :: (_ :: _) as t => 46 :: digit_chars t | _ => [] end in
  let ax := Z.abs ex in
  let exd := if ax <? 10 then [48; 48 + ax] else digit_chars (ndigits ax) in
  first ++ more ++ [101; if ex <? 0 then 45 else 43] ++ exd.

(* ftoa.go fmtF *)
Definition fmt_f (D : list Z) (dp prec : Z) : bytes :=
  let ip := if 0 <? dp then digit_chars (map (digit_at D) (zrange dp)) else [48] in
  let fp := if 0 <? prec then 46 :: digit_chars (map (fun i => digit_at D (dp + i)) (zrange prec)) else [] in
  ip ++ fp.

(* strconv.FormatFloat(x, 'g', P, 64) for finite x *)
Definition fmt_g (P : Z) (m e : Z) : bytes :=
  if m =? 0 then [48]
  else
    let P := if P =? 0 then 1 else P in
    let '(D, dp) := round_sig (Z.abs m) e P in
    let nd := zlen D in
    let eprec := if (nd <? P) && (dp <=? nd) then nd else P in
    let ex := dp - 1 in
    let body :=
      if (ex <? -4) || (eprec <=? ex) then fmt_e D dp
      else fmt_f D dp (Z.max ((if dp <? P then nd else P) - dp) 0) in
    if m <? 0 then 45 :: body else body.

Definition str_fmt6g : bytes := [37; 46; 54; 103].

(* the formats the model evaluates: "%.<digits>g" (at most 3 digits) *)
Definition parse_g_format (f : bytes) : option Z :=
  match f with
  | c1 :: c2 :: rest =>
      if (c1 =? 37) && (c2 =? 46) then
        let '(ds, r) := span is_digit rest in
        match r with
        | [c] => if (c =? 103) && (zlen ds <=? 3) then Some (digits_value 10 (map (fun x => x - 48) ds)) else None
        | _ => None
        end
      else None
  | _ => None
  end.

(* the default: branch of value.str: FormatFloat for "%.6g", fmt.Sprintf otherwise *)
Definition format_float (fmt : bytes) (m e : Z) : res bytes :=
  if bytes_eqb fmt str_fmt6g then Ok (fmt_g 6 m e)
  else match parse_g_format fmt with
       | Some P => Ok (fmt_g P m e)
       | None => Unmod
       end.

(* ------------------------------------------------------------------ *)
(* the value type and its conversions                                  *)
(* ------------------------------------------------------------------ *)

Inductive value : Type :=
| VNull
| VStr (s : bytes)
| VNum (n : fnum)
| VNumStr (s : bytes).

Definition fzero : fnum := FFin 0 0.
Definition fone : fnum := FFin 1 0.

(* value.go boolean(b) *)
Definition boolean (b : bool) : value := VNum (if b then fone else fzero).

(* value.go isTrueStr *)
Definition is_true_str (v : value) : fnum * bool :=
  match v with
  | VStr _ => (fzero, true)
  | VNumStr s =>
      match parse_float s with
      | PFOk f => (f, false)
      | _ => (fzero, true)
      end
  | VNum n => (n, false)
  | VNull => (fzero, false)
  end.

(* f != 0 *)
Definition fnonzero (f : fnum) : bool := negb (feq f fzero).

(* value.go (v value) boolean() *)
Definition v_boolean (v : value) : bool :=
  match v with
  | VStr s => negb (is_nil s)
  | VNumStr s =>
      match parse_float s with
      | PFOk f => fnonzero f
      | _ => negb (is_nil s)
      end
  | VNum n => fnonzero n
  | VNull => false
  end.

(* v.n == float64(int64(v.n)); int64(x) is the amd64 conversion, and converting that
   integer back is exact for every double x *)
Definition int_path (x : fnum) : bool := feq x (FFin (f2i64 x) 0).

(* value.go (v value) str(floatFormat) *)
Definition num_to_str (fmt : bytes) (x : fnum) : res bytes :=
  match x with
  | FNaN => Ok [110; 97; 110]
  | FInf true => Ok [45; 105; 110; 102]
  | FInf false => Ok [105; 110; 102]
  | FFin m e => if int_path x then Ok (format_int (f2i64 x)) else format_float fmt m e
  end.

Definition v_str (fmt : bytes) (v : value) : res bytes :=
  match v with
  | VNum x => num_to_str fmt x
  | VStr s => Ok s
  | VNumStr s => Ok s
  | VNull => Ok []
  end.

(* value.go (v value) num() *)
Definition v_num (v : value) : res fnum :=
  match v with
  | VStr s => parse_float_prefix s
  | VNumStr s => parse_float_prefix s
  | VNum n => Ok n
  | VNull => Ok fzero
  end.

(* where a string enters the program: the tag it gets (interp.go getField / setVarByName /
   ARGV / ENVIRON setup, functions.go split, the Getline opcodes of vm.go) *)
Inductive provenance : Type :=
| PConst | PComputed | PField | PGetline | PSplit | PArgv | PEnviron | PVar.

Definition prov_value (p : provenance) (s : bytes) : value :=
  match p with
  | PConst | PComputed => VStr s
  | _ => VNumStr s
  end.

(* ------------------------------------------------------------------ *)
(* comparisons                                                         *)
(* ------------------------------------------------------------------ *)

(* Go's string comparison: bytewise lexicographic, a proper prefix is smaller *)
Fixpoint bytes_cmp (a b : bytes) : comparison :=
  match a, b with
  | [], [] => Eq
  | [], _ :: _ => Lt
  | _ :: _, [] => Gt
  | x :: a', y :: b' =>
      match Z.compare x y with
      | Eq => bytes_cmp a' b'
      | c => c
      end
  end.

Definition s_eq (a b : bytes) : bool := match bytes_cmp a b with Eq => true | _ => false end.
Definition s_lt (a b : bytes) : bool := match bytes_cmp a b with Lt => true | _ => false end.
Definition s_gt (a b : bytes) : bool := match bytes_cmp a b with Gt => true | _ => false end.
Definition s_ne (a b : bytes) : bool := negb (s_eq a b).
Definition s_le (a b : bytes) : bool := negb (s_gt a b).
Definition s_ge (a b : bytes) : bool := negb (s_lt a b).

(* Go's float64 comparisons (IEEE: every ordered comparison with NaN is false, != is true) *)
Definition f_eq (x y : fnum) : bool := feq x y.
Definition f_ne (x y : fnum) : bool := negb (feq x y).
Definition f_lt (x y : fnum) : bool := flt x y.
Definition f_gt (x y : fnum) : bool := flt y x.
Definition f_le (x y : fnum) : bool := flt x y || feq x y.
Definition f_ge (x y : fnum) : bool := flt y x || feq x y.

Definition to_string (cf : bytes) (v : value) : res bytes := v_str cf v.

(* vm.go, the six expression opcodes: the result pushed *)
Definition site_Equals (cf : bytes) (l r : value) : res value :=
  let '(ln, lIsStr) := is_true_str l in
  let '(rn, rIsStr) := is_true_str r in
  if lIsStr || rIsStr then
    do sl <- to_string cf l; do sr <- to_string cf r; Ok (boolean (s_eq sl sr))
  else Ok (boolean (f_eq ln rn)).

Definition site_NotEquals (cf : bytes) (l r : value) : res value :=
  let '(ln, lIsStr) := is_true_str l in
  let '(rn, rIsStr) := is_true_str r in
  if lIsStr || rIsStr then
    do sl <- to_string cf l; do sr <- to_string cf r; Ok (boolean (s_ne sl sr))
  else Ok (boolean (f_ne ln rn)).

Definition site_Less (cf : bytes) (l r : value) : res value :=
  let '(ln, lIsStr) := is_true_str l in
  let '(rn, rIsStr) := is_true_str r in
  if lIsStr || rIsStr then
    do sl <- to_string cf l; do sr <- to_string cf r; Ok (boolean (s_lt sl sr))
  else Ok (boolean (f_lt ln rn)).

Definition site_Greater (cf : bytes) (l r : value) : res value :=
  let '(ln, lIsStr) := is_true_str l in
  let '(rn, rIsStr) := is_true_str r in
  if lIsStr || rIsStr then
    do sl <- to_string cf l; do sr <- to_string cf r; Ok (boolean (s_gt sl sr))
  else Ok (boolean (f_gt ln rn)).

Definition site_LessOrEqual (cf : bytes) (l r : value) : res value :=
  let '(ln, lIsStr) := is_true_str l in
  let '(rn, rIsStr) := is_true_str r in
  if lIsStr || rIsStr then
    do sl <- to_string cf l; do sr <- to_string cf r; Ok (boolean (s_le sl sr))
  else Ok (boolean (f_le ln rn)).

Definition site_GreaterOrEqual (cf : bytes) (l r : value) : res value :=
  let '(ln, lIsStr) := is_true_str l in
  let '(rn, rIsStr) := is_true_str r in
  if lIsStr || rIsStr then
    do sl <- to_string cf l; do sr <- to_string cf r; Ok (boolean (s_ge sl sr))
  else Ok (boolean (f_ge ln rn)).

(* vm.go, the six fused jump opcodes: whether the jump is taken *)
Definition site_JumpEquals (cf : bytes) (l r : value) : res bool :=
  let '(ln, lIsStr) := is_true_str l in
  let '(rn, rIsStr) := is_true_str r in
  if lIsStr || rIsStr then
    do sl <- to_string cf l; do sr <- to_string cf r; Ok (s_eq sl sr)
  else Ok (f_eq ln rn).

Definition site_JumpNotEquals (cf : bytes) (l r : value) : res bool :=
  let '(ln, lIsStr) := is_true_str l in
  let '(rn, rIsStr) := is_true_str r in
  if lIsStr || rIsStr then
    do sl <- to_string cf l; do sr <- to_string cf r; Ok (s_ne sl sr)
  else Ok (f_ne ln rn).

Definition site_JumpLess (cf : bytes) (l r : value) : res bool :=
  let '(ln, lIsStr) := is_true_str l in
  let '(rn, rIsStr) := is_true_str r in
  if lIsStr || rIsStr then
    do sl <- to_string cf l; do sr <- to_string cf r; Ok (s_lt sl sr)
  else Ok (f_lt ln rn).

Definition site_JumpGreater (cf : bytes) (l r : value) : res bool :=
  let '(ln, lIsStr) := is_true_str l in
  let '(rn, rIsStr) := is_true_str r in
  if lIsStr || rIsStr then
    do sl <- to_string cf l; do sr <- to_string cf r; Ok (s_gt sl sr)
  else Ok (f_gt ln rn).

Definition site_JumpLessOrEqual (cf : bytes) (l r : value) : res bool :=
  let '(ln, lIsStr) := is_true_str l in
  let '(rn, rIsStr) := is_true_str r in
  if lIsStr || rIsStr then
    do sl <- to_string cf l; do sr <- to_string cf r; Ok (s_le sl sr)
  else Ok (f_le ln rn).

Definition site_JumpGreaterOrEqual (cf : bytes) (l r : value) : res bool :=
  let '(ln, lIsStr) := is_true_str l in
  let '(rn, rIsStr) := is_true_str r in
  if lIsStr || rIsStr then
    do sl <- to_string cf l; do sr <- to_string cf r; Ok (s_ge sl sr)
  else Ok (f_ge ln rn).

(* ------------------------------------------------------------------ *)
(* the specification the twelve sites are compared with                *)
(* ------------------------------------------------------------------ *)

Inductive cmpop : Type := OEq | ONe | OLt | OGt | OLe | OGe.

Definition expr_site (op : cmpop) : bytes -> value -> value -> res value :=
  match op with
  | OEq => site_Equals | ONe => site_NotEquals | OLt => site_Less
  | OGt => site_Greater | OLe => site_LessOrEqual | OGe => site_GreaterOrEqual
  end.

Definition jump_site (op : cmpop) : bytes -> value -> value -> res bool :=
  match op with
  | OEq => site_JumpEquals | ONe => site_JumpNotEquals | OLt => site_JumpLess
  | OGt => site_JumpGreater | OLe => site_JumpLessOrEqual | OGe => site_JumpGreaterOrEqual
  end.

(* internal/compiler/compiler.go condition(expr, invert): what runs when a comparison is a
   condition; the result here is whether the guarded code is entered.
   Direct position (the bottom test of while / do-while / for): the fused jump of the operator.
   Inverted position (if, ?:, the top test of while / for): == and != use the fused jump of
   the other one and skip the guarded code when it is taken; an ordering comparison is NOT
   fused with its opposite (wrong for NaN): it is evaluated as an expression and tested with
   JumpFalse, i.e. value.boolean of the pushed 0/1. *)
Definition cond_direct (op : cmpop) : bytes -> value -> value -> res bool := jump_site op.

Definition cond_inverted (op : cmpop) (cf : bytes) (l r : value) : res bool :=
  match op with
  | OEq => do b <- site_JumpNotEquals cf l r; Ok (negb b)
  | ONe => do b <- site_JumpEquals cf l r; Ok (negb b)
  | _ => do v <- expr_site op cf l r; Ok (v_boolean v)
  end.

(* a value takes part in a comparison as a number: it is a number, unset, or
   input-derived text that parseFloat accepts *)
Definition numeric_operand (v : value) : option fnum :=
  match v with
  | VNum n => Some n
  | VNull => Some fzero
  | VNumStr s => match parse_float s with PFOk f => Some f | _ => None end
  | VStr _ => None
  end.

Definition num_cmp (op : cmpop) (x y : fnum) : bool :=
  match op with
  | OEq => feq x y | ONe => negb (feq x y) | OLt => flt x y
  | OGt => flt y x | OLe => flt x y || feq x y | OGe => flt y x || feq x y
  end.

Definition str_cmp (op : cmpop) (a b : bytes) : bool :=
  match op, bytes_cmp a b with
  | OEq, Eq => true | OEq, _ => false
  | ONe, Eq => false | ONe, _ => true
  | OLt, Lt => true | OLt, _ => false
  | OGt, Gt => true | OGt, _ => false
  | OLe, Gt => false | OLe, _ => true
  | OGe, Lt => false | OGe, _ => true
  end.

Definition spec_cmp (cf : bytes) (op : cmpop) (l r : value) : res bool :=
  match numeric_operand l, numeric_operand r with
  | Some x, Some y => Ok (num_cmp op x y)
  | _, _ => do sl <- v_str cf l; do sr <- v_str cf r; Ok (str_cmp op sl sr)
  end.
