(* C04 — tokens and expression trees of the goawk parser (parser/parser.go, internal/ast/ast.go).
   Definitions only.  The lexer is not modelled here (property C03): the parser model consumes the
   token list that lexer.Scan produces.  Two pieces of lexer state that the parser consults are
   carried by the tokens themselves:
     - [TLParen sp]: sp = lexer.HadSpace() for that "(" (also decides PeekByte()=='(' after a NAME);
     - [TRegex s]: where the parser calls lexer.ScanRegex after a DIV / DIV_ASSIGN token the harness
       delivers the single pseudo-token TRegex (value = the regex text). *)
From Verif Require Import Lib.Base.

(* built-in function tokens F_ATAN2 .. F_TOUPPER *)
Inductive bfn :=
| FAtan2 | FClose | FCos | FExp | FFflush | FGsub | FIndex | FInt | FLength | FLog | FMatch | FRand
| FSin | FSplit | FSprintf | FSqrt | FSrand | FSub | FSubstr | FSystem | FTolower | FToupper.

Inductive tok :=
| TNewline
| TAdd | TAddAssign | TAnd | TAppend | TAssign | TAt | TColon | TComma | TDecr | TDiv | TDivAssign
| TDollar | TEquals | TGte | TGreater | TIncr | TLBrace | TLBracket | TLess | TLParen (sp : bool)
| TLte | TMatch | TMod | TModAssign | TMul | TMulAssign | TNotMatch | TNot | TNotEquals | TOr | TPipe
| TPow | TPowAssign | TQuestion | TRBrace | TRBracket | TRParen | TSemicolon | TSub | TSubAssign
| TGetline | TIn | TPrint | TPrintf
| TFunc (f : bfn)
| TName (s : bytes) | TNumber (s : bytes) | TString (s : bytes) | TRegex (s : bytes)
| TOther (k : Z).        (* any other keyword token (BEGIN, if, while, ...), by lexer.Token number *)

Inductive binop :=
| BAdd | BSub | BMul | BDiv | BMod | BPow
| BEq | BNe | BLt | BLe | BGt | BGe
| BMatch | BNotMatch | BAnd | BOr | BConcat.

Inductive unop := UNot | UPlus | UMinus.
Inductive incop := IIncr | IDecr.

(* internal/ast: Expr.  Literal values are kept as the token text (NumExpr's float conversion
   belongs to C05); positions are dropped. *)
Inductive expr :=
| ENum (s : bytes)
| EStr (s : bytes)
| EStrRegex (s : bytes)                     (* StrExpr{Regex: true}: /re/ as right operand of ~ or regex argument *)
| ERegex (s : bytes)                        (* RegExpr *)
| EField (i : expr)
| ENamedField (i : expr)
| EVar (name : bytes)
| EIndex (arr : bytes) (idx : list expr)
| EIn (idx : list expr) (arr : bytes)
| EUnary (op : unop) (v : expr)
| EBinary (op : binop) (l r : expr)
| ECond (c t f : expr)
| EAssign (l r : expr)
| EAugAssign (op : binop) (l r : expr)
| EIncr (op : incop) (pre : bool) (e : expr)
| ECall (f : bfn) (args : list expr)
| EUserCall (name : bytes) (args : list expr)
| EMulti (es : list expr)
| EGetline (cmd target file : option expr)
| EGroup (e : expr).

(* ast.IsLValue *)
Definition is_lvalue (e : expr) : bool :=
  match e with EVar _ | EIndex _ _ | EField _ => true | _ => false end.

Definition is_named_field (e : expr) : bool :=
  match e with ENamedField _ => true | _ => false end.

(* remove every GroupingExpr node *)
Fixpoint strip (e : expr) : expr :=
  match e with
  | ENum _ | EStr _ | EStrRegex _ | ERegex _ | EVar _ => e
  | EField i => EField (strip i)
  | ENamedField i => ENamedField (strip i)
  | EIndex a idx => EIndex a (map strip idx)
  | EIn idx a => EIn (map strip idx) a
  | EUnary op v => EUnary op (strip v)
  | EBinary op l r => EBinary op (strip l) (strip r)
  | ECond c t f => ECond (strip c) (strip t) (strip f)
  | EAssign l r => EAssign (strip l) (strip r)
  | EAugAssign op l r => EAugAssign op (strip l) (strip r)
  | EIncr op pre x => EIncr op pre (strip x)
  | ECall f args => ECall f (map strip args)
  | EUserCall n args => EUserCall n (map strip args)
  | EMulti es => EMulti (map strip es)
  | EGetline c t f => EGetline (option_map strip c) (option_map strip t) (option_map strip f)
  | EGroup x => strip x
  end.

(* does a MultiExpr node occur anywhere (parser.checkMultiExprs: every MultiExpr that was created
   and not consumed by print/printf is a syntax error) *)
Fixpoint has_multi (e : expr) : bool :=
  match e with
  | ENum _ | EStr _ | EStrRegex _ | ERegex _ | EVar _ => false
  | EField i | ENamedField i => has_multi i
  | EIndex _ idx | EIn idx _ => existsb has_multi idx
  | EUnary _ v => has_multi v
  | EBinary _ l r | EAssign l r | EAugAssign _ l r => has_multi l || has_multi r
  | ECond c t f => has_multi c || has_multi t || has_multi f
  | EIncr _ _ x => has_multi x
  | ECall _ args | EUserCall _ args => existsb has_multi args
  | EMulti _ => true
  | EGetline c t f =>
      let o x := match x with Some y => has_multi y | None => false end in o c || o t || o f
  | EGroup x => has_multi x
  end.
