(* C01: the primitive operations of the interpreter that both semantics (syntax-tree
   evaluation and the virtual machine) are built from.  Theorems about the compiler
   hold for ANY implementation of this record (they concern control flow, operand
   order, stack discipline and opcode choice); the few equations between primitives
   that the compiler's shortcuts rely on are stated in [prims_ok].  The executable
   instance used for correspondence is Model/PrimsImpl.v. *)
From Verif Require Import Lib.Base Model.Ast.

Set Implicit Arguments.

Section PrimsDef.
  Variables value St err : Type.

  (* result of an operation that may fail with a run-time error *)
  Inductive er (A : Type) : Type := EOk (a : A) | EErr (e : err).
  Arguments EOk {A} a.
  Arguments EErr {A} e.

  Record prims : Type := {
    (* values *)
    p_num : Z -> value;                      (* num(p.nums[i]): constant from its bit pattern *)
    p_str : bytes -> value;
    p_null : value;
    p_of_bool : bool -> value;               (* boolean(b) *)
    p_to_bool : value -> bool;               (* v.boolean() *)
    p_num_pos : value -> bool;               (* v.num() > 0 (AssignFieldSub) *)
    p_neg : value -> value;                  (* num(-v.num()) *)
    p_plus : value -> value;                 (* num(v.num()) *)
    p_arith : arith -> value -> value -> er value;   (* vm.go Add..Modulo *)
    p_aug : arith -> value -> value -> er value;     (* vm.go augAssignOp *)
    p_incr : Z -> value -> value;            (* num(v.num() + float64(amount)) *)
    p_cmp : cmp -> St -> value -> value -> bool;      (* vm.go Equals..GreaterOrEqual *)
    p_cmpj : cmp -> St -> value -> value -> bool;     (* vm.go JumpEquals..JumpGreaterOrEqual *)
    p_concat : St -> value -> value -> value;
    p_concat_multi : St -> list value -> value;
    p_index_multi : St -> list value -> value;
    p_match : St -> value -> value -> St * er bool;    (* dynamic regex match l ~ r *)
    p_regex : St -> bytes -> value;           (* /re/ against $0 *)
    (* fields *)
    p_get_field : St -> value -> St * value;
    p_get_field_int : St -> Z -> St * value;
    p_get_named : St -> value -> St * er value;
    p_get_named_str : St -> bytes -> St * er value;
    p_set_field : St -> value -> value -> St * er unit;      (* index, new value *)
    (* variables *)
    p_get_global : St -> Z -> value;
    p_set_global : St -> Z -> value -> St;
    p_get_special : St -> Z -> St * value;
    p_set_special : St -> Z -> value -> St * er unit;
    (* arrays, addressed by (scope, index) as p.array(scope, index) *)
    p_array_get : St -> scope -> Z -> value -> St * value;
    p_array_set : St -> scope -> Z -> value -> value -> St;
    p_array_in : St -> scope -> Z -> value -> bool;
    p_array_del : St -> scope -> Z -> value -> St;
    p_array_clear : St -> scope -> Z -> St;
    p_array_len : St -> scope -> Z -> value;
    p_array_keys : St -> scope -> Z -> list value;   (* iteration order of this for-in *)
    (* calls *)
    p_builtin_arity : builtin -> nat;               (* values taken from the stack *)
    p_builtin : builtin -> St -> list value -> St * er (list value);   (* args in push order; results in push order *)
    p_split : St -> value -> scope -> Z -> option (value * bool) -> St * er value;
    p_sprintf : St -> list value -> St * er value;
    p_native : St -> Z -> list value -> St * er value;
    p_push_arrays : St -> list (scope * Z) -> Z -> St;       (* CallUser: array arguments, number of array params *)
    p_pop_arrays : St -> St;
    p_err_depth : Z -> err;
    (* I/O *)
    p_print : bool -> St -> redir -> option value -> list value -> St * er unit;
    p_getline : St -> redir -> option value -> St * er (value * option value);  (* result code, line when it is 1 *)
    p_set_line : St -> value -> St;
    p_set_exit : St -> value -> St
  }.

End PrimsDef.

Arguments EOk {err A} a.
Arguments EErr {err A} e.
