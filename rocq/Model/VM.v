(* C01: interp/vm.go execute() over the instruction list, one arm per opcode.
   Stack: list with the top at the head.  A stack underflow, an operand fetch or jump
   that is not an instruction boundary, or a frame index out of range is [VStuck]
   (where Go would panic). *)
From Verif Require Import Lib.Base Model.Ast Model.Instr Model.Compiler Model.Prims Gen.Consts.

Set Implicit Arguments.

Section VM.
  Variables value St err : Type.
  Variable P : prims value St err.

  Record mstate : Type := { ms : St; frame : list value; depth : Z }.
  Definition with_ms (m : mstate) (s : St) : mstate := {| ms := s; frame := frame m; depth := depth m |}.

  (* why execution stopped other than by running off the end *)
  Inductive xabort : Type := XNext | XNextfile | XExit | XError (e : err).

  Inductive vres : Type :=
  | VDone (stk : list value) (m : mstate)
  | VRet (v : value) (stk : list value) (m : mstate)       (* returnValue{v} *)
  | VBrk (stk : list value) (m : mstate)                   (* errBreak *)
  | VAbort (x : xabort) (m : mstate)
  | VStuck
  | VFuel.

  (* result of an instruction that only transforms stack and state *)
  Inductive sres : Type :=
  | SOk (stk : list value) (m : mstate)
  | SErr (e : err) (m : mstate)
  | SStuck.

  Definition lift_unit (stk : list value) (m : mstate) (r : St * er err unit) : sres :=
    match r with
    | (s, EOk _) => SOk stk (with_ms m s)
    | (s, EErr e) => SErr e (with_ms m s)
    end.
  Definition lift_val (stk : list value) (m : mstate) (r : St * er err value) : sres :=
    match r with
    | (s, EOk v) => SOk (v :: stk) (with_ms m s)
    | (s, EErr e) => SErr e (with_ms m s)
    end.

  Fixpoint set_nth (l : list value) (n : nat) (v : value) : option (list value) :=
    match l, n with
    | [], _ => None
    | _ :: t, O => Some (v :: t)
    | x :: t, S n' => match set_nth t n' v with Some t' => Some (x :: t') | None => None end
    end.

  Definition frame_get (m : mstate) (i : Z) : option value :=
    if i <? 0 then None else nth_error (frame m) (Z.to_nat i).
  Definition frame_set (m : mstate) (i : Z) (v : value) : option mstate :=
    if i <? 0 then None else
    match set_nth (frame m) (Z.to_nat i) v with
    | Some f => Some {| ms := ms m; frame := f; depth := depth m |}
    | None => None
    end.

  (* popSlice(n): the n top values in push order (deepest first), and the rest *)
  Fixpoint pop_n (n : nat) (stk : list value) (acc : list value) : option (list value * list value) :=
    match n with
    | O => Some (acc, stk)
    | S n' => match stk with
              | [] => None
              | v :: stk' => pop_n n' stk' (v :: acc)
              end
    end.

  Definition var_read (m : mstate) (sc : scope) (i : Z) : option (mstate * value) :=
    match sc with
    | SGlobal => Some (m, p_get_global P (ms m) i)
    | SLocal => match frame_get m i with Some v => Some (m, v) | None => None end
    | SSpecial => let '(s, v) := p_get_special P (ms m) i in Some (with_ms m s, v)
    end.

  (* assignment to a variable: may fail for specials *)
  Inductive wres : Type := WOk (m : mstate) | WErr (e : err) (m : mstate) | WStuck.
  Definition var_write (m : mstate) (sc : scope) (i : Z) (v : value) : wres :=
    match sc with
    | SGlobal => WOk (with_ms m (p_set_global P (ms m) i v))
    | SLocal => match frame_set m i v with Some m' => WOk m' | None => WStuck end
    | SSpecial => match p_set_special P (ms m) i v with
                  | (s, EOk _) => WOk (with_ms m s)
                  | (s, EErr e) => WErr e (with_ms m s)
                  end
    end.
  Definition lift_w (stk : list value) (w : wres) : sres :=
    match w with WOk m => SOk stk m | WErr e m => SErr e m | WStuck => SStuck end.

  (* getline: read, then store into the target *)
  Definition do_getline (m : mstate) (r : redir) (stk : list value)
    : option (list value * (St * er err (value * option value))) :=
    match r with
    | RNone => Some (stk, p_getline P (ms m) RNone None)
    | _ => match stk with
           | src :: stk' => Some (stk', p_getline P (ms m) r (Some src))
           | [] => None
           end
    end.

  Definition exec_simple (i : instr) (stk : list value) (m : mstate) : sres :=
    match i with
    | INop => SOk stk m
    | INum b => SOk (p_num P b :: stk) m
    | IStr s => SOk (p_str P s :: stk) m
    | IDupe => match stk with v :: _ => SOk (v :: stk) m | _ => SStuck end
    | IDrop => match stk with _ :: t => SOk t m | _ => SStuck end
    | ISwap => match stk with r :: l :: t => SOk (l :: r :: t) m | _ => SStuck end
    | IRote => match stk with v2 :: v1 :: v0 :: t => SOk (v0 :: v2 :: v1 :: t) m | _ => SStuck end
    | IField => match stk with
                | idx :: t => let '(s, v) := p_get_field P (ms m) idx in SOk (v :: t) (with_ms m s)
                | _ => SStuck end
    | IFieldInt n => let '(s, v) := p_get_field_int P (ms m) n in SOk (v :: stk) (with_ms m s)
    | IFieldByName => match stk with
                      | nm :: t => lift_val t m (p_get_named P (ms m) nm)
                      | _ => SStuck end
    | IFieldByNameStr s => lift_val stk m (p_get_named_str P (ms m) s)
    | IGlobal n => SOk (p_get_global P (ms m) n :: stk) m
    | ILocal n => match frame_get m n with Some v => SOk (v :: stk) m | None => SStuck end
    | ISpecial n => let '(s, v) := p_get_special P (ms m) n in SOk (v :: stk) (with_ms m s)
    | IArray sc n => match stk with
                     | idx :: t => let '(s, v) := p_array_get P (ms m) sc n idx in SOk (v :: t) (with_ms m s)
                     | _ => SStuck end
    | IIn sc n => match stk with
                  | idx :: t => SOk (p_of_bool P (p_array_in P (ms m) sc n idx) :: t) m
                  | _ => SStuck end
    | IAssignField => match stk with
                      | idx :: rv :: t => lift_unit t m (p_set_field P (ms m) idx rv)
                      | _ => SStuck end
    | IAssignFieldSub => match stk with
                         | idx :: rv :: n :: t =>
                             if p_num_pos P n then lift_unit (n :: t) m (p_set_field P (ms m) idx rv)
                             else SOk (n :: t) m
                         | _ => SStuck end
    | IAssignGlobal n => match stk with v :: t => lift_w t (var_write m SGlobal n v) | _ => SStuck end
    | IAssignLocal n => match stk with v :: t => lift_w t (var_write m SLocal n v) | _ => SStuck end
    | IAssignSpecial n => match stk with v :: t => lift_w t (var_write m SSpecial n v) | _ => SStuck end
    | IAssignArray sc n => match stk with
                           | idx :: v :: t => SOk t (with_ms m (p_array_set P (ms m) sc n idx v))
                           | _ => SStuck end
    | IDelete sc n => match stk with
                      | idx :: t => SOk t (with_ms m (p_array_del P (ms m) sc n idx))
                      | _ => SStuck end
    | IDeleteAll sc n => SOk stk (with_ms m (p_array_clear P (ms m) sc n))
    | IIncrField amt => match stk with
                        | idx :: t =>
                            let '(s, v) := p_get_field P (ms m) idx in
                            lift_unit t (with_ms m s) (p_set_field P s idx (p_incr P amt v))
                        | _ => SStuck end
    | IIncrGlobal amt n => lift_w stk (var_write m SGlobal n (p_incr P amt (p_get_global P (ms m) n)))
    | IIncrLocal amt n => match frame_get m n with
                          | Some v => lift_w stk (var_write m SLocal n (p_incr P amt v))
                          | None => SStuck end
    | IIncrSpecial amt n => let '(s, v) := p_get_special P (ms m) n in
                            lift_w stk (var_write (with_ms m s) SSpecial n (p_incr P amt v))
    | IIncrArray sc amt n => match stk with
                             | idx :: t =>
                                 let '(s, v) := p_array_get P (ms m) sc n idx in
                                 SOk t (with_ms m (p_array_set P s sc n idx (p_incr P amt v)))
                             | _ => SStuck end
    | IAugField op => match stk with
                      | idx :: rv :: t =>
                          let '(s, fv) := p_get_field P (ms m) idx in
                          match p_aug P op fv rv with
                          | EOk v => lift_unit t (with_ms m s) (p_set_field P s idx v)
                          | EErr e => SErr e (with_ms m s)
                          end
                      | _ => SStuck end
    | IAugGlobal op n => match stk with
                         | rv :: t =>
                             match p_aug P op (p_get_global P (ms m) n) rv with
                             | EOk v => lift_w t (var_write m SGlobal n v)
                             | EErr e => SErr e m
                             end
                         | _ => SStuck end
    | IAugLocal op n => match stk with
                        | rv :: t =>
                            match frame_get m n with
                            | Some lv => match p_aug P op lv rv with
                                         | EOk v => lift_w t (var_write m SLocal n v)
                                         | EErr e => SErr e m
                                         end
                            | None => SStuck end
                        | _ => SStuck end
    | IAugSpecial op n => match stk with
                          | rv :: t =>
                              let '(s, lv) := p_get_special P (ms m) n in
                              match p_aug P op lv rv with
                              | EOk v => lift_w t (var_write (with_ms m s) SSpecial n v)
                              | EErr e => SErr e (with_ms m s)
                              end
                          | _ => SStuck end
    | IAugArray sc op n => match stk with
                           | idx :: rv :: t =>
                               let '(s, lv) := p_array_get P (ms m) sc n idx in
                               match p_aug P op lv rv with
                               | EOk v => SOk t (with_ms m (p_array_set P s sc n idx v))
                               | EErr e => SErr e (with_ms m s)
                               end
                           | _ => SStuck end
    | IRegex r => SOk (p_regex P (ms m) r :: stk) m
    | IIndexMulti n => match pop_n (Z.to_nat n) stk [] with
                       | Some (vs, t) => SOk (p_index_multi P (ms m) vs :: t) m
                       | None => SStuck end
    | IConcatMulti n => match pop_n (Z.to_nat n) stk [] with
                        | Some (vs, t) => SOk (p_concat_multi P (ms m) vs :: t) m
                        | None => SStuck end
    | IArith a => match stk with
                  | r :: l :: t => match p_arith P a l r with
                                   | EOk v => SOk (v :: t) m
                                   | EErr e => SErr e m
                                   end
                  | _ => SStuck end
    | ICmp c => match stk with
                | r :: l :: t => SOk (p_of_bool P (p_cmp P c (ms m) l r) :: t) m
                | _ => SStuck end
    | IConcat => match stk with
                 | r :: l :: t => SOk (p_concat P (ms m) l r :: t) m
                 | _ => SStuck end
    | IMatch => match stk with
                | r :: l :: t => match p_match P (ms m) l r with
                                 | (s, EOk b) => SOk (p_of_bool P b :: t) (with_ms m s)
                                 | (s, EErr e) => SErr e (with_ms m s)
                                 end
                | _ => SStuck end
    | INotMatch => match stk with
                   | r :: l :: t => match p_match P (ms m) l r with
                                    | (s, EOk b) => SOk (p_of_bool P (negb b) :: t) (with_ms m s)
                                    | (s, EErr e) => SErr e (with_ms m s)
                                    end
                   | _ => SStuck end
    | INot => match stk with v :: t => SOk (p_of_bool P (negb (p_to_bool P v)) :: t) m | _ => SStuck end
    | IUnaryMinus => match stk with v :: t => SOk (p_neg P v :: t) m | _ => SStuck end
    | IUnaryPlus => match stk with v :: t => SOk (p_plus P v :: t) m | _ => SStuck end
    | IBoolean => match stk with v :: t => SOk (p_of_bool P (p_to_bool P v) :: t) m | _ => SStuck end
    | ICallBuiltin b => match pop_n (p_builtin_arity P b) stk [] with
                        | Some (vs, t) => match p_builtin P b (ms m) vs with
                                          | (s, EOk rs) => SOk (rev rs ++ t) (with_ms m s)
                                          | (s, EErr e) => SErr e (with_ms m s)
                                          end
                        | None => SStuck end
    | ICallLengthArray sc n => SOk (p_array_len P (ms m) sc n :: stk) m
    | ICallSplit sc n => match stk with
                         | s0 :: t => lift_val t m (p_split P (ms m) s0 sc n None)
                         | _ => SStuck end
    | ICallSplitSep sc n isre => match stk with
                                 | sep :: s0 :: t => lift_val t m (p_split P (ms m) s0 sc n (Some (sep, isre)))
                                 | _ => SStuck end
    | ICallSprintf n => match pop_n (Z.to_nat n) stk [] with
                        | Some (vs, t) => lift_val t m (p_sprintf P (ms m) vs)
                        | None => SStuck end
    | ICallNative fi n => match pop_n (Z.to_nat n) stk [] with
                          | Some (vs, t) => lift_val t m (p_native P (ms m) fi vs)
                          | None => SStuck end
    | INulls n => SOk (repeat (p_null P) (Z.to_nat n) ++ stk) m
    | IPrint n r =>
        match pop_n (Z.to_nat n) stk [] with
        | Some (vs, t) =>
            match r with
            | RNone => lift_unit t m (p_print P false (ms m) r None vs)
            | _ => match t with
                   | dest :: t' => lift_unit t' m (p_print P false (ms m) r (Some dest) vs)
                   | [] => SStuck end
            end
        | None => SStuck end
    | IPrintf n r =>
        match pop_n (Z.to_nat n) stk [] with
        | Some (vs, t) =>
            match r with
            | RNone => lift_unit t m (p_print P true (ms m) r None vs)
            | _ => match t with
                   | dest :: t' => lift_unit t' m (p_print P true (ms m) r (Some dest) vs)
                   | [] => SStuck end
            end
        | None => SStuck end
    | IGetline r =>
        match do_getline m r stk with
        | Some (t, (s, EOk (ret, Some line))) => SOk (ret :: t) (with_ms m (p_set_line P s line))
        | Some (t, (s, EOk (ret, None))) => SOk (ret :: t) (with_ms m s)
        | Some (t, (s, EErr e)) => SErr e (with_ms m s)
        | None => SStuck end
    | IGetlineField r =>
        match do_getline m r stk with
        | Some (idx :: t, (s, EOk (ret, Some line))) => lift_unit (ret :: t) m (p_set_field P s idx line)
        | Some (idx :: t, (s, EOk (ret, None))) => SOk (ret :: t) (with_ms m s)
        | Some (_, (s, EErr e)) => SErr e (with_ms m s)
        | _ => SStuck end
    | IGetlineVar sc r n =>
        match do_getline m r stk with
        | Some (t, (s, EOk (ret, Some line))) => lift_w (ret :: t) (var_write (with_ms m s) sc n line)
        | Some (t, (s, EOk (ret, None))) => SOk (ret :: t) (with_ms m s)
        | Some (t, (s, EErr e)) => SErr e (with_ms m s)
        | None => SStuck end
    | IGetlineArray r sc n =>
        match do_getline m r stk with
        | Some (idx :: t, (s, EOk (ret, Some line))) => SOk (ret :: t) (with_ms m (p_array_set P s sc n idx line))
        | Some (idx :: t, (s, EOk (ret, None))) => SOk (ret :: t) (with_ms m s)
        | Some (_, (s, EErr e)) => SErr e (with_ms m s)
        | _ => SStuck end
    | _ => SStuck        (* control instructions are handled by [run] *)
    end.

  Definition is_control (i : instr) : bool :=
    match i with
    | IJump _ | IJumpFalse _ | IJumpTrue _ | IJumpCmp _ _ | INext | INextfile | IExit | IExitStatus
    | IForIn _ _ _ _ _ | IBreakForIn | ICallUser _ _ | IReturn | IReturnNull => true
    | _ => false
    end.

  Variable F : list cfunc.          (* p.program.Compiled.Functions *)

  (* what one iteration of the dispatch loop does *)
  Inductive action : Type :=
  | ANext (ip : Z) (stk : list value) (m : mstate)
  | AStop (r : vres)
  | AForIn (vsc : scope) (vi : Z) (keys : list value) (body : code) (ip_after : Z) (stk : list value) (m : mstate)
  | ACall (fn : cfunc) (m1 : mstate) (saved : mstate) (ip_after : Z) (stk : list value).

  Definition step (C : code) (ip : Z) (stk : list value) (m : mstate) : action :=
    if csize C <=? ip then AStop (VDone stk m) else
    match fetch C ip with
    | None => AStop VStuck
    | Some i =>
      let ip' := ip + isize i in
      match i with
      | IJump off => ANext (ip' + off) stk m
      | IJumpFalse off =>
          match stk with
          | v :: t => ANext (if p_to_bool P v then ip' else ip' + off) t m
          | _ => AStop VStuck end
      | IJumpTrue off =>
          match stk with
          | v :: t => ANext (if p_to_bool P v then ip' + off else ip') t m
          | _ => AStop VStuck end
      | IJumpCmp c off =>
          match stk with
          | r :: l :: t => ANext (if p_cmpj P c (ms m) l r then ip' + off else ip') t m
          | _ => AStop VStuck end
      | INext => AStop (VAbort XNext m)
      | INextfile => AStop (VAbort XNextfile m)
      | IExit => AStop (VAbort XExit m)
      | IExitStatus =>
          match stk with
          | v :: _ => AStop (VAbort XExit (with_ms m (p_set_exit P (ms m) v)))
          | _ => AStop VStuck end
      | IBreakForIn => AStop (VBrk stk m)
      | IReturn => match stk with v :: t => AStop (VRet v t m) | _ => AStop VStuck end
      | IReturnNull => AStop (VRet (p_null P) stk m)
      | IForIn vsc vi asc ai off =>
          match sub_code C ip' off with
          | None => AStop VStuck
          | Some body => AForIn vsc vi (p_array_keys P (ms m) asc ai) body (ip' + off) stk m
          end
      | ICallUser fi arrs =>
          if fi <? 0 then AStop VStuck else
          match nth_error F (Z.to_nat fi) with
          | None => AStop VStuck
          | Some fn =>
            if maxCallDepth <=? depth m then AStop (VAbort (XError (p_err_depth P fi)) m) else
            match pop_n (Z.to_nat (cf_nscalars fn)) stk [] with
            | None => AStop VStuck
            | Some (args, _) =>
                ACall fn {| ms := p_push_arrays P (ms m) arrs (cf_narrays fn); frame := args; depth := depth m + 1 |}
                      m ip' stk
            end
          end
      | _ =>
          match exec_simple i stk m with
          | SOk stk' m' => ANext ip' stk' m'
          | SErr e m' => AStop (VAbort (XError e) m')
          | SStuck => AStop VStuck
          end
      end
    end.

  (* CallUser epilogue: restore frame, local arrays and call depth *)
  Definition restore (saved m2 : mstate) : mstate :=
    {| ms := p_pop_arrays P (ms m2); frame := frame saved; depth := depth saved |}.

  Fixpoint run (fuel : nat) (C : code) (ip : Z) (stk : list value) (m : mstate) : vres :=
    match fuel with
    | O => VFuel
    | S f =>
      match step C ip stk m with
      | ANext ip' stk' m' => run f C ip' stk' m'
      | AStop r => r
      | AForIn vsc vi keys body ipa stk0 m0 =>
          (fix loop (ks : list value) (stk : list value) (m : mstate) : vres :=
             match ks with
             | [] => run f C ipa stk m
             | k :: ks' =>
                 match var_write m vsc vi k with
                 | WStuck => VStuck
                 | WErr e m1 => VAbort (XError e) m1
                 | WOk m1 =>
                     match run f body 0 stk m1 with
                     | VDone stk' m2 => loop ks' stk' m2
                     | VBrk stk' m2 => run f C ipa stk' m2
                     | other => other
                     end
                 end
             end) keys stk0 m0
      | ACall fn m1 saved ipa stk0 =>
          let finish := fun (v : value) (stk' : list value) (m2 : mstate) =>
            match pop_n (Z.to_nat (cf_nscalars fn)) stk' [] with
            | Some (_, t) => run f C ipa (v :: t) (restore saved m2)
            | None => VStuck
            end in
          match run f (cf_body fn) 0 stk0 m1 with
          | VDone stk' m2 => finish (p_null P) stk' m2
          | VRet v stk' m2 => finish v stk' m2
          | VBrk stk' m2 => VBrk stk' (restore saved m2)
          | VAbort x m2 => VAbort x (restore saved m2)
          | VStuck => VStuck
          | VFuel => VFuel
          end
      end
    end.

End VM.

Arguments VDone {value St err}.
Arguments VRet {value St err}.
Arguments VBrk {value St err}.
Arguments VAbort {value St err}.
Arguments VStuck {value St err}.
Arguments VFuel {value St err}.
Arguments XNext {err}.
Arguments XNextfile {err}.
Arguments XExit {err}.
Arguments XError {err}.
Arguments WOk {value St err}.
Arguments WErr {value St err}.
Arguments WStuck {value St err}.
Arguments SOk {value St err}.
Arguments SErr {value St err}.
Arguments SStuck {value St err}.
Arguments ANext {value St err}.
Arguments AStop {value St err}.
Arguments AForIn {value St err}.
Arguments ACall {value St err}.
