(* C02: a static well-formedness pass ("bytecode verifier") over the instruction set of
   Model/Instr.v for the machine of Model/VM.v.

   For one code unit (a BEGIN/END block, a pattern expression, an action body, a function
   body, or -- recursively -- the body of a for-in loop) the pass computes the depth of the
   evaluation stack at every reachable instruction boundary (one linear scan, [infer]) and
   then CHECKS, boundary by boundary, that the annotation is locally consistent
   ([check_ann]): enough values for what the instruction pops, every successor is an
   instruction boundary inside the unit (or its end) carrying exactly the depth that results,
   frame indexes below the number of locals, call targets inside the function table, counts
   non-negative, array scopes global/local, Return only in functions at depth 1/0, BreakForIn
   only inside a for-in at the depth of its ForIn, ForIn bodies well-formed sub-code that
   starts and ends at the depth of the ForIn.  Only [check_ann] is trusted by the soundness
   proof (Proofs/VerifierSound.v); [infer] merely proposes the annotation.

   Definitions only. *)
From Verif Require Import Lib.Base Model.Ast Model.Instr Model.Compiler Gen.Panics.

(* ---- what the pass knows about the surroundings of a code unit -------------- *)

Record vctx : Type := {
  cx_nlocals : Z;            (* length of the frame (scalar parameters of the function; 0 at top level) *)
  cx_infunc : bool;          (* Return / ReturnNull allowed *)
  cx_forin : option Z        (* inside a for-in body: the stack depth at its ForIn *)
}.

Definition in_forin (cx : vctx) (d : Z) : vctx :=
  {| cx_nlocals := cx_nlocals cx; cx_infunc := cx_infunc cx; cx_forin := Some d |}.

(* ---- per-instruction stack effect and control flow -------------------------- *)

(* values taken from / left on the stack by CallBuiltin (interp/vm.go callBuiltin) *)
Definition builtin_arity (b : builtin) : nat :=
  match b with
  | BFflushAll | BLength | BRand | BSrand => 0
  | BClose | BCos | BExp | BFflush | BInt | BLengthArg | BLog | BSin | BSqrt | BSrandSeed
  | BSystem | BTolower | BToupper => 1
  | BAtan2 | BIndex | BMatchFn | BSubstr => 2
  | BGsub | BSub | BSubstrLength => 3
  end%nat.

Definition builtin_nres (b : builtin) : nat :=
  match b with BGsub | BSub => 2 | _ => 1 end%nat.

Inductive flow : Type :=
| FNext (pops pushes : Z)                 (* straight-line instruction *)
| FJump (pops off : Z) (fall : bool)      (* pops, then continues at ip' + off (and, if fall, possibly at ip') *)
| FStop (pops : Z)                        (* Next, Nextfile, Exit, ExitStatus *)
| FRet (pops : Z)                         (* Return (1) / ReturnNull (0) *)
| FBrk                                    (* BreakForIn *)
| FForIn (off : Z)
| FCall (fi : Z)
| FBad.                                   (* statically ill-formed operand *)

Definition array_scope_ok (sc : scope) : bool :=
  match sc with SGlobal | SLocal => true | SSpecial => false end.

Definition local_ok_idx (cx : vctx) (i : Z) : bool := (0 <=? i) && (i <? cx_nlocals cx).

(* a scalar variable reference: locals must be inside the frame *)
Definition var_ok (cx : vctx) (sc : scope) (i : Z) : bool :=
  match sc with SLocal => local_ok_idx cx i | _ => true end.

Definition redir_pops (r : redir) : Z := match r with RNone => 0 | _ => 1 end.

Definition fnext_if (b : bool) (po pu : Z) : flow := if b then FNext po pu else FBad.

Definition flow_of (cx : vctx) (i : instr) : flow :=
  match i with
  | INop => FNext 0 0
  | INum _ | IStr _ => FNext 0 1
  | IDupe => FNext 1 2
  | IDrop => FNext 1 0
  | ISwap => FNext 2 2
  | IRote => FNext 3 3
  | IField => FNext 1 1
  | IFieldInt _ => FNext 0 1
  | IFieldByName => FNext 1 1
  | IFieldByNameStr _ => FNext 0 1
  | IGlobal _ => FNext 0 1
  | ILocal n => fnext_if (local_ok_idx cx n) 0 1
  | ISpecial _ => FNext 0 1
  | IArray sc _ => fnext_if (array_scope_ok sc) 1 1
  | IIn sc _ => fnext_if (array_scope_ok sc) 1 1
  | IAssignField => FNext 2 0
  | IAssignFieldSub => FNext 3 1
  | IAssignGlobal _ => FNext 1 0
  | IAssignLocal n => fnext_if (local_ok_idx cx n) 1 0
  | IAssignSpecial _ => FNext 1 0
  | IAssignArray sc _ => fnext_if (array_scope_ok sc) 2 0
  | IDelete sc _ => fnext_if (array_scope_ok sc) 1 0
  | IDeleteAll sc _ => fnext_if (array_scope_ok sc) 0 0
  | IIncrField _ => FNext 1 0
  | IIncrGlobal _ _ => FNext 0 0
  | IIncrLocal _ n => fnext_if (local_ok_idx cx n) 0 0
  | IIncrSpecial _ _ => FNext 0 0
  | IIncrArray sc _ _ => fnext_if (array_scope_ok sc) 1 0
  | IAugField _ => FNext 2 0
  | IAugGlobal _ _ => FNext 1 0
  | IAugLocal _ n => fnext_if (local_ok_idx cx n) 1 0
  | IAugSpecial _ _ => FNext 1 0
  | IAugArray sc _ _ => fnext_if (array_scope_ok sc) 2 0
  | IRegex _ => FNext 0 1
  | IIndexMulti n => fnext_if (0 <=? n) n 1
  | IConcatMulti n => fnext_if (0 <=? n) n 1
  | IArith _ | ICmp _ | IConcat | IMatch | INotMatch => FNext 2 1
  | INot | IUnaryMinus | IUnaryPlus | IBoolean => FNext 1 1
  | IJump off => FJump 0 off false
  | IJumpFalse off | IJumpTrue off => FJump 1 off true
  | IJumpCmp _ off => FJump 2 off true
  | INext | INextfile | IExit => FStop 0
  | IExitStatus => FStop 1
  | IForIn vsc vi asc _ off => if var_ok cx vsc vi && array_scope_ok asc then FForIn off else FBad
  | IBreakForIn => FBrk
  | ICallBuiltin b => FNext (Z.of_nat (builtin_arity b)) (Z.of_nat (builtin_nres b))
  | ICallLengthArray sc _ => fnext_if (array_scope_ok sc) 0 1
  | ICallSplit sc _ => fnext_if (array_scope_ok sc) 1 1
  | ICallSplitSep sc _ _ => fnext_if (array_scope_ok sc) 2 1
  | ICallSprintf n => fnext_if (1 <=? n) n 1                (* vm.go reads args[0]: the format *)
  | ICallUser fi arrs => if forallb (fun a => array_scope_ok (fst a)) arrs then FCall fi else FBad
  | ICallNative _ n => fnext_if (0 <=? n) n 1
  | IReturn => FRet 1
  | IReturnNull => FRet 0
  | INulls n => fnext_if (0 <=? n) 0 n
  | IPrint n r => fnext_if (0 <=? n) (n + redir_pops r) 0
  | IPrintf n r => fnext_if (1 <=? n) (n + redir_pops r) 0  (* vm.go reads args[0]: the format *)
  | IGetline r => FNext (redir_pops r) 1
  | IGetlineField r => FNext (redir_pops r + 1) 1
  | IGetlineVar sc r n => fnext_if (var_ok cx sc n) (redir_pops r) 1
  | IGetlineArray r sc _ => fnext_if (array_scope_ok sc) (redir_pops r + 1) 1
  end.

(* ---- annotations ------------------------------------------------------------ *)

(* word offset of an instruction boundary |-> stack depth there (relative to the base of the
   enclosing function activation); boundaries that are not listed are unreachable *)
Definition ann := list (Z * Z).

Fixpoint look (a : ann) (ip : Z) : option Z :=
  match a with
  | [] => None
  | (k, d) :: t => if k =? ip then Some d else look t ip
  end.

Definition look_is (a : ann) (ip d : Z) : bool :=
  match look a ip with Some d' => d' =? d | None => false end.

(* a legal place for the instruction pointer: a boundary, or the end of the unit *)
Definition is_target (C : code) (ip : Z) : bool :=
  (ip =? csize C) || match fetch C ip with Some _ => true | None => false end.

Definition tgt (C : code) (a : ann) (ip d : Z) : bool := is_target C ip && look_is a ip d.

Fixpoint boundaries (C : code) (base : Z) : list (Z * instr) :=
  match C with
  | [] => []
  | i :: C' => (base, i) :: boundaries C' (base + isize i)
  end.

(* the scalar-parameter counts of the function table (what CallUser needs to know) *)
Definition ftable := list Z.

Definition nth_z {A} (l : list A) (i : Z) : option A :=
  if i <? 0 then None else nth_error l (Z.to_nat i).

(* ---- the local consistency conditions --------------------------------------- *)

Section Check.
  Variable FT : ftable.
  (* check of a for-in body in a given context: must start and end at depth d *)
  Variable chk_body : vctx -> Z -> code -> bool.

  Definition local_ok (cx : vctx) (a : ann) (C : code) (ip : Z) (i : instr) (d : Z) : bool :=
    let ip' := ip + isize i in
    match flow_of cx i with
    | FNext po pu => (po <=? d) && tgt C a ip' (d - po + pu)
    | FJump po off fall =>
        (po <=? d) && tgt C a (ip' + off) (d - po) && (if fall then tgt C a ip' (d - po) else true)
    | FStop po => po <=? d
    | FRet po => cx_infunc cx && (d =? po)
    | FBrk => match cx_forin cx with Some db => d =? db | None => false end
    | FForIn off =>
        match sub_code C ip' off with
        | Some body => chk_body (in_forin cx d) d body && tgt C a (ip' + off) d
        | None => false
        end
    | FCall fi =>
        match nth_z FT fi with
        | Some nsc => (0 <=? nsc) && (nsc <=? d) && tgt C a ip' (d - nsc + 1)
        | None => false
        end
    | FBad => false
    end.

  Definition check_ann (cx : vctx) (a : ann) (C : code) (d0 dend : Z) : bool :=
    look_is a 0 d0 &&
    forallb (fun b => match look a (fst b) with
                      | Some d => local_ok cx a C (fst b) (snd b) d
                      | None => true
                      end) (boundaries C 0) &&
    match look a (csize C) with Some d => d =? dend | None => true end.
End Check.

(* ---- proposing an annotation: one linear scan ------------------------------- *)

(* [cur]: depth when control falls into this boundary from the previous instruction (None:
   it does not); [pend]: depths demanded by jumps seen so far *)
Fixpoint infer_go (FT : ftable) (cx : vctx) (C : code) (ip : Z) (cur : option Z) (pend : ann) : ann :=
  let cur' := match cur with Some d => Some d | None => look pend ip end in
  match C with
  | [] => match cur' with Some d => [(ip, d)] | None => [] end
  | i :: C' =>
      let ip' := ip + isize i in
      match cur' with
      | None => infer_go FT cx C' ip' None pend
      | Some d =>
          match flow_of cx i with
          | FNext po pu => (ip, d) :: infer_go FT cx C' ip' (Some (d - po + pu)) pend
          | FJump po off fall =>
              (ip, d) :: infer_go FT cx C' ip' (if fall then Some (d - po) else None) ((ip' + off, d - po) :: pend)
          | FForIn off => (ip, d) :: infer_go FT cx C' ip' None ((ip' + off, d) :: pend)
          | FCall fi =>
              match nth_z FT fi with
              | Some nsc => (ip, d) :: infer_go FT cx C' ip' (Some (d - nsc + 1)) pend
              | None => (ip, d) :: infer_go FT cx C' ip' None pend
              end
          | FStop _ | FRet _ | FBrk | FBad => (ip, d) :: infer_go FT cx C' ip' None pend
          end
      end
  end.

Definition infer (FT : ftable) (cx : vctx) (C : code) (d0 : Z) : ann :=
  infer_go FT cx C 0 (Some d0) [].

(* ---- the pass ---------------------------------------------------------------- *)

(* fuel bounds the nesting of for-in bodies (each body is shorter than its unit) *)
Fixpoint check_seg (fuel : nat) (FT : ftable) (cx : vctx) (d0 dend : Z) (C : code) : bool :=
  match fuel with
  | O => false
  | S f => check_ann FT (fun cx' d body => check_seg f FT cx' d d body) cx (infer FT cx C d0) C d0 dend
  end.

Definition top_ctx (nlocals : Z) (infunc : bool) : vctx :=
  {| cx_nlocals := nlocals; cx_infunc := infunc; cx_forin := None |}.

(* a code unit entered with [d0] values above the base must leave [dend] there *)
Definition check_code (FT : ftable) (nlocals : Z) (infunc : bool) (d0 dend : Z) (C : code) : bool :=
  check_seg (S (length C)) FT (top_ctx nlocals infunc) d0 dend C.

Definition ftable_of (F : list cfunc) : ftable := map cf_nscalars F.

Definition check_func (FT : ftable) (fn : cfunc) : bool :=
  (0 <=? cf_nscalars fn) && check_code FT (cf_nscalars fn) true 0 0 (cf_body fn).

Definition check_funcs (F : list cfunc) : bool := forallb (check_func (ftable_of F)) F.

(* the whole compiled program: statements are balanced, a pattern leaves one value *)
Definition check_program (p : cprogram) : bool :=
  let FT := ftable_of (c_funcs p) in
  check_funcs (c_funcs p) &&
  check_code FT 0 false 0 0 (c_begin p) &&
  forallb (fun a => forallb (check_code FT 0 false 0 1) (fst a) &&
                    match snd a with Some b => check_code FT 0 false 0 0 b | None => true end) (c_actions p) &&
  check_code FT 0 false 0 0 (c_end p).

(* ---- table limits (indexes into the globals, arrays, specials, constants) ------ *)

(* These are the operands the machine of Model/VM.v hands to the primitive operations
   (p_get_global, p_array_get, ...) and that interp/vm.go uses as direct slice indexes. *)
Record limits : Type := {
  lm_globals : Z;        (* len(p.globals) *)
  lm_garrays : Z;        (* number of global arrays *)
  lm_larrays : Z;        (* number of array parameters of the enclosing function (0 at top level) *)
  lm_specials : Z;       (* ast.V_LAST *)
  lm_nums : Z; lm_strs : Z; lm_regexes : Z;     (* constant tables *)
  lm_natives : Z;        (* len(p.nativeFuncs) *)
  lm_funcs : list Z      (* per function: number of array parameters *)
}.

Definition below (i n : Z) : bool := (0 <=? i) && (i <? n).

Definition arr_in (L : limits) (sc : scope) (i : Z) : bool :=
  match sc with
  | SGlobal => below i (lm_garrays L)
  | SLocal => below i (lm_larrays L)
  | SSpecial => false
  end.

Definition scalar_in (L : limits) (sc : scope) (i : Z) : bool :=
  match sc with
  | SGlobal => below i (lm_globals L)
  | SLocal => true                      (* frame bound: checked by [flow_of] *)
  | SSpecial => (1 <=? i) && (i <=? lm_specials L)
  end.

(* constants are decoded as indexes into their tables (Model/Decode.v): INum k, IStr [k] *)
Definition const_in (s : bytes) (n : Z) : bool :=
  match s with [k] => below k n | _ => false end.

Definition instr_in_limits (L : limits) (i : instr) : bool :=
  match i with
  | INum k => below k (lm_nums L)
  | IStr s | IFieldByNameStr s => const_in s (lm_strs L)
  | IRegex s => const_in s (lm_regexes L)
  | IGlobal n | IAssignGlobal n | IIncrGlobal _ n | IAugGlobal _ n => below n (lm_globals L)
  | ISpecial n | IAssignSpecial n | IIncrSpecial _ n | IAugSpecial _ n => scalar_in L SSpecial n
  | IArray sc n | IIn sc n | IAssignArray sc n | IDelete sc n | IDeleteAll sc n
  | IIncrArray sc _ n | IAugArray sc _ n | ICallLengthArray sc n | ICallSplit sc n
  | ICallSplitSep sc n _ | IGetlineArray _ sc n => arr_in L sc n
  | IGetlineVar sc _ n => scalar_in L sc n
  | IForIn vsc vi asc ai _ => scalar_in L vsc vi && arr_in L asc ai
  | ICallUser fi arrs =>
      match nth_z (lm_funcs L) fi with
      | Some narr => (zlen arrs <=? narr) && forallb (fun a => arr_in L (fst a) (snd a)) arrs
      | None => false
      end
  | ICallNative fi _ => below fi (lm_natives L)
  | _ => true
  end.

Definition check_limits (L : limits) (C : code) : bool := forallb (instr_in_limits L) C.

Definition with_larrays (L : limits) (n : Z) : limits :=
  {| lm_globals := lm_globals L; lm_garrays := lm_garrays L; lm_larrays := n; lm_specials := lm_specials L;
     lm_nums := lm_nums L; lm_strs := lm_strs L; lm_regexes := lm_regexes L; lm_natives := lm_natives L;
     lm_funcs := lm_funcs L |}.

(* every unit of the program against the program's tables ([lm_larrays], [lm_funcs] of [L] are ignored) *)
Definition check_program_limits (L0 : limits) (p : cprogram) : bool :=
  let L := {| lm_globals := lm_globals L0; lm_garrays := lm_garrays L0; lm_larrays := 0;
              lm_specials := lm_specials L0; lm_nums := lm_nums L0; lm_strs := lm_strs L0;
              lm_regexes := lm_regexes L0; lm_natives := lm_natives L0;
              lm_funcs := map cf_narrays (c_funcs p) |} in
  forallb (fun fn => (0 <=? cf_narrays fn) && check_limits (with_larrays L (cf_narrays fn)) (cf_body fn)) (c_funcs p) &&
  check_limits L (c_begin p) &&
  forallb (fun a => forallb (check_limits L) (fst a) &&
                    match snd a with Some b => check_limits L b | None => true end) (c_actions p) &&
  check_limits L (c_end p).

(* the limits of a program: table sizes as dumped by the implementation, ast.V_LAST from the
   regenerated Gen/Panics.v *)
Definition program_limits (nglobals ngarrays nnums nstrs nregexes nnatives : Z) : limits :=
  {| lm_globals := nglobals; lm_garrays := ngarrays; lm_larrays := 0; lm_specials := numSpecials;
     lm_nums := nnums; lm_strs := nstrs; lm_regexes := nregexes; lm_natives := nnatives; lm_funcs := [] |}.

(* ---- one-byte RS: the only MustCompile on run-time data (interp.go setSpecial V_RS) ---- *)

(* For len(rs) <= 1 setSpecial first tests utf8.ValidString(rs): a single byte that is not ASCII
   is not valid UTF-8 and the regex compilation is skipped (byteSplitter needs no regex);
   otherwise regexp.MustCompile(regexp.QuoteMeta(rs)) runs.  QuoteMeta escapes ASCII
   metacharacters only and the regexp parser rejects exactly invalid UTF-8, so that call would
   panic exactly on a non-ASCII byte ([must_compile_quoted]). *)
Inductive rs_outcome : Type := RsOk | RsError | RsPanic.

Definition valid_utf8_short (rs : bytes) : bool :=
  match rs with
  | [] => true
  | [b] => (0 <=? b) && (b <? 128)
  | _ => false
  end.

(* regexp.MustCompile(regexp.QuoteMeta(rs)) for len(rs) <= 1 *)
Definition must_compile_quoted (rs : bytes) : rs_outcome :=
  if valid_utf8_short rs then RsOk else RsPanic.

Definition set_rs_short (rs : bytes) : rs_outcome :=
  match rs with
  | [] | [_] => if negb (valid_utf8_short rs) then RsOk       (* break: no regex *)
                else must_compile_quoted rs
  | _ => RsError      (* not this branch *)
  end.

(* ---- CSV/TSV input: the two parallel slices behind $i (interp.go getField, io.go ensureFields,
        csvSplitter.scan) ------------------------------------------------------------- *)

(* Only the LENGTHS of p.fields and p.fieldsIsTrueStr matter for "does getField index out of
   range".  In CSV/TSV mode csvSplitter.scan stores the parsed fields of EVERY record it reads
   into p.fields; p.fieldsIsTrueStr is only rebuilt by ensureFields when p.haveFields is false.
   For the main loop that is the new current record; interp.getline (every getline form) saves
   p.fields before the read and restores it afterwards, so a record read into a variable leaves
   the current record's fields alone. *)
Record fstate : Type := {
  fs_fields : Z; fs_true : Z; fs_have : bool;
  fs_mode : bool;     (* the CURRENT INPUTMODE is csv/tsv (setSpecial V_INPUTMODE changes it at any time) *)
  fs_saved : bool;    (* p.savedInputMode: the mode when the current record was read (setLine) *)
  fs_dflt : Z         (* number of fields p.line has under the default-mode split *)
}.

(* The stream's scanner -- and so its split function -- is fixed when the scanner is created
   (newScanner): this model is about a stream opened in CSV/TSV mode, whose csvSplitter keeps
   storing into p.fields after the program switches INPUTMODE back to "". *)
Inductive fop : Type :=
| ORecord (n d : Z)      (* the main loop reads a record with n CSV fields (d fields under the default split): fields stored, setLine *)
| OGetlineVar (n : Z)    (* getline var / getline arr[i] reads a record with n fields: p.fields written, then restored *)
| ONF                    (* NF (or any use of the fields): ensureFields *)
| OField (i : Z)         (* $i with i >= 1 *)
| OSetMode (csv : bool). (* INPUTMODE = "csv" / "" in the middle of the stream *)

Definition fs_init : fstate :=
  {| fs_fields := 0; fs_true := 0; fs_have := false; fs_mode := true; fs_saved := true; fs_dflt := 0 |}.

(* ensureFields: in (saved) CSV mode the splitter's fields are kept (reparseCSV is false for
   records of the main loop); in (saved) default mode p.line is split by FS *)
Definition f_ensure (s : fstate) : fstate :=
  if fs_have s then s else
  let f := if fs_saved s then fs_fields s else fs_dflt s in
  {| fs_fields := f; fs_true := f; fs_have := true; fs_mode := fs_mode s; fs_saved := fs_saved s; fs_dflt := fs_dflt s |}.

(* None = Go panics (index out of range in p.fieldsIsTrueStr[index-1]) *)
Definition f_step (s : fstate) (o : fop) : option fstate :=
  match o with
  | ORecord n d => Some {| fs_fields := n; fs_true := fs_true s; fs_have := false;
                           fs_mode := fs_mode s; fs_saved := fs_mode s; fs_dflt := d |}
  | OGetlineVar n =>
      let saved := fs_fields s in                                               (* fields := p.fields *)
      let s1 := {| fs_fields := n; fs_true := fs_true s; fs_have := fs_have s;
                   fs_mode := fs_mode s; fs_saved := fs_saved s; fs_dflt := fs_dflt s |} in   (* the splitter's store *)
      Some {| fs_fields := saved; fs_true := fs_true s1; fs_have := fs_have s1;
              fs_mode := fs_mode s1; fs_saved := fs_saved s1; fs_dflt := fs_dflt s1 |}        (* deferred p.fields = fields, whatever the current mode *)
  | ONF => Some (f_ensure s)
  | OField i =>
      let s' := f_ensure s in
      if fs_fields s' <? i then Some s'                    (* index > len(p.fields): "" *)
      else if i <=? fs_true s' then Some s' else None      (* p.fieldsIsTrueStr[index-1] *)
  | OSetMode b => Some {| fs_fields := fs_fields s; fs_true := fs_true s; fs_have := fs_have s;
                          fs_mode := b; fs_saved := fs_saved s; fs_dflt := fs_dflt s |}
  end.

Fixpoint f_run (s : fstate) (ops : list fop) : option fstate :=
  match ops with
  | [] => Some s
  | o :: t => match f_step s o with Some s' => f_run s' t | None => None end
  end.
