(* C14 — model of the state of `struct interp` (interp/interp.go) across Execute calls on one
   Interpreter: newInterp, resetCore, resetVars, ResetRand, the Execute/ExecuteContext prologue and
   setExecuteConfig, function by function, as updates of a field -> value map.
   Definitions only; the theorems are in Proofs/Reuse.v.

   A state maps a field NAME of struct interp (the names of Gen/InterpFields.struct_fields, plus the
   pseudo-field "arrays.locals", see below) to an abstract value: the address-free rendering that the
   verification hook interp/verif_c14.go (VerifC14Dump) produces for the real struct, so that every function
   here can be compared, field by field, with the result of the real one.

   Abstraction (the same on both sides):
     * a slice or map of length 0 is VNil, whether nil or not -- except in the fields that the package compares
       with nil (Gen/InterpFields.nil_tested), where a non-nil empty one is VL [] / VM [];
     * Go field `arrays` is split in "arrays" (the len(arrayIndexes) global arrays) and "arrays.locals"
       (what follows: arrays of calls in progress, or abandoned when a run ended in an error);
     * an AWK `value` is VL [VI typ; VS s; VF bits(n)], typ: 0 null, 1 str, 2 num, 3 numStr;
     * pointers to library objects, readers/writers, the program are content digests VO. *)
From Coq Require Import String List ZArith Bool.
From Verif Require Import Lib.Base Gen.InterpFields.
Import ListNotations.
Open Scope string_scope.
Open Scope Z_scope.

Definition field := string.

Inductive val :=
| VNil
| VB (b : bool)
| VI (z : Z)
| VF (bits : Z)
| VS (s : bytes)
| VL (l : list val)
| VM (m : list (bytes * val))
| VO (digest : bytes).

Fixpoint val_eqb (a b : val) : bool :=
  match a, b with
  | VNil, VNil => true
  | VB x, VB y => Bool.eqb x y
  | VI x, VI y => Z.eqb x y
  | VF x, VF y => Z.eqb x y
  | VS x, VS y => bytes_eqb x y
  | VO x, VO y => bytes_eqb x y
  | VL x, VL y =>
      (fix go (l1 l2 : list val) : bool :=
         match l1, l2 with
         | [], [] => true
         | p :: l1', q :: l2' => val_eqb p q && go l1' l2'
         | _, _ => false
         end) x y
  | VM x, VM y =>
      (fix go (l1 l2 : list (bytes * val)) : bool :=
         match l1, l2 with
         | [], [] => true
         | (k1, p) :: l1', (k2, q) :: l2' => bytes_eqb k1 k2 && val_eqb p q && go l1' l2'
         | _, _ => false
         end) x y
  | _, _ => false
  end.

Definition state := field -> val.

Definition upd (f : field) (v : val) (s : state) : state :=
  fun x => if String.eqb x f then v else s x.

(* assignments in source order: a later one wins *)
Definition set_all (l : list (field * val)) (s : state) : state :=
  fold_left (fun s kv => upd (fst kv) (snd kv) s) l s.

Fixpoint alookup {A} (f : string) (l : list (string * A)) : option A :=
  match l with
  | [] => None
  | (k, v) :: r => if String.eqb f k then Some v else alookup f r
  end.

Definition mem (f : string) (l : list string) : bool := existsb (String.eqb f) l.
Definition subset (a b : list string) : bool := forallb (fun x => mem x b) a.

(* ---------- AWK values and constants of the Go code ---------- *)
Definition v_null : val := VL [VI 0; VS []; VF 0].                 (* null() = value{} *)
Definition v_str (s : bytes) : val := VL [VI 1; VS s; VF 0].       (* str(s) *)
Definition v_num (bits : Z) : val := VL [VI 2; VS []; VF bits].    (* num(n) *)
Definition v_numStr (s : bytes) : val := VL [VI 3; VS s; VF 0].    (* numStr(s) *)
Definition v_num0 : val := v_num 0.
Definition one_bits : Z := 4607182418800017408.                    (* 1.0 *)
Definition b_fmt6g : bytes := [37; 46; 54; 103].                   (* "%.6g" *)
Definition b_space : bytes := [32].
Definition b_nl : bytes := [10].
Definition b_subsep : bytes := [28].                               (* "\x1c" *)
Definition b_ARGV : bytes := [65; 82; 71; 86].
Definition b_ENVIRON : bytes := [69; 78; 86; 73; 82; 79; 78].

(* the rendering of a possibly empty slice *)
Definition vlist (l : list val) : val := match l with [] => VNil | _ => VL l end.

(* float64 bit pattern of an integer 1 <= n < 2^53 *)
Definition f64_of_pos_int (n : Z) : Z :=
  let k := Z.log2 n in Z.shiftl (1023 + k) 52 + Z.shiftl (n - 2 ^ k) (52 - k).

(* strconv.Itoa for n >= 0 *)
Fixpoint itoa_go (fuel : nat) (n : Z) (acc : bytes) : bytes :=
  match fuel with
  | O => acc
  | S fu => let acc' := (48 + n mod 10) :: acc in
            if n / 10 =? 0 then acc' else itoa_go fu (n / 10) acc'
  end.
Definition itoa (n : Z) : bytes := itoa_go 25 n [].

(* ---------- maps with string keys, kept sorted by key (as the dump renders them) ---------- *)
Fixpoint bytes_ltb (a b : bytes) : bool :=
  match a, b with
  | [], [] => false
  | [], _ => true
  | _, [] => false
  | x :: a', y :: b' => if x <? y then true else if y <? x then false else bytes_ltb a' b'
  end.
Fixpoint minsert (k : bytes) (v : val) (m : list (bytes * val)) : list (bytes * val) :=
  match m with
  | [] => [(k, v)]
  | (k', v') :: r => if bytes_eqb k k' then (k, v) :: r
                     else if bytes_ltb k k' then (k, v) :: (k', v') :: r
                     else (k', v') :: minsert k v r
  end.
Fixpoint mlookup (k : bytes) (m : list (bytes * val)) : option val :=
  match m with
  | [] => None
  | (k', v) :: r => if bytes_eqb k k' then Some v else mlookup k r
  end.
Definition map_set (k : bytes) (v : val) (m : val) : val :=     (* m[k] = v *)
  match m with
  | VNil => VM [(k, v)]
  | VM l => VM (minsert k v l)
  | x => x
  end.
Fixpoint upd_nth (n : nat) (f : val -> val) (l : list val) : list val :=
  match l, n with
  | [], _ => []
  | x :: r, O => f x :: r
  | x :: r, S n' => x :: upd_nth n' f r
  end.

(* p.arrayIndexes[name]: a missing key reads as 0 *)
Definition array_index (idxs : val) (name : bytes) : nat :=
  match idxs with
  | VM m => match mlookup name m with Some (VI i) => Z.to_nat i | _ => O end
  | _ => O
  end.
(* setArrayValue(Global, arrayIndexes[name], key, v) on the rendering of p.arrays *)
Definition set_array_value (idxs arrays : val) (name key : bytes) (v : val) : val :=
  match arrays with
  | VL l => VL (upd_nth (array_index idxs name) (map_set key v) l)
  | x => x
  end.

(* ---------- environment: values the model cannot compute itself ---------- *)
Record envt := mkEnv {
  e_rand1 : val;          (* rendering of rand.New(rand.NewSource(seed of 1.0)) *)
  e_shell : val;          (* defaultShellCommand *)
  e_openFile : val;       (* os.OpenFile *)
  e_zeroBuf : val;        (* the zero bytes.Buffer *)
  e_windows : bool        (* runtime.GOOS == "windows" *)
}.

(* what newInterp takes from the parsed program *)
Record progconst := mkPc {
  pc_program : val; pc_functions : val; pc_nums : val; pc_strs : val; pc_regexes : val;
  pc_scalarIndexes : val; pc_arrayIndexes : val
}.
Definition vmap_len (v : val) : nat := match v with VM m => length m | _ => O end.

(* ---------- zero value of a field, from its Go type text in the generated table ---------- *)
Definition zero_of_type (e : envt) (ty : string) : option val :=
  if String.eqb ty "bool" then Some (VB false)
  else if String.eqb ty "int" then Some (VI 0)
  else if String.eqb ty "IOMode" then Some (VI 0)
  else if String.eqb ty "string" then Some (VS [])
  else if String.eqb ty "float64" then Some (VF 0)
  else if String.eqb ty "value" then Some v_null
  else if String.eqb ty "CSVInputConfig" then Some (VL [VI 0; VI 0; VB false])
  else if String.eqb ty "CSVOutputConfig" then Some (VL [VI 0])
  else if String.eqb ty "bytes.Buffer" then Some (e_zeroBuf e)
  else if mem ty ["io.Writer"; "io.Reader"; "context.Context"; "OpenFileFunc"; "<-chan struct{}";
                  "*bufio.Scanner"; "*bufio.Writer"; "*regexp.Regexp"; "*parser.Program"; "*rand.Rand";
                  "[]byte"; "[]string"; "[]bool"; "[]value"; "[]float64"; "[][]int"; "[]nativeFunc";
                  "[]map[string]value"; "[]compiler.Function"; "[]*regexp.Regexp";
                  "map[string]int"; "map[string]*bufio.Scanner"; "map[string]inputStream";
                  "map[string]outputStream"; "map[string]*regexp.Regexp"; "map[string]cachedFormat"]
       then Some VNil
  else None.

Definition zero_state (e : envt) : state :=
  fun f => match alookup f struct_fields with
           | Some ty => match zero_of_type e ty with Some v => v | None => VNil end
           | None => VNil
           end.

(* ---------- newInterp (interp.go) ---------- *)
Definition newInterp_binds (e : envt) (pc : progconst) : list (field * val) :=
  [ ("program", pc_program pc); ("functions", pc_functions pc); ("nums", pc_nums pc);
    ("strs", pc_strs pc); ("regexes", pc_regexes pc);
    ("scalarIndexes", pc_scalarIndexes pc); ("arrayIndexes", pc_arrayIndexes pc);
    ("globals", vlist (repeat v_null (vmap_len (pc_scalarIndexes pc))));
    ("stack", vlist (repeat v_null 100));
    ("arrays", vlist (repeat VNil (vmap_len (pc_arrayIndexes pc))));
    ("regexCache", VNil); ("formatCache", VNil);
    ("randSeed", VF one_bits); ("random", e_rand1 e);
    ("convertFormat", VS b_fmt6g); ("outputFormat", VS b_fmt6g);
    ("fieldSep", VS b_space); ("savedFieldSep", VS b_space); ("recordSep", VS b_nl);
    ("savedRecordSep", VS b_nl);
    ("outputFieldSep", VS b_space); ("outputRecordSep", VS b_nl); ("subscriptSep", VS b_subsep);
    ("lineNum", v_num0); ("fileLineNum", v_num0); ("numFields", v_num0);
    ("matchStart", v_num0); ("matchLength", v_num0);
    ("inputStreams", VNil); ("outputStreams", VNil); ("scanners", VNil) ].

Definition m_newInterp (e : envt) (pc : progconst) : state :=
  set_all (newInterp_binds e pc) (zero_state e).

(* ---------- resetCore (newexecute.go) ---------- *)
Definition resetCore_binds : list (field * val) :=
  [ ("scanner", VNil); ("scanners", VNil); ("input", VNil); ("inputStreams", VNil);
    ("outputStreams", VNil);
    ("sp", VI 0); ("localArrays", VNil); ("callDepth", VI 0);
    ("filename", v_null); ("line", VS []); ("lineIsTrueStr", VB false);
    ("lineNum", v_num0); ("fileLineNum", v_num0); ("fields", VNil); ("fieldsIsTrueStr", VNil);
    ("numFields", v_num0); ("haveFields", VB false);
    ("reparseCSV", VB false); ("fieldNames", VNil); ("fieldIndexes", VNil);
    ("matchStart", v_num0); ("matchLength", v_num0); ("argc", v_num0);
    ("exitStatus", VI 0) ].
Definition m_resetCore (s : state) : state := set_all resetCore_binds s.

(* ---------- resetVars ---------- *)
Definition null_all (v : val) : val :=          (* for i := range p.globals { p.globals[i] = null() } *)
  match v with VL l => vlist (map (fun _ => v_null) l) | x => x end.
Definition clear_maps (v : val) : val :=        (* for _, a := range p.arrays { for k := range a { delete(a, k) } } *)
  match v with VL l => vlist (map (fun _ => VNil) l) | x => x end.
Definition resetVars_binds : list (field * val) :=
  [ ("convertFormat", VS b_fmt6g); ("outputFormat", VS b_fmt6g); ("fieldSep", VS b_space);
    ("fieldSepRegex", VNil); ("savedFieldSep", VS b_space); ("savedFieldSepRegex", VNil);
    ("recordSep", VS b_nl); ("savedRecordSep", VS b_nl); ("recordSepRegex", VNil); ("recordTerminator", VS []);
    ("outputFieldSep", VS b_space); ("outputRecordSep", VS b_nl); ("subscriptSep", VS b_subsep) ].
Definition m_resetVars (s : state) : state :=
  set_all resetVars_binds
    (upd "arrays.locals" (clear_maps (s "arrays.locals"))
      (upd "arrays" (clear_maps (s "arrays"))
        (upd "globals" (null_all (s "globals")) s))).

(* ---------- ResetRand ---------- *)
Definition m_resetRand (e : envt) (s : state) : state :=
  set_all [("randSeed", VF one_bits); ("random", e_rand1 e)] s.

(* ---------- what Execute / ExecuteContext assign before setExecuteConfig ---------- *)
Inductive entry :=
| EExec                                             (* Execute *)
| ECtx (check : bool) (ctxv donev : val).           (* ExecuteContext(ctx): check = ctx is not Background/TODO *)
Definition prologue_binds (en : entry) : list (field * val) :=
  match en with
  | EExec => [("checkCtx", VB false)]
  | ECtx c cv dv => [("checkCtx", VB c); ("ctx", cv); ("ctxDone", dv); ("ctxOps", VI 0)]
  end.
Definition m_prologue (en : entry) (s : state) : state := set_all (prologue_binds en) s.

(* ---------- setExecuteConfig (interp.go) ---------- *)
Record config := mkConfig {
  c_varsOdd : bool;                   (* len(config.Vars) % 2 != 0 *)
  c_environOdd : bool;
  c_inputMode : Z; c_inSep : Z; c_inComment : Z; c_inHeader : bool;
  c_outputMode : Z; c_outSep : Z;
  c_openFile : option val;            (* None: config.OpenFile == nil *)
  c_argv0 : bytes; c_args : list bytes;
  c_noArgVars : bool;
  c_vars : list (bytes * bytes);
  c_chars : bool;
  c_environ : list (bytes * bytes);   (* the pairs of config.Environ (the harness never passes nil) *)
  c_shell : option val;               (* None: len(config.ShellCommand) == 0 *)
  c_noExec : bool; c_noFileWrites : bool; c_noFileReads : bool;
  c_stdin : val; c_output : val; c_error : val;   (* the harness never passes nil *)
  c_funcs : val;                      (* rendering of the nativeFuncs built from config.Funcs *)
  c_newline : Z
}.

Inductive cfgerr :=
| EVarsOdd | EEnvironOdd | EInCfgDefault | EOutCfgDefault | ECsvSeparator | ENewlineMode
| EVar (msg : bytes)        (* an error of setVarByName *)
| EUnmodelled.              (* outside the executable model (not an error of the code) *)

(* the Vars loop: for i := 0; i < len(config.Vars); i += 2 { setVarByName(...) } *)
Definition setvars := list (bytes * bytes) -> state -> state * option cfgerr.

Inductive step :=
| SSet (f : field) (reads : list field) (fn : envt -> config -> list val -> val)
| SCheck (reads : list field) (chk : config -> list val -> option cfgerr)
| SInitOnce (f : field) (fn : config -> val)          (* if p.f == nil { p.f = ... } *)
| SVars.

Definition val_is_nil (v : val) : bool := match v with VNil => true | _ => false end.

Fixpoint run_steps (sv : setvars) (e : envt) (c : config) (l : list step) (s : state)
  : state * option cfgerr :=
  match l with
  | [] => (s, None)
  | SSet f reads fn :: r => run_steps sv e c r (upd f (fn e c (map s reads)) s)
  | SCheck reads chk :: r =>
      match chk c (map s reads) with
      | Some err => (s, Some err)
      | None => run_steps sv e c r s
      end
  | SInitOnce f fn :: r =>
      run_steps sv e c r (if val_is_nil (s f) then upd f (fn c) s else s)
  | SVars :: r =>
      match sv (c_vars c) s with
      | (s', Some err) => (s', Some err)
      | (s', None) => run_steps sv e c r s'
      end
  end.

Definition csv_in_raw (c : config) : val := VL [VI (c_inSep c); VI (c_inComment c); VB (c_inHeader c)].
Definition csv_in_defaulted (c : config) : val :=
  if (c_inputMode c =? 1) && (c_inSep c =? 0) then VL [VI 44; VI (c_inComment c); VB (c_inHeader c)]
  else if (c_inputMode c =? 2) && (c_inSep c =? 0) then VL [VI 9; VI (c_inComment c); VB (c_inHeader c)]
  else csv_in_raw c.
Definition csv_out_defaulted (c : config) : val :=
  if (c_outputMode c =? 1) && (c_outSep c =? 0) then VL [VI 44]
  else if (c_outputMode c =? 2) && (c_outSep c =? 0) then VL [VI 9]
  else VL [VI (c_outSep c)].

(* validCSVSeparator *)
Definition valid_sep (r : Z) : bool :=
  negb (r =? 0) && negb (r =? 34) && negb (r =? 13) && negb (r =? 10) &&
  (((0 <=? r) && (r <? 55296)) || ((57343 <? r) && (r <=? 1114111))) && negb (r =? 65533).
Definition validate_in (_ : config) (vs : list val) : option cfgerr :=
  match vs with
  | [VI mode; VL [VI sep; VI comment; VB _]] =>
      if (mode =? 1) || (mode =? 2) then
        if (sep =? comment) || negb (valid_sep sep) || (negb (comment =? 0) && negb (valid_sep comment))
        then Some ECsvSeparator else None
      else None
  | _ => Some EUnmodelled
  end.
Definition validate_out (_ : config) (vs : list val) : option cfgerr :=
  match vs with
  | [VI mode; VL [VI sep]] =>
      if (mode =? 1) || (mode =? 2) then if negb (valid_sep sep) then Some ECsvSeparator else None
      else None
  | _ => Some EUnmodelled
  end.

Fixpoint set_args (idxs : val) (i : Z) (args : list bytes) (arrays : val) : val :=
  match args with
  | [] => arrays
  | a :: r => set_args idxs (i + 1) r (set_array_value idxs arrays b_ARGV (itoa i) (v_numStr a))
  end.
Fixpoint set_environ (idxs : val) (kvs : list (bytes * bytes)) (arrays : val) : val :=
  match kvs with
  | [] => arrays
  | (k, v) :: r => set_environ idxs r (set_array_value idxs arrays b_ENVIRON k (v_numStr v))
  end.

Definition arr2 (vs : list val) (k : val -> val -> val) : val :=
  match vs with [idxs; arrays] => k idxs arrays | _ => VNil end.

Definition setExecuteConfig_steps : list step :=
  [ SCheck [] (fun c _ => if c_varsOdd c then Some EVarsOdd else None);
    SCheck [] (fun c _ => if c_environOdd c then Some EEnvironOdd else None);
    SSet "inputMode" [] (fun _ c _ => VI (c_inputMode c));
    SSet "csvInputConfig" [] (fun _ c _ => csv_in_raw c);
    SSet "csvInputConfig" [] (fun _ c _ => csv_in_defaulted c);
    SCheck [] (fun c _ => if (c_inputMode c =? 0) && negb (val_eqb (csv_in_raw c) (VL [VI 0; VI 0; VB false]))
                          then Some EInCfgDefault else None);
    SSet "outputMode" [] (fun _ c _ => VI (c_outputMode c));
    SSet "csvOutputConfig" [] (fun _ c _ => VL [VI (c_outSep c)]);
    SSet "csvOutputConfig" [] (fun _ c _ => csv_out_defaulted c);
    SCheck [] (fun c _ => if (c_outputMode c =? 0) && negb (c_outSep c =? 0) then Some EOutCfgDefault else None);
    SSet "openFile" [] (fun e c _ => match c_openFile c with Some v => v | None => e_openFile e end);
    SSet "arrays" ["arrayIndexes"; "arrays"]
         (fun _ c vs => arr2 vs (fun idxs arrays => set_array_value idxs arrays b_ARGV [48] (v_str (c_argv0 c))));
    SSet "argc" [] (fun _ c _ => v_num (f64_of_pos_int (zlen (c_args c) + 1)));
    SSet "arrays" ["arrayIndexes"; "arrays"]
         (fun _ c vs => arr2 vs (fun idxs arrays => set_args idxs 1 (c_args c) arrays));
    SSet "noArgVars" [] (fun _ c _ => VB (c_noArgVars c));
    SSet "filenameIndex" [] (fun _ _ _ => VI 1);
    SSet "hadFiles" [] (fun _ _ _ => VB false);
    SVars;
    SSet "chars" [] (fun _ c _ => VB (c_chars c));
    SCheck ["inputMode"; "csvInputConfig"] validate_in;
    SCheck ["outputMode"; "csvOutputConfig"] validate_out;
    SSet "arrays" ["arrayIndexes"; "arrays"]
         (fun _ c vs => arr2 vs (fun idxs arrays => set_environ idxs (c_environ c) arrays));
    SSet "shellCommand" [] (fun e c _ => match c_shell c with Some v => v | None => e_shell e end);
    SSet "noExec" [] (fun _ c _ => VB (c_noExec c));
    SSet "noFileWrites" [] (fun _ c _ => VB (c_noFileWrites c));
    SSet "noFileReads" [] (fun _ c _ => VB (c_noFileReads c));
    SSet "stdin" [] (fun _ c _ => c_stdin c);
    SSet "output" [] (fun _ c _ => c_output c);
    SSet "errorOutput" [] (fun _ c _ => c_error c);
    SInitOnce "nativeFuncs" c_funcs;
    SCheck [] (fun c _ => if (c_newline c =? 0) || (c_newline c =? 1) || (c_newline c =? 2) then None
                          else Some ENewlineMode);
    SSet "newlineOutputCRLF" [] (fun e c _ => VB (if c_newline c =? 0 then e_windows e else (c_newline c =? 2))) ].

Definition m_setExecuteConfig (sv : setvars) (e : envt) (c : config) (s : state) : state * option cfgerr :=
  run_steps sv e c setExecuteConfig_steps s.

(* Execute/ExecuteContext up to (not including) executeAll *)
Definition m_prepare (sv : setvars) (e : envt) (en : entry) (c : config) (s : state) : state * option cfgerr :=
  m_setExecuteConfig sv e c (m_prologue en (m_resetCore s)).

(* ---------- executable instance of the Vars loop ----------
   setVarByName for user scalars and for the special variables whose assignment is a plain store;
   anything else (NF, ARGC, RS, multi-byte FS, INPUTMODE, OUTPUTMODE) answers EUnmodelled. *)
Definition names (l : list string) (n : bytes) : bool :=
  existsb (fun s => bytes_eqb n (map (fun a => Z.of_nat (Ascii.nat_of_ascii a)) (list_ascii_of_string s))) l.
Definition bname (s : string) : bytes := map (fun a => Z.of_nat (Ascii.nat_of_ascii a)) (list_ascii_of_string s).

Definition set_var_exec (name value : bytes) (s : state) : state * option cfgerr :=
  let is n := bytes_eqb name (bname n) in
  if is "NR" then (upd "lineNum" (v_numStr value) s, None)
  else if is "FNR" then (upd "fileLineNum" (v_numStr value) s, None)
  else if is "RLENGTH" then (upd "matchLength" (v_numStr value) s, None)
  else if is "RSTART" then (upd "matchStart" (v_numStr value) s, None)
  else if is "FILENAME" then (upd "filename" (v_numStr value) s, None)
  else if is "CONVFMT" then (upd "convertFormat" (VS value) s, None)
  else if is "OFMT" then (upd "outputFormat" (VS value) s, None)
  else if is "OFS" then (upd "outputFieldSep" (VS value) s, None)
  else if is "ORS" then (upd "outputRecordSep" (VS value) s, None)
  else if is "SUBSEP" then (upd "subscriptSep" (VS value) s, None)
  else if is "RT" then (upd "recordTerminator" (VS value) s, None)
  else if is "FS" then
    (if zlen value <=? 1 then (upd "fieldSep" (VS value) s, None) else (s, Some EUnmodelled))
  else if is "NF" || is "ARGC" || is "RS" || is "INPUTMODE" || is "OUTPUTMODE" then (s, Some EUnmodelled)
  else
    match s "scalarIndexes" with
    | VM m =>
        match mlookup name m with
        | Some (VI i) =>
            match s "globals" with
            | VL l => (upd "globals" (VL (upd_nth (Z.to_nat i) (fun _ => v_numStr value) l)) s, None)
            | _ => (s, Some EUnmodelled)
            end
        | _ => (s, None)                      (* not a variable of the program: ignored *)
        end
    | _ => (s, None)
    end.

Fixpoint set_vars_exec (vars : list (bytes * bytes)) (s : state) : state * option cfgerr :=
  match vars with
  | [] => (s, None)
  | (n, v) :: r =>
      match set_var_exec n v s with
      | (s', Some e) => (s', Some e)
      | (s', None) => set_vars_exec r s'
      end
  end.

(* ---------- the committed classification of the fields ---------- *)
Inductive role :=
| RunState      (* state of one run: must be the same as in a new interpreter at the start of every run *)
| VarState      (* the program's variables: carry over unless ResetVars *)
| RandState          (* random generator: carries over unless ResetRand *)
| ProgramConst  (* set by newInterp from the program, never written again *)
| ConfigSet     (* assigned from the Config (or by the Execute/ExecuteContext prologue) on every run *)
| ConfigOnce    (* built from Config.Funcs on the first run; Funcs must not change between runs (documented) *)
| CtxState      (* meaningful only while checkCtx is true; assigned by ExecuteContext *)
| Cache         (* content-addressed cache or reusable buffer: reset or overwritten before every use *)
| Scratch       (* dead at run boundaries: every read in a run is preceded by a write in that run *)
| LineShadow.   (* settings saved by setLine together with the record (p.line) and read only by ensureFields when it
                   splits that record: written by setLine only; resetCore empties the record, and the empty record
                   has no fields under every setting, so the stale copy cannot be seen before setLine rewrites it *)

Definition role_eqb (a b : role) : bool :=
  match a, b with
  | RunState, RunState | VarState, VarState | RandState, RandState | ProgramConst, ProgramConst
  | ConfigSet, ConfigSet | ConfigOnce, ConfigOnce | CtxState, CtxState | Cache, Cache
  | Scratch, Scratch | LineShadow, LineShadow => true
  | _, _ => false
  end.

Definition roles : list (field * role) :=
  [ ("output", ConfigSet); ("errorOutput", ConfigSet); ("scanner", RunState); ("scanners", RunState);
    ("stdin", ConfigSet); ("filenameIndex", RunState); ("hadFiles", RunState); ("input", RunState);
    ("inputBuffer", Cache); ("inputStreams", RunState); ("outputStreams", RunState);
    ("noExec", ConfigSet); ("noFileWrites", ConfigSet); ("noFileReads", ConfigSet);
    ("shellCommand", ConfigSet); ("csvOutput", Cache); ("noArgVars", ConfigSet);
    ("splitBuffer", Cache); ("openFile", ConfigSet);
    ("globals", VarState); ("stack", Scratch); ("sp", RunState); ("frame", Scratch);
    ("arrays", VarState); ("localArrays", RunState); ("callDepth", RunState);
    ("nativeFuncs", ConfigOnce); ("scalarIndexes", ProgramConst); ("arrayIndexes", ProgramConst);
    ("filename", RunState); ("line", RunState); ("lineIsTrueStr", RunState); ("lineNum", RunState);
    ("fileLineNum", RunState); ("fields", RunState); ("fieldsIsTrueStr", RunState);
    ("numFields", RunState); ("haveFields", RunState);
    ("fieldNames", RunState); ("fieldIndexes", RunState); ("reparseCSV", RunState);
    ("argc", RunState);
    ("convertFormat", VarState); ("outputFormat", VarState); ("fieldSep", VarState);
    ("fieldSepRegex", VarState); ("recordSep", VarState); ("recordSepRegex", VarState);
    ("recordTerminator", VarState); ("outputFieldSep", VarState); ("outputRecordSep", VarState);
    ("subscriptSep", VarState);
    ("matchLength", RunState); ("matchStart", RunState);
    ("inputMode", ConfigSet); ("csvInputConfig", ConfigSet); ("outputMode", ConfigSet);
    ("csvOutputConfig", ConfigSet);
    ("savedFieldSep", VarState); ("savedFieldSepRegex", VarState); ("savedRecordSep", VarState);
    ("savedInputMode", LineShadow); ("savedCSVInputConfig", LineShadow);
    ("program", ProgramConst); ("functions", ProgramConst); ("nums", ProgramConst);
    ("strs", ProgramConst); ("regexes", ProgramConst);
    ("checkCtx", ConfigSet); ("ctx", CtxState); ("ctxDone", CtxState); ("ctxOps", CtxState);
    ("random", RandState); ("randSeed", RandState); ("exitStatus", RunState);
    ("regexCache", Cache); ("formatCache", Cache); ("csvJoinFieldsBuf", Cache);
    ("chars", ConfigSet); ("newlineOutputCRLF", ConfigSet) ].

Definition role_of (f : field) : option role := alookup f roles.
Definition has_role (r : role) (f : field) : bool :=
  match role_of f with Some r' => role_eqb r r' | None => false end.

(* methods called on a field value that change the object it refers to *)
Definition mutating_methods : list (string * string) :=
  [ ("random", "Seed"); ("random", "Float64"); ("csvJoinFieldsBuf", "Reset"); ("csvOutput", "Reset");
    ("scanner", "Scan"); ("recordSepRegex", "Longest") ].
(* ... and those that do not (value receivers, accessors) *)
Definition pure_methods : list (string * string) :=
  [ ("ctx", "Err"); ("csvJoinFieldsBuf", "Bytes"); ("argc", "num"); ("lineNum", "num");
    ("fileLineNum", "num"); ("scanner", "Err"); ("scanner", "Text");
    ("savedFieldSepRegex", "FindAllStringIndex") ].
Definition pair_mem (p : string * string) (l : list (string * string)) : bool :=
  existsb (fun q => String.eqb (fst p) (fst q) && String.eqb (snd p) (snd q)) l.

Definition all_fields : list field := map fst struct_fields.
Definition model_fields : list field := all_fields ++ ["arrays.locals"].

(* fields whose value may change while a program runs (executeAll and everything it calls):
   the generated write set, the objects changed through a method, and the pseudo-field *)
Definition method_mutated : list field :=
  map (fun t => snd (fst t)) (filter (fun t => pair_mem (snd (fst t), snd t) mutating_methods) field_methods).
Definition run_mutable : list field := may_run ++ method_mutated ++ ["arrays.locals"].

(* fields written by nothing but newInterp *)
Definition written_after_new : list field :=
  run_mutable ++ may_setExecuteConfig ++ map w_field fn_resetCore ++ map w_field fn_resetVars ++
  map w_field fn_ResetRand ++ map fst methods_ResetRand ++ map w_field fn_Execute ++ map w_field fn_ExecuteContext.
Definition const_fields : list field := filter (fun f => negb (mem f written_after_new)) all_fields.

(* the observable fields for an entry point: everything but caches and scratch; the context fields
   only under ExecuteContext *)
Definition is_ctx_entry (en : entry) : bool := match en with EExec => false | ECtx _ _ _ => true end.
Definition observable (en : entry) (f : field) : bool :=
  match role_of f with
  | Some Cache | Some Scratch | Some LineShadow | None => false
  | Some CtxState => is_ctx_entry en
  | Some _ => true
  end.
Definition obs_fields (en : entry) : list field := filter (observable en) all_fields.

Definition diff_on (l : list field) (s1 s2 : state) : list field :=
  filter (fun f => negb (val_eqb (s1 f) (s2 f))) l.

(* the interpreter a reused one is compared with when ResetVars / ResetRand are not called:
   a new one into which the variables (random state) of the old one have been copied *)
Definition carry (rv rr : bool) (g fresh : state) : state :=
  fun f => if (negb rv && (has_role VarState f || String.eqb f "arrays.locals")) || (negb rr && has_role RandState f)
           then g f else fresh f.

Definition opt_apply (b : bool) (fn : state -> state) (s : state) : state := if b then fn s else s.

(* model prediction used by the harness: which observable fields differ, after Execute's preparation,
   between the reused interpreter (state g, ResetVars if rv, ResetRand if rr) and a new one *)
Inductive prediction := PDiff (l : list field) | PError | PUnmodelled.
Definition is_unmodelled (e : option cfgerr) : bool := match e with Some EUnmodelled => true | _ => false end.
Definition predict_diff (sv : setvars) (e : envt) (pc : progconst) (en : entry) (c : config)
           (rv rr : bool) (g : state) : prediction :=
  let r := m_prepare sv e en c (opt_apply rv m_resetVars (opt_apply rr (m_resetRand e) g)) in
  let f := m_prepare sv e en c (m_newInterp e pc) in
  if is_unmodelled (snd r) || is_unmodelled (snd f) then PUnmodelled else
  match snd r, snd f with
  | None, None => PDiff (diff_on (obs_fields en) (fst r) (fst f))
  | _, _ => PError
  end.
