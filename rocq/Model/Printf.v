(* C09: models of interp/functions.go parseFmtTypes and sprintf, of the part of
   Go's fmt.Sprintf (fmt/print.go doPrintf, printArg, badVerb; fmt/format.go
   fmtInteger, fmtS, fmtBs, fmtSbx, pad, writePadding) that goawk reaches, and
   of interp/io.go printArgs + interp/value.go str.  Definitions only.
   Floating-point formatting (strconv) is NOT modelled: whenever the text of a
   float64 value would be needed the model answers [Unmod]. *)
From Coq Require Import Ascii String.
From Verif Require Import Lib.Base Lib.Dyadic Lib.Utf8.

(* ASCII literal -> bytes *)
Definition bs (s : string) : bytes :=
  List.map (fun a => Z.of_N (N_of_ascii a)) (list_ascii_of_string s).
Arguments bs s%string.

(* byte-string constants (computed here so that the extracted code has no [string]) *)
Definition s_expected : bytes := Eval vm_compute in bs "expected type specifier after %".
Definition s_invalid : bytes := Eval vm_compute in bs "invalid format type ".
Definition s_int64 : bytes := Eval vm_compute in bs "int64".
Definition s_uint64 : bytes := Eval vm_compute in bs "uint64".
Definition s_string : bytes := Eval vm_compute in bs "string".
Definition s_bytes_t : bytes := Eval vm_compute in bs "[]uint8".
Definition s_float64 : bytes := Eval vm_compute in bs "float64".
Definition s_pctbang : bytes := Eval vm_compute in bs "%!".
Definition s_lpar : bytes := Eval vm_compute in bs "(".
Definition s_eq : bytes := Eval vm_compute in bs "=".
Definition s_rpar : bytes := Eval vm_compute in bs ")".
Definition s_uint8 : bytes := Eval vm_compute in bs "uint8".
Definition s_lbrk : bytes := Eval vm_compute in bs "[".
Definition s_rbrk : bytes := Eval vm_compute in bs "]".
Definition s_badwidth : bytes := Eval vm_compute in bs "%!(BADWIDTH)".
Definition s_badprec : bytes := Eval vm_compute in bs "%!(BADPREC)".
Definition s_noverb : bytes := Eval vm_compute in bs "%!(NOVERB)".
Definition s_missing : bytes := Eval vm_compute in bs "(MISSING)".
Definition s_extra : bytes := Eval vm_compute in bs "%!(EXTRA ".
Definition s_commasp : bytes := Eval vm_compute in bs ", ".
Definition s_fuel : bytes := Eval vm_compute in bs "model: out of fuel".
Definition s_nan : bytes := Eval vm_compute in bs "nan".
Definition s_minf : bytes := Eval vm_compute in bs "-inf".
Definition s_inf : bytes := Eval vm_compute in bs "inf".
Definition s_got : bytes := Eval vm_compute in bs "format error: got ".
Definition s_expected_n : bytes := Eval vm_compute in bs " args, expected ".
Definition s_fmterr : bytes := Eval vm_compute in bs "format error: ".
Definition s_bigint : bytes := Eval vm_compute in bs "*big.Int".
Definition s_nonfinite : bytes := Eval vm_compute in bs "interp.nonFinite".

Definition is_digit (c : Z) : bool := (48 <=? c) && (c <=? 57).

(* strings.IndexByte(" .-+*#0123456789", c) >= 0 *)
Definition is_fmtch (c : Z) : bool :=
  (c =? 32) || (c =? 46) || (c =? 45) || (c =? 43) || (c =? 42) || (c =? 35) || is_digit c.

(* ------------------------------------------------------------------ *)
(* functions.go parseFmtTypes                                          *)
(* ------------------------------------------------------------------ *)

Inductive ty : Type := TyS | TyD | TyU | TyF | TyC | TyP.   (* TyP: a precision given as '*' *)

(* the switch on the conversion byte: rewritten byte and argument type *)
Definition verb_info (c : Z) : option (Z * ty) :=
  if c =? 115 then Some (115, TyS)                                   (* s *)
  else if c =? 100 then Some (100, TyD)                              (* d *)
  else if (c =? 111) || (c =? 120) || (c =? 88) then Some (c, TyU)   (* o x X *)
  else if c =? 105 then Some (100, TyD)                              (* i -> d *)
  else if (c =? 102) || (c =? 101) || (c =? 69) || (c =? 103) || (c =? 71)
       then Some (c, TyF)                                            (* f e E g G *)
  else if c =? 97 then Some (120, TyF)                               (* a -> x *)
  else if c =? 65 then Some (88, TyF)                                (* A -> X *)
  else if c =? 117 then Some (100, TyU)                              (* u -> d *)
  else if c =? 99 then Some (115, TyC)                               (* c -> s *)
  else None.

Definition err_expected : bytes := s_expected.
(* Go renders the offending byte with %q; the model keeps the raw byte *)
Definition err_invalid (c : Z) : bytes := s_invalid ++ [c].

(* strings.IndexByte(" -+#0", c) >= 0 *)
Definition is_flagch (c : Z) : bool :=
  (c =? 32) || (c =? 45) || (c =? 43) || (c =? 35) || (c =? 48).

(* Where the scanner is inside  %[flags][width][.precision]type :
   literal text / just after '%' / in the flags / in a literal width / after a
   '*' width / just after the '.' / in a literal precision / after a '*'
   precision.  (The Go code is a sequence of loops over the same positions; it
   appends the translated directive when it reaches the type, the model emits
   the bytes as it goes: the result is the same string.) *)
Inductive pmode : Type := PLit | PPct | PFlags | PWidth | PWidthDone | PDot | PPrec | PPrecDone.

Definition has_prec (m : pmode) : bool :=
  match m with PDot | PPrec | PPrecDone => true | _ => false end.

Definition pres : Type := (bytes * list ty * list Z)%type.

Definition cons_out (c : Z) (tys : list ty) (sts : list Z) (r : res pres) : res pres :=
  match r with
  | Ok (o, ts, st) => Ok (c :: o, tys ++ ts, sts ++ st)
  | Err m => Err m | Panic => Panic | Unmod => Unmod
  end.

(* [pos]: number of bytes of the translated format before this point *)
Fixpoint pft (m : pmode) (pos : Z) (s : bytes) : res pres :=
  match s with
  | [] => match m with PLit => Ok ([], [], []) | _ => Err err_expected end
  | c :: t =>
    (* the conversion character: rewritten; g and G without precision get C's default .6 *)
    let verb :=
      match verb_info c with
      | Some (c', t') =>
          if ((c' =? 103) || (c' =? 71)) && negb (has_prec m)
          then cons_out 46 [] [] (cons_out 54 [] [] (cons_out c' [t'] [] (pft PLit (pos + 3) t)))
          else cons_out c' [t'] [] (pft PLit (pos + 1) t)
      | None => Err (err_invalid c)
      end in
    let next m' := cons_out c [] [] (pft m' (pos + 1) t) in
    match m with
    | PLit => if c =? 37 then next PPct else next PLit
    | PPct | PFlags =>
        if (match m with PPct => c =? 37 | _ => false end) then next PLit
        else if is_flagch c then next PFlags
        else if c =? 42 then cons_out c [TyD] [] (pft PWidthDone (pos + 1) t)
        else if is_digit c then next PWidth
        else if c =? 46 then next PDot
        else verb
    | PWidth => if is_digit c then next PWidth else if c =? 46 then next PDot else verb
    | PWidthDone => if c =? 46 then next PDot else verb
    | PDot => if c =? 42 then cons_out c [TyP] [pos - 1] (pft PPrecDone (pos + 1) t)
              else if is_digit c then next PPrec else verb
    | PPrec => if is_digit c then next PPrec else verb
    | PPrecDone => verb
    end
  end.

(* translated format, argument types, and for each TyP the offset of its ".*" *)
Definition parse_fmt_types (s : bytes) : res pres := pft PLit 0 s.

(* ------------------------------------------------------------------ *)
(* Go fmt: formatter state and primitives (fmt/format.go)              *)
(* ------------------------------------------------------------------ *)

Record fmts : Type := mkF {
  wid : Z; widP : bool; prec : Z; precP : bool;
  fminus : bool; fplus : bool; fsharp : bool; fspace : bool; fzero : bool }.

Definition f0 : fmts := mkF 0 false 0 false false false false false false.

Definition set_wid (f : fmts) (w : Z) (p : bool) : fmts :=
  mkF w p (prec f) (precP f) (fminus f) (fplus f) (fsharp f) (fspace f) (fzero f).
Definition set_prec (f : fmts) (n : Z) (p : bool) : fmts :=
  mkF (wid f) (widP f) n p (fminus f) (fplus f) (fsharp f) (fspace f) (fzero f).
Definition set_minus (f : fmts) (v : bool) : fmts :=
  mkF (wid f) (widP f) (prec f) (precP f) v (fplus f) (fsharp f) (fspace f) (fzero f).
Definition set_plus (f : fmts) (v : bool) : fmts :=
  mkF (wid f) (widP f) (prec f) (precP f) (fminus f) v (fsharp f) (fspace f) (fzero f).
Definition set_sharp (f : fmts) (v : bool) : fmts :=
  mkF (wid f) (widP f) (prec f) (precP f) (fminus f) (fplus f) v (fspace f) (fzero f).
Definition set_space (f : fmts) (v : bool) : fmts :=
  mkF (wid f) (widP f) (prec f) (precP f) (fminus f) (fplus f) (fsharp f) v (fzero f).
Definition set_zero (f : fmts) (v : bool) : fmts :=
  mkF (wid f) (widP f) (prec f) (precP f) (fminus f) (fplus f) (fsharp f) (fspace f) v.

(* n copies of c; nothing for n <= 0 *)
Definition padding (n : Z) (c : Z) : bytes := Z.iter n (cons c) [].

(* writePadding: zero padding only to the left *)
Definition pad_char (f : fmts) : Z := if fzero f && negb (fminus f) then 48 else 32.
Definition write_padding (f : fmts) (n : Z) : bytes := padding n (pad_char f).

(* pad / padString: width counts runes (utf8.RuneCount) *)
Definition pad (f : fmts) (b : bytes) : bytes :=
  if negb (widP f) || (wid f =? 0) then b
  else let width := wid f - rune_count b in
       if negb (fminus f) then write_padding f width ++ b else b ++ write_padding f width.

(* ldigits / udigits *)
Definition digit_char (upper : bool) (d : Z) : Z :=
  if d <? 10 then 48 + d else (if upper then 55 else 87) + d.

(* for u >= base { buf[i] = digit(u % base); u /= base }; buf[i] = digit(u) *)
Fixpoint go_digits (fuel : nat) (base u : Z) (upper : bool) (acc : bytes) : bytes :=
  match fuel with
  | O => acc
  | S k => if u <? base then digit_char upper u :: acc
           else go_digits k base (u / base) upper (digit_char upper (u mod base) :: acc)
  end.
Definition digits_of (base u : Z) (upper : bool) : bytes :=
  go_digits (S (Z.to_nat (Z.log2 u))) base u upper [].

(* fmt.fmtInteger.  [v] is the mathematical value: of the int64 when [signed],
   of the uint64 otherwise.  base is 10, 8 or 16. *)
Definition fmt_integer (f : fmts) (v : Z) (base : Z) (signed upper : bool) : bytes :=
  let negative := signed && (v <? 0) in
  let u := if negative then - v else v in
  if precP f && (prec f =? 0) && (u =? 0) then padding (wid f) 32
  else
    let p := if precP f then prec f
             else if fzero f && negb (fminus f) && widP f
                  then (if negative || fplus f || fspace f then wid f - 1 else wid f)
                  else 0 in
    let ds := digits_of base u upper in
    let ds := padding (p - zlen ds) 48 ++ ds in
    let ds := if fsharp f then
                if base =? 8 then (match ds with 48 :: _ => ds | _ => 48 :: ds end)
                else if base =? 16 then 48 :: (if upper then 88 else 120) :: ds
                else ds
              else ds in
    let ds := if negative then 45 :: ds
              else if fplus f then 43 :: ds
              else if fspace f then 32 :: ds else ds in
    pad (set_zero f false) ds.

(* truncateString / truncate: keep the first prec runes *)
Definition truncate (f : fmts) (s : bytes) : bytes :=
  if precP f then concat (ztake (prec f) (runes s)) else s.

(* fmtS / fmtBs *)
Definition fmt_s (f : fmts) (s : bytes) : bytes := pad f (truncate f s).

Definition hex2 (upper : bool) (c : Z) : bytes :=
  [digit_char upper (c / 16); digit_char upper (c mod 16)].

Fixpoint sbx_body (f : fmts) (upper first : bool) (s : bytes) : bytes :=
  match s with
  | [] => []
  | c :: t =>
      (if fspace f && negb first
       then 32 :: (if fsharp f then [48; if upper then 88 else 120] else [])
       else []) ++ hex2 upper c ++ sbx_body f upper false t
  end.

(* fmtSbx *)
Definition fmt_sbx (f : fmts) (s : bytes) (upper : bool) : bytes :=
  let length := if precP f && (prec f <? zlen s) then prec f else zlen s in
  let width := 2 * length in
  if width >? 0 then
    let width := if fspace f then (if fsharp f then width * 2 else width) + (length - 1)
                 else if fsharp f then width + 2 else width in
    (if widP f && (wid f >? width) && negb (fminus f) then write_padding f (wid f - width) else [])
    ++ (if fsharp f then [48; if upper then 88 else 120] else [])
    ++ sbx_body f upper true (ztake length s)
    ++ (if widP f && (wid f >? width) && fminus f then write_padding f (wid f - width) else [])
  else if widP f then write_padding f (wid f) else [].

(* ------------------------------------------------------------------ *)
(* Go fmt: printArg / badVerb for the argument types goawk passes      *)
(* ------------------------------------------------------------------ *)

Inductive garg : Type :=
| GInt (v : Z)         (* int64 *)
| GUint (v : Z)        (* uint64 *)
| GStr (s : bytes)     (* string *)
| GBytes (s : bytes)   (* []byte *)
| GFloat (x : fnum)    (* float64 *)
| GBig (v : Z)         (* *big.Int *)
| GNonFinite (x : fnum). (* interp.nonFinite: an infinity or NaN with its own Format method *)

Definition type_name (a : garg) : bytes :=
  match a with
  | GInt _ => s_int64 | GUint _ => s_uint64 | GStr _ => s_string
  | GBytes _ => s_bytes_t | GFloat _ => s_float64
  | GBig _ => s_bigint | GNonFinite _ => s_nonfinite
  end.

(* pp.fmtInteger: the verbs that are valid for integers (among those that can
   reach Go from goawk: d o x X v); None = badVerb *)
Definition int_verb (f : fmts) (v : Z) (signed : bool) (verb : Z) : option bytes :=
  if (verb =? 100) || (verb =? 118) then Some (fmt_integer f v 10 signed false)
  else if verb =? 111 then Some (fmt_integer f v 8 signed false)
  else if verb =? 120 then Some (fmt_integer f v 16 signed false)
  else if verb =? 88 then Some (fmt_integer f v 16 signed true)
  else None.

Definition bad_verb (verb : Z) (tname inner : bytes) : bytes :=
  s_pctbang ++ [verb] ++ s_lpar ++ tname ++ s_eq ++ inner ++ s_rpar.

Fixpoint join (sep : bytes) (l : list bytes) : bytes :=
  match l with
  | [] => []
  | [x] => x
  | x :: r => x ++ sep ++ join sep r
  end.

(* one element of a []byte printed through reflection (printValue, Uint8) *)
Definition byte_elem (f : fmts) (verb : Z) (c : Z) : bytes :=
  match int_verb f c false verb with
  | Some o => o
  | None => bad_verb verb s_uint8 (fmt_integer f c 10 false false)
  end.

(* math/big Int.Format, reached through fmt's Formatter interface: sign, base
   prefix, zeros from the precision or from the 0 flag, digits; padded to the width *)
Definition big_format (f : fmts) (v : Z) (base : Z) (upper : bool) : bytes :=
  let sign := if v <? 0 then [45] else if fplus f then [43] else if fspace f then [32] else [] in
  let prefix := if fsharp f
                then (if base =? 8 then [48] else if base =? 16 then [48; if upper then 88 else 120] else [])
                else [] in
  let digits := digits_of base (Z.abs v) upper in
  if precP f && negb (zlen digits <? prec f) && (v =? 0) && (prec f =? 0) then []
  else
    let zeros := if precP f && (zlen digits <? prec f) then prec f - zlen digits else 0 in
    let length := zlen sign + zlen prefix + zeros + zlen digits in
    let d := wid f - length in
    if widP f && (length <? wid f) then
      if fminus f then sign ++ prefix ++ padding zeros 48 ++ digits ++ padding d 32
      else if fzero f && negb (precP f) then sign ++ prefix ++ padding d 48 ++ digits
      else padding d 32 ++ sign ++ prefix ++ padding zeros 48 ++ digits
    else sign ++ prefix ++ padding zeros 48 ++ digits.

(* interp.nonFinite.Format (functions.go): inf / nan, upper case for E G X, a sign
   for -inf or when + / space ask for one, padded with spaces to the width *)
Definition nf_format (f : fmts) (x : fnum) (verb : Z) : bytes :=
  let upper := (verb =? 69) || (verb =? 71) || (verb =? 88) in
  let word := match x with
              | FInf _ => if upper then [73; 78; 70] else [105; 110; 102]
              | _ => if upper then [78; 65; 78] else [110; 97; 110]
              end in
  let sign := match x with
              | FInf true => [45]
              | _ => if fplus f then [43] else if fspace f then [32] else []
              end in
  let s := sign ++ word in
  if widP f && (wid f >? zlen s) then
    (if fminus f then s ++ padding (wid f - zlen s) 32 else padding (wid f - zlen s) 32 ++ s)
  else s.

Definition print_arg (f : fmts) (a : garg) (verb : Z) : res bytes :=
  match a with
  | GInt v => Ok (match int_verb f v true verb with
                  | Some o => o
                  | None => bad_verb verb s_int64 (fmt_integer f v 10 true false)
                  end)
  | GUint v => Ok (match int_verb f v false verb with
                   | Some o => o
                   | None => bad_verb verb s_uint64 (fmt_integer f v 10 false false)
                   end)
  | GStr s =>
      Ok (if (verb =? 115) || (verb =? 118) then fmt_s f s
          else if verb =? 120 then fmt_sbx f s false
          else if verb =? 88 then fmt_sbx f s true
          else bad_verb verb s_string (fmt_s f s))
  | GBytes s =>
      Ok (if verb =? 115 then fmt_s f s
          else if verb =? 120 then fmt_sbx f s false
          else if verb =? 88 then fmt_sbx f s true
          else s_lbrk ++ join [32] (List.map (byte_elem f verb) s) ++ s_rbrk)
  | GFloat _ => Unmod
  | GBig v =>
      if (verb =? 100) || (verb =? 118) || (verb =? 115) then Ok (big_format f v 10 false)
      else if verb =? 111 then Ok (big_format f v 8 false)
      else if verb =? 120 then Ok (big_format f v 16 false)
      else if verb =? 88 then Ok (big_format f v 16 true)
      else Unmod
  | GNonFinite x => Ok (nf_format f x verb)
  end.

(* ------------------------------------------------------------------ *)
(* Go fmt: doPrintf                                                    *)
(* ------------------------------------------------------------------ *)

Definition too_large (x : Z) : bool := (x >? 1000000) || (x <? -1000000).

(* flags loop of doPrintf (the fast path for lower-case verbs gives the same
   result as the general path and is not modelled separately) *)
Fixpoint go_flags (s : bytes) (f : fmts) : fmts * bytes :=
  match s with
  | c :: t =>
      if c =? 35 then go_flags t (set_sharp f true)
      else if c =? 48 then go_flags t (set_zero f true)
      else if c =? 43 then go_flags t (set_plus f true)
      else if c =? 45 then go_flags t (set_minus f true)
      else if c =? 32 then go_flags t (set_space f true)
      else (f, s)
  | [] => (f, [])
  end.

(* parsenum: on overflow the rest of the format is swallowed (newi = end) *)
Fixpoint parsenum (s : bytes) (num : Z) (isnum : bool) : Z * bool * bytes :=
  match s with
  | c :: t =>
      if is_digit c then
        if too_large num then (0, false, [])
        else parsenum t (num * 10 + (c - 48)) true
      else (num, isnum, s)
  | [] => (num, isnum, [])
  end.

(* intFromArg on the remaining arguments a[argNum:] *)
Definition int_from_arg (args : list garg) : Z * bool * list garg :=
  match args with
  | [] => (0, false, [])
  | a :: rest =>
      let '(num, isint) :=
        match a with
        | GInt n => (n, true)
        | GUint n => if n <? two63 then (n, true) else (0, false)
        | _ => (0, false)
        end in
      if too_large num then (0, false, rest) else (num, isint, rest)
  end.

Definition starts_bracket (s : bytes) : bool :=
  match s with 91 :: _ => true | _ => false end.

(* One directive, [s] = the format after the '%'.
   Result: output, rest of the format, remaining arguments, stop (= NOVERB: the
   format loop is left).  An explicit argument index '[' is never produced by
   parseFmtTypes; the model declines it. *)
(* "Do we have width?" *)
Definition go_width (f : fmts) (s1 : bytes) (args : list garg) : bytes * fmts * bytes * list garg :=
  match s1 with
  | 42 :: t =>
      let '(num, ok, args') := int_from_arg args in
      let f := set_wid f num ok in
      let f := if num <? 0 then set_zero (set_minus (set_wid f (- num) ok) true) false else f in
      (if ok then [] else s_badwidth, f, t, args')
  | _ =>
      let '(num, ok, r) := parsenum s1 0 false in
      ([], set_wid f num ok, r, args)
  end.

(* "Do we have precision?"  (if i+1 < end && format[i] == '.') *)
Definition go_prec (f : fmts) (s2 : bytes) (args : list garg) : res (bytes * fmts * bytes * list garg) :=
  match s2 with
  | 46 :: ((_ :: _) as t) =>
      if starts_bracket t then Unmod else
      match t with
      | 42 :: t' =>
          let '(num, ok, args') := int_from_arg args in
          let '(num, ok) := if num <? 0 then (0, false) else (num, ok) in
          Ok (if ok then [] else s_badprec, set_prec f num ok, t', args')
      | _ =>
          let '(num, ok, r) := parsenum t 0 false in
          Ok ([], (if ok then set_prec f num true else set_prec f 0 true), r, args)
      end
  | _ => Ok ([], f, s2, args)
  end.

(* the verb: NOVERB / %% / MISSING / printArg *)
Definition go_verb (out : bytes) (f : fmts) (s3 : bytes) (args : list garg)
  : res (bytes * bytes * list garg * bool) :=
  if starts_bracket s3 then Unmod else
  match s3 with
  | [] => Ok (out ++ s_noverb, [], args, true)
  | verb :: rest =>
      if 128 <=? verb then Unmod
      else if verb =? 37 then Ok (out ++ [37], rest, args, false)
      else match args with
           | [] => Ok (out ++ s_pctbang ++ [verb] ++ s_missing, rest, args, false)
           | a :: args' =>
               match print_arg f a verb with
               | Ok o => Ok (out ++ o, rest, args', false)
               | Err m => Err m | Panic => Panic | Unmod => Unmod
               end
           end
  end.

Definition go_directive (s : bytes) (args : list garg) : res (bytes * bytes * list garg * bool) :=
  let '(f, s1) := go_flags s f0 in
  if starts_bracket s1 then Unmod else
  let '(out1, f, s2, args) := go_width f s1 args in
  match go_prec f s2 args with
  | Ok (out2, f, s3, args) => go_verb (out1 ++ out2) f s3 args
  | Err m => Err m | Panic => Panic | Unmod => Unmod
  end.

Fixpoint extra_items (args : list garg) : res (list bytes) :=
  match args with
  | [] => Ok []
  | a :: r =>
      match print_arg f0 a 118, extra_items r with
      | Ok o, Ok os => Ok ((type_name a ++ s_eq ++ o) :: os)
      | Ok _, e => e
      | Err m, _ => Err m | Panic, _ => Panic | Unmod, _ => Unmod
      end
  end.

Definition go_extra (args : list garg) : res bytes :=
  match args with
  | [] => Ok []
  | _ => match extra_items args with
         | Ok items => Ok (s_extra ++ join s_commasp items ++ s_rpar)
         | Err m => Err m | Panic => Panic | Unmod => Unmod
         end
  end.

(* literal text up to the next '%' *)
Fixpoint span_lit (s : bytes) : bytes * bytes :=
  match s with
  | c :: t => if c =? 37 then ([], s) else let '(l, r) := span_lit t in (c :: l, r)
  | [] => ([], [])
  end.

Definition out_of_fuel : bytes := s_fuel.

Fixpoint go_printf (fuel : nat) (s : bytes) (args : list garg) : res bytes :=
  match fuel with
  | O => Err out_of_fuel
  | S k =>
      let '(lit, r) := span_lit s in
      match r with
      | [] => match go_extra args with Ok e => Ok (lit ++ e) | x => x end
      | _ :: r1 =>
          match go_directive r1 args with
          | Ok (out, rest, args', stop) =>
              if stop then match go_extra args' with Ok e => Ok (lit ++ out ++ e) | x => x end
              else match go_printf k rest args' with
                   | Ok tl => Ok (lit ++ out ++ tl)
                   | x => x
                   end
          | Err m => Err m | Panic => Panic | Unmod => Unmod
          end
      end
  end.

(* fmt.Sprintf(format, args...) *)
Definition go_sprintf (s : bytes) (args : list garg) : res bytes :=
  go_printf (S (length s)) s args.

(* ------------------------------------------------------------------ *)
(* interp/value.go and the argument conversion of functions.go sprintf *)
(* ------------------------------------------------------------------ *)

(* An AWK value as far as sprintf/print look at it.  The string->number
   conversions (parseFloatPrefix for num(), parseFloat for isTrueStr) belong to
   another property (C05): their results are carried as given data. *)
Inductive value : Type :=
| VNum (x : fnum)
| VNull
| VStr (s : bytes) (n : fnum)                         (* n = parseFloatPrefix s *)
| VNumStr (s : bytes) (n : fnum) (strict : option fnum).  (* strict = parseFloat s, None on error *)

Definition v_num (v : value) : fnum :=
  match v with VNum x => x | VNull => FFin 0 0 | VStr _ n => n | VNumStr _ n _ => n end.

(* isTrueStr *)
Definition v_is_true_str (v : value) : fnum * bool :=
  match v with
  | VStr _ _ => (FFin 0 0, true)
  | VNumStr _ _ None => (FFin 0 0, true)
  | VNumStr _ _ (Some x) => (x, false)
  | VNum x => (x, false)
  | VNull => (FFin 0 0, false)
  end.

(* decimal text of an integer (strconv.FormatInt base 10) *)
Definition dec (z : Z) : bytes :=
  if z <? 0 then 45 :: digits_of 10 (- z) false else digits_of 10 z false.

(* value.str(floatFormat): [ffmt] stands for the formatting of a non-integral
   finite number with CONVFMT/OFMT (strconv / fmt, not modelled).
   v.n == float64(int64(v.n)): int64() is f2i64; converting that int64 back is
   exact whenever the comparison can succeed (integral double, or -2^63). *)
Definition num_str (ffmt : fnum -> res bytes) (x : fnum) : res bytes :=
  match x with
  | FNaN => Ok s_nan
  | FInf true => Ok s_minf
  | FInf false => Ok s_inf
  | FFin _ _ => if feq x (fnum_of_Z (f2i64 x)) then Ok (dec (f2i64 x)) else ffmt x
  end.

Definition v_str (ffmt : fnum -> res bytes) (v : value) : res bytes :=
  match v with
  | VNum x => num_str ffmt x
  | VNull => Ok []
  | VStr s _ => Ok s
  | VNumStr s _ _ => Ok s
  end.

(* amd64: byte(n) and rune(n) of a float64 compile to CVTTSD2SL: truncation when
   the result fits int32, else the "integer indefinite" value -2^31 *)
Definition f2i32 (x : fnum) : Z :=
  match x with
  | FFin m e => let t := ftrunc m e in
                if (- 2147483648 <=? t) && (t <? 2147483648) then t else - 2147483648
  | _ => - 2147483648
  end.

(* the `case 'c'` arm *)
Definition conv_c (chars : bool) (ffmt : fnum -> res bytes) (a : value) : res bytes :=
  let '(n, isstr) := v_is_true_str a in
  if isstr then
    do s <- v_str ffmt a;
    match s with
    | [] => Ok [0]
    | b0 :: _ => if chars then slice s 0 (snd (decode_rune s)) else Ok [b0]
    end
  else if chars then Ok (encode_rune (f2i32 n))
  else Ok [(f2i32 n) mod 256].

Definition conv_arg (chars : bool) (ffmt : fnum -> res bytes) (t : ty) (a : value) : res garg :=
  match t with
  | TyS => do s <- v_str ffmt a; Ok (GStr s)
  | TyD | TyP =>
      (* n >= 1<<63 || n < -1<<63, not infinite: big.NewFloat(n).Int(nil); else int64(n).
         (the comparisons are made on the truncation: the same for every double) *)
      Ok (match v_num a with
          | FFin m e => let t := ftrunc m e in
                        if (two63 <=? t) || (t <? - two63) then GBig t else GInt (f2i64 (FFin m e))
          | x => GInt (f2i64 x)
          end)
  | TyF => Ok (match v_num a with FFin m e => GFloat (FFin m e) | x => GNonFinite x end)
  | TyU =>
      (* toUint64: the upper half of the uint64 range directly, everything else through int64 *)
      Ok (match v_num a with
          | FFin m e => let t := ftrunc m e in
                        if (two63 <=? t) && (t <? two64) then GUint t else GUint (i64_to_u64 (f2i64 (FFin m e)))
          | x => GUint (i64_to_u64 (f2i64 x))
          end)
  | TyC => do c <- conv_c chars ffmt a; Ok (GBytes c)
  end.

Definition cons_arg (g : garg) (r : res (bytes * list garg)) : res (bytes * list garg) :=
  match r with
  | Ok (fm, gs) => Ok (fm, g :: gs)
  | Err m => Err m | Panic => Panic | Unmod => Unmod
  end.

(* for i, t := range types { a := args[i] ... }: the converted arguments and the
   format, from which the ".*" of a negative '*' precision has been removed
   ([removed] bytes so far; [stars] the offsets still to come) *)
Fixpoint conv_args (chars : bool) (ffmt : fnum -> res bytes) (types : list ty) (args : list value) (i : Z)
  (format : bytes) (stars : list Z) (removed : Z) : res (bytes * list garg) :=
  match types with
  | [] => Ok (format, [])
  | t :: ts =>
      do a <- index args i;
      match t with
      | TyP =>
          let n := f2i64 (v_num a) in
          match stars with
          | [] => Panic                                     (* stars[0] *)
          | off :: stars' =>
              if n <? 0 then
                match ts with
                | [] => Panic                               (* types[i+1] *)
                | TyF :: _ => cons_arg (GInt 6) (conv_args chars ffmt ts args (i + 1) format stars' removed)
                | _ =>
                    do f1 <- slice format 0 (off - removed);
                    do f2 <- slice format (off - removed + 2) (zlen format);
                    conv_args chars ffmt ts args (i + 1) (f1 ++ f2) stars' (removed + 2)
                end
              else cons_arg (GInt n) (conv_args chars ffmt ts args (i + 1) format stars' removed)
          end
      | _ =>
          do g <- conv_arg chars ffmt t a;
          cons_arg g (conv_args chars ffmt ts args (i + 1) format stars removed)
      end
  end.

Definition err_args (got want : Z) : bytes :=
  s_got ++ dec got ++ s_expected_n ++ dec want.

(* functions.go sprintf *)
Definition sprintf (chars : bool) (ffmt : fnum -> res bytes) (format : bytes) (args : list value) : res bytes :=
  match parse_fmt_types format with
  | Ok (gofmt, types, stars) =>
      if zlen types >? zlen args then Err (err_args (zlen args) (zlen types))
      else do fc <- conv_args chars ffmt types args 0 gofmt stars 0; go_sprintf (fst fc) (snd fc)
  | Err m => Err (s_fmterr ++ m)
  | Panic => Panic
  | Unmod => Unmod
  end.

(* ------------------------------------------------------------------ *)
(* interp/io.go printArgs (default output mode), printLine             *)
(* ------------------------------------------------------------------ *)

Fixpoint print_fields (ffmt : fnum -> res bytes) (ofs : bytes) (first : bool) (args : list value) : res bytes :=
  match args with
  | [] => Ok []
  | a :: r =>
      do s <- v_str ffmt a;
      do tl <- print_fields ffmt ofs false r;
      Ok ((if first then [] else ofs) ++ s ++ tl)
  end.

Definition print_args (ffmt : fnum -> res bytes) (ofs ors : bytes) (args : list value) : res bytes :=
  do body <- print_fields ffmt ofs true args; Ok (body ++ ors).

(* the executable instance declines every float-to-text conversion *)
Definition ffmt_unmod (x : fnum) : res bytes := Unmod.
