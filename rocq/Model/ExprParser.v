(* C04 — token-level model of goawk's recursive-descent expression parser
   (parser/parser.go: expr/printExpr, getline, _assign, _cond, binaryLeft (|| && + - * / %), _in,
   _match, _compare, concat, pow, postIncr, primary, optionalLValue, regexStr, exprList, userCall,
   simpleStmt's print/printf part).  One model function per Go function:

     p_lv n l pc pend ts   = the Go function of level l, called with token list ts
                             (pc = true inside the printExpr tower; pend = p.pendingGetlineLeft);
                             every level function of parser.go has the shape
                                 expr := higher(); <suffix / loop>
                             which is  p_lv = (p_lv (higher l)) then (after l).
     after n l pc e ts     = the part of the level-l function after its first higher() call
                             returned e with ts remaining.
     primary, opt_lvalue, exprlist, ucall_args, builtin, sprintf_args = the Go functions of the same name.

   Fuel n decreases at every call; PFuel is the distinguished out-of-fuel outcome.
   Errors (the parser's panic with *PositionError) are PErr: message and position belong to C03.
   Definitions only. *)
From Verif Require Import Lib.Base Model.ExprAst.

Inductive pres (A : Type) : Type :=
| POk (a : A)
| PErr
| PFuel
| PUnmod.
Arguments POk {A} a.
Arguments PErr {A}.
Arguments PFuel {A}.
Arguments PUnmod {A}.

Definition pbind {A B} (r : pres A) (f : A -> pres B) : pres B :=
  match r with POk a => f a | PErr => PErr | PFuel => PFuel | PUnmod => PUnmod end.
Notation "'dop' x <- r ; k" := (pbind r (fun x => k)) (at level 200, x pattern, r at level 100, k at level 200).

(* the Go functions, in the order _assign calls them *)
Inductive lvl :=
| LExpr        (* _assign: expr() / printExpr() *)
| LGetline     (* getline() *)
| LCond        (* cond() / printCond() *)
| LOr | LAnd | LIn | LMatch | LCompare | LConcat | LAdd | LMul | LPow | LPostIncr
| LPrimary.

Definition higher (pc : bool) (l : lvl) : lvl :=
  match l with
  | LExpr => if pc then LCond else LGetline
  | LGetline => LCond
  | LCond => LOr | LOr => LAnd | LAnd => LIn | LIn => LMatch | LMatch => LCompare
  | LCompare => LConcat | LConcat => LAdd | LAdd => LMul | LMul => LPow | LPow => LPostIncr
  | LPostIncr => LPrimary | LPrimary => LPrimary
  end.

(* optionalNewlines *)
Fixpoint skip_nl (ts : list tok) : list tok :=
  match ts with TNewline :: r => skip_nl r | _ => ts end.

(* commaNewlines *)
Definition comma_nl (ts : list tok) : pres (list tok) :=
  match ts with TComma :: r => POk (skip_nl r) | _ => PErr end.

Definition expect_rparen (ts : list tok) : pres (list tok) :=
  match ts with TRParen :: r => POk r | _ => PErr end.
Definition expect_lparen (ts : list tok) : pres (list tok) :=
  match ts with TLParen _ :: r => POk r | _ => PErr end.
Definition expect_rbracket (ts : list tok) : pres (list tok) :=
  match ts with TRBracket :: r => POk r | _ => PErr end.

(* the assignment operators matched by _assign; None = plain "=" handled separately *)
Inductive asgop := AsgPlain | AsgAug (op : binop).
Definition assign_op (t : tok) : option asgop :=
  match t with
  | TAssign => Some AsgPlain
  | TAddAssign => Some (AsgAug BAdd) | TDivAssign => Some (AsgAug BDiv) | TModAssign => Some (AsgAug BMod)
  | TMulAssign => Some (AsgAug BMul) | TPowAssign => Some (AsgAug BPow) | TSubAssign => Some (AsgAug BSub)
  | _ => None
  end.

Definition make_assign (l : expr) (op : asgop) (r : expr) : expr :=
  match op with AsgPlain => EAssign l r | AsgAug b => EAugAssign b l r end.

(* operators for which _assign back-tracks ("1 && x = 1") *)
Definition backtrack_op (b : binop) : bool :=
  match b with
  | BAnd | BOr | BMatch | BNotMatch | BEq | BNe | BLt | BLe | BGe | BGt => true
  | _ => false
  end.

(* _compare's operator list: printCompare has no GREATER *)
Definition cmp_op (pc : bool) (t : tok) : option binop :=
  match t with
  | TEquals => Some BEq | TNotEquals => Some BNe | TLess => Some BLt | TLte => Some BLe | TGte => Some BGe
  | TGreater => if pc then None else Some BGt
  | _ => None
  end.

(* concat's start-token set *)
Definition concat_start (t : tok) : bool :=
  match t with
  | TDollar | TAt | TNot | TName _ | TNumber _ | TString _ | TLParen _ | TIncr | TDecr | TFunc _ => true
  | _ => false
  end.

Definition add_op (t : tok) : option binop :=
  match t with TAdd => Some BAdd | TSub => Some BSub | _ => None end.
Definition mul_op (t : tok) : option binop :=
  match t with TMul => Some BMul | TDiv => Some BDiv | TMod => Some BMod | _ => None end.

(* exprList's stop set *)
Definition exprlist_stop (ts : list tok) : bool :=
  match ts with
  | TNewline :: _ | TSemicolon :: _ | TRBrace :: _ | TRBracket :: _ | TRParen :: _
  | TGreater :: _ | TPipe :: _ | TAppend :: _ => true
  | _ => false
  end.

(* argument disciplines of the built-in calls in primary() *)
Inductive fkind := KSubGsub | KSplit | KMatch | KRand | KOpt1 | KLength | KSubstr | KSprintf | KOne | KTwo.
Definition fn_kind (f : bfn) : fkind :=
  match f with
  | FSub | FGsub => KSubGsub
  | FSplit => KSplit
  | FMatch => KMatch
  | FRand => KRand
  | FSrand | FFflush => KOpt1
  | FLength => KLength
  | FSubstr => KSubstr
  | FSprintf => KSprintf
  | FCos | FSin | FExp | FLog | FSqrt | FInt | FTolower | FToupper | FSystem | FClose => KOne
  | FAtan2 | FIndex => KTwo
  end.

Definition R := pres (expr * list tok).

Fixpoint p_lv (n : nat) (l : lvl) (pc : bool) (pend : option expr) (ts : list tok) {struct n} : R :=
  match n with
  | O => PFuel
  | S n =>
    match l with
    | LPrimary => primary n pend ts
    | LGetline =>                       (* getline(): p.pendingGetlineLeft = nil; left := p.cond() *)
        dop (e, ts') <- p_lv n LCond pc None ts; after n l pc e ts'
    | _ => dop (e, ts') <- p_lv n (higher pc l) pc pend ts; after n l pc e ts'
    end
  end

with after (n : nat) (l : lvl) (pc : bool) (e : expr) (ts : list tok) {struct n} : R :=
  match n with
  | O => PFuel
  | S n =>
    match l with
    | LExpr =>                          (* _assign *)
        match ts with
        | t :: r =>
          match assign_op t with
          | Some op =>
              if is_named_field e then PErr else
              dop (rgt, ts') <- p_lv n LExpr pc None r;
              if is_lvalue e then POk (make_assign e op rgt, ts')
              else match e with
                   | EBinary bop bl br =>
                       if is_lvalue br && backtrack_op bop
                       then POk (EBinary bop bl (make_assign br op rgt), ts')
                       else PErr
                   | _ => PErr
                   end
          | None => POk (e, ts)
          end
        | [] => POk (e, ts)
        end
    | LGetline =>                       (* getline(): if p.tok == PIPE { pending = left; return p.cond() } *)
        match ts with
        | TPipe :: _ => p_lv n LCond false (Some e) ts
        | _ => POk (e, ts)
        end
    | LCond =>                          (* _cond(higher, branch): branch = expr / printExpr, as the tower *)
        match ts with
        | TQuestion :: r =>
            dop (t, ts1) <- p_lv n LExpr pc None (skip_nl r);
            match ts1 with
            | TColon :: r2 =>
                dop (f, ts2) <- p_lv n LExpr pc None (skip_nl r2);
                POk (ECond e t f, ts2)
            | _ => PErr
            end
        | _ => POk (e, ts)
        end
    | LOr =>                            (* binaryLeft(and, true, OR) *)
        match ts with
        | TOr :: r =>
            dop (rgt, ts') <- p_lv n LAnd pc None (skip_nl r);
            after n LOr pc (EBinary BOr e rgt) ts'
        | _ => POk (e, ts)
        end
    | LAnd =>
        match ts with
        | TAnd :: r =>
            dop (rgt, ts') <- p_lv n LIn pc None (skip_nl r);
            after n LAnd pc (EBinary BAnd e rgt) ts'
        | _ => POk (e, ts)
        end
    | LIn =>                            (* _in: for p.tok == IN { next; expectName } *)
        match ts with
        | TIn :: TName a :: r => after n LIn pc (EIn [e] a) r
        | TIn :: _ => PErr
        | _ => POk (e, ts)
        end
    | LMatch =>                         (* _match: right := regexStr(higher), no loop *)
        match ts with
        | TMatch :: r => dop (rgt, ts') <- regex_str n LCompare pc r; POk (EBinary BMatch e rgt, ts')
        | TNotMatch :: r => dop (rgt, ts') <- regex_str n LCompare pc r; POk (EBinary BNotMatch e rgt, ts')
        | _ => POk (e, ts)
        end
    | LCompare =>                       (* _compare: right := concat(), no loop *)
        match ts with
        | t :: r =>
          match cmp_op pc t with
          | Some op => dop (rgt, ts') <- p_lv n LConcat pc None r; POk (EBinary op e rgt, ts')
          | None => POk (e, ts)
          end
        | [] => POk (e, ts)
        end
    | LConcat =>                        (* concat: loop while the token can start an operand *)
        match ts with
        | t :: _ =>
          if concat_start t then
            dop (rgt, ts') <- p_lv n LAdd pc None ts;
            after n LConcat pc (EBinary BConcat e rgt) ts'
          else POk (e, ts)
        | [] => POk (e, ts)
        end
    | LAdd =>
        match ts with
        | t :: r =>
          match add_op t with
          | Some op => dop (rgt, ts') <- p_lv n LMul pc None r; after n LAdd pc (EBinary op e rgt) ts'
          | None => POk (e, ts)
          end
        | [] => POk (e, ts)
        end
    | LMul =>
        match ts with
        | t :: r =>
          match mul_op t with
          | Some op => dop (rgt, ts') <- p_lv n LPow pc None r; after n LMul pc (EBinary op e rgt) ts'
          | None => POk (e, ts)
          end
        | [] => POk (e, ts)
        end
    | LPow =>                           (* right-associative: right := p.pow() *)
        match ts with
        | TPow :: r => dop (rgt, ts') <- p_lv n LPow pc None r; POk (EBinary BPow e rgt, ts')
        | _ => POk (e, ts)
        end
    | LPostIncr =>
        match ts with
        | TIncr :: r => if is_lvalue e then POk (EIncr IIncr false e, r) else POk (e, ts)
        | TDecr :: r => if is_lvalue e then POk (EIncr IDecr false e, r) else POk (e, ts)
        | _ => POk (e, ts)
        end
    | LPrimary => POk (e, ts)
    end
  end

(* regexStr(parse): REGEX | parse() *)
with regex_str (n : nat) (l : lvl) (pc : bool) (ts : list tok) {struct n} : R :=
  match n with
  | O => PFuel
  | S n =>
    match ts with
    | TRegex s :: r => POk (EStrRegex s, r)
    | TDiv :: _ | TDivAssign :: _ => PUnmod      (* ScanRegex not delivered as TRegex: not modelled *)
    | _ => p_lv n l pc None ts
    end
  end

with primary (n : nat) (pend : option expr) (ts : list tok) {struct n} : R :=
  match n with
  | O => PFuel
  | S n =>
    match pend with
    | Some lft =>                      (* expect(PIPE); expect(GETLINE); target := optionalLValue() *)
        match ts with
        | TPipe :: TGetline :: r =>
            dop (tg, r') <- opt_lvalue n r; POk (EGetline (Some lft) tg None, r')
        | _ => PErr
        end
    | None =>
      match ts with
      | TNumber s :: r => POk (ENum s, r)
      | TString s :: r => POk (EStr s, r)
      | TRegex s :: r => POk (ERegex s, r)
      | TDiv :: _ | TDivAssign :: _ => PUnmod
      | TDollar :: r =>
          dop (i, r') <- primary n None r;
          match r' with
          | TIncr :: r'' => POk (EIncr IIncr false (EField i), r'')
          | TDecr :: r'' => POk (EIncr IDecr false (EField i), r'')
          | _ => POk (EField i, r')
          end
      | TAt :: r => dop (i, r') <- primary n None r; POk (ENamedField i, r')
      | TNot :: r => dop (v, r') <- p_lv n LPow false None r; POk (EUnary UNot v, r')
      | TAdd :: r => dop (v, r') <- p_lv n LPow false None r; POk (EUnary UPlus v, r')
      | TSub :: r => dop (v, r') <- p_lv n LPow false None r; POk (EUnary UMinus v, r')
      | TIncr :: r =>
          dop (tg, r') <- opt_lvalue n r;
          match tg with Some x => POk (EIncr IIncr true x, r') | None => PErr end
      | TDecr :: r =>
          dop (tg, r') <- opt_lvalue n r;
          match tg with Some x => POk (EIncr IDecr true x, r') | None => PErr end
      | TName s :: r =>
          match r with
          | TLBracket :: r1 =>
              dop (idx, r2) <- exprlist n false true r1;
              match idx with
              | [] => PErr
              | _ => dop r3 <- expect_rbracket r2; POk (EIndex s idx, r3)
              end
          | TLParen false :: r1 =>       (* no space before "(": user call *)
              dop (args, r2) <- ucall_args n true r1;
              dop r3 <- expect_rparen r2; POk (EUserCall s args, r3)
          | _ => POk (EVar s, r)
          end
      | TLParen _ :: r =>
          dop (es, r1) <- exprlist n false true r;
          match es with
          | [] => PErr
          | [e] => dop r2 <- expect_rparen r1; POk (EGroup e, r2)
          | _ =>
              dop r2 <- expect_rparen r1;
              match r2 with
              | TIn :: TName a :: r3 => POk (EIn es a, r3)
              | TIn :: _ => PErr
              | _ => POk (EMulti es, r2)
              end
          end
      | TGetline :: r =>
          dop (tg, r1) <- opt_lvalue n r;
          match r1 with
          | TLess :: r2 => dop (f, r3) <- primary n None r2; POk (EGetline None tg (Some f), r3)
          | _ => POk (EGetline None tg None, r1)
          end
      | TFunc f :: r => builtin n f r
      | _ => PErr
      end
    end
  end

(* optionalLValue *)
with opt_lvalue (n : nat) (ts : list tok) {struct n} : pres (option expr * list tok) :=
  match n with
  | O => PFuel
  | S n =>
    match ts with
    | TName s :: r =>
        match r with
        | TLParen false :: _ => POk (None, ts)      (* PeekByte() == '(' : a call, not an lvalue *)
        | TLBracket :: r1 =>
            dop (idx, r2) <- exprlist n false true r1;
            match idx with
            | [] => PErr
            | _ => dop r3 <- expect_rbracket r2; POk (Some (EIndex s idx), r3)
            end
        | _ => POk (Some (EVar s), r)
        end
    | TDollar :: r => dop (i, r') <- primary n None r; POk (Some (EField i), r')
    | _ => POk (None, ts)
    end
  end

(* exprList(parse) with parse = expr (pc=false) or printExpr (pc=true) *)
with exprlist (n : nat) (pc : bool) (first : bool) (ts : list tok) {struct n} : pres (list expr * list tok) :=
  match n with
  | O => PFuel
  | S n =>
    if exprlist_stop ts then POk ([], ts) else
    dop ts1 <- (if first then POk ts else comma_nl ts);
    dop (e, ts2) <- p_lv n LExpr pc None ts1;
    dop (es, ts3) <- exprlist n pc false ts2;
    POk (e :: es, ts3)
  end

(* userCall's argument loop: for !matches(NEWLINE, RPAREN) *)
with ucall_args (n : nat) (first : bool) (ts : list tok) {struct n} : pres (list expr * list tok) :=
  match n with
  | O => PFuel
  | S n =>
    match ts with
    | TNewline :: _ | TRParen :: _ => POk ([], ts)
    | _ =>
      dop ts1 <- (if first then POk ts else comma_nl ts);
      dop (e, ts2) <- p_lv n LExpr false None ts1;
      dop (es, ts3) <- ucall_args n false ts2;
      POk (e :: es, ts3)
    end
  end

(* sprintf's loop: for p.tok == COMMA *)
with sprintf_args (n : nat) (ts : list tok) {struct n} : pres (list expr * list tok) :=
  match n with
  | O => PFuel
  | S n =>
    match ts with
    | TComma :: r =>
        dop (e, ts1) <- p_lv n LExpr false None (skip_nl r);
        dop (es, ts2) <- sprintf_args n ts1;
        POk (e :: es, ts2)
    | _ => POk ([], ts)
    end
  end

(* the built-in function cases of primary(); ts = tokens after the function token *)
with builtin (n : nat) (f : bfn) (ts : list tok) {struct n} : R :=
  match n with
  | O => PFuel
  | S n =>
    match fn_kind f with
    | KSubGsub =>
        dop r0 <- expect_lparen ts;
        dop (re, r1) <- regex_str n LExpr false r0;
        dop r2 <- comma_nl r1;
        dop (repl, r3) <- p_lv n LExpr false None r2;
        match r3 with
        | TComma :: _ =>
            dop r4 <- comma_nl r3;
            dop (target, r5) <- p_lv n LExpr false None r4;
            if is_lvalue target
            then dop r6 <- expect_rparen r5; POk (ECall f [re; repl; target], r6)
            else PErr
        | _ => dop r4 <- expect_rparen r3; POk (ECall f [re; repl], r4)
        end
    | KSplit =>
        dop r0 <- expect_lparen ts;
        dop (s, r1) <- p_lv n LExpr false None r0;
        dop r2 <- comma_nl r1;
        match r2 with
        | TName a :: r3 =>
            match r3 with
            | TComma :: _ =>
                dop r4 <- comma_nl r3;
                dop (re, r5) <- regex_str n LExpr false r4;
                dop r6 <- expect_rparen r5; POk (ECall f [s; EVar a; re], r6)
            | _ => dop r4 <- expect_rparen r3; POk (ECall f [s; EVar a], r4)
            end
        | _ => PErr
        end
    | KMatch =>
        dop r0 <- expect_lparen ts;
        dop (s, r1) <- p_lv n LExpr false None r0;
        dop r2 <- comma_nl r1;
        dop (re, r3) <- regex_str n LExpr false r2;
        dop r4 <- expect_rparen r3; POk (ECall f [s; re], r4)
    | KRand =>
        dop r0 <- expect_lparen ts;
        dop r1 <- expect_rparen r0; POk (ECall f [], r1)
    | KOpt1 =>
        dop r0 <- expect_lparen ts;
        match r0 with
        | TRParen :: r1 => POk (ECall f [], r1)
        | _ => dop (a, r1) <- p_lv n LExpr false None r0;
               dop r2 <- expect_rparen r1; POk (ECall f [a], r2)
        end
    | KLength =>
        match ts with
        | TLParen _ :: TRParen :: r1 => POk (ECall f [], r1)
        | TLParen _ :: r0 =>
            dop (a, r1) <- p_lv n LExpr false None r0;
            dop r2 <- expect_rparen r1; POk (ECall f [a], r2)
        | _ => POk (ECall f [], ts)
        end
    | KSubstr =>
        dop r0 <- expect_lparen ts;
        dop (s, r1) <- p_lv n LExpr false None r0;
        dop r2 <- comma_nl r1;
        dop (st, r3) <- p_lv n LExpr false None r2;
        match r3 with
        | TComma :: _ =>
            dop r4 <- comma_nl r3;
            dop (ln, r5) <- p_lv n LExpr false None r4;
            dop r6 <- expect_rparen r5; POk (ECall f [s; st; ln], r6)
        | _ => dop r4 <- expect_rparen r3; POk (ECall f [s; st], r4)
        end
    | KSprintf =>
        dop r0 <- expect_lparen ts;
        dop (a, r1) <- p_lv n LExpr false None r0;
        dop (more, r2) <- sprintf_args n r1;
        dop r3 <- expect_rparen r2; POk (ECall f (a :: more), r3)
    | KOne =>
        dop r0 <- expect_lparen ts;
        dop (a, r1) <- p_lv n LExpr false None r0;
        dop r2 <- expect_rparen r1; POk (ECall f [a], r2)
    | KTwo =>
        dop r0 <- expect_lparen ts;
        dop (a, r1) <- p_lv n LExpr false None r0;
        dop r2 <- comma_nl r1;
        dop (b, r3) <- p_lv n LExpr false None r2;
        dop r4 <- expect_rparen r3; POk (ECall f [a; b], r4)
    end
  end.

(* ---- the statement-level contexts in which the harness places an expression ---- *)

Inductive redir := RNone | RGreater | RAppend | RPipe.

Inductive top :=
| TopPrint (is_printf : bool) (rd : redir) (dest : option expr) (args : list expr)
| TopExpr (e : expr)            (* expression statement *)
| TopCond (e : expr)            (* if ( e ) *)
| TopPattern (es : list expr).  (* pattern or range pattern *)

Definition top_has_multi (t : top) : bool :=
  match t with
  | TopPrint _ _ d args => (match d with Some x => has_multi x | None => false end) || existsb has_multi args
  | TopExpr e | TopCond e => has_multi e
  | TopPattern es => existsb has_multi es
  end.

(* stmt(): "expected ; or newline between statements" unless NEWLINE / SEMICOLON / RBRACE follows
   (p.prevTok cannot be one of these after an expression or print statement) *)
Definition stmt_end_ok (ts : list tok) : bool :=
  match ts with TNewline :: _ | TSemicolon :: _ | TRBrace :: _ => true | _ => false end.

(* simpleStmt(), print/printf and expression cases; ts = the tokens after "BEGIN {" *)
Definition p_simple_stmt (n : nat) (ts : list tok) : pres (top * list tok) :=
  let print_rest (is_printf : bool) (r : list tok) :=
    dop (args0, r1) <- exprlist n true true r;
    let args := match args0 with [EMulti es] => es | _ => args0 end in
    dop (rd, dest, r2) <-
      (match r1 with
       | TGreater :: r' => dop (d, r'') <- p_lv n LExpr false None r'; POk (RGreater, Some d, r'')
       | TAppend :: r' => dop (d, r'') <- p_lv n LExpr false None r'; POk (RAppend, Some d, r'')
       | TPipe :: r' => dop (d, r'') <- p_lv n LExpr false None r'; POk (RPipe, Some d, r'')
       | _ => POk (RNone, None, r1)
       end);
    match is_printf, args with
    | true, [] => PErr
    | _, _ => POk (TopPrint is_printf rd dest args, r2)
    end in
  match ts with
  | TPrint :: r => print_rest false r
  | TPrintf :: r => print_rest true r
  | _ => dop (e, r) <- p_lv n LExpr false None ts; POk (TopExpr e, r)
  end.

Inductive mode := MStmt | MCond | MPattern.

(* MStmt:    ts = tokens after "BEGIN {"   — first statement of a BEGIN block
   MCond:    ts = tokens after "BEGIN { if" — "( expr ) simple-statement"
   MPattern: ts = tokens of the program     — pattern [, pattern] followed by "{" / EOF / NEWLINE / ";"
   The result is an error if a MultiExpr survives anywhere (checkMultiExprs). *)
Definition p_top (n : nat) (m : mode) (ts : list tok) : pres top :=
  dop t <-
    (match m with
     | MStmt =>
         dop (t, r) <- p_simple_stmt n ts;
         if stmt_end_ok r then POk t else PErr
     | MCond =>
         dop r0 <- expect_lparen ts;
         dop (e, r1) <- p_lv n LExpr false None r0;
         dop r2 <- expect_rparen r1;
         (* the body: one simple statement (its tree is dropped, its errors are not) *)
         dop (body, r3) <- p_simple_stmt n (skip_nl r2);
         if stmt_end_ok r3 && negb (top_has_multi body) then POk (TopCond e) else PErr
     | MPattern =>
         dop (e, r) <- p_lv n LExpr false None ts;
         match r with
         | [] | TLBrace :: _ | TNewline :: _ | TSemicolon :: _ => POk (TopPattern [e])
         | _ =>
             dop r1 <- comma_nl r;
             dop (e2, r2) <- p_lv n LExpr false None r1;
             match r2 with
             | [] | TLBrace :: _ | TNewline :: _ | TSemicolon :: _ => POk (TopPattern [e; e2])
             | _ => PErr
             end
         end
     end);
  if top_has_multi t then PErr else POk t.

(* fuel used by the executable model: every token is consumed by at most one chain of at most 16
   nested level calls *)
Definition fuel_of (ts : list tok) : nat := 20 * length ts + 40.

Definition parse_top (m : mode) (ts : list tok) : pres top := p_top (fuel_of ts) m ts.
Definition parse_expr (pc : bool) (ts : list tok) : R := p_lv (fuel_of ts) LExpr pc None ts.
