(* C02: reading the []Opcode words of a compiled goawk program back into the instruction
   list of Model/Instr.v -- the inverse of Model/Encode.v's [enc_instr] on the opcode and
   operand words.  Constants stay ABSTRACT: a Num / Str / Regex / FieldByNameStr operand is
   an index into a constant table and is decoded as that index ([INum k], [IStr [k]], ...);
   whether the machine gets stuck does not depend on what the constant is, and the index is
   what [Verifier.check_limits] compares with the table sizes.

   Opcode, builtin, aug-op and token numbers are looked up BY NAME in the tables the
   translator regenerates from the repository (Gen/Opcodes.v); the [Eval vm_compute]
   definitions below are re-evaluated whenever those tables change.  Definitions only. *)
From Coq Require Import String.
From Verif Require Import Lib.Base Model.Ast Model.Instr Model.Compiler Model.Encode Gen.Opcodes.

Open Scope string_scope.
Open Scope Z_scope.

(* ---- operand decoders -------------------------------------------------------- *)

Fixpoint zassoc {A} (tab : list (Z * A)) (w : Z) : option A :=
  match tab with
  | [] => None
  | (k, a) :: t => if k =? w then Some a else zassoc t w
  end.

Definition scope_tab : list (Z * scope) :=
  Eval vm_compute in map (fun s => (scope_num s, s)) [SLocal; SSpecial; SGlobal].
Definition redir_tab : list (Z * redir) :=
  Eval vm_compute in map (fun r => (redir_tok r, r)) [RNone; RPipe; RLess; RGreater; RAppend].
Definition aug_tab : list (Z * arith) :=
  Eval vm_compute in map (fun a => (arith_aug a, a)) [AAdd; ASub; AMul; ADiv; APow; AMod].
Definition all_builtins : list builtin :=
  [BAtan2; BClose; BCos; BExp; BFflush; BFflushAll; BGsub; BIndex; BInt; BLength; BLengthArg; BLog;
   BMatchFn; BRand; BSin; BSqrt; BSrand; BSrandSeed; BSub; BSubstr; BSubstrLength; BSystem; BTolower; BToupper].
Definition builtin_tab : list (Z * builtin) :=
  Eval vm_compute in map (fun b => (builtin_num b, b)) all_builtins.

Definition dec_scope := zassoc scope_tab.
Definition dec_redir := zassoc redir_tab.
Definition dec_aug := zassoc aug_tab.
Definition dec_builtin := zassoc builtin_tab.
Definition dec_bool (w : Z) : option bool :=
  if w =? 0 then Some false else if w =? 1 then Some true else None.

(* ---- opcode kinds ------------------------------------------------------------ *)

(* one constructor per opcode of internal/compiler/opcodes.go, in the shape the decoder needs *)
Inductive opk : Type :=
| K0 (i : instr)                              (* no operand *)
| K1 (f : Z -> instr)                         (* one plain operand *)
| K2 (f : Z -> Z -> instr)
| KStr (f : bytes -> instr)                   (* one constant-table index *)
| KAug1 (f : arith -> instr)                  (* aug-op *)
| KAug2 (f : arith -> Z -> instr)             (* aug-op, index *)
| KScope1 (f : scope -> Z -> instr)           (* scope, index *)
| KSplitSep
| KForIn
| KBuiltin
| KCallUser
| KPrint (f : Z -> redir -> instr)            (* count, redirect token *)
| KRedir (f : redir -> instr)
| KRedirIdx (f : redir -> Z -> instr)         (* redirect token, index *)
| KGetlineArray.

Definition op_tab : list (Z * opk) :=
  Eval vm_compute in
  [ (opn "Nop", K0 INop); (opn "Num", K1 INum); (opn "Str", KStr IStr);
    (opn "Dupe", K0 IDupe); (opn "Drop", K0 IDrop); (opn "Swap", K0 ISwap); (opn "Rote", K0 IRote);
    (opn "Field", K0 IField); (opn "FieldInt", K1 IFieldInt); (opn "FieldByName", K0 IFieldByName);
    (opn "FieldByNameStr", KStr IFieldByNameStr);
    (opn "Global", K1 IGlobal); (opn "Local", K1 ILocal); (opn "Special", K1 ISpecial);
    (opn "ArrayGlobal", K1 (IArray SGlobal)); (opn "ArrayLocal", K1 (IArray SLocal));
    (opn "InGlobal", K1 (IIn SGlobal)); (opn "InLocal", K1 (IIn SLocal));
    (opn "AssignField", K0 IAssignField); (opn "AssignFieldSub", K0 IAssignFieldSub);
    (opn "AssignGlobal", K1 IAssignGlobal); (opn "AssignLocal", K1 IAssignLocal);
    (opn "AssignSpecial", K1 IAssignSpecial);
    (opn "AssignArrayGlobal", K1 (IAssignArray SGlobal)); (opn "AssignArrayLocal", K1 (IAssignArray SLocal));
    (opn "Delete", KScope1 IDelete); (opn "DeleteAll", KScope1 IDeleteAll);
    (opn "IncrField", K1 IIncrField); (opn "IncrGlobal", K2 IIncrGlobal); (opn "IncrLocal", K2 IIncrLocal);
    (opn "IncrSpecial", K2 IIncrSpecial);
    (opn "IncrArrayGlobal", K2 (IIncrArray SGlobal)); (opn "IncrArrayLocal", K2 (IIncrArray SLocal));
    (opn "AugAssignField", KAug1 IAugField); (opn "AugAssignGlobal", KAug2 IAugGlobal);
    (opn "AugAssignLocal", KAug2 IAugLocal); (opn "AugAssignSpecial", KAug2 IAugSpecial);
    (opn "AugAssignArrayGlobal", KAug2 (IAugArray SGlobal)); (opn "AugAssignArrayLocal", KAug2 (IAugArray SLocal));
    (opn "Regex", KStr IRegex); (opn "IndexMulti", K1 IIndexMulti); (opn "ConcatMulti", K1 IConcatMulti);
    (opn "Add", K0 (IArith AAdd)); (opn "Subtract", K0 (IArith ASub)); (opn "Multiply", K0 (IArith AMul));
    (opn "Divide", K0 (IArith ADiv)); (opn "Power", K0 (IArith APow)); (opn "Modulo", K0 (IArith AMod));
    (opn "Equals", K0 (ICmp CEq)); (opn "NotEquals", K0 (ICmp CNe)); (opn "Less", K0 (ICmp CLt));
    (opn "Greater", K0 (ICmp CGt)); (opn "LessOrEqual", K0 (ICmp CLe)); (opn "GreaterOrEqual", K0 (ICmp CGe));
    (opn "Concat", K0 IConcat); (opn "Match", K0 IMatch); (opn "NotMatch", K0 INotMatch);
    (opn "Not", K0 INot); (opn "UnaryMinus", K0 IUnaryMinus); (opn "UnaryPlus", K0 IUnaryPlus);
    (opn "Boolean", K0 IBoolean);
    (opn "Jump", K1 IJump); (opn "JumpFalse", K1 IJumpFalse); (opn "JumpTrue", K1 IJumpTrue);
    (opn "JumpEquals", K1 (IJumpCmp CEq)); (opn "JumpNotEquals", K1 (IJumpCmp CNe));
    (opn "JumpLess", K1 (IJumpCmp CLt)); (opn "JumpGreater", K1 (IJumpCmp CGt));
    (opn "JumpLessOrEqual", K1 (IJumpCmp CLe)); (opn "JumpGreaterOrEqual", K1 (IJumpCmp CGe));
    (opn "Next", K0 INext); (opn "Nextfile", K0 INextfile); (opn "Exit", K0 IExit); (opn "ExitStatus", K0 IExitStatus);
    (opn "ForIn", KForIn); (opn "BreakForIn", K0 IBreakForIn);
    (opn "CallBuiltin", KBuiltin); (opn "CallLengthArray", KScope1 ICallLengthArray);
    (opn "CallSplit", KScope1 ICallSplit); (opn "CallSplitSep", KSplitSep);
    (opn "CallSprintf", K1 ICallSprintf); (opn "CallUser", KCallUser); (opn "CallNative", K2 ICallNative);
    (opn "Return", K0 IReturn); (opn "ReturnNull", K0 IReturnNull); (opn "Nulls", K1 INulls);
    (opn "Print", KPrint IPrint); (opn "Printf", KPrint IPrintf);
    (opn "Getline", KRedir IGetline); (opn "GetlineField", KRedir IGetlineField);
    (opn "GetlineGlobal", KRedirIdx (IGetlineVar SGlobal)); (opn "GetlineLocal", KRedirIdx (IGetlineVar SLocal));
    (opn "GetlineSpecial", KRedirIdx (IGetlineVar SSpecial)); (opn "GetlineArray", KGetlineArray) ].

(* every opcode name of the repository is in the table, with a distinct non-negative number
   (checked in Proofs/Decode.v: a new or renamed opcode breaks that obligation) *)
Definition op_numbers : list Z := map fst op_tab.

(* the (scope, index) pairs of CallUser's array arguments *)
Fixpoint dec_pairs (n : nat) (ws : list Z) : option (list (scope * Z) * list Z) :=
  match n with
  | O => Some ([], ws)
  | S n' =>
      match ws with
      | s :: i :: r =>
          match dec_scope s with
          | Some sc => match dec_pairs n' r with
                       | Some (ps, r') => Some ((sc, i) :: ps, r')
                       | None => None
                       end
          | None => None
          end
      | _ => None
      end
  end.

Definition dec_instr (ws : list Z) : option (instr * list Z) :=
  match ws with
  | [] => None
  | w :: r =>
    match zassoc op_tab w with
    | None => None
    | Some k =>
      match k, r with
      | K0 i, _ => Some (i, r)
      | K1 f, a :: r' => Some (f a, r')
      | K2 f, a :: b :: r' => Some (f a b, r')
      | KStr f, a :: r' => Some (f [a], r')
      | KAug1 f, a :: r' => match dec_aug a with Some op => Some (f op, r') | None => None end
      | KAug2 f, a :: b :: r' => match dec_aug a with Some op => Some (f op b, r') | None => None end
      | KScope1 f, s :: b :: r' => match dec_scope s with Some sc => Some (f sc b, r') | None => None end
      | KSplitSep, s :: b :: c :: r' =>
          match dec_scope s, dec_bool c with
          | Some sc, Some isre => Some (ICallSplitSep sc b isre, r')
          | _, _ => None
          end
      | KForIn, vs :: vi :: as_ :: ai :: off :: r' =>
          match dec_scope vs, dec_scope as_ with
          | Some vsc, Some asc => Some (IForIn vsc vi asc ai off, r')
          | _, _ => None
          end
      | KBuiltin, a :: r' => match dec_builtin a with Some b => Some (ICallBuiltin b, r') | None => None end
      | KCallUser, fi :: n :: r' =>
          if n <? 0 then None else
          match dec_pairs (Z.to_nat n) r' with
          | Some (ps, r'') => Some (ICallUser fi ps, r'')
          | None => None
          end
      | KPrint f, n :: t :: r' => match dec_redir t with Some rd => Some (f n rd, r') | None => None end
      | KRedir f, t :: r' => match dec_redir t with Some rd => Some (f rd, r') | None => None end
      | KRedirIdx f, t :: i :: r' => match dec_redir t with Some rd => Some (f rd i, r') | None => None end
      | KGetlineArray, t :: s :: i :: r' =>
          match dec_redir t, dec_scope s with
          | Some rd, Some sc => Some (IGetlineArray rd sc i, r')
          | _, _ => None
          end
      | _, _ => None
      end
    end
  end.

(* every instruction consumes at least one word: fuel = number of words *)
Fixpoint dec_go (fuel : nat) (ws : list Z) : option code :=
  match ws with
  | [] => Some []
  | _ =>
      match fuel with
      | O => None
      | S f =>
          match dec_instr ws with
          | Some (i, r) => match dec_go f r with Some c => Some (i :: c) | None => None end
          | None => None
          end
      end
  end.

Definition decode (ws : list Z) : option code := dec_go (length ws) ws.

(* ---- the plain re-encoding (constants are their indexes) ---------------------- *)

Definition const_idx (s : bytes) : Z := match s with [k] => k | _ => 0 end.

Definition enc_raw_instr (i : instr) : list Z :=
  match i with
  | INum k => [opn "Num"; k]
  | IStr s => [opn "Str"; const_idx s]
  | IFieldByNameStr s => [opn "FieldByNameStr"; const_idx s]
  | IRegex s => [opn "Regex"; const_idx s]
  | _ => fst (enc_instr empty_pools i)
  end.

Definition enc_raw (c : code) : list Z := flat_map enc_raw_instr c.

(* instructions that have an opcode: constants are single indexes, the five instructions
   with separate Global/Local opcodes do not carry the scope Special *)
Definition encodable (i : instr) : bool :=
  match i with
  | IStr s | IFieldByNameStr s | IRegex s => match s with [_] => true | _ => false end
  | IArray sc _ | IIn sc _ | IAssignArray sc _ | IIncrArray sc _ _ | IAugArray sc _ _ =>
      match sc with SSpecial => false | _ => true end
  | _ => true
  end.

(* ---- whole program ------------------------------------------------------------ *)

(* the compiled program as dumped by parser.VerifDumpCompiled: per function (scalars, arrays,
   body words), BEGIN, per action (pattern words, body words or none), END *)
Record wprogram : Type := {
  w_funcs : list (Z * Z * list Z);
  w_begin : list Z;
  w_actions : list (list (list Z) * option (list Z));
  w_end : list Z
}.

Fixpoint opt_all {A} (l : list (option A)) : option (list A) :=
  match l with
  | [] => Some []
  | Some x :: t => match opt_all t with Some r => Some (x :: r) | None => None end
  | None :: _ => None
  end.

Definition decode_action (a : list (list Z) * option (list Z)) : option (list code * option code) :=
  match opt_all (map decode (fst a)) with
  | None => None
  | Some pats =>
      match snd a with
      | None => Some (pats, None)
      | Some b => match decode b with Some c => Some (pats, Some c) | None => None end
      end
  end.

Definition decode_func (f : Z * Z * list Z) : option cfunc :=
  match decode (snd f) with
  | Some c => Some {| cf_nscalars := fst (fst f); cf_narrays := snd (fst f); cf_body := c |}
  | None => None
  end.

Definition decode_program (w : wprogram) : option cprogram :=
  match opt_all (map decode_func (w_funcs w)), decode (w_begin w),
        opt_all (map decode_action (w_actions w)), decode (w_end w) with
  | Some fs, Some b, Some acts, Some e =>
      Some {| c_begin := b; c_actions := acts; c_end := e; c_funcs := fs |}
  | _, _, _, _ => None
  end.
