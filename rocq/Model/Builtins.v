(* C10: models of the string builtins of interp/vm.go (callBuiltin) and
   interp/functions.go.  Definitions only.  Each function mirrors the Go code
   line by line; Go slicing is the checked [slice] of Lib.Base, so a Go panic
   shows as [Panic]. *)
From Verif Require Import Lib.Base Lib.Dyadic Lib.Utf8.

Definition maxint : Z := two63 - 1.
Definition minint : Z := - two63.

(* vm.go floatToInt *)
Definition float_to_int (x : fnum) : Z :=
  match x with
  | FNaN => 0
  | FInf false => maxint
  | FInf true => minint
  | FFin m e =>
      let t := ftrunc m e in
      if two63 <=? t then maxint else if t <=? - two63 then minint else t
  end.

(* vm.go BuiltinInt: math.Trunc *)
Definition builtin_int (x : fnum) : fnum :=
  match x with
  | FFin m e => FFin (ftrunc m e) 0
  | _ => x
  end.

(* ---- byte mode ------------------------------------------------------- *)

(* vm.go BuiltinSubstr, !p.chars branch *)
Definition substr_bytes (s : bytes) (posf : fnum) : res bytes :=
  let pos := float_to_int posf in
  let pos := if pos >? zlen s then zlen s + 1 else pos in
  let pos := if pos <? 1 then 1 else pos in
  let length := zlen s - pos + 1 in
  slice s (pos - 1) (pos - 1 + length).

(* vm.go BuiltinSubstrLength, !p.chars branch *)
Definition substr_len_bytes (s : bytes) (posf lenf : fnum) : res bytes :=
  let length := float_to_int lenf in
  let pos := float_to_int posf in
  let pos := if pos >? zlen s then zlen s + 1 else pos in
  let pos := if pos <? 1 then 1 else pos in
  let maxLength := zlen s - pos + 1 in
  let length := if length <? 0 then 0 else length in
  let length := if length >? maxLength then maxLength else length in
  slice s (pos - 1) (pos - 1 + length).

(* strings.Index: byte offset of the first occurrence, -1 if none *)
Fixpoint is_prefix (t s : bytes) : bool :=
  match t, s with
  | [], _ => true
  | x :: t', y :: s' => (x =? y) && is_prefix t' s'
  | _ :: _, [] => false
  end.

Fixpoint strings_index_from (s t : bytes) (off : Z) : Z :=
  if is_prefix t s then off
  else match s with
       | [] => -1
       | _ :: s' => strings_index_from s' t (off + 1)
       end.

Definition strings_index (s t : bytes) : Z := strings_index_from s t 0.

(* ---- character mode (-c) --------------------------------------------- *)

(* the byte offsets at which `for i := range s` stops *)
Fixpoint chunk_starts (cs : list bytes) (off : Z) : list Z :=
  match cs with
  | [] => []
  | c :: cs' => off :: chunk_starts cs' (off + zlen c)
  end.

Definition range_starts (s : bytes) : list Z := chunk_starts (runes s) 0.

(* for start = range s { chars++; if chars > bound { break } }  *)
Fixpoint count_loop (starts : list Z) (chars start bound : Z) : Z * Z :=
  match starts with
  | [] => (chars, start)
  | i :: rest =>
      let chars' := chars + 1 in
      if chars' >? bound then (chars', i) else count_loop rest chars' i bound
  end.

(* functions.go substrChars *)
Definition substr_chars_pos (s : bytes) (pos : Z) : res bytes :=
  let '(chars, start) := count_loop (range_starts s) 1 0 pos in
  let start := if pos >=? chars then zlen s else start in
  slice s start (zlen s).

Definition substr_chars (s : bytes) (posf : fnum) : res bytes :=
  substr_chars_pos s (float_to_int posf).

(* functions.go substrLengthChars *)
Definition substr_len_chars_pl (s : bytes) (pos length : Z) : res bytes :=
  let '(chars, start) := count_loop (range_starts s) 1 0 pos in
  let start := if pos >=? chars then zlen s else start in
  do rest <- slice s start (zlen s);
  let '(chars2, e) := count_loop (range_starts rest) 0 0 length in
  let e := if length >=? chars2 then zlen s else e + start in
  slice s start e.

Definition substr_len_chars (s : bytes) (posf lenf : fnum) : res bytes :=
  substr_len_chars_pl s (float_to_int posf) (float_to_int lenf).

(* vm.go BuiltinIndex *)
Definition builtin_index (chars : bool) (s t : bytes) : res Z :=
  let i := strings_index s t in
  if i <? 0 then Ok 0
  else if chars then (do pre <- slice s 0 i; Ok (rune_count pre + 1))
  else Ok (i + 1).

(* vm.go BuiltinLengthArg *)
Definition builtin_length (chars : bool) (s : bytes) : Z :=
  if chars then rune_count s else zlen s.

(* ---- sub / gsub replacement expansion (functions.go sub, closure) ----- *)
Fixpoint expand_repl (repl m : bytes) : bytes :=
  match repl with
  | [] => []
  | 38 :: r => m ++ expand_repl r m                              (* & *)
  | 92 :: [] => [92]                                            (* trailing \ *)
  | 92 :: 38 :: r => 38 :: expand_repl r m                       (* \& *)
  | 92 :: 92 :: r => 92 :: expand_repl r m                       (* \\ *)
  | 92 :: c :: r => 92 :: c :: expand_repl r m
  | c :: r => c :: expand_repl r m
  end.
