(* C15: the virtual machine of Model/VM.v run under a context.

   interp/vm.go execute():        for ip := 0; ip < len(code); { op := code[ip]; ip++
                                    if p.checkCtx { err := p.checkContext(); if err != nil { return err } }
                                    switch op { ... } }
   interp/newexecute.go:          checkContext   (p.ctxOps++; below checkContextOps: nil; else reset and poll)
                                  checkContextNow (non-blocking receive from ctx.Done())
                                  ExecuteContext  (checkCtx, ctx, ctxDone, ctxOps = 0)
   interp/interp.go:              executeAll / execActions (BEGIN, rules per record, END; after an error
                                  the context's error is preferred; closeAll is deferred; the record
                                  loop starts with the same `if p.checkCtx { p.checkContext() }`)

   The counter p.ctxOps is a field of the interpreter, hence ONE counter shared by the nested
   execute calls of for-in bodies, function bodies, patterns, rule bodies and END: [run_ctx]
   threads one [cstate] through all of them.

   Ghost state: [clock] = number of steps so far: instructions executed (dispatches whose poll
   let them through) plus records fetched by the record loop of execActions, which polls the
   same counter once per record; [done_at = Some t] = ctx.Done() is closed from the moment t
   steps have been made (0: cancelled before the call).  A script-callable native function may cancel
   the context itself: [cancel_req] observes that in the interpreter state, and the dispatch
   that executed the call latches [done_at := Some clock] (a context, once cancelled, stays so). *)
From Verif Require Import Lib.Base Model.Ast Model.Instr Model.Compiler Model.Prims Model.VM Gen.Consts.

Set Implicit Arguments.

Record cstate : Type := {
  checkCtx : bool;          (* p.checkCtx *)
  ctxOps : Z;               (* p.ctxOps *)
  clock : Z;                (* ghost: steps so far = instructions executed + records fetched by execActions *)
  done_at : option Z;       (* ghost *)
  ops_at_cancel : Z         (* ghost: p.ctxOps when the script itself cancelled the context (-1: it did not) *)
}.

Definition with_ops (cs : cstate) (n : Z) : cstate :=
  {| checkCtx := checkCtx cs; ctxOps := n; clock := clock cs; done_at := done_at cs; ops_at_cancel := ops_at_cancel cs |}.
Definition tick (cs : cstate) : cstate :=
  {| checkCtx := checkCtx cs; ctxOps := ctxOps cs; clock := clock cs + 1; done_at := done_at cs; ops_at_cancel := ops_at_cancel cs |}.

(* checkContextNow: select { case <-p.ctxDone: return p.ctx.Err(); default: return nil } *)
Definition closed (cs : cstate) : bool :=
  match done_at cs with Some t => t <=? clock cs | None => false end.

(* checkContext; true = it returned p.ctx.Err() *)
Definition check_context (cs : cstate) : bool * cstate :=
  let ops := ctxOps cs + 1 in
  if ops <? checkContextOps then (false, with_ops cs ops)
  else (closed cs, with_ops cs 0).

(* head of the dispatch loop: if p.checkCtx { err := p.checkContext() ... } *)
Definition poll (cs : cstate) : bool * cstate :=
  if checkCtx cs then check_context cs else (false, cs).

(* the `if p.checkCtx { ctxErr := p.checkContextNow(); if ctxErr != nil { return 0, ctxErr } }` of executeAll *)
Definition ctx_now (cs : cstate) : bool := checkCtx cs && closed cs.

(* ExecuteContext: checkCtx = (ctx != Background && ctx != TODO); ctxOps = 0.  Execute: checkCtx = false. *)
Definition cs_execute_context (cancellable : bool) (done : option Z) : cstate :=
  {| checkCtx := cancellable; ctxOps := 0; clock := 0; done_at := done; ops_at_cancel := -1 |}.
Definition cs_execute (stale_ops : Z) : cstate :=
  {| checkCtx := false; ctxOps := stale_ops; clock := 0; done_at := None; ops_at_cancel := -1 |}.

(* One call on a (possibly reused) Interpreter.  Execute only clears checkCtx (p.ctxOps keeps
   whatever the previous call left); ExecuteContext installs checkCtx, ctx, ctxDone and ctxOps = 0
   anew, whatever the context is: nothing of the counter state of an earlier call survives. *)
Inductive call : Type :=
| CallExecute
| CallExecuteContext (cancellable : bool) (done : option Z).

Definition call_cs (prev : cstate) (c : call) : cstate :=
  match c with
  | CallExecute => cs_execute (ctxOps prev)
  | CallExecuteContext b d => cs_execute_context b d
  end.

Section Cancel.
  Variables value St err : Type.
  Variable P : prims value St err.
  Variable F : list cfunc.
  Variable cancel_req : St -> bool.     (* a native function called by the script has cancelled the context *)

  Notation mstate := (mstate value St).
  Notation vres := (vres value St err).

  (* outcome of execute under a context: what VM.run gives, or checkContext's error *)
  Inductive cres : Type :=
  | CRes (r : vres)
  | CCtx (m : mstate).

  Definition latch (cs : cstate) (m : mstate) : cstate :=
    match done_at cs with
    | Some _ => cs
    | None => if cancel_req (ms m)
              then {| checkCtx := checkCtx cs; ctxOps := ctxOps cs; clock := clock cs; done_at := Some (clock cs);
                      ops_at_cancel := ctxOps cs |}
              else cs
    end.

  Definition latch_res (cs : cstate) (r : vres) : cstate :=
    match r with
    | VDone _ m | VRet _ _ m | VBrk _ m | VAbort _ m => latch cs m
    | VStuck | VFuel => cs
    end.

  Fixpoint run_ctx (fuel : nat) (C : code) (ip : Z) (stk : list value) (m : mstate) (cs : cstate)
    : cres * cstate :=
    match fuel with
    | O => (CRes VFuel, cs)
    | S f =>
      if csize C <=? ip then (CRes (VDone stk m), cs) else      (* loop condition: no dispatch, no poll *)
      let '(stop, cs1) := poll cs in
      if stop then (CCtx m, cs1) else
      let cs2 := tick cs1 in
      match step P F C ip stk m with
      | ANext ip' stk' m' => run_ctx f C ip' stk' m' (latch cs2 m')
      | AStop r => (CRes r, latch_res cs2 r)
      | AForIn vsc vi keys body ipa stk0 m0 =>
          (fix loop (ks : list value) (stk : list value) (m : mstate) (cs : cstate) : cres * cstate :=
             match ks with
             | [] => run_ctx f C ipa stk m cs
             | k :: ks' =>
                 match var_write P m vsc vi k with
                 | WStuck => (CRes VStuck, cs)
                 | WErr e m1 => (CRes (VAbort (XError e) m1), cs)
                 | WOk m1 =>
                     match run_ctx f body 0 stk m1 cs with
                     | (CRes (VDone stk' m2), cs') => loop ks' stk' m2 cs'
                     | (CRes (VBrk stk' m2), cs') => run_ctx f C ipa stk' m2 cs'
                     | other => other
                     end
                 end
             end) keys stk0 m0 cs2
      | ACall fn m1 saved ipa stk0 =>
          let finish := fun (v : value) (stk' : list value) (m2 : mstate) (cs' : cstate) =>
            match pop_n (Z.to_nat (cf_nscalars fn)) stk' [] with
            | Some (_, t) => run_ctx f C ipa (v :: t) (restore P saved m2) cs'
            | None => (CRes VStuck, cs')
            end in
          match run_ctx f (cf_body fn) 0 stk0 m1 cs2 with
          | (CRes (VDone stk' m2), cs') => finish (p_null P) stk' m2 cs'
          | (CRes (VRet v stk' m2), cs') => finish v stk' m2 cs'
          | (CRes (VBrk stk' m2), cs') => (CRes (VBrk stk' (restore P saved m2)), cs')
          | (CRes (VAbort x m2), cs') => (CRes (VAbort x (restore P saved m2)), cs')
          | (CRes VStuck, cs') => (CRes VStuck, cs')
          | (CRes VFuel, cs') => (CRes VFuel, cs')
          | (CCtx m2, cs') => (CCtx (restore P saved m2), cs')     (* `else if err != nil { return err }` after the epilogue *)
          end
      end
    end.

  (* ---------------------------------------------------------------------------------- *)
  (* interp.go executeAll / execActions: the units of a compiled program in sequence.     *)
  (* The record-level operations are a second record of primitives.                       *)

  Record ioprims : Type := {
    io_next_line : St -> St * er err (option value);   (* p.nextLine(): None = io.EOF *)
    io_set_record : St -> value -> St;                 (* p.setLine(line, false); p.reparseCSV = false *)
    io_print_line : St -> St * er err unit;            (* p.printLine(p.output, p.line) *)
    io_next_file : St -> St;                           (* p.scanner = nil *)
    io_exit_status : St -> Z;                          (* p.exitStatus *)
    io_close_all : St -> St                            (* deferred p.closeAll() *)
  }.
  Variable IO : ioprims.

  (* err := p.execute(pattern); errNext / errNextfile (a function called from the pattern executed
     next / nextfile) abandon the record; any other error is returned; matched := p.pop().boolean() *)
  Inductive pout : Type :=
  | POk (b : bool) (stk : list value) (m : mstate)
  | PNext (file : bool) (stk : list value) (m : mstate)       (* continue lineLoop; file: p.scanner = nil first *)
  | PStop (r : cres).

  Definition eval_pattern (f : nat) (pat : code) (stk : list value) (m : mstate) (cs : cstate) : pout * cstate :=
    match run_ctx f pat 0 stk m cs with
    | (CRes (VDone (v :: stk') m'), cs') => (POk (p_to_bool P v) stk' m', cs')
    | (CRes (VDone [] _), cs') => (PStop (CRes VStuck), cs')
    | (CRes (VAbort XNext m'), cs') => (PNext false stk m', cs')
    | (CRes (VAbort XNextfile m'), cs') => (PNext true stk m', cs')
    | (r, cs') => (PStop r, cs')
    end.

  (* the `switch len(action.Pattern)` of execActions: (matched, new inRange[i]); when a pattern
     is abandoned by next / nextfile the flag keeps the value it has at that moment *)
  Inductive mout : Type :=
  | MOk (matched inr : bool) (stk : list value) (m : mstate)
  | MNext (file : bool) (inr : bool) (stk : list value) (m : mstate)
  | MStop (r : cres).

  Definition match_pattern (f : nat) (pats : list code) (ir : bool) (stk : list value) (m : mstate) (cs : cstate)
    : mout * cstate :=
    match pats with
    | [] => (MOk true ir stk m, cs)
    | [p0] => match eval_pattern f p0 stk m cs with
              | (POk b stk' m', cs') => (MOk b ir stk' m', cs')
              | (PNext fl stk' m', cs') => (MNext fl ir stk' m', cs')
              | (PStop r, cs') => (MStop r, cs')
              end
    | [p0; p1] =>
        let start :=
          if ir then (POk true stk m, cs) else eval_pattern f p0 stk m cs in
        match start with
        | (PStop r, cs') => (MStop r, cs')
        | (PNext fl stk' m', cs') => (MNext fl ir stk' m', cs')
        | (POk false stk' m', cs') => (MOk false false stk' m', cs')
        | (POk true stk' m', cs') =>
            match eval_pattern f p1 stk' m' cs' with
            | (POk b stk'' m'', cs'') => (MOk true (negb b) stk'' m'', cs'')
            | (PNext fl stk'' m'', cs'') => (MNext fl true stk'' m'', cs'')
            | (PStop r, cs'') => (MStop r, cs'')
            end
        end
    | _ => (MOk false ir stk m, cs)
    end.

  (* one record through all the pattern-action blocks *)
  Inductive lout : Type :=
  | LNextLine (stk : list value) (m : mstate)
  | LNextFile (stk : list value) (m : mstate)
  | LStop (r : cres).

  Fixpoint run_rules (f : nat) (acts : list (list code * option code)) (inr : list bool)
                     (stk : list value) (m : mstate) (cs : cstate) : lout * list bool * cstate :=
    match acts with
    | [] => (LNextLine stk m, inr, cs)
    | (pats, body) :: rest =>
      match inr with
      | [] => (LStop (CRes VStuck), inr, cs)
      | ir :: inr' =>
        match match_pattern f pats ir stk m cs with
        | (MStop r, cs1) => (LStop r, inr, cs1)
        | (MNext fl ir' stk1 m1, cs1) =>
            (if fl then LNextFile stk1 m1 else LNextLine stk1 m1, ir' :: inr', cs1)
        | (MOk false ir' stk1 m1, cs1) =>
            let '(o, inr'', cs2) := run_rules f rest inr' stk1 m1 cs1 in (o, ir' :: inr'', cs2)
        | (MOk true ir' stk1 m1, cs1) =>
            let go_on := fun stk2 m2 cs2 =>
              let '(o, inr'', cs3) := run_rules f rest inr' stk2 m2 cs2 in (o, ir' :: inr'', cs3) in
            let print_it :=
              match io_print_line IO (ms m1) with
              | (s, EOk _) => go_on stk1 (with_ms m1 s) cs1
              | (s, EErr e) => (LStop (CRes (VAbort (XError e) (with_ms m1 s))), ir' :: inr', cs1)
              end in
            match body with
            | None | Some [] => print_it                   (* len(action.Body) == 0 *)
            | Some b =>
                match run_ctx f b 0 stk1 m1 cs1 with
                | (CRes (VDone stk2 m2), cs2) => go_on stk2 m2 cs2
                | (CRes (VAbort XNext m2), cs2) => (LNextLine stk1 m2, ir' :: inr', cs2)
                | (CRes (VAbort XNextfile m2), cs2) => (LNextFile stk1 m2, ir' :: inr', cs2)
                | (r, cs2) => (LStop r, ir' :: inr', cs2)
                end
            end
        end
      end
    end.

  (* execActions: nil = CRes (VDone ..) *)
  Fixpoint exec_actions (n f : nat) (acts : list (list code * option code)) (inr : list bool)
                        (stk : list value) (m : mstate) (cs : cstate) : cres * cstate :=
    match n with
    | O => (CRes VFuel, cs)
    | S n' =>
      (* head of the record loop: if p.checkCtx { err := p.checkContext(); if err != nil { return err } }
         -- the same counting poll as a dispatch: a record is one step of the shared counter *)
      let '(stop, cs0) := poll cs in
      if stop then (CCtx m, cs0) else
      let cs := tick cs0 in
      match io_next_line IO (ms m) with
      | (s, EErr e) => (CRes (VAbort (XError e) (with_ms m s)), cs)
      | (s, EOk None) => (CRes (VDone stk (with_ms m s)), cs)
      | (s, EOk (Some line)) =>
          let m1 := with_ms m (io_set_record IO s line) in
          match run_rules f acts inr stk m1 cs with
          | (LNextLine stk' m', inr', cs') => exec_actions n' f acts inr' stk' m' cs'
          | (LNextFile stk' m', inr', cs') => exec_actions n' f acts inr' stk' (with_ms m' (io_next_file IO (ms m'))) cs'
          | (LStop r, _, cs') => (r, cs')
          end
      end
    end.

  (* what Execute / ExecuteContext return *)
  Inductive xres : Type :=
  | RStatus (status : Z)            (* p.exitStatus, nil *)
  | RErr (e : err)                  (* 0, err *)
  | RCtx                            (* 0, p.ctx.Err() *)
  | RSentinel (r : vres)            (* 0, one of the internal sentinel errors (errNext, errBreak, returnValue):
                                       excluded by the parser, kept for totality *)
  | RStuck
  | RFuel.

  (* after p.execute(unit) / p.execActions in executeAll *)
  Inductive kres : Type :=
  | KNil (stk : list value) (m : mstate)
  | KExit (m : mstate)
  | KFail (r : xres) (final : option mstate).

  Definition classify (r : cres) (cs : cstate) : kres :=
    match r with
    | CRes (VDone stk m) => KNil stk m
    | CRes (VAbort XExit m) => KExit m
    | CRes (VAbort (XError e) m) => KFail (if ctx_now cs then RCtx else RErr e) (Some m)
    | CCtx m => KFail RCtx (Some m)        (* err is already p.ctx.Err(); the re-poll finds it closed again *)
    | CRes VStuck => KFail RStuck None
    | CRes VFuel => KFail RFuel None
    | CRes (VAbort _ m as r0) => KFail (if ctx_now cs then RCtx else RSentinel r0) (Some m)
    | CRes (VRet _ _ m as r0) | CRes (VBrk _ m as r0) => KFail (if ctx_now cs then RCtx else RSentinel r0) (Some m)
    end.

  Definition close (m : mstate) : St := io_close_all IO (ms m).

  (* executeAll; the second component is the interpreter state after the deferred closeAll *)
  Definition execute_all (fuel : nat) (cp : cprogram) (m0 : mstate) (cs0 : cstate)
    : xres * option St * cstate :=
    let '(rb, cs1) := run_ctx fuel (c_begin cp) 0 [] m0 cs0 in
    let finish_end := fun (stk : list value) (m : mstate) (cs : cstate) =>
      let '(re, cs3) := run_ctx fuel (c_end cp) 0 stk m cs in
      match classify re cs3 with
      | KFail r fin => (r, option_map close fin, cs3)
      | KNil _ m3 | KExit m3 => (RStatus (io_exit_status IO (ms m3)), Some (close m3), cs3)
      end in
    match classify rb cs1 with
    | KFail r fin => (r, option_map close fin, cs1)
    | KNil stk m1 =>
        match c_actions cp, c_end cp with
        | [], [] => (RStatus (io_exit_status IO (ms m1)), Some (close m1), cs1)
        | _, _ =>
            let '(ra, cs2) := exec_actions fuel fuel (c_actions cp) (repeat false (length (c_actions cp))) stk m1 cs1 in
            match classify ra cs2 with
            | KFail r fin => (r, option_map close fin, cs2)
            | KNil stk2 m2 => finish_end stk2 m2 cs2
            | KExit m2 => finish_end stk m2 cs2
            end
        end
    | KExit m1 =>
        match c_actions cp, c_end cp with
        | [], [] => (RStatus (io_exit_status IO (ms m1)), Some (close m1), cs1)
        | _, _ => finish_end [] m1 cs1
        end
    end.

  (* a history of calls on one Interpreter: [reset] is resetCore + setExecuteConfig between calls *)
  Fixpoint run_calls (fuel : nat) (cp : cprogram) (reset : St -> St) (s : St) (prev : cstate) (cs : list call)
    : list (xres * option St) :=
    match cs with
    | [] => []
    | c :: t =>
        let '(r, fin, cs') := execute_all fuel cp {| ms := reset s; frame := []; depth := 0 |} (call_cs prev c) in
        (r, fin) :: match fin with Some s' => run_calls fuel cp reset s' cs' t | None => [] end
    end.

End Cancel.

Arguments CRes {value St err}.
Arguments CCtx {value St err}.
Arguments RStatus {value St err}.
Arguments RErr {value St err}.
Arguments RCtx {value St err}.
Arguments RSentinel {value St err}.
Arguments RStuck {value St err}.
Arguments RFuel {value St err}.
Arguments POk {value St err}.
Arguments PNext {value St err}.
Arguments PStop {value St err}.
Arguments MOk {value St err}.
Arguments MNext {value St err}.
Arguments MStop {value St err}.
Arguments LNextLine {value St err}.
Arguments LNextFile {value St err}.
Arguments LStop {value St err}.
Arguments KNil {value St err}.
Arguments KExit {value St err}.
Arguments KFail {value St err}.
