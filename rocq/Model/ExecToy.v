(* C01: execution correspondence on the integer fragment.

   The two semantics of C01 -- [AstSem.exec_stmts] on the resolved tree and [VM.run] on the
   code the model compiler emits -- are instantiated with the executable primitive record
   [ctoy] of Model/CancelToy.v (numbers that are integers, global scalars and arrays, locals,
   arithmetic, comparisons, user calls, for-in, print of numbers) and run on BEGIN-only
   programs.  The harness compares both results with what the implementation prints, so the
   reference semantics itself (evaluation order, lvalue handling, short-circuit, loops,
   break/continue, calls and returns) is tied to goawk's observable behaviour, not only the
   compiler to compiler.go.

   Which programs are inside the fragment is decided on the COMPILED code ([instr_ok] of
   CancelToy.v on every instruction of BEGIN and of every function): the tree and its code
   are related by the verified compiler, so one test serves both semantics. *)
From Verif Require Import Lib.Base Lib.Dyadic Model.Ast Model.Instr Model.Compiler Model.Prims Model.VM
  Model.AstSem Model.CancelToy.

Open Scope Z_scope.

(* the primitive record: [ctoy] of C15 with string constants read as SIGNED decimal integers
   (the compiler turns a constant integral subscript, also a negative one, into its decimal
   string: with this reading the record provably meets [prims_ok], Proofs/ExecToyOk.v) *)
Definition xstr (s : bytes) : Z :=
  match s with
  | 45 :: t => match int_of_bytes t with Some v => - v | None => 0 end
  | _ => match int_of_bytes s with Some v => v | None => 0 end
  end.

Definition xprims : prims Z cst Z :=
  let c := ctoy toy_natives in
  {| p_num := p_num c; p_str := xstr; p_null := p_null c; p_of_bool := p_of_bool c; p_to_bool := p_to_bool c;
     p_num_pos := p_num_pos c; p_neg := p_neg c; p_plus := p_plus c; p_arith := p_arith c; p_aug := p_aug c;
     p_incr := p_incr c; p_cmp := p_cmp c; p_cmpj := p_cmpj c; p_concat := p_concat c;
     p_concat_multi := p_concat_multi c; p_index_multi := p_index_multi c; p_match := p_match c;
     p_regex := p_regex c; p_get_field := p_get_field c; p_get_field_int := p_get_field_int c;
     p_get_named := p_get_named c; p_get_named_str := p_get_named_str c; p_set_field := p_set_field c;
     p_get_global := p_get_global c; p_set_global := p_set_global c; p_get_special := p_get_special c;
     p_set_special := p_set_special c; p_array_get := p_array_get c; p_array_set := p_array_set c;
     p_array_in := p_array_in c; p_array_del := p_array_del c; p_array_clear := p_array_clear c;
     p_array_len := p_array_len c; p_array_keys := p_array_keys c; p_builtin_arity := p_builtin_arity c;
     p_builtin := p_builtin c; p_split := p_split c; p_sprintf := p_sprintf c; p_native := p_native c;
     p_push_arrays := p_push_arrays c; p_pop_arrays := p_pop_arrays c; p_err_depth := p_err_depth c;
     p_print := p_print c; p_getline := p_getline c; p_set_line := p_set_line c; p_set_exit := p_set_exit c |}.

(* how a run of the BEGIN blocks ended *)
Inductive toy_end : Type :=
| TDone (s : cst)              (* ran to the end *)
| TExit (s : cst)              (* exit statement; the status is in [c_exit] *)
| TErr (e : Z) (s : cst)       (* run-time error e *)
| TBad (why : Z).              (* 1 ill-formed / stuck, 2 out of fuel, 3 control flow escaped (break/next/return at top level),
                                  4 frame or call depth not restored, 5 values left on the stack *)

Definition m_begin : mstate Z cst := {| ms := cst_init 0; frame := []; depth := 0 |}.

Definition clean (m : mstate Z cst) : bool :=
  match frame m with [] => depth m =? 0 | _ => false end.

(* ---- the tree, block after block (compiler.go compiles the BEGIN blocks into one sequence) ---- *)
Fixpoint ast_blocks (fuel : nat) (F : list func) (bs : list stmts) (m : mstate Z cst) : AstSem.xres Z cst Z :=
  match bs with
  | [] => RNormal m
  | b :: bs' =>
      match exec_stmts xprims F fuel false b m with
      | RNormal m1 => ast_blocks fuel F bs' m1
      | other => other
      end
  end.

Definition toy_ast_run (fuel : nat) (p : program) : toy_end :=
  match ast_blocks fuel (p_funcs p) (p_begin p) m_begin with
  | RNormal m => if clean m then TDone (ms m) else TBad 4
  | RAbort XExit m => TExit (ms m)
  | RAbort (XError e) m => TErr e (ms m)
  | RAbort _ _ => TBad 3
  | RBreak _ | RContinue _ | RReturn _ _ => TBad 3
  | RWrong => TBad 1
  | RFuel => TBad 2
  end.

(* ---- the code the model compiler emits for it ---- *)
Definition toy_vm_run (fuel : nat) (p : program) : toy_end :=
  let cp := comp_program p in
  match run xprims (c_funcs cp) fuel (c_begin cp) 0 [] m_begin with
  | VDone [] m => if clean m then TDone (ms m) else TBad 4
  | VDone _ _ => TBad 5
  | VAbort XExit m => TExit (ms m)
  | VAbort (XError e) m => TErr e (ms m)
  | VAbort _ _ => TBad 3
  | VRet _ _ _ | VBrk _ _ => TBad 3
  | VStuck => TBad 1
  | VFuel => TBad 2
  end.

(* the program is BEGIN-only and every instruction of its code is in the fragment *)
Definition toy_fragment_ok (p : program) : bool :=
  let cp := comp_program p in
  match c_actions cp, c_end cp with
  | [], [] => code_ok (c_begin cp) && forallb (fun f => code_ok (cf_body f)) (c_funcs cp)
  | _, _ => false
  end.
