(* C12: model of the I/O gate of the interpreter — every place where a running
   AWK program can make goawk open a file or start a process:
     interp/io.go   getOutputStream, getInputScannerFile, getInputScannerPipe,
                    nextLine (opening of file operands), execShell
     interp/vm.go   BuiltinSystem, BuiltinClose, getline (the three forms)
     interp/interp.go  setExecuteConfig (the three deny flags, openFile)
   Definitions only.  Each function mirrors the Go function's case analysis in
   the order the Go code performs it (stream-table lookups first, then special
   names / flag tests in exactly the order of the source).

   The operating system is an explicit environment [env]: the answer of the
   configured open function, the number of records a file delivers, whether a
   process start succeeds.  Theorems quantify over every environment. *)
From Verif Require Import Lib.Base Gen.Consts.

(* ---- vocabulary ------------------------------------------------------- *)

Inductive skind := KFile | KCmd | KNull.          (* outFileStream/inFileStream, out/inCmdStream, outNullStream *)
Inductive oflag := ORead | OTrunc | OAppend.      (* O_RDONLY ; O_CREATE|O_WRONLY|O_TRUNC ; O_CREATE|O_WRONLY|O_APPEND *)
Inductive stdname := StdOut | StdErr | StdIn | StdInMain.   (* p.output, p.errorOutput, p.stdin via getline <"-", p.stdin as main input *)
Inductive osres := OsOk | OsNotExist | OsFail.    (* nil error ; errors.Is(err, fs.ErrNotExist) ; any other error *)

Inductive effect :=
| CallOpenFile (name : bytes) (fl : oflag)        (* p.openFile(name, flags, perm): the configured function *)
| StartProcess (cmd : bytes)                      (* p.execShell(cmd) followed by cmd.Start() *)
| Reuse (name : bytes) (k : skind)                (* stream already in the table *)
| UseStd (w : stdname)                            (* an existing standard stream, nothing opened *)
| CloseStream (name : bytes) (k : skind).

Inductive err :=
| ENoFileWrites      (* "can't write to file due to NoFileWrites" *)
| ENoExecPipeOut     (* "can't write to pipe due to NoExec" *)
| ENoFileReads       (* "can't read from file due to NoFileReads" *)
| ENoExecPipeIn      (* "can't read from pipe due to NoExec" *)
| ENoExecSystem      (* "can't call system() due to NoExec" *)
| EWriteToReader     (* "can't write to reader stream" *)
| EReadFromWriter    (* "can't read from writer stream" *)
| ERedirect          (* "output redirection error: ..." (the open function failed) *)
| EOpen              (* error of the open function returned as is *)
| EArgcTooLarge.     (* "ARGC set too large" *)

(* what the AWK program sees as the value of the expression, as far as the gate decides it *)
Inductive rv := RNone | RNeg1 | RNonNeg.

Inductive step_out :=
| Continue (r : rv)
| Stop (e : err)        (* a Go error returned up to ExecProgram: the run ends *)
| Fuel.                 (* never happens (Proofs/Sandbox.v next_line_fuel) *)

Inductive via := ViaMain | ViaGetline.            (* caller of nextLine: execActions / plain getline *)

Inductive req :=
| OpenWrite (name : bytes)      (* print/printf ... >  name *)
| OpenAppend (name : bytes)     (* print/printf ... >> name *)
| PipeTo (cmd : bytes)          (* print/printf ... |  cmd  *)
| ReadFile (name : bytes)       (* getline [var] < name *)
| ReadCmd (cmd : bytes)         (* cmd | getline [var] *)
| System (cmd : bytes)          (* system(cmd) *)
| NextLine (v : via)            (* one call of nextLine *)
| Close (name : bytes)          (* close(name) *)
| SetArgv (i : Z) (name : bytes) (* ARGV[i] = name *)
| SetArgc (n : Z)               (* ARGC = n *)
| Fflush (name : bytes).        (* fflush(name) *)

Record config := mkConfig {
  noExec : bool; noFileWrites : bool; noFileReads : bool; noArgVars : bool }.

Record env := mkEnv {
  os_open : nat -> bytes -> oflag -> osres;   (* answer of the k-th call of the open function *)
  nrecords : nat -> bytes -> nat;             (* records delivered by the file opened by the k-th call *)
  start_ok : nat -> bytes -> bool }.          (* does the k-th cmd.Start() succeed *)

Record state := mkState {
  ins : list (bytes * skind);        (* p.inputStreams *)
  outs : list (bytes * skind);       (* p.outputStreams *)
  stdin_scanner : bool;              (* p.scanners["-"] present *)
  stdin_left : nat;                  (* records not yet taken from p.stdin *)
  argv : list (Z * bytes);           (* ARGV, integer keys *)
  argc : Z;                          (* int(p.argc.num()) *)
  fidx : Z;                          (* p.filenameIndex *)
  had_files : bool;                  (* p.hadFiles *)
  main_in : option nat;              (* p.scanner: None = nil, Some k = k records left in the current input *)
  n_open : nat;                      (* calls of the open function so far *)
  n_start : nat }.                   (* process starts so far *)

(* ---- small helpers ---------------------------------------------------- *)

Definition dash : bytes := [45].
Definition dev_stdout : bytes := [47;100;101;118;47;115;116;100;111;117;116].
Definition dev_stderr : bytes := [47;100;101;118;47;115;116;100;101;114;114].

Fixpoint lookup (n : bytes) (t : list (bytes * skind)) : option skind :=
  match t with
  | [] => None
  | (m, k) :: t' => if bytes_eqb n m then Some k else lookup n t'
  end.

Fixpoint remove (n : bytes) (t : list (bytes * skind)) : list (bytes * skind) :=
  match t with
  | [] => []
  | (m, k) :: t' => if bytes_eqb n m then remove n t' else (m, k) :: remove n t'
  end.

Definition insert (n : bytes) (k : skind) (t : list (bytes * skind)) := (n, k) :: remove n t.

Fixpoint argv_get (i : Z) (a : list (Z * bytes)) : bytes :=
  match a with
  | [] => []                                   (* missing element: toString(null) = "" *)
  | (j, v) :: a' => if i =? j then v else argv_get i a'
  end.

Fixpoint argv_of_args (i : Z) (args : list bytes) : list (Z * bytes) :=
  match args with [] => [] | a :: r => (i, a) :: argv_of_args (i + 1) r end.

(* interp.go varRegex: an identifier [_a-zA-Z][_a-zA-Z0-9]* , then '=' , then anything;
   FindStringSubmatch succeeds iff the string starts with an identifier followed by '=' *)
Definition is_alpha_ (b : Z) : bool := (b =? 95) || ((65 <=? b) && (b <=? 90)) || ((97 <=? b) && (b <=? 122)).
Definition is_alnum_ (b : Z) : bool := is_alpha_ b || ((48 <=? b) && (b <=? 57)).
Fixpoint after_ident (l : bytes) : bool :=
  match l with [] => false | b :: l' => if is_alnum_ b then after_ident l' else b =? 61 end.
Definition is_var_assign (l : bytes) : bool :=
  match l with [] => false | b :: l' => is_alpha_ b && after_ident l' end.

Definition set_ins t (s : state) := mkState t (outs s) (stdin_scanner s) (stdin_left s) (argv s) (argc s) (fidx s) (had_files s) (main_in s) (n_open s) (n_start s).
Definition set_outs t (s : state) := mkState (ins s) t (stdin_scanner s) (stdin_left s) (argv s) (argc s) (fidx s) (had_files s) (main_in s) (n_open s) (n_start s).
Definition set_stdin_scanner b (s : state) := mkState (ins s) (outs s) b (stdin_left s) (argv s) (argc s) (fidx s) (had_files s) (main_in s) (n_open s) (n_start s).
Definition set_stdin_left k (s : state) := mkState (ins s) (outs s) (stdin_scanner s) k (argv s) (argc s) (fidx s) (had_files s) (main_in s) (n_open s) (n_start s).
Definition set_argv a (s : state) := mkState (ins s) (outs s) (stdin_scanner s) (stdin_left s) a (argc s) (fidx s) (had_files s) (main_in s) (n_open s) (n_start s).
Definition set_argc n (s : state) := mkState (ins s) (outs s) (stdin_scanner s) (stdin_left s) (argv s) n (fidx s) (had_files s) (main_in s) (n_open s) (n_start s).
Definition set_fidx i (s : state) := mkState (ins s) (outs s) (stdin_scanner s) (stdin_left s) (argv s) (argc s) i (had_files s) (main_in s) (n_open s) (n_start s).
Definition set_had_files b (s : state) := mkState (ins s) (outs s) (stdin_scanner s) (stdin_left s) (argv s) (argc s) (fidx s) b (main_in s) (n_open s) (n_start s).
Definition set_main_in m (s : state) := mkState (ins s) (outs s) (stdin_scanner s) (stdin_left s) (argv s) (argc s) (fidx s) (had_files s) m (n_open s) (n_start s).
Definition bump_open (s : state) := mkState (ins s) (outs s) (stdin_scanner s) (stdin_left s) (argv s) (argc s) (fidx s) (had_files s) (main_in s) (S (n_open s)) (n_start s).
Definition bump_start (s : state) := mkState (ins s) (outs s) (stdin_scanner s) (stdin_left s) (argv s) (argc s) (fidx s) (had_files s) (main_in s) (n_open s) (S (n_start s)).

(* interp.go setExecuteConfig / newInterp: fresh tables, ARGV[1..] = Args, ARGC = len(Args)+1, filenameIndex = 1 *)
Definition init_state (args : list bytes) (stdin_records : nat) : state :=
  mkState [] [] false stdin_records (argv_of_args 1 args) (zlen args + 1) 1 false None O O.

(* ---- io.go getOutputStream ------------------------------------------- *)

Inductive redirect := RGreater | RAppend | RPipe.

Definition get_output_stream (c : config) (e : env) (s : state) (rd : redirect) (name : bytes)
  : list effect * step_out * state :=
  match lookup name (ins s) with
  | Some _ => ([], Stop EWriteToReader, s)
  | None =>
  match lookup name (outs s) with
  | Some k => ([Reuse name k], Continue RNone, s)
  | None =>
  match rd with
  | RGreater | RAppend =>
      if bytes_eqb name dash then ([UseStd StdOut], Continue RNone, s)
      else if noFileWrites c then ([], Stop ENoFileWrites, s)
      else if bytes_eqb name dev_stderr then ([UseStd StdErr], Continue RNone, s)
      else if bytes_eqb name dev_stdout then ([UseStd StdOut], Continue RNone, s)
      else
        let fl := match rd with RGreater => OTrunc | _ => OAppend end in
        match os_open e (n_open s) name fl with
        | OsOk => ([CallOpenFile name fl], Continue RNone, set_outs (insert name KFile (outs s)) (bump_open s))
        | _ => ([CallOpenFile name fl], Stop ERedirect, bump_open s)
        end
  | RPipe =>
      if noExec c then ([], Stop ENoExecPipeOut, s)
      else
        let k := if start_ok e (n_start s) name then KCmd else KNull in   (* Start failed: message on stderr, null stream *)
        ([StartProcess name], Continue RNone, set_outs (insert name k (outs s)) (bump_start s))
  end end end.

(* ---- io.go getInputScannerFile (+ vm.go getline, case LESS) ----------- *)

Definition get_input_scanner_file (c : config) (e : env) (s : state) (name : bytes)
  : list effect * step_out * state :=
  match lookup name (outs s) with
  | Some _ => ([], Stop EReadFromWriter, s)
  | None =>
  match lookup name (ins s) with
  | Some k => ([Reuse name k], Continue RNonNeg, s)
  | None =>
      if bytes_eqb name dash then
        (* p.scanners["-"]: created once, never removed; the first Scan takes what p.stdin holds *)
        ([UseStd StdIn], Continue RNonNeg, set_stdin_left O (set_stdin_scanner true s))
      else if noFileReads c then ([], Stop ENoFileReads, s)
      else
        match os_open e (n_open s) name ORead with
        | OsOk => ([CallOpenFile name ORead], Continue RNonNeg, set_ins (insert name KFile (ins s)) (bump_open s))
        | OsNotExist => ([CallOpenFile name ORead], Continue RNeg1, bump_open s)   (* getline returns -1 *)
        | OsFail => ([CallOpenFile name ORead], Stop EOpen, bump_open s)
        end
  end end.

(* ---- io.go getInputScannerPipe (+ vm.go getline, case PIPE) ----------- *)

Definition get_input_scanner_pipe (c : config) (e : env) (s : state) (name : bytes)
  : list effect * step_out * state :=
  match lookup name (outs s) with
  | Some _ => ([], Stop EReadFromWriter, s)
  | None =>
  match lookup name (ins s) with
  | Some k => ([Reuse name k], Continue RNonNeg, s)
  | None =>
      if noExec c then ([], Stop ENoExecPipeIn, s)
      else if start_ok e (n_start s) name
      then ([StartProcess name], Continue RNonNeg, set_ins (insert name KCmd (ins s)) (bump_start s))
      else ([StartProcess name], Continue RNonNeg, bump_start s)     (* empty scanner, nothing stored *)
  end end.

(* ---- vm.go BuiltinSystem ---------------------------------------------- *)

Definition builtin_system (c : config) (e : env) (s : state) (cmd : bytes)
  : list effect * step_out * state :=
  if noExec c then ([], Stop ENoExecSystem, s)
  else ([StartProcess cmd], Continue (if start_ok e (n_start s) cmd then RNonNeg else RNeg1), bump_start s).

(* ---- vm.go BuiltinClose ------------------------------------------------ *)

Definition builtin_close (s : state) (name : bytes) : list effect * step_out * state :=
  match lookup name (ins s) with
  | Some k => ([CloseStream name k], Continue RNonNeg, set_ins (remove name (ins s)) s)
  | None =>
  match lookup name (outs s) with
  | Some k => ([CloseStream name k], Continue (match k with KNull => RNeg1 | _ => RNonNeg end),
               set_outs (remove name (outs s)) s)
  | None => ([], Continue RNeg1, s)
  end end.

(* ---- vm.go BuiltinFflush, io.go flushStream / flushAll: nothing is opened ---- *)

Definition builtin_fflush (s : state) (name : bytes) : list effect * step_out * state :=
  if bytes_eqb name [] then ([], Continue RNonNeg, s)                   (* flushAll *)
  else match lookup name (outs s) with
       | Some _ => ([], Continue RNonNeg, s)
       | None => ([], Continue RNeg1, s)                                (* "not an output file or pipe" *)
       end.

(* ---- io.go nextLine ----------------------------------------------------- *)

Inductive nl_out := NLRecord | NLEOF | NLErr (e : err) | NLFuel.

(* One pass of the for-loop of nextLine per unit of fuel.  [attach] = "p.scanner =
   p.newScanner(p.input ...); if p.scanner.Scan() break; ... p.scanner = nil" for an
   input delivering k records. *)
Fixpoint next_line_loop (fuel : nat) (c : config) (e : env) (s : state) : list effect * nl_out * state :=
  match fuel with
  | O => ([], NLFuel, s)
  | S f =>
    let attach := fun (effs : list effect) (k : nat) (s' : state) =>
      match k with
      | S k' => (effs, NLRecord, set_main_in (Some k') s')
      | O => let '(e2, o, s2) := next_line_loop f c e (set_main_in None s') in (effs ++ e2, o, s2)
      end in
    if (argc s <=? fidx s) && negb (had_files s) then
      (* past the ARGV arguments without having seen a file: standard input *)
      attach [UseStd StdInMain] (stdin_left s) (set_stdin_left O (set_had_files true s))
    else if argc s <=? fidx s then ([], NLEOF, s)
    else
      let name := argv_get (fidx s) (argv s) in
      let s1 := set_fidx (fidx s + 1) s in
      if negb (noArgVars c) && is_var_assign name then next_line_loop f c e s1      (* var=value *)
      else if bytes_eqb name [] then next_line_loop f c e s1                        (* empty: skipped *)
      else if bytes_eqb name dash then
        attach [UseStd StdInMain] (stdin_left s1) (set_stdin_left O (set_had_files true s1))
      else if noFileReads c then ([], NLErr ENoFileReads, s1)
      else
        match os_open e (n_open s1) name ORead with
        | OsOk => attach [CallOpenFile name ORead] (nrecords e (n_open s1) name) (set_had_files true (bump_open s1))
        | _ => ([CallOpenFile name ORead], NLErr EOpen, bump_open s1)
        end
  end.

Definition next_line_fuel (s : state) : nat := Z.to_nat (argc s - fidx s) + 3.

Definition next_line (c : config) (e : env) (s : state) : list effect * nl_out * state :=
  match main_in s with
  | Some (S k) => ([], NLRecord, set_main_in (Some k) s)       (* p.scanner.Scan() succeeds *)
  | Some O => next_line_loop (next_line_fuel s) c e (set_main_in None s)
  | None => next_line_loop (next_line_fuel s) c e s
  end.

(* the two callers: interp.go execActions returns the error; vm.go getline (default case)
   turns io.EOF into 0, returns the sandbox denial (err == errNoFileReads) as the run-time
   error, and turns every other error into -1 without returning it *)
Definition getline_plain_err (x : err) : step_out :=
  match x with
  | ENoFileReads => Stop ENoFileReads
  | _ => Continue RNeg1
  end.

Definition next_line_via (c : config) (e : env) (s : state) (v : via) : list effect * step_out * state :=
  let '(effs, o, s') := next_line c e s in
  match o, v with
  | NLRecord, _ => (effs, Continue RNonNeg, s')
  | NLEOF, _ => (effs, Continue RNonNeg, s')
  | NLErr x, ViaMain => (effs, Stop x, s')
  | NLErr x, ViaGetline => (effs, getline_plain_err x, s')
  | NLFuel, _ => (effs, Fuel, s')
  end.

(* ---- one request --------------------------------------------------------- *)

Definition io_step (c : config) (e : env) (s : state) (r : req) : list effect * step_out * state :=
  match r with
  | OpenWrite n => get_output_stream c e s RGreater n
  | OpenAppend n => get_output_stream c e s RAppend n
  | PipeTo n => get_output_stream c e s RPipe n
  | ReadFile n => get_input_scanner_file c e s n
  | ReadCmd n => get_input_scanner_pipe c e s n
  | System n => builtin_system c e s n
  | NextLine v => next_line_via c e s v
  | Close n => builtin_close s n
  | SetArgv i n => ([], Continue RNone, set_argv ((i, n) :: argv s) s)
  | SetArgc n => if maxFieldIndex <? n then ([], Stop EArgcTooLarge, s)
                 else ([], Continue RNone, set_argc n s)
  | Fflush n => builtin_fflush s n
  end.

(* ---- a whole run: requests in program order; the first Stop ends it ------- *)

Definition is_continue (o : step_out) : bool := match o with Continue _ => true | _ => false end.

Fixpoint run_log (c : config) (e : env) (s : state) (h : list req) : list (list effect * step_out) :=
  match h with
  | [] => []
  | r :: h' =>
      let '(effs, o, s') := io_step c e s r in
      (effs, o) :: (if is_continue o then run_log c e s' h' else [])
  end.

Fixpoint run_state (c : config) (e : env) (s : state) (h : list req) : state :=
  match h with
  | [] => s
  | r :: h' =>
      let '(effs, o, s') := io_step c e s r in
      if is_continue o then run_state c e s' h' else s'
  end.

Definition effects_of (log : list (list effect * step_out)) : list effect := concat (map fst log).
Definition run_effects c e s h := effects_of (run_log c e s h).

(* ---- classification of effects ------------------------------------------- *)

Definition is_start (x : effect) : bool := match x with StartProcess _ => true | _ => false end.
Definition is_write_open (x : effect) : bool :=
  match x with CallOpenFile _ OTrunc | CallOpenFile _ OAppend => true | _ => false end.
Definition is_read_open (x : effect) : bool := match x with CallOpenFile _ ORead => true | _ => false end.

(* environment built from finite tables (what the model runner is given) *)
Definition env_of_tables (opens : list osres) (recs : list (bytes * nat)) (starts : bool) : env :=
  mkEnv (fun k _ _ => nth k opens OsFail)
        (fun _ n => (fix find (t : list (bytes * nat)) : nat :=
                       match t with [] => O | (m, k) :: t' => if bytes_eqb n m then k else find t' end) recs)
        (fun _ _ => starts).
