(* C11: model of goawk's input bookkeeping.
   Mirrors, function by function:
     interp/io.go      nextLine, setFile, setLine            -> walk, next_line, set_file, set_line
     interp/interp.go  setVarByName, setField                -> set_var_by_name, set_field
     interp/io.go      getInputScannerFile/Pipe              -> rd_read
     interp/vm.go      getline + the Getline* opcodes, close -> do_getline, prim
     interp/interp.go  execActions, executeAll               -> exec_rules, main_loop, exec_all
   Files and command outputs are [name -> list record] (record splitting is C07's
   business).  The AWK program is an arbitrary deterministic machine (type [U],
   function [step]) that talks to the input subsystem only through requests
   ([req]); rule bodies, patterns, functions and loops live inside [U].
   The last part of the file instantiates the machine with a small script
   language that the harness also renders as AWK text.
   Definitions only. *)
From Verif Require Import Lib.Base.

Definition record := bytes.

(* ---------- association lists ---------- *)

Fixpoint zlookup {A} (l : list (Z * A)) (k : Z) : option A :=
  match l with
  | [] => None
  | (k', v) :: l' => if k' =? k then Some v else zlookup l' k
  end.

Fixpoint zremove {A} (l : list (Z * A)) (k : Z) : list (Z * A) :=
  match l with
  | [] => []
  | (k', v) :: l' => if k' =? k then zremove l' k else (k', v) :: zremove l' k
  end.

Definition zupdate {A} (l : list (Z * A)) (k : Z) (v : A) : list (Z * A) := (k, v) :: zremove l k.

Fixpoint blookup {A} (l : list (bytes * A)) (k : bytes) : option A :=
  match l with
  | [] => None
  | (k', v) :: l' => if bytes_eqb k' k then Some v else blookup l' k
  end.

Fixpoint bremove {A} (l : list (bytes * A)) (k : bytes) : list (bytes * A) :=
  match l with
  | [] => []
  | (k', v) :: l' => if bytes_eqb k' k then bremove l' k else (k', v) :: bremove l' k
  end.

Definition bupdate {A} (l : list (bytes * A)) (k : bytes) (v : A) : list (bytes * A) := (k, v) :: bremove l k.

Fixpoint bmem (k : bytes) (l : list bytes) : bool :=
  match l with
  | [] => false
  | k' :: l' => bytes_eqb k' k || bmem k l'
  end.

(* ---------- history (ghost) and output ---------- *)

Inductive ev :=
| EvRec (file : bytes) (r : record)          (* nextLine delivered a record of [file] *)
| EvSkip (file : bytes) (rs : list record)   (* nextfile abandoned these records of [file] *)
| EvSetFile (name : bytes)                   (* setFile *)
| EvAssign (name val : bytes)                (* a var=value operand was reached and processed *)
| EvNoFile (name : bytes)                    (* a file operand could not be opened *)
| EvSetNR (z : Z)                            (* the program assigned NR *)
| EvSetFNR (z : Z)
| EvSetVar (name val : bytes)                (* the program assigned a variable *)
| EvGetVar (name val : bytes)                (* a getline form stored into a variable *)
| EvExit (n : Z).                            (* exit expr evaluated *)

Inductive oev :=
| OTrace (tag : Z) (nr fnr : Z) (fname line : bytes) (nf ret : Z) (vals : list bytes) (flds : list bytes)
| OPrint (line : bytes).

(* ---------- state of the input subsystem ---------- *)

Record st := mkSt {
  argv : list (Z * bytes);        (* ARGV, by integer index (strconv.Itoa keys) *)
  argc : Z;                       (* int(p.argc.num()) *)
  idx : Z;                        (* p.filenameIndex *)
  had : bool;                     (* p.hadFiles *)
  cur : option (bytes * list record);  (* p.scanner: None = nil, else name and unread records *)
  stdin : list record;            (* records of stdin no scanner has taken yet *)
  NR : Z;                         (* p.lineNum *)
  FNR : Z;                        (* p.fileLineNum *)
  FILENAME : bytes;               (* p.filename *)
  line : bytes;                   (* p.line *)
  fields : list bytes;            (* p.fields; NF = length *)
  vars : list (bytes * bytes);    (* user variables by lvalue text *)
  rd : list (bytes * list record);(* p.inputStreams/p.scanners: open getline streams by name *)
  rdstdin : option (list record); (* p.scanners["-"] *)
  ret : Z;                        (* result of the last getline (what the program sees) *)
  status : Z;                     (* p.exitStatus *)
  out : list oev;                 (* program output, newest first *)
  log : list ev                   (* ghost history, newest first *)
}.

Definition set_argv v s := mkSt v (argc s) (idx s) (had s) (cur s) (stdin s) (NR s) (FNR s) (FILENAME s) (line s) (fields s) (vars s) (rd s) (rdstdin s) (ret s) (status s) (out s) (log s).
Definition set_argc v s := mkSt (argv s) v (idx s) (had s) (cur s) (stdin s) (NR s) (FNR s) (FILENAME s) (line s) (fields s) (vars s) (rd s) (rdstdin s) (ret s) (status s) (out s) (log s).
Definition set_idx v s := mkSt (argv s) (argc s) v (had s) (cur s) (stdin s) (NR s) (FNR s) (FILENAME s) (line s) (fields s) (vars s) (rd s) (rdstdin s) (ret s) (status s) (out s) (log s).
Definition set_had v s := mkSt (argv s) (argc s) (idx s) v (cur s) (stdin s) (NR s) (FNR s) (FILENAME s) (line s) (fields s) (vars s) (rd s) (rdstdin s) (ret s) (status s) (out s) (log s).
Definition set_cur v s := mkSt (argv s) (argc s) (idx s) (had s) v (stdin s) (NR s) (FNR s) (FILENAME s) (line s) (fields s) (vars s) (rd s) (rdstdin s) (ret s) (status s) (out s) (log s).
Definition set_stdin v s := mkSt (argv s) (argc s) (idx s) (had s) (cur s) v (NR s) (FNR s) (FILENAME s) (line s) (fields s) (vars s) (rd s) (rdstdin s) (ret s) (status s) (out s) (log s).
Definition set_NR v s := mkSt (argv s) (argc s) (idx s) (had s) (cur s) (stdin s) v (FNR s) (FILENAME s) (line s) (fields s) (vars s) (rd s) (rdstdin s) (ret s) (status s) (out s) (log s).
Definition set_FNR v s := mkSt (argv s) (argc s) (idx s) (had s) (cur s) (stdin s) (NR s) v (FILENAME s) (line s) (fields s) (vars s) (rd s) (rdstdin s) (ret s) (status s) (out s) (log s).
Definition set_FILENAME v s := mkSt (argv s) (argc s) (idx s) (had s) (cur s) (stdin s) (NR s) (FNR s) v (line s) (fields s) (vars s) (rd s) (rdstdin s) (ret s) (status s) (out s) (log s).
Definition set_linefields l f s := mkSt (argv s) (argc s) (idx s) (had s) (cur s) (stdin s) (NR s) (FNR s) (FILENAME s) l f (vars s) (rd s) (rdstdin s) (ret s) (status s) (out s) (log s).
Definition set_vars v s := mkSt (argv s) (argc s) (idx s) (had s) (cur s) (stdin s) (NR s) (FNR s) (FILENAME s) (line s) (fields s) v (rd s) (rdstdin s) (ret s) (status s) (out s) (log s).
Definition set_rd v s := mkSt (argv s) (argc s) (idx s) (had s) (cur s) (stdin s) (NR s) (FNR s) (FILENAME s) (line s) (fields s) (vars s) v (rdstdin s) (ret s) (status s) (out s) (log s).
Definition set_rdstdin v s := mkSt (argv s) (argc s) (idx s) (had s) (cur s) (stdin s) (NR s) (FNR s) (FILENAME s) (line s) (fields s) (vars s) (rd s) v (ret s) (status s) (out s) (log s).
Definition set_ret v s := mkSt (argv s) (argc s) (idx s) (had s) (cur s) (stdin s) (NR s) (FNR s) (FILENAME s) (line s) (fields s) (vars s) (rd s) (rdstdin s) v (status s) (out s) (log s).
Definition set_status v s := mkSt (argv s) (argc s) (idx s) (had s) (cur s) (stdin s) (NR s) (FNR s) (FILENAME s) (line s) (fields s) (vars s) (rd s) (rdstdin s) (ret s) v (out s) (log s).
Definition add_out o s := mkSt (argv s) (argc s) (idx s) (had s) (cur s) (stdin s) (NR s) (FNR s) (FILENAME s) (line s) (fields s) (vars s) (rd s) (rdstdin s) (ret s) (status s) (o :: out s) (log s).
Definition add_log e s := mkSt (argv s) (argc s) (idx s) (had s) (cur s) (stdin s) (NR s) (FNR s) (FILENAME s) (line s) (fields s) (vars s) (rd s) (rdstdin s) (ret s) (status s) (out s) (e :: log s).

(* ---------- the static environment of one run ---------- *)

Record env := mkEnv {
  fs : list (bytes * list record);    (* readable files: name -> records; absent = cannot be opened *)
  cmds : list (bytes * list record);  (* command line -> records of its output *)
  globals : list bytes;               (* names of the program's global scalars (p.scalarIndexes) *)
  noargvars : bool;                   (* Config.NoArgVars *)
  imode : option Z                    (* input mode: None = default (FS " "); Some sep = CSV (44) / TSV (9), set by
                                         Config.InputMode or by INPUTMODE before the first read *)
}.

(* ---------- byte-level helpers ---------- *)

Definition b_dash : bytes := [45].
Definition b_NR : bytes := [78; 82].
Definition b_FNR : bytes := [70; 78; 82].

Definition is_alpha_ (c : Z) : bool :=
  (c =? 95) || ((65 <=? c) && (c <=? 90)) || ((97 <=? c) && (c <=? 122)).
Definition is_digit (c : Z) : bool := (48 <=? c) && (c <=? 57).
Definition is_upper (c : Z) : bool := (65 <=? c) && (c <=? 90).

(* after the first name character: [_a-zA-Z0-9]* then '=' *)
Fixpoint split_name (s : bytes) (acc : bytes) : option (bytes * bytes) :=
  match s with
  | [] => None
  | c :: s' =>
      if c =? 61 then Some (rev acc, s')
      else if is_alpha_ c || is_digit c then split_name s' (c :: acc)
      else None
  end.

(* interp.go varRegex, with the s flag: name = [_a-zA-Z][_a-zA-Z0-9]*, then '=', then the whole rest
   of the operand (line feeds included); FindStringSubmatch *)
Definition parse_assign (s : bytes) : option (bytes * bytes) :=
  match s with
  | c :: s' => if is_alpha_ c then split_name s' [c] else None
  | [] => None
  end.

Definition hex_digit (c : Z) : option Z :=
  if is_digit c then Some (c - 48)
  else if (97 <=? c) && (c <=? 102) then Some (c - 87)
  else if (65 <=? c) && (c <=? 70) then Some (c - 55)
  else None.
Definition is_oct (c : Z) : bool := (48 <=? c) && (c <=? 55).

Inductive unesc := UOk (b : bytes) | UErr | UUnmod.

(* lexer.Unescape = parseString(quote 0): a NUL byte ends the string; CR/LF is an error;
   \u is not modelled.  Fuel = length of the input (every step consumes a byte). *)
Fixpoint unescape_go (n : nat) (s : bytes) (acc : bytes) : unesc :=
  match n with
  | O => UOk (rev acc)
  | S n' =>
    match s with
    | [] => UOk (rev acc)
    | c :: s1 =>
      if c =? 0 then UOk (rev acc)
      else if (c =? 13) || (c =? 10) then UErr
      else if negb (c =? 92) then unescape_go n' s1 (c :: acc)
      else match s1 with
        | [] => UOk (rev (92 :: acc))                      (* backslash at the very end *)
        | d :: s2 =>
          if d =? 0 then UOk (rev (92 :: acc))             (* ch() = 0: literal backslash, then the loop stops at the NUL *)
          else if d =? 110 then unescape_go n' s2 (10 :: acc)
          else if d =? 116 then unescape_go n' s2 (9 :: acc)
          else if d =? 114 then unescape_go n' s2 (13 :: acc)
          else if d =? 97 then unescape_go n' s2 (7 :: acc)
          else if d =? 98 then unescape_go n' s2 (8 :: acc)
          else if d =? 102 then unescape_go n' s2 (12 :: acc)
          else if d =? 118 then unescape_go n' s2 (11 :: acc)
          else if d =? 117 then UUnmod
          else if d =? 120 then
            match s2 with
            | h1 :: s3 =>
              match hex_digit h1 with
              | None => UErr
              | Some v1 =>
                match s3 with
                | h2 :: s4 =>
                  match hex_digit h2 with
                  | Some v2 => unescape_go n' s4 (((v1 * 16 + v2) mod 256) :: acc)
                  | None => unescape_go n' s3 (v1 :: acc)
                  end
                | [] => unescape_go n' s3 (v1 :: acc)
                end
              end
            | [] => UErr
            end
          else if is_oct d then
            match s2 with
            | o2 :: s3 =>
              if is_oct o2 then
                match s3 with
                | o3 :: s4 =>
                  if is_oct o3 then unescape_go n' s4 ((((d - 48) * 8 + (o2 - 48)) * 8 + (o3 - 48)) mod 256 :: acc)
                  else unescape_go n' s3 (((d - 48) * 8 + (o2 - 48)) :: acc)
                | [] => unescape_go n' s3 (((d - 48) * 8 + (o2 - 48)) :: acc)
                end
              else unescape_go n' s2 ((d - 48) :: acc)
            | [] => unescape_go n' s2 ((d - 48) :: acc)
            end
          else unescape_go n' s2 (d :: acc)
        end
    end
  end.

Definition unescape (s : bytes) : unesc := unescape_go (length s) s [].

(* canonical decimal natural number: "0" or [1-9][0-9]* *)
Fixpoint dec_value (s : bytes) (acc : Z) : option Z :=
  match s with
  | [] => Some acc
  | c :: s' => if is_digit c then dec_value s' (acc * 10 + (c - 48)) else None
  end.
Definition parse_canon_nat (s : bytes) : option Z :=
  match s with
  | [] => None
  | [48] => Some 0
  | c :: _ => if (49 <=? c) && (c <=? 57) then dec_value s 0 else None
  end.

(* strings.Fields on ASCII data: split on runs of space, \t \n \v \f \r *)
Definition is_space (c : Z) : bool := (c =? 32) || (c =? 9) || (c =? 10).   (* interp.splitBlanks: space, tab, newline *)
Fixpoint split_ws_go (s : bytes) (w : bytes) (acc : list bytes) : list bytes :=
  match s with
  | [] => rev (match w with [] => acc | _ => rev w :: acc end)
  | c :: s' =>
      if is_space c then split_ws_go s' [] (match w with [] => acc | _ => rev w :: acc end)
      else split_ws_go s' (c :: w) acc
  end.
Definition split_ws (s : bytes) : list bytes := split_ws_go s [] [].

(* strings.Join(fields, " ") *)
Fixpoint join_sp (l : list bytes) : bytes :=
  match l with
  | [] => []
  | [x] => x
  | x :: l' => x ++ 32 :: join_sp l'
  end.

(* ---------- io.go setFile / setLine ---------- *)

Definition set_file (name : bytes) (s : st) : st :=
  add_log (EvSetFile name) (set_had true (set_FNR 0 (set_FILENAME name s))).

(* setLine: fields are split lazily in Go, with the FS saved here; FS is fixed (" ") in this model *)
(* CSV/TSV mode, records without quotes: csvSplitter yields the line as record and the pieces between
   separators as fields (no field at all for an empty line, which ensureFields gets when $0 is set to "") *)
Fixpoint split_sep_go (sep : Z) (s : bytes) (w : bytes) (acc : list bytes) : list bytes :=
  match s with
  | [] => rev (rev w :: acc)
  | c :: s' => if c =? sep then split_sep_go sep s' [] (rev w :: acc) else split_sep_go sep s' (c :: w) acc
  end.
Definition split_sep (sep : Z) (s : bytes) : list bytes :=
  match s with [] => [] | _ => split_sep_go sep s [] [] end.

(* the fields of a record in the input mode of the run *)
Definition split_mode (e : env) (l : bytes) : list bytes :=
  match imode e with None => split_ws l | Some sep => split_sep sep l end.

Definition set_line (e : env) (l : bytes) (s : st) : st := set_linefields l (split_mode e l) s.

(* ---------- interp.go setVarByName (called for var=value operands) ---------- *)

Definition all_upper (name : bytes) : bool := forallb is_upper name.

(* None = the model declines (special variables other than NR and FNR, non-canonical numbers) *)
Definition set_var_by_name (e : env) (name val : bytes) (s : st) : option st :=
  if bytes_eqb name b_NR then
    match parse_canon_nat val with
    | Some z => Some (set_NR z s)
    | None => None
    end
  else if bytes_eqb name b_FNR then
    match parse_canon_nat val with
    | Some z => Some (set_FNR z s)
    | None => None
    end
  else if all_upper name then None
  else if bmem name (globals e) then Some (set_vars (bupdate (vars s) name val) s)
  else Some s.   (* "Ignore variables that aren't defined in program" *)

(* ---------- io.go nextLine ---------- *)

Inductive nlres := NLRec (r : record) | NLEof | NLErr | NLUnmod | NLFuel.

(* the tail of nextLine: a record was scanned *)
Definition deliver (name : bytes) (r : record) (rest : list record) (s : st) : nlres * st :=
  (NLRec r, add_log (EvRec name r) (set_FNR (FNR s + 1) (set_NR (NR s + 1) (set_cur (Some (name, rest)) s)))).

Definition argv_get (s : st) (i : Z) : bytes :=
  match zlookup (argv s) i with Some v => v | None => [] end.

(* the loop of nextLine once p.scanner == nil; [n] bounds the operands still to visit.
   A scanner on stdin takes everything that is left of stdin into its buffer. *)
Fixpoint walk (e : env) (n : nat) (s : st) : nlres * st :=
  if (argc s <=? idx s) && negb (had s) then
    let s1 := set_file b_dash s in
    match stdin s1 with
    | r :: rest => deliver b_dash r rest (set_stdin [] s1)
    | [] => (NLEof, s1)
    end
  else if argc s <=? idx s then (NLEof, s)
  else
    match n with
    | O => (NLFuel, s)
    | S n' =>
      let name := argv_get s (idx s) in
      let s1 := set_idx (idx s + 1) s in
      match (if noargvars e then None else parse_assign name) with
      | Some (v, raw) =>
          let val := match unescape raw with UOk u => Some u | UErr => Some raw | UUnmod => None end in
          match val with
          | None => (NLUnmod, s1)
          | Some val =>
            match set_var_by_name e v val s1 with
            | Some s2 => walk e n' (add_log (EvAssign v val) s2)
            | None => (NLUnmod, s1)
            end
          end
      | None =>
          match name with
          | [] => walk e n' s1
          | _ =>
            if bytes_eqb name b_dash then
              let s2 := set_file b_dash s1 in
              match stdin s2 with
              | r :: rest => deliver b_dash r rest (set_stdin [] s2)
              | [] => walk e n' s2
              end
            else
              match blookup (fs e) name with
              | None => (NLErr, add_log (EvNoFile name) s1)
              | Some (r :: rest) => deliver name r rest (set_file name s1)
              | Some [] => walk e n' (set_file name s1)
              end
          end
      end
    end.

Definition next_line (e : env) (s : st) : nlres * st :=
  match cur s with
  | Some (name, r :: rest) => deliver name r rest s
  | _ => walk e (Z.to_nat (argc s - idx s)) (set_cur None s)
  end.

(* ---------- interp.go setField ---------- *)

Fixpoint pad_to (n : nat) (l : list bytes) : list bytes :=
  match n with
  | O => l
  | S n' => match l with
            | [] => [] :: pad_to n' []
            | x :: l' => x :: pad_to n' l'
            end
  end.
Fixpoint replace_nth (n : nat) (v : bytes) (l : list bytes) : list bytes :=
  match n, l with
  | O, _ :: l' => v :: l'
  | S n', x :: l' => x :: replace_nth n' v l'
  | _, [] => []
  end.

(* None = not modelled (negative index) *)
Definition set_field (e : env) (n : Z) (v : bytes) (s : st) : option st :=
  if n =? 0 then Some (set_line e v s)
  else if n <? 0 then None
  else
    let k := Z.to_nat n in
    let f := replace_nth (k - 1) v (pad_to k (fields s)) in
    Some (set_linefields (join_sp f) f s).

(* ---------- vm.go getline ---------- *)

Inductive src := SMain | SFile (f : bytes) | SCmd (c : bytes).
Inductive tgt := TLine | TVar (v : bytes) | TField (n : Z).

Definition scan_rd (name : bytes) (recs : list record) (s : st) : Z * record * st :=
  match recs with
  | r :: rest => (1, r, set_rd (bupdate (rd s) name rest) s)
  | [] => (0, [], set_rd (bupdate (rd s) name []) s)
  end.

(* getInputScannerFile / getInputScannerPipe + one Scan.  None = not modelled (unknown command) *)
Definition rd_read (e : env) (sr : src) (s : st) : option (Z * record * st) :=
  match sr with
  | SMain =>
      match next_line e s with
      | (NLRec r, s') => Some (1, r, s')
      | (NLEof, s') => Some (0, [], s')
      | (NLErr, s') => Some (-1, [], s')
      | (_, _) => None
      end
  | SFile f =>
      match blookup (rd s) f with
      | Some recs => Some (scan_rd f recs s)
      | None =>
        if bytes_eqb f b_dash then
          match rdstdin s with
          | Some (r :: rest) => Some (1, r, set_rdstdin (Some rest) s)
          | Some [] => Some (0, [], s)
          | None =>
            match stdin s with
            | r :: rest => Some (1, r, set_rdstdin (Some rest) (set_stdin [] s))
            | [] => Some (0, [], set_rdstdin (Some []) s)
            end
          end
        else
          match blookup (fs e) f with
          | None => Some (-1, [], s)
          | Some recs => Some (scan_rd f recs s)
          end
      end
  | SCmd c =>
      match blookup (rd s) c with
      | Some recs => Some (scan_rd c recs s)
      | None =>
        match blookup (cmds e) c with
        | None => None
        | Some recs => Some (scan_rd c recs s)
        end
      end
  end.

(* the opcodes Getline, GetlineField, GetlineGlobal/Local/Array: what each one sets *)
Definition do_getline (e : env) (sr : src) (tg : tgt) (s : st) : option st :=
  match rd_read e sr s with
  | None => None
  | Some (r, l, s1) =>
    let s2 := set_ret r s1 in
    if r =? 1 then
      match tg with
      | TLine => Some (set_line e l s2)
      | TVar v => Some (add_log (EvGetVar v l) (set_vars (bupdate (vars s2) v l) s2))
      | TField n => set_field e n l s2
      end
    else Some s2
  end.

(* ---------- requests a program can make ---------- *)

Inductive outcome :=
| OVal (b : bool)           (* the block ran to its end (a pattern's truth value in [b]) *)
| ONext | ONextfile
| OExit (n : option Z)      (* exit [expr] *)
| OErr.                     (* a run-time error *)

Inductive req :=
| RDone (o : outcome)
| RSkip
| RGetline (sr : src) (tg : tgt)
| RClose (name : bytes)
| RTrace (tag : Z) (names : list bytes)
| RSetNR (z : Z) | RSetFNR (z : Z)
| RSetArgc (z : Z) | RSetArgv (i : Z) (v : bytes) | RDelArgv (i : Z)
| RSetVar (name val : bytes)
| RSetLine (l : bytes).

Definition var_get (s : st) (name : bytes) : bytes :=
  match blookup (vars s) name with Some v => v | None => [] end.

Definition prim (e : env) (r : req) (s : st) : option st :=
  match r with
  | RDone _ | RSkip => Some s
  | RGetline sr tg => do_getline e sr tg s
  | RClose name => Some (set_rd (bremove (rd s) name) s)
  | RTrace tag names =>
      Some (add_out (OTrace tag (NR s) (FNR s) (FILENAME s) (line s) (zlen (fields s)) (ret s) (map (var_get s) names) (fields s)) s)
  | RSetNR z => Some (add_log (EvSetNR z) (set_NR z s))
  | RSetFNR z => Some (add_log (EvSetFNR z) (set_FNR z s))
  | RSetArgc z => Some (set_argc z s)
  | RSetArgv i v => Some (set_argv (zupdate (argv s) i v) s)
  | RDelArgv i => Some (set_argv (zremove (argv s) i) s)
  | RSetVar name val => Some (add_log (EvSetVar name val) (set_vars (bupdate (vars s) name val) s))
  | RSetLine l => Some (set_line e l s)
  end.

(* ---------- the program as a machine; executeAll ---------- *)

Inductive blk := BBegin | BEnd | BPat (i : nat) (second : bool) | BBody (i : nat).
Inductive pkind := PNone | PExpr | PRange.
Record rule := mkRule { rk : pkind; has_body : bool }.

Inductive rres (U : Type) := RFuel | RUnmod | ROk (o : outcome) (u : U) (s : st).
Arguments RFuel {U}. Arguments RUnmod {U}. Arguments ROk {U} o u s.

(* result of the rules on one record / of the main loop *)
Inductive lres (U : Type) :=
| LFuel | LUnmod
| LCont (u : U) (s : st) (flags : list bool)   (* go on with the next record *)
| LStop (o : outcome) (u : U) (s : st).        (* the error value returned by execActions: exit, or an error *)
Arguments LFuel {U}. Arguments LUnmod {U}. Arguments LCont {U} u s flags. Arguments LStop {U} o u s.

Inductive fin (U : Type) :=
| FFuel | FUnmod
| FOk (u : U) (s : st)          (* executeAll returned (p.exitStatus, nil) *)
| FErr (u : U) (s : st).        (* executeAll returned (0, err) *)
Arguments FFuel {U}. Arguments FUnmod {U}. Arguments FOk {U} u s. Arguments FErr {U} u s.

Section Machine.
  Variable U : Type.
  Variable step : U -> st -> req * U.
  Variable enter : blk -> U -> U.
  Variable e : env.

  (* p.execute(code): run the program until it finishes the block.
     ExitStatus opcode: p.exitStatus = int(expr); return errExit *)
  Fixpoint run (fuel : nat) (u : U) (s : st) : rres U :=
    match fuel with
    | O => RFuel
    | S f =>
      let '(r, u') := step u s in
      match r with
      | RDone (OExit (Some n)) => ROk (OExit (Some n)) u' (add_log (EvExit n) (set_status n s))
      | RDone o => ROk o u' s
      | _ => match prim e r s with
             | Some s' => run f u' s'
             | None => RUnmod
             end
      end
    end.

  (* errNextfile caught by execActions: p.scanner = nil *)
  Definition drop_file (s : st) : st :=
    match cur s with
    | Some (name, rest) => add_log (EvSkip name rest) (set_cur None s)
    | None => s
    end.

  (* the pattern part of one iteration of "for i, action := range actions" *)
  Inductive pres :=
  | PFuel | PUnmod
  | PStop (o : outcome) (u : U) (s : st)        (* return err: exit, or an error *)
  | PSkip (f' : bool) (u : U) (s : st)          (* skipRecord: next / nextfile reached from the pattern
                                                   expression; f' = inRange[i] as it stands *)
  | PVal (matched f' : bool) (u : U) (s : st).  (* matched, new inRange[i] *)

  (* one pattern expression: its truth value, or how it was left *)
  Definition run_pat (fuel : nat) (b : blk) (fcur : bool) (u : U) (s : st) (k : bool -> U -> st -> pres) : pres :=
    match run fuel (enter b u) s with
    | RFuel => PFuel | RUnmod => PUnmod
    | ROk (OVal v) u1 s1 => k v u1 s1
    | ROk ONext u1 s1 => PSkip fcur u1 s1
    | ROk ONextfile u1 s1 => PSkip fcur u1 (drop_file s1)
    | ROk o u1 s1 => PStop o u1 s1
    end.

  Definition eval_pat (fuel : nat) (r : rule) (i : nat) (f : bool) (u : U) (s : st) : pres :=
    match rk r with
    | PNone => PVal true f u s
    | PExpr => run_pat fuel (BPat i false) f u s (fun b u1 s1 => PVal b f u1 s1)
    | PRange =>
        let stop (u1 : U) (s1 : st) : pres :=
          run_pat fuel (BPat i true) true u1 s1 (fun b u2 s2 => PVal true (negb b) u2 s2) in
        if f then stop u s
        else run_pat fuel (BPat i false) false u s
               (fun b u1 s1 => if b then stop u1 s1 else PVal false false u1 s1)
    end.

  (* the "for i, action := range actions" loop for one record.
     [done] = flags of the rules already passed (reversed), [fl] = flags from rule [i] on. *)
  Fixpoint exec_rules (fuel : nat) (rules : list rule) (i : nat) (done fl : list bool) (u : U) (s : st) : lres U :=
    match rules, fl with
    | [], _ => LCont u s (rev done ++ fl)
    | _ :: _, [] => LCont u s (rev done)          (* unreachable: one flag per rule *)
    | r :: rules', f :: fl' =>
      match eval_pat fuel r i f u s with
      | PFuel => LFuel
      | PUnmod => LUnmod
      | PStop o u1 s1 => LStop o u1 s1
      | PSkip f' u1 s1 => LCont u1 s1 (rev (f' :: done) ++ fl')
      | PVal matched f' u1 s1 =>
        if negb matched then exec_rules fuel rules' (S i) (f' :: done) fl' u1 s1
        else if negb (has_body r) then
          exec_rules fuel rules' (S i) (f' :: done) fl' u1 (add_out (OPrint (line s1)) s1)
        else
          match run fuel (enter (BBody i) u1) s1 with
          | RFuel => LFuel | RUnmod => LUnmod
          | ROk (OVal _) u2 s2 => exec_rules fuel rules' (S i) (f' :: done) fl' u2 s2
          | ROk ONext u2 s2 => LCont u2 s2 (rev (f' :: done) ++ fl')
          | ROk ONextfile u2 s2 => LCont u2 (drop_file s2) (rev (f' :: done) ++ fl')
          | ROk o u2 s2 => LStop o u2 s2
          end
      end
    end.

  (* execActions.  Result: LCont = input exhausted (returns nil), LStop = returned an error value *)
  Fixpoint main_loop (fuel : nat) (n : nat) (rules : list rule) (flags : list bool) (u : U) (s : st) : lres U :=
    match n with
    | O => LFuel
    | S n' =>
      match next_line e s with
      | (NLEof, s1) => LCont u s1 flags
      | (NLErr, s1) => LStop OErr u s1
      | (NLRec r, s1) =>
          match exec_rules fuel rules 0 [] flags u (set_line e r s1) with
          | LCont u' s' flags' => main_loop fuel n' rules flags' u' s'
          | x => x
          end
      | (NLUnmod, _) => LUnmod
      | (NLFuel, _) => LFuel
      end
    end.

  Definition is_exit (o : outcome) : bool := match o with OExit _ => true | _ => false end.
  Definition is_val (o : outcome) : bool := match o with OVal _ => true | _ => false end.

  (* executeAll.  [has_end] = len(Compiled.End) > 0 *)
  Definition exec_all (fuel : nat) (rules : list rule) (has_end : bool) (u : U) (s : st) : fin U :=
    match run fuel (enter BBegin u) s with
    | RFuel => FFuel | RUnmod => FUnmod
    | ROk o u1 s1 =>
      if negb (is_exit o || is_val o) then FErr u1 s1
      else if (match rules with [] => true | _ => false end) && negb has_end then FOk u1 s1
      else
        let after_main : fin U + (U * st) :=
          if is_exit o then inr (u1, s1)
          else match main_loop fuel fuel rules (map (fun _ => false) rules) u1 s1 with
               | LFuel => inl FFuel | LUnmod => inl FUnmod
               | LCont u2 s2 _ => inr (u2, s2)
               | LStop o2 u2 s2 => if is_exit o2 then inr (u2, s2) else inl (FErr u2 s2)
               end in
        match after_main with
        | inl x => x
        | inr (u2, s2) =>
          if negb has_end then FOk u2 s2
          else match run fuel (enter BEnd u2) s2 with
               | RFuel => FFuel | RUnmod => FUnmod
               | ROk o3 u3 s3 => if is_exit o3 || is_val o3 then FOk u3 s3 else FErr u3 s3
               end
        end
    end.
End Machine.
Arguments PFuel {U}. Arguments PUnmod {U}. Arguments PStop {U} o u s. Arguments PSkip {U} f' u s. Arguments PVal {U} matched f' u s.

(* ---------- the range-pattern case of execActions for side-effect-free patterns ---------- *)

(* one record: flag before -> (matched, flag after); [a] = start pattern holds, [b] = stop pattern holds *)
Definition range_step (a b : bool) (f : bool) : bool * bool :=
  let f1 := if f then true else a in
  (f1, if f1 then negb b else false).

Fixpoint range_select (p1 p2 : record -> bool) (f : bool) (recs : list record) : list bool :=
  match recs with
  | [] => []
  | r :: recs' => let '(m, f') := range_step (p1 r) (p2 r) f in m :: range_select p1 p2 f' recs'
  end.

(* ---------- the script language (what the harness renders as AWK text) ---------- *)

Inductive cond :=
| CTrue
| CNReq (k : Z)            (* NR == k *)
| CNRmod (m r : Z)         (* NR % m == r *)
| CFNReq (k : Z)           (* FNR == k *)
| CNFeq (k : Z)            (* NF == k *)
| CHas (c : Z)             (* index($0, "c") > 0 *)
| CRetPos                  (* r > 0 : the last getline succeeded *)
| CVarEq (name val : bytes)(* (name "") == "val" *)
| CNot (a : cond) | CAnd (a b : cond) | COr (a b : cond).

Inductive stmt :=
| STrace (tag : Z) (names : list bytes)
| SGetline (sr : src) (tg : tgt)
| SClose (name : bytes)
| SIf (c : cond) (a b : list stmt)
| SWhileGet (sr : src) (tg : tgt) (body : list stmt)   (* while ((r = (getline ..)) > 0) body *)
| SWhileTest (sr : src) (tg : tgt) (body : list stmt)  (* internal: the test after the getline *)
| SRepeat (n : Z) (body : list stmt)                   (* for (c = 0; c < n; c++) body *)
| SCall (f : nat)
| SRetCond (c : cond)                                  (* return (c)  -- ends a pattern function *)
| SNext | SNextfile | SExit (n : option Z)
| SSetNR (z : Z) | SSetFNR (z : Z)
| SSetArgc (z : Z) | SSetArgv (i : Z) (v : bytes) | SDelArgv (i : Z)
| SSetVar (name val : bytes)
| SSetLine (l : bytes).

Fixpoint mem_byte (c : Z) (l : bytes) : bool :=
  match l with [] => false | x :: l' => (x =? c) || mem_byte c l' end.

Fixpoint eval_cond (c : cond) (s : st) : bool :=
  match c with
  | CTrue => true
  | CNReq k => NR s =? k
  | CNRmod m r => if m <=? 0 then false else (NR s mod m =? r)
  | CFNReq k => FNR s =? k
  | CNFeq k => zlen (fields s) =? k
  | CHas ch => mem_byte ch (line s)
  | CRetPos => 0 <? ret s
  | CVarEq name val => bytes_eqb (var_get s name) val
  | CNot a => negb (eval_cond a s)
  | CAnd a b => eval_cond a s && eval_cond b s
  | COr a b => eval_cond a s || eval_cond b s
  end.

Record pattern := mkPat { p_pre : list stmt; p_cond : cond }.
Inductive spat := SPNone | SPExpr (p : pattern) | SPRange (p1 p2 : pattern).
Record srule := mkSRule { sr_pat : spat; sr_body : option (list stmt) }.
Record sprog := mkProg {
  sp_begin : list stmt;
  sp_rules : list srule;
  sp_end : list stmt;                   (* [] = no END *)
  sp_funcs : list (bytes * list stmt)   (* function k: name of its local, body *)
}.

(* the machine: U = the statements still to execute *)
Definition sstep (p : sprog) (k : list stmt) (s : st) : req * list stmt :=
  match k with
  | [] => (RDone (OVal true), [])
  | STrace tag names :: k' => (RTrace tag names, k')
  | SGetline sr tg :: k' => (RGetline sr tg, k')
  | SClose name :: k' => (RClose name, k')
  | SIf c a b :: k' => (RSkip, (if eval_cond c s then a else b) ++ k')
  | SWhileGet sr tg body :: k' => (RGetline sr tg, SWhileTest sr tg body :: k')
  | SWhileTest sr tg body :: k' => (RSkip, if 0 <? ret s then body ++ SWhileGet sr tg body :: k' else k')
  | SRepeat n body :: k' => (RSkip, if n <=? 0 then k' else body ++ SRepeat (n - 1) body :: k')
  | SCall f :: k' =>
      match nth_error (sp_funcs p) f with
      | Some (loc, body) => (RSetVar loc [], body ++ k')     (* the local starts uninitialised *)
      | None => (RDone OErr, [])
      end
  | SRetCond c :: _ => (RDone (OVal (eval_cond c s)), [])
  | SNext :: _ => (RDone ONext, [])
  | SNextfile :: _ => (RDone ONextfile, [])
  | SExit n :: _ => (RDone (OExit n), [])
  | SSetNR z :: k' => (RSetNR z, k')
  | SSetFNR z :: k' => (RSetFNR z, k')
  | SSetArgc z :: k' => (RSetArgc z, k')
  | SSetArgv i v :: k' => (RSetArgv i v, k')
  | SDelArgv i :: k' => (RDelArgv i, k')
  | SSetVar name val :: k' => (RSetVar name val, k')
  | SSetLine l :: k' => (RSetLine l, k')
  end.

Definition pat_code (p : pattern) : list stmt := p_pre p ++ [SRetCond (p_cond p)].

Definition senter (p : sprog) (b : blk) (_ : list stmt) : list stmt :=
  match b with
  | BBegin => sp_begin p
  | BEnd => sp_end p
  | BPat i second =>
      match nth_error (sp_rules p) i with
      | Some r => match sr_pat r with
                  | SPNone => []
                  | SPExpr q => pat_code q
                  | SPRange q1 q2 => pat_code (if second then q2 else q1)
                  end
      | None => []
      end
  | BBody i =>
      match nth_error (sp_rules p) i with
      | Some r => match sr_body r with Some b => b | None => [] end
      | None => []
      end
  end.

Definition rule_of (r : srule) : rule :=
  mkRule (match sr_pat r with SPNone => PNone | SPExpr _ => PExpr | SPRange _ _ => PRange end)
         (match sr_body r with Some _ => true | None => false end).

(* newInterp/Execute: ARGV[0] = argv0, ARGV[i] = args[i-1], ARGC = len(args)+1, filenameIndex = 1 *)
Fixpoint number_from {A} (i : Z) (l : list A) : list (Z * A) :=
  match l with [] => [] | x :: l' => (i, x) :: number_from (i + 1) l' end.

Definition init_st (argv0 : bytes) (args : list bytes) (stdin_recs : list record) : st :=
  mkSt ((0, argv0) :: number_from 1 args) (1 + zlen args) 1 false None stdin_recs
       0 0 [] [] [] [] [] None 0 0 [] [].

Definition script_exec (e : env) (p : sprog) (fuel : nat) (args : list bytes) (stdin_recs : list record) : fin (list stmt) :=
  exec_all (list stmt) (sstep p) (senter p) e fuel (map rule_of (sp_rules p))
           (match sp_end p with [] => false | _ => true end) [] (init_st [103;111;97;119;107] args stdin_recs).

(* ---------- histories: several Execute calls on one Interpreter (interp/newexecute.go) ----------
   Execute = resetCore; setExecuteConfig; executeAll.  resetCore and setExecuteConfig give the input
   subsystem its initial state again (scanner nil, streams closed and forgotten, NR = FNR = 0,
   FILENAME and $0 empty, filenameIndex = 1, hadFiles = false, exit status 0, ARGV/ARGC from the new
   Config); the in-range flags are a local of execActions.  So every run starts from [init_st] and
   from all-false flags; what can survive is the program's own state [U] (variables are not reset
   unless ResetVars is called: [reset]). *)

Definition run_in : Type := (env * list bytes * list record)%type.   (* files/commands, operands, stdin of one Execute *)

Section History.
  Variable U : Type.
  Variable step : U -> st -> req * U.
  Variable enter : blk -> U -> U.
  Variable a0 : bytes.

  Definition carry (u : U) (x : fin U) : U :=
    match x with FOk u' _ => u' | FErr u' _ => u' | _ => u end.

  Fixpoint exec_history (reset : bool) (fuel : nat) (rules : list rule) (has_end : bool) (u0 u : U)
                        (runs : list run_in) : list (fin U) :=
    match runs with
    | [] => []
    | (e, args, sin) :: rest =>
        let x := exec_all U step enter e fuel rules has_end u (init_st a0 args sin) in
        x :: exec_history reset fuel rules has_end u0 (if reset then u0 else carry u x) rest
    end.
End History.

(* what the correspondence check asks the model for a history of one script *)
Definition script_history (p : sprog) (fuel : nat) (runs : list run_in) : list (fin (list stmt)) :=
  map (fun r : run_in => let '(e, args, sin) := r in script_exec e p fuel args sin) runs.
