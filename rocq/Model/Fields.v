(* C06: model of the record / field / NF machinery of interp/interp.go
   (setSpecial NF, getField, setField, joinFields) and interp/io.go (setLine,
   ensureFields, splitOnFieldSepRegex), plus the Go library functions they call
   (strings.Fields, strings.Split, strings.Join, unicode.IsSpace, csv.Writer.Write).
   Definitions only.  Go slicing/indexing is the checked [slice]/[index] of
   Lib.Base, so a Go panic shows as [Panic].

   The regular-expression engine is a parameter of the model ([rx],
   [all_matches] = regexp FindAllStringIndex(line, -1)); the executable
   instance at the end of the file plugs in Lib.Regex. *)
From Verif Require Import Lib.Base Lib.Dyadic Lib.Utf8 Lib.Regex Gen.Consts.

(* ---- AWK values as far as NF needs them --------------------------------
   A value is observed through value.num() and value.str(CONVFMT); the two
   views are carried side by side (string->number and number->string
   conversion are C05/C09 matter, not re-modelled here). *)
Record value : Type := mkV { vnum : fnum; vstr : bytes }.

(* strconv.Itoa *)
Fixpoint dec_fuel (fuel : nat) (n : Z) (acc : bytes) : bytes :=
  match fuel with
  | O => acc
  | S f => if n <? 10 then (48 + n) :: acc
           else dec_fuel f (n / 10) ((48 + n mod 10) :: acc)
  end.
Definition dec_of_Z (n : Z) : bytes :=
  if n <? 0 then 45 :: dec_fuel (S (Z.to_nat (Z.log2 (- n)))) (- n) []
  else dec_fuel (S (Z.to_nat (Z.log2 n))) n [].

(* num(float64(len(p.fields))) : the number n, printing as the integer n *)
Definition count_value (n : Z) : value := mkV (FFin n 0) (dec_of_Z n).
(* the zero value of [value] (p.numFields before the first split) *)
Definition null_value : value := mkV (FFin 0 0) [].

Inductive mode : Type := MDefault | MCSV | MTSV.
Definition is_default (m : mode) : bool := match m with MDefault => true | _ => false end.

(* ---- unicode.IsSpace (used by encoding/csv for the leading-space rule) ---- *)
Definition is_space (r : Z) : bool :=
  if r <? 256 then
    ((9 <=? r) && (r <=? 13)) || (r =? 32) || (r =? 133) || (r =? 160)
  else
    (r =? 5760) || ((8192 <=? r) && (r <=? 8202)) || (r =? 8232) || (r =? 8233)
    || (r =? 8239) || (r =? 8287) || (r =? 12288).

(* ---- io.go splitBlanks: the default FS ----------------------------------
   fields = maximal runs of bytes other than space, tab, newline.
   [cur] = the field being collected, [inf] = inside a field. *)
Definition is_blank (b : Z) : bool := (b =? 32) || (b =? 9) || (b =? 10).

Fixpoint fields_bytes (s : bytes) (cur : bytes) (inf : bool) : list bytes :=
  match s with
  | [] => if inf then [cur] else []
  | c :: s' =>
      if is_blank c
      then (if inf then cur :: fields_bytes s' [] false else fields_bytes s' [] false)
      else fields_bytes s' (cur ++ [c]) true
  end.

Definition split_blanks (s : bytes) : list bytes := fields_bytes s [] false.

(* ---- strings.Split ------------------------------------------------------ *)
Fixpoint is_prefix (t s : bytes) : bool :=
  match t, s with
  | [], _ => true
  | x :: t', y :: s' => (x =? y) && is_prefix t' s'
  | _ :: _, [] => false
  end.

(* strings.Index + the two slices genSplit takes: (s[:m], s[m+len(sep):]) *)
Fixpoint find_sub (sep s : bytes) : option (bytes * bytes) :=
  if is_prefix sep s then Some ([], zdrop (zlen sep) s)
  else match s with
       | [] => None
       | c :: s' => match find_sub sep s' with
                    | Some (a, b) => Some (c :: a, b)
                    | None => None
                    end
       end.

(* genSplit's loop for a non-empty separator.  Fuel = number of iterations;
   [split_lit] gives it len(s)+1, which is never exhausted (Proofs: no piece
   contains the separator). *)
Fixpoint split_fuel (fuel : nat) (sep s : bytes) : list bytes :=
  match fuel with
  | O => [s]
  | S f => match find_sub sep s with
           | None => [s]
           | Some (a, b) => a :: split_fuel f sep b
           end
  end.
Definition split_lit (sep s : bytes) : list bytes := split_fuel (S (length s)) sep s.

(* strings.Split(s, sep): sep == "" explodes into UTF-8 sequences *)
Definition strings_split (s sep : bytes) : list bytes :=
  if is_nil sep then runes s else split_lit sep s.

(* strings.Join *)
Fixpoint join (sep : bytes) (l : list bytes) : bytes :=
  match l with
  | [] => []
  | [a] => a
  | a :: l' => a ++ sep ++ join sep l'
  end.

(* strings.TrimSuffix(line, "\r") *)
Fixpoint trim_cr (l : bytes) : bytes :=
  match l with
  | [] => []
  | [13] => []
  | c :: l' => c :: trim_cr l'
  end.

(* ---- encoding/csv Writer.Write without the line terminator ---------------
   (joinFields strips the "\n"; UseCRLF is false in this use) *)
Fixpoint contains_any (s : bytes) (cs : list Z) : bool :=
  match s with
  | [] => false
  | b :: s' => existsb (Z.eqb b) cs || contains_any s' cs
  end.

Definition csv_needs_quotes (comma : Z) (f : bytes) : bool :=
  match f with
  | [] => false
  | _ =>
    if bytes_eqb f [92; 46] then true                       (* \. *)
    else if contains_any f [comma; 34; 13; 10] then true
    else is_space (fst (decode_rune f))
  end.

Fixpoint csv_quote_body (f : bytes) : bytes :=
  match f with
  | [] => []
  | 34 :: f' => 34 :: 34 :: csv_quote_body f'
  | c :: f' => c :: csv_quote_body f'
  end.

Definition csv_field (comma : Z) (f : bytes) : bytes :=
  if csv_needs_quotes comma f then 34 :: csv_quote_body f ++ [34] else f.

(* interp/io.go writeCSV: a row that is a single empty field is written as "" (an empty
   line would be read back as no row at all) *)
Definition csv_encode (comma : Z) (l : list bytes) : bytes :=
  match l with
  | [[]] => [34; 34]
  | _ => join [comma] (map (csv_field comma) l)
  end.

(* ---- checked list update: Go's a[i] = v -------------------------------- *)
Definition list_set {A} (l : list A) (i : Z) (v : A) : res (list A) :=
  if (0 <=? i) && (i <? zlen l)
  then Ok (ztake i l ++ v :: zdrop (i + 1) l)
  else Panic.

Definition str_lit (s : list Z) : bytes := s.

Section Engine.
Variable rx : Type.
(* regexp FindAllStringIndex(line, -1) *)
Variable all_matches : rx -> bytes -> list (Z * Z).

(* interp.go: the fields of the interp struct that the record machinery uses *)
Record state : Type := mkState {
  line : bytes;            (* p.line *)
  line_true : bool;        (* p.lineIsTrueStr *)
  fields : list bytes;     (* p.fields *)
  fields_true : list bool; (* p.fieldsIsTrueStr *)
  have : bool;             (* p.haveFields *)
  nf : value;              (* p.numFields *)
  fs : bytes;              (* p.fieldSep *)
  fs_re : option rx;       (* p.fieldSepRegex (nil = None) *)
  saved_fs : bytes;        (* p.savedFieldSep *)
  saved_re : option rx;    (* p.savedFieldSepRegex *)
  saved_rs : bytes;        (* p.savedRecordSep *)
  saved_inmode : mode;     (* p.savedInputMode (p.savedCSVInputConfig: not modelled, CSV input is Unmod) *)
  ofs : bytes;             (* p.outputFieldSep *)
  rs : bytes;              (* p.recordSep *)
  inmode : mode;           (* p.inputMode *)
  outmode : mode           (* p.outputMode (separator: csv ',' / tsv '\t') *)
}.

(* newInterp / resetCore *)
Definition init : state :=
  mkState [] false [] [] false null_value [32] None [32] None [10] MDefault [32] [10] MDefault MDefault.

(* io.go splitOnFieldSepRegex: the loop over the match list *)
Fixpoint split_re_go (ln : bytes) (ms : list (Z * Z)) (prev : Z) : res (list bytes) :=
  match ms with
  | [] => do f <- slice ln prev (zlen ln); Ok [f]
  | (a, b) :: ms' =>
      if a =? b then split_re_go ln ms' prev
      else do f <- slice ln prev a;
           do rest <- split_re_go ln ms' b;
           Ok (f :: rest)
  end.

(* the RS=="" rule at the end of ensureFields *)
Definition split_newlines (fl : list bytes) : list bytes :=
  flat_map (fun f => map trim_cr (split_lit [10] f)) fl.

(* io.go ensureFields, the switch and the RS=="" rule: the field list of
   record text [ln] for saved separator [sfs]/[sre], saved RS and saved input mode *)
Definition split_record (sfs : bytes) (sre : option rx) (im : mode) (rsep ln : bytes) : res (list bytes) :=
  do f0 <-
    (if negb (is_default im) then Unmod          (* CSV/TSV re-parse: property C08's model *)
     else if bytes_eqb sfs [32] then Ok (split_blanks ln)
     else if is_nil ln then Ok []
     else if rune_count sfs <=? 1 then Ok (strings_split ln sfs)
     else match sre with
          | None => Panic                        (* nil regexp *)
          | Some r => split_re_go ln (all_matches r ln) 0
          end);
  if is_default im && is_nil rsep && (rune_count sfs =? 1)
  then Ok (split_newlines f0) else Ok f0.

(* io.go ensureFields *)
Definition ensure_fields (s : state) : res state :=
  if have s then Ok s else
  do fl <- split_record (saved_fs s) (saved_re s) (saved_inmode s) (saved_rs s) (line s);
  Ok (mkState (line s) (line_true s) fl (map (fun _ => false) fl) true (count_value (zlen fl))
              (fs s) (fs_re s) (saved_fs s) (saved_re s) (saved_rs s) (saved_inmode s)
              (ofs s) (rs s) (inmode s) (outmode s)).

(* io.go setLine: FS, its regex, RS and the input mode are saved for the lazy split *)
Definition set_line (s : state) (t : bytes) (is_true : bool) : state :=
  mkState t is_true (fields s) (fields_true s) false (nf s)
          (fs s) (fs_re s) (fs s) (fs_re s) (rs s) (inmode s) (ofs s) (rs s) (inmode s) (outmode s).

(* interp.go joinFields *)
Definition join_fields (s : state) (fl : list bytes) : bytes :=
  match outmode s with
  | MDefault => join (ofs s) fl
  | MCSV => csv_encode 44 fl
  | MTSV => csv_encode 9 fl
  end.

(* interp.go getField: (state after the lazy split, text, isTrueStr) *)
Definition get_field (s : state) (idx : Z) : res (state * bytes * bool) :=
  if idx =? 0 then Ok (s, line s, line_true s) else
  do s1 <- ensure_fields s;
  let n := zlen (fields s1) in
  let j := if idx <? 1 then n + 1 + idx else idx in
  if j <? 1 then Ok (s1, [], true)
  else if j >? n then Ok (s1, [], true)
  else do t <- index (fields_true s1) (j - 1);
       do f <- index (fields s1) (j - 1);
       Ok (s1, f, t).

Definition msg_field_too_large : bytes :=   (* "field index too large: " *)
  [102;105;101;108;100;32;105;110;100;101;120;32;116;111;111;32;108;97;114;103;101;58;32].
Definition msg_nf_negative : bytes :=       (* "NF set to negative value: " *)
  [78;70;32;115;101;116;32;116;111;32;110;101;103;97;116;105;118;101;32;118;97;108;117;101;58;32].
Definition msg_nf_too_large : bytes :=      (* "NF set too large: " *)
  [78;70;32;115;101;116;32;116;111;111;32;108;97;114;103;101;58;32].
Definition msg_invalid_regex : bytes :=     (* "invalid regex" *)
  [105;110;118;97;108;105;100;32;114;101;103;101;120].

Definition with_fields (s : state) (fl : list bytes) (tl : list bool) (v : value) : state :=
  mkState (join_fields s fl) true fl tl (have s) v
          (fs s) (fs_re s) (saved_fs s) (saved_re s) (saved_rs s) (saved_inmode s) (ofs s) (rs s) (inmode s) (outmode s).

(* interp.go setField *)
Definition set_field (s : state) (idx : Z) (t : bytes) : res state :=
  if idx =? 0 then Ok (set_line s t true) else
  if idx >? maxFieldIndex then Err (msg_field_too_large ++ dec_of_Z idx) else
  do s1 <- ensure_fields s;
  let n := zlen (fields s1) in
  let j := if idx <? 1 then n + 1 + idx else idx in
  if j <? 1 then Ok s1 else
  (* for i := len(p.fields); i < index; i++ { append "", true } *)
  let k := Z.to_nat (j - n) in
  let fl := fields s1 ++ repeat [] k in
  let tl := fields_true s1 ++ repeat true k in
  do fl' <- list_set fl (j - 1) t;
  do tl' <- list_set tl (j - 1) true;
  Ok (with_fields s1 fl' tl' (count_value (zlen fl'))).

(* interp.go setSpecial, case V_NF.  (Go's s[:n] is legal up to cap(s); the
   checked [slice] is stricter (up to len) -- it only matters if the two
   slices had different lengths, which the invariant excludes.) *)
Definition set_nf (s : state) (v : value) : res state :=
  let n := f2i64 (vnum v) in
  if n <? 0 then Err (msg_nf_negative ++ dec_of_Z n) else
  if n >? maxFieldIndex then Err (msg_nf_too_large ++ dec_of_Z n) else
  do s1 <- ensure_fields s;
  let len := zlen (fields s1) in
  do fl <- (if n <? len then slice (fields s1) 0 n else Ok (fields s1));
  do tl <- (if n <? len then slice (fields_true s1) 0 n else Ok (fields_true s1));
  let k := Z.to_nat (n - zlen fl) in
  let fl' := fl ++ repeat [] k in
  let tl' := tl ++ repeat false k in
  Ok (with_fields s1 fl' tl' v).

(* vm.go floatToInt: the conversion every field index goes through (saturating; NaN -> 0) *)
Definition maxint : Z := two63 - 1.
Definition minint : Z := - two63.
Definition float_to_int (x : fnum) : Z :=
  match x with
  | FNaN => 0
  | FInf false => maxint
  | FInf true => minint
  | FFin m e =>
      let t := ftrunc m e in
      if two63 <=? t then maxint else if t <=? - two63 then minint else t
  end.

(* ---- operations of a program on the record ----------------------------- *)
(* a field index expression: a number, or NF-relative ($(NF+d), $(-NF+d)) *)
Inductive idx : Type :=
| IConst (x : fnum)
| INF (neg : bool) (d : Z).

Inductive op : Type :=
| ReadRecord (t : bytes)                       (* a record arrives: setLine(t, false) *)
| GetField (i : idx)                           (* $i  (vm.go Field: floatToInt(index.num())) *)
| TypeOf (i : idx)                             (* is $i a string or a number-looking input field?  observed
                                                  with a text on which the two compare differently: when
                                                  $i is "10", ($i < 9) is 1 for a string, 0 for a strnum *)
| SetField (i : idx) (t : bytes)               (* $i = t *)
| GetlineField (i : idx) (t : bytes)           (* getline $i, the record read being t (vm.go GetlineField) *)
| GetlineVar (t : bytes)                       (* getline var: the record read, t, goes to a variable;
                                                  the current record is not touched (io.go getline
                                                  saves and restores p.fields around the read) *)
| ModField (i : idx) (f : bytes -> res (option bytes))
      (* read-modify-write of one field with the index converted once:
         sub/gsub on $i (Ok None = no substitution made: AssignFieldSub skips the store),
         $i++ / $i op= y (IncrField, AugAssignField); f is the string function computed *)
| GetNF
| SetNF (v : value)
| ModNF (f : value -> res value)               (* NF++ / NF op= y (IncrSpecial, AugAssignSpecial) *)
| SetFS (s : bytes) (r : option rx)            (* r = regexp.Compile of s with the s flag, None = error *)
| SetOFS (s : bytes)
| SetRS (s : bytes)
| SetInMode (m : mode)
| SetOutMode (m : mode)
| ViewAll.                                     (* NF, then every field *)

Definition AssignRecord (t : bytes) : op := SetField (IConst (FFin 0 0)) t.

Inductive out : Type :=
| ONone
| OVal (b : bytes)
| ONF (v : value)
| OAll (v : value) (fl : list bytes)
| OTyp (b : option bool).                      (* Some isTrueStr when the text is "10", else None *)

Definition set_fs (s : state) (f : bytes) (r : option rx) : res state :=
  let upd (re : option rx) :=
    mkState (line s) (line_true s) (fields s) (fields_true s) (have s) (nf s)
            f re (saved_fs s) (saved_re s) (saved_rs s) (saved_inmode s) (ofs s) (rs s) (inmode s) (outmode s) in
  if rune_count f >? 1 then
    match r with
    | None => Err msg_invalid_regex
    | Some re => Ok (upd (Some re))
    end
  else Ok (upd (fs_re s)).

Definition set_ofs (s : state) (o : bytes) : state :=
  mkState (line s) (line_true s) (fields s) (fields_true s) (have s) (nf s)
          (fs s) (fs_re s) (saved_fs s) (saved_re s) (saved_rs s) (saved_inmode s) o (rs s) (inmode s) (outmode s).
Definition set_rs (s : state) (r : bytes) : state :=
  mkState (line s) (line_true s) (fields s) (fields_true s) (have s) (nf s)
          (fs s) (fs_re s) (saved_fs s) (saved_re s) (saved_rs s) (saved_inmode s) (ofs s) r (inmode s) (outmode s).
Definition set_inmode (s : state) (m : mode) : state :=
  mkState (line s) (line_true s) (fields s) (fields_true s) (have s) (nf s)
          (fs s) (fs_re s) (saved_fs s) (saved_re s) (saved_rs s) (saved_inmode s) (ofs s) (rs s) m (outmode s).
Definition set_outmode (s : state) (m : mode) : state :=
  mkState (line s) (line_true s) (fields s) (fields_true s) (have s) (nf s)
          (fs s) (fs_re s) (saved_fs s) (saved_re s) (saved_rs s) (saved_inmode s) (ofs s) (rs s) (inmode s) m.

(* the index expression evaluated to a Go int.  NF-relative: Special NF is
   pushed first (getSpecial: ensureFields), then the float arithmetic, then
   floatToInt(...).  The sum is exact-or-Unmod (never a guessed rounding). *)
Definition eval_idx (s : state) (i : idx) : res (state * Z) :=
  match i with
  | IConst x => Ok (s, float_to_int x)
  | INF neg d =>
      do s1 <- ensure_fields s;
      match vnum (nf s1) with
      | FFin m e =>
          let m' := if neg then - m else m in
          let sum := fin_add m' e d 0 in
          if representable sum then Ok (s1, float_to_int sum) else Unmod
      | _ => Unmod
      end
  end.

(* one operation: new state and what the program got to see *)
Definition exec_op (s : state) (o : op) : res (state * out) :=
  match o with
  | ReadRecord t => Ok (set_line s t false, ONone)
  | GetField i =>
      do (s0, k) <- eval_idx s i;
      do (s1, f, _) <- get_field s0 k; Ok (s1, OVal f)
  | TypeOf i =>
      do (s0, k) <- eval_idx s i;
      do (s1, f, t) <- get_field s0 k;
      Ok (s1, OTyp (if bytes_eqb f [49; 48] then Some t else None))
  | SetField i t =>
      do (s0, k) <- eval_idx s i;
      do s1 <- set_field s0 k t; Ok (s1, ONone)
  | GetlineField i t =>
      (* compiler: c.expr(target.Index); GetlineField pops the index and calls setField(index, line) *)
      do (s0, k) <- eval_idx s i;
      do s1 <- set_field s0 k t; Ok (s1, ONone)
  | GetlineVar _ => Ok (s, ONone)
  | ModField i f =>
      do (s0, k) <- eval_idx s i;
      do (s1, old, _) <- get_field s0 k;
      do r <- f old;
      match r with
      | None => Ok (s1, ONone)
      | Some t => do s2 <- set_field s1 k t; Ok (s2, ONone)
      end
  | GetNF => do s1 <- ensure_fields s; Ok (s1, ONF (nf s1))
  | SetNF v => do s1 <- set_nf s v; Ok (s1, ONone)
  | ModNF f =>
      do s1 <- ensure_fields s;
      do v <- f (nf s1);
      do s2 <- set_nf s1 v; Ok (s2, ONone)
  | SetFS f r => do s1 <- set_fs s f r; Ok (s1, ONone)
  | SetOFS o => Ok (set_ofs s o, ONone)
  | SetRS r => Ok (set_rs s r, ONone)
  | SetInMode m => Ok (set_inmode s m, ONone)
  | SetOutMode m => Ok (set_outmode s m, ONone)
  | ViewAll => do s1 <- ensure_fields s; Ok (s1, OAll (nf s1) (fields s1))
  end.

Definition step (s : state) (o : op) : res state :=
  do (s1, _) <- exec_op s o; Ok s1.

(* a whole script from a given state; stops at the first error *)
Fixpoint run (ops : list op) (s : state) : res state :=
  match ops with
  | [] => Ok s
  | o :: ops' => do s1 <- step s o; run ops' s1
  end.

(* the transcript a program sees: the outputs so far and how the script ended *)
Fixpoint trace (ops : list op) (s : state) : list out * res state :=
  match ops with
  | [] => ([], Ok s)
  | o :: ops' =>
      match exec_op s o with
      | Ok (s1, w) => let '(ws, r) := trace ops' s1 in (w :: ws, r)
      | Err m => ([], Err m)
      | Panic => ([], Panic)
      | Unmod => ([], Unmod)
      end
  end.

(* what a program can observe of a state: $0, the field list obtained by
   forcing the lazy split, and NF *)
Definition view (s : state) : res (bytes * list bytes * value) :=
  do s1 <- ensure_fields s; Ok (line s1, fields s1, nf s1).

End Engine.

(* ---- executable instance: Lib.Regex as the engine ---------------------- *)
Definition xstate := state re.
Definition xop := op re.
Definition xinit : xstate := init re.
Definition xexec (s : xstate) (o : xop) : res (xstate * out) := exec_op re Regex.all_matches s o.
Definition xline (s : xstate) : bytes := line re s.
