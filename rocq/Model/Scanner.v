(* Model of Go's bufio.Scanner.Scan (go1.23 src/bufio/scan.go) as goawk drives it from
   interp.nextLine: Scan is called until it returns false, every delivered token is one
   record.  The model is a function of the CHUNK LIST: element k is exactly what the k-th
   call of the underlying io.Reader's Read returned (possibly 0 bytes); after the list is
   exhausted Read returns (0, io.EOF).  With [last_eof] the final chunk is returned together
   with io.EOF (a Reader may do that).  How the Scanner sizes, shifts and grows its buffer only
   influences WHICH chunk list a given Reader produces, so a statement for all chunk lists
   covers every buffer geometry.  Not modelled: ErrTooLong (a buffer that would have to exceed
   maxRecordLength = 10 MiB; the same failure under every delivery - hypothesis "fits").

   The split function is state passing ([St]); it returns Go's (advance, token, nil) as
   [SOk advance token st'] with [token = None] for a nil token, or [SPanic] if it would
   panic.  No split function of goawk returns a non-nil error, so that branch is absent.

   Definitions only. *)
From Verif Require Import Lib.Base.

Definition nilb {A} (l : list A) : bool := match l with [] => true | _ => false end.

(* how the sequence of Scan calls ended *)
Inductive stop : Type :=
| Done                 (* Scan returned false with Err() == nil: end of input *)
| ErrNegativeAdvance   (* Err() = bufio.ErrNegativeAdvance *)
| ErrAdvanceTooFar     (* Err() = bufio.ErrAdvanceTooFar *)
| ErrNoProgress        (* Err() = io.ErrNoProgress: more than 100 consecutive empty reads *)
| Stall                (* a non-nil token with advance 0: Go delivers it again and again (panics
                          "too many empty tokens" after 100 repetitions at EOF, loops before EOF) *)
| SplitPanic           (* the split function panicked *)
| OutOfFuel.           (* never produced by [drainF] (Proofs/Scanner.v: drainF_no_fuel) *)

Section Scanner.
  Variables St Tok : Type.

  Inductive sres : Type :=
  | SOk (adv : Z) (tok : option Tok) (st : St)
  | SPanic.

  Definition splitfn : Type := St -> bytes -> bool -> sres.

  Variable split : splitfn.

  (* result of running the token loop on the buffered data until the split function returns a
     nil token: either "read more" with the new state and the unconsumed buffer, or a stop *)
  Inductive dstop : Type :=
  | DMore (st : St) (buf : bytes)
  | DStop (s : stop).

  Definition tcons (t : Tok) (p : list Tok * dstop) : list Tok * dstop := (t :: fst p, snd p).

  (* One pass of Scan's loop body up to "must read more data", repeated over successive Scan
     calls while tokens are delivered.  [eof] = (s.err != nil).
       if s.end > s.start || s.err != nil { advance, token, err := s.split(buf[start:end], s.err != nil) ...
         if !s.advance(advance) { return false }        -- ErrNegativeAdvance / ErrAdvanceTooFar
         s.token = token; if token != nil { ... return true } }
     Each recursive call has a strictly shorter buffer, so fuel = S (length buf) suffices. *)
  Fixpoint drain (fuel : nat) (eof : bool) (st : St) (buf : bytes) : list Tok * dstop :=
    match fuel with
    | O => ([], DStop OutOfFuel)
    | S f =>
      if negb eof && nilb buf then ([], DMore st buf) else
      match split st buf eof with
      | SPanic => ([], DStop SplitPanic)
      | SOk adv tok st' =>
        if adv <? 0 then ([], DStop ErrNegativeAdvance)
        else if zlen buf <? adv then ([], DStop ErrAdvanceTooFar)
        else
          let buf' := zdrop adv buf in
          match tok with
          | None => ([], DMore st' buf')
          | Some t => if adv =? 0 then ([t], DStop Stall) else tcons t (drain f eof st' buf')
          end
      end
    end.

  Definition drainF (eof : bool) (st : St) (buf : bytes) : list Tok * dstop :=
    drain (S (length buf)) eof st buf.

  (* after s.err has been set: tokens are produced with atEOF = true until a nil token, then
     "if s.err != nil { s.start = 0; s.end = 0; return false }"; Err() is nil for io.EOF *)
  Definition finish (o : stop) (st : St) (buf : bytes) : list Tok * stop :=
    let p := drainF true st buf in
    (fst p, match snd p with DMore _ _ => o | DStop s => s end).

  Definition tapp (ts : list Tok) (p : list Tok * stop) : list Tok * stop := (ts ++ fst p, snd p).

  Definition max_empty_reads : nat := 100.   (* bufio.maxConsecutiveEmptyReads *)

  (* [buf] = s.buf[s.start:s.end]; [e] = empty reads seen in the current read loop *)
  Fixpoint scan_from (last_eof : bool) (st : St) (buf : bytes) (e : nat) (chunks : list bytes)
    : list Tok * stop :=
    match chunks with
    | [] => finish Done st buf                                  (* Read = (0, io.EOF) *)
    | c :: cs =>
      if nilb c then
        if last_eof && nilb cs then finish Done st buf          (* Read = (0, io.EOF) *)
        else if Nat.leb max_empty_reads e then finish ErrNoProgress st buf
        else scan_from last_eof st buf (S e) cs                 (* Read = (0, nil): loop++ *)
      else
        let buf1 := buf ++ c in
        if last_eof && nilb cs then finish Done st buf1         (* Read = (n, io.EOF) *)
        else
          match drainF false st buf1 with
          | (ts, DMore st' buf') => tapp ts (scan_from last_eof st' buf' O cs)
          | (ts, DStop s) => (ts, s)
          end
    end.

  Definition scan (last_eof : bool) (st0 : St) (chunks : list bytes) : list Tok * stop :=
    scan_from last_eof st0 [] O chunks.

  (* the reference: the whole input in one piece, split function run with atEOF = true *)
  Definition reference (st0 : St) (data : bytes) : list Tok * stop := finish Done st0 data.

End Scanner.

Arguments SOk {St Tok} adv tok st.
Arguments SPanic {St Tok}.
Arguments DMore {St} st buf.
Arguments DStop {St} s.
