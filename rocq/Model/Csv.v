(* C08: models of
     - interp/io.go  csvSplitter.scan (with its closure readLine), lenNewline, nextRune
     - bufio.Scanner.Scan / advance / Buffer (Go 1.23 src/bufio/scan.go) over a list of
       reader chunks, with the buffer modelled down to its stale bytes and capacity
     - encoding/csv Writer.Write + fieldNeedsQuotes as used by interp.writeCSV / joinFields
     - interp/interp.go validCSVSeparator / validateCSVInputConfig
     - an independent token-level RFC 4180 reader [rfc_parse] (the specification)
   Definitions only.  Go slicing that can go out of range is the checked [slice_cap]
   (a Go panic shows as [OPanic]); loops that are not structurally recursive carry
   fuel and report [.. Fuel] when it runs out (excluded in the theorems). *)
From Verif Require Import Lib.Base Lib.Utf8.

(* ------------------------------------------------------------------------- *)
(* small byte-string helpers (bytes.IndexByte, bytes.Index, bytes.HasPrefix)  *)

Fixpoint prefix_of (p s : bytes) : bool :=
  match p, s with
  | [], _ => true
  | x :: p', y :: s' => (x =? y) && prefix_of p' s'
  | _ :: _, [] => false
  end.

(* bytes.IndexByte(s,b) as a split: [Some (s[:i], s[i+1:])] for the first i with s[i]=b *)
Fixpoint cut_byte (b : Z) (s : bytes) : option (bytes * bytes) :=
  match s with
  | [] => None
  | x :: t =>
      if x =? b then Some ([], t)
      else match cut_byte b t with
           | Some (u, v) => Some (x :: u, v)
           | None => None
           end
  end.

(* bytes.Index(s,p) as a split: [Some (s[:i], s[i+len p:])] for the first occurrence *)
Fixpoint cut_sub (p s : bytes) : option (bytes * bytes) :=
  if prefix_of p s then Some ([], zdrop (zlen p) s)
  else match s with
       | [] => None
       | x :: t => match cut_sub p t with
                   | Some (u, v) => Some (x :: u, v)
                   | None => None
                   end
       end.

(* the first line of [s] including its '\n', and what follows *)
Fixpoint cut_nl (s : bytes) : option (bytes * bytes) :=
  match s with
  | [] => None
  | x :: t =>
      if x =? 10 then Some ([x], t)
      else match cut_nl t with
           | Some (u, v) => Some (x :: u, v)
           | None => None
           end
  end.

Fixpoint last_is (b : Z) (s : bytes) : bool :=
  match s with
  | [] => false
  | x :: t => match t with [] => x =? b | _ :: _ => last_is b t end
  end.

(* io.go lenNewline: 2 for a trailing CR LF, 1 for a trailing LF, else 0 *)
Fixpoint len_newline (b : bytes) : Z :=
  match b with
  | [] => 0
  | x :: t =>
    match t with
    | [] => if x =? 10 then 1 else 0
    | y :: t' =>
      match t' with
      | [] => if y =? 10 then (if x =? 13 then 2 else 1) else 0
      | _ :: _ => len_newline t
      end
    end
  end.

(* io.go nextRune *)
Definition next_rune (b : bytes) : Z := fst (decode_rune b).

(* utf8.RuneLen *)
Definition rune_len (r : Z) : Z :=
  if r <? 0 then -1
  else if r <? 128 then 1
  else if r <? 2048 then 2
  else if (55296 <=? r) && (r <=? 57343) then -1
  else if r <? 65536 then 3
  else if r <=? 1114111 then 4
  else -1.

(* utf8.ValidRune *)
Definition valid_rune (r : Z) : bool :=
  ((0 <=? r) && (r <? 55296)) || ((57343 <? r) && (r <=? 1114111)).

(* interp.go validCSVSeparator (= encoding/csv validDelim) *)
Definition valid_csv_separator (r : Z) : bool :=
  negb (r =? 0) && negb (r =? 34) && negb (r =? 13) && negb (r =? 10)
  && valid_rune r && negb (r =? rune_error).

(* interp.go validateCSVInputConfig (mode is CSV or TSV): true = accepted *)
Definition validate_csv_input (sep comment : Z) : bool :=
  negb ((sep =? comment) || negb (valid_csv_separator sep)
        || (negb (comment =? 0) && negb (valid_csv_separator comment))).

(* ------------------------------------------------------------------------- *)
(* csvSplitter                                                                *)

Record csv_cfg := mkCfg { c_sep : Z; c_comment : Z; c_header : bool }.
Record csv_st := mkSt { st_noBOM : bool; st_row : Z }.

Definition sep_bytes (c : csv_cfg) : bytes := encode_rune (c_sep c).
Definition sep_len (c : csv_cfg) : Z := rune_len (c_sep c).

Definition bom : bytes := [239; 187; 191].

(* readLine closure: [None] is Go's nil ("need more data"); otherwise the line, the
   remaining data and the increment of [advance] (1 when a final '\r' was dropped). *)
Definition read_line (data : bytes) (atEOF : bool) : option (bytes * bytes * Z) :=
  match cut_nl data with
  | Some (line, rest) => Some (line, rest, 0)
  | None =>
      if atEOF
      then if last_is 13 data then Some (removelast data, [], 1) else Some (data, [], 0)
      else None
  end.

Inductive skip_res :=
| SkNeed                                   (* return 0, nil, nil *)
| SkFuel
| SkLine (line data : bytes) (adv skip : Z).

Inductive parse_res :=
| PNeed                                    (* return 0, nil, nil *)
| PDone (adv : Z) (fields : list bytes) (hasCR : bool)
| PFuel.

Section Splitter.
Variable c : csv_cfg.
Variable atEOF : bool.

(* first loop of scan: skip comment lines and empty lines *)
Fixpoint skip_lines (fuel : nat) (data : bytes) (adv skip : Z) : skip_res :=
  match fuel with
  | O => SkFuel
  | S f =>
    match read_line data atEOF with
    | None => SkNeed
    | Some (line, data', inc) =>
        let adv := adv + inc in
        if zlen line =? 0 then SkNeed
        else if negb (c_comment c =? 0) && (next_rune line =? c_comment c)
        then skip_lines f data' (adv + zlen line) (skip + zlen line)
        else if zlen line =? len_newline line
        then skip_lines f data' (adv + zlen line) (skip + zlen line)
        else SkLine line data' adv skip
    end
  end.

Definition starts_quote (line : bytes) : bool :=
  match line with x :: _ => x =? 34 | [] => false end.

(* the parseField loop.  [done] = the fields completed so far (Go: recordBuffer cut at
   fieldIndexes), [cur] = the bytes of the field being read. *)
Fixpoint parse_field (fuel : nat) (line data : bytes) (adv : Z) (done : list bytes) (cr : bool)
  : parse_res :=
  match fuel with
  | O => PFuel
  | S f =>
    if starts_quote line
    then parse_quoted f (zdrop 1 line) data (adv + 1) [] done cr
    else
      match cut_sub (sep_bytes c) line with
      | Some (field, rest) =>
          parse_field f rest data (adv + zlen field + sep_len c) (done ++ [field]) cr
      | None =>
          PDone (adv + zlen line) (done ++ [ztake (zlen line - len_newline line) line]) cr
      end
  end
with parse_quoted (fuel : nat) (line data : bytes) (adv : Z) (cur : bytes) (done : list bytes)
  (cr : bool) : parse_res :=
  match fuel with
  | O => PFuel
  | S f =>
    match cut_byte 34 line with
    | Some (pre, line1) =>
        (* hit next quote *)
        let cur := cur ++ pre in
        let adv := adv + zlen pre + 1 in
        let rn := next_rune line1 in
        if rn =? 34 then parse_quoted f (zdrop 1 line1) data (adv + 1) (cur ++ [34]) done cr
        else if rn =? c_sep c
        then parse_field f (zdrop (sep_len c) line1) data (adv + sep_len c) (done ++ [cur]) cr
        else if len_newline line1 =? zlen line1
        then PDone (adv + zlen line1) (done ++ [cur]) cr
        else parse_quoted f line1 data adv (cur ++ [34]) done cr
    | None =>
        match line with
        | _ :: _ =>
            (* hit end of line: copy it and continue with the next line *)
            let adv := adv + zlen line in
            let nl2 := len_newline line =? 2 in
            let cur := if nl2 then cur ++ ztake (zlen line - 2) line ++ [10] else cur ++ line in
            let cr := if nl2 then true else cr in
            match read_line data atEOF with
            | None => PNeed
            | Some (line', data', inc) => parse_quoted f line' data' (adv + inc) cur done cr
            end
        | [] =>
            (* abrupt end of file *)
            PDone adv (done ++ [cur]) cr
        end
    end
  end.

End Splitter.

(* s[lo:hi] of a Go slice whose visible part is [l] and whose capacity extends over
   [stale] and then [nz] zero bytes: panics unless 0 <= lo <= hi <= cap *)
Definition slice_cap (l : bytes) (nz : Z) (lo hi : Z) : res bytes :=
  if (0 <=? lo) && (lo <=? hi) && (hi <=? zlen l + nz)
  then Ok (ztake (hi - lo) (zdrop lo (l ++ repeat 0 (Z.to_nat (hi - zlen l)))))
  else Panic.

Definition remove_cr (b : bytes) : bytes := filter (fun x => negb (x =? 13)) b.

Inductive scan_out :=
| ONeed                                             (* 0, nil, nil *)
| OHeader (adv : Z) (names : list bytes)            (* advance, nil, nil; setFieldNames(names) *)
| ORecord (adv : Z) (token : bytes) (fields : list bytes)
| OPanic
| OFuel.

(* csvSplitter.scan.  [data] = the slice handed over by the Scanner (buf[start:end]);
   [stale] = buf[end:len written so far], [nz] = number of never-written (zero) bytes
   up to cap(buf): what origData[skip:advance] can reach beyond len(data). *)
Definition scan (c : csv_cfg) (s : csv_st) (data stale : bytes) (nz : Z) (atEOF : bool)
  : csv_st * scan_out :=
  (* origData := data, taken before the BOM is skipped; the BOM flag is not touched here *)
  let isbom := negb (st_noBOM s) && prefix_of bom data in
  let data1 := if isbom then zdrop 3 data else data in
  let adv0 := if isbom then 3 else 0 in
  let fuel := S (length data1) in
  if atEOF && (zlen data1 =? 0) then (s, ONeed)
  else
    (* skip := advance: the record starts behind the BOM *)
    match skip_lines c atEOF fuel data1 adv0 adv0 with
    | SkNeed => (s, ONeed)
    | SkFuel => (s, OFuel)
    | SkLine line data2 adv skip =>
        match parse_field c atEOF fuel line data2 adv [] false with
        | PNeed => (s, ONeed)
        | PFuel => (s, OFuel)
        | PDone adv fields cr =>
            (* s.noBOMCheck = true: only once a row has been consumed *)
            if (st_row s =? 0) && c_header c
            then (mkSt true (st_row s + 1), OHeader adv fields)
            else
              match slice_cap (data ++ stale) nz skip adv with
              | Ok tok =>
                  let tok := ztake (zlen tok - len_newline tok) tok in
                  let tok := if cr then remove_cr tok else tok in
                  (mkSt true (st_row s + 1), ORecord adv tok fields)
              | _ => (mkSt true (st_row s + 1), OPanic)
              end
        end
    end.

(* ------------------------------------------------------------------------- *)
(* bufio.Scanner over a list of reader chunks                                 *)

Inductive event :=
| EHeader (names : list bytes)
| ERecord (token : bytes) (fields : list bytes).

Inductive final :=
| FEOF             (* Scan returned false, Err() == nil *)
| FTooLong         (* bufio.ErrTooLong *)
| FBadAdvance      (* ErrNegativeAdvance / ErrAdvanceTooFar *)
| FEmpties         (* panic "too many empty tokens" *)
| FPanic           (* run-time panic inside the split function / slicing *)
| FFuel.

(* The buffer s.buf: [hw] holds the bytes of buf[0:len hw] (everything ever written into
   this allocation, current or stale); buf[len hw:cap] is still zero from make(). *)
Record scanner := mkScanner {
  sc_hw : bytes; sc_cap : Z; sc_start : Z; sc_end : Z;
  sc_eof : bool;                 (* s.err == io.EOF *)
  sc_empties : Z;
  sc_chunks : list bytes;        (* what the reader will still deliver, call by call *)
  sc_split : csv_st;             (* the csvSplitter's mutable fields *)
}.

(* copy(buf[pos:], b): overwrite from pos (zero padding covers the part of the
   allocation never written before) *)
Definition write_at (hw : bytes) (pos : Z) (b : bytes) : bytes :=
  ztake pos (hw ++ repeat 0 (Z.to_nat (pos - zlen hw))) ++ b ++ zdrop (pos + zlen b) hw.

Definition start_buf_size : Z := 4096.

Inductive scan_ret :=
| RToken (token : bytes) (fields : list bytes)
| RStop (f : final).

Section Scanner.
Variable c : csv_cfg.
Variable maxtok : Z.

(* the part of Scan after "we cannot generate a token with what we are holding":
   compaction, growth, one Read.  [None] = ErrTooLong. *)
Definition refill (s : scanner) : option scanner :=
  (* shift data to the beginning of the buffer *)
  let s :=
    if (0 <? sc_start s) && ((sc_end s =? sc_cap s) || (sc_cap s / 2 <? sc_start s))
    then
      let live := ztake (sc_end s - sc_start s) (zdrop (sc_start s) (sc_hw s)) in
      mkScanner (write_at (sc_hw s) 0 live) (sc_cap s) 0 (sc_end s - sc_start s)
                (sc_eof s) (sc_empties s) (sc_chunks s) (sc_split s)
    else s in
  (* buffer full: resize *)
  let s' :=
    if sc_end s =? sc_cap s
    then
      if maxtok <=? sc_cap s then None
      else
        let n := sc_cap s * 2 in
        let n := if n =? 0 then start_buf_size else n in
        let n := Z.min n maxtok in
        let live := ztake (sc_end s - sc_start s) (zdrop (sc_start s) (sc_hw s)) in
        Some (mkScanner live n 0 (sc_end s - sc_start s)
                        (sc_eof s) (sc_empties s) (sc_chunks s) (sc_split s))
    else Some s in
  match s' with
  | None => None
  | Some s =>
    (* one Read into buf[end:len(buf)]; the harness reader never returns (0, nil) *)
    match sc_chunks s with
    | [] => Some (mkScanner (sc_hw s) (sc_cap s) (sc_start s) (sc_end s) true
                            (sc_empties s) [] (sc_split s))
    | ch :: rest =>
        let n := Z.min (sc_cap s - sc_end s) (zlen ch) in
        let rest' := if n <? zlen ch then zdrop n ch :: rest else rest in
        Some (mkScanner (write_at (sc_hw s) (sc_end s) (ztake n ch)) (sc_cap s) (sc_start s)
                        (sc_end s + n) (sc_eof s) 0 rest' (sc_split s))
    end
  end.

(* one call of Scanner.Scan: header rows met on the way are reported as events *)
Fixpoint scan_call (fuel : nat) (s : scanner) : scanner * list event * scan_ret :=
  match fuel with
  | O => (s, [], RStop FFuel)
  | S f =>
    let set_split st := mkScanner (sc_hw s) (sc_cap s) (sc_start s) (sc_end s) (sc_eof s)
                                  (sc_empties s) (sc_chunks s) st in
    let no_token (s : scanner) (evs : list event) :=
      if sc_eof s
      then (mkScanner (sc_hw s) (sc_cap s) 0 0 true (sc_empties s) (sc_chunks s) (sc_split s),
            evs, RStop FEOF)
      else match refill s with
           | None => (s, evs, RStop FTooLong)
           | Some s' => let '(s2, evs2, r) := scan_call f s' in (s2, evs ++ evs2, r)
           end in
    if (sc_start s <? sc_end s) || sc_eof s
    then
      let data := ztake (sc_end s - sc_start s) (zdrop (sc_start s) (sc_hw s)) in
      let stale := zdrop (sc_end s) (sc_hw s) in
      let nz := sc_cap s - zlen (sc_hw s) in
      let '(st, out) := scan c (sc_split s) data stale nz (sc_eof s) in
      let s := set_split st in
      match out with
      | OPanic => (s, [], RStop FPanic)
      | OFuel => (s, [], RStop FFuel)
      | ONeed => no_token s []
      | OHeader adv names =>
          if (adv <? 0) || (sc_end s - sc_start s <? adv) then (s, [], RStop FBadAdvance)
          else no_token (mkScanner (sc_hw s) (sc_cap s) (sc_start s + adv) (sc_end s) (sc_eof s)
                                   (sc_empties s) (sc_chunks s) (sc_split s)) [EHeader names]
      | ORecord adv tok fields =>
          if (adv <? 0) || (sc_end s - sc_start s <? adv) then (s, [], RStop FBadAdvance)
          else
            let emp := if negb (sc_eof s) || (0 <? adv) then 0 else sc_empties s + 1 in
            let s := mkScanner (sc_hw s) (sc_cap s) (sc_start s + adv) (sc_end s) (sc_eof s)
                               emp (sc_chunks s) (sc_split s) in
            if 100 <? emp then (s, [], RStop FEmpties) else (s, [], RToken tok fields)
      end
    else no_token s []
  end.

(* goawk's record loop over one input: Scan until it returns false *)
Fixpoint run_scanner (fuel : nat) (s : scanner) : list event * final :=
  match fuel with
  | O => ([], FFuel)
  | S f =>
    let '(s', evs, r) := scan_call fuel s in
    match r with
    | RStop fin => (evs, fin)
    | RToken tok fields =>
        let '(evs2, fin) := run_scanner f s' in
        (evs ++ ERecord tok fields :: evs2, fin)
    end
  end.

End Scanner.

Definition total_len (chunks : list bytes) : nat := length (concat chunks).

(* a fresh Scanner with Buffer(make([]byte, cap), maxtok) reading [chunks] *)
Definition init_scanner (cap : Z) (chunks : list bytes) : scanner :=
  mkScanner [] cap 0 0 false 0 chunks (mkSt false 0).

(* every iteration of Scan's loop either consumes reader bytes, reaches EOF, doubles the
   buffer, or returns; every record consumes at least one byte *)
Definition run_fuel (chunks : list bytes) : nat := 2 * total_len chunks + length chunks + 64.

Definition read_csv (c : csv_cfg) (cap maxtok : Z) (chunks : list bytes) : list event * final :=
  run_scanner c maxtok (run_fuel chunks) (init_scanner cap chunks).


(* ------------------------------------------------------------------------- *)
(* Two reference formulations used by the theorems (Proofs/CsvRoundtrip.v, CsvChunks.v)
   and run against the implementation by the harness like the rest of this file.          *)

(* the splitter run over a complete input: every call sees all the remaining data, atEOF *)
Fixpoint read_all (fuel : nat) (c : csv_cfg) (s : csv_st) (data : bytes) : list event :=
  match fuel with
  | O => []
  | S f =>
    match scan c s data [] 0 true with
    | (s', ORecord adv tok fields) => ERecord tok fields :: read_all f c s' (zdrop adv data)
    | (s', OHeader adv names) => EHeader names :: read_all f c s' (zdrop adv data)
    | _ => []
    end
  end.

Definition read_file (c : csv_cfg) (data : bytes) : list event :=
  read_all (S (length data)) c (mkSt false 0) data.


(* bufio.Scanner's loop without the buffer management *)
Definition nonempty (l : bytes) : bool := match l with [] => false | _ :: _ => true end.

(* [pend] = the bytes read and not yet consumed (buf[start:end]); [chunks] = what the reader
   will still deliver, read by read; [eof] = the reader has reported EOF.  One iteration =
   one iteration of Scan's loop: hand [pend] to the splitter if there is something to hand
   over; deliver a token; otherwise read once more (after a header row as well: it is a nil
   token), or stop at EOF.  The buffer is unbounded (no record exceeds the maximum) and
   nothing lies behind the data (tokens do not depend on it, [scan_accounting]). *)
Fixpoint arun (fuel : nat) (c : csv_cfg) (s : csv_st) (pend : bytes) (chunks : list bytes)
  (eof : bool) : list event :=
  match fuel with
  | O => []
  | S f =>
    let more (s : csv_st) (pend : bytes) :=
      if eof then []
      else match chunks with
           | [] => arun f c s pend [] true
           | ch :: rest => arun f c s (pend ++ ch) rest false
           end in
    if nonempty pend || eof
    then
      match scan c s pend [] 0 eof with
      | (s', ORecord adv tok fields) => ERecord tok fields :: arun f c s' (zdrop adv pend) chunks eof
      | (s', OHeader adv names) => EHeader names :: more s' (zdrop adv pend)
      | (s', ONeed) => more s' pend
      | _ => []
      end
    else more s pend
  end.

Definition msr (pend : bytes) (chunks : list bytes) (eof : bool) : nat :=
  (2 * (length pend + length (concat chunks)) + length chunks + (if eof then 0 else 1))%nat.

(* ------------------------------------------------------------------------- *)
(* encoding/csv Writer.Write as configured by interp.writeCSV                 *)

(* unicode.IsSpace *)
Definition is_space (r : Z) : bool :=
  ((9 <=? r) && (r <=? 13)) || (r =? 32) || (r =? 133) || (r =? 160) || (r =? 5760)
  || ((8192 <=? r) && (r <=? 8202)) || (r =? 8232) || (r =? 8233) || (r =? 8239)
  || (r =? 8287) || (r =? 12288).

Fixpoint has_sub (p s : bytes) : bool :=
  prefix_of p s || match s with [] => false | _ :: t => has_sub p t end.

Definition is_special (sep : Z) (ch : Z) : bool :=
  (ch =? 10) || (ch =? 13) || (ch =? 34) || (ch =? sep).

Definition field_needs_quotes (sep : Z) (f : bytes) : bool :=
  match f with
  | [] => false
  | _ =>
    if bytes_eqb f [92; 46] then true
    else if sep <? 128
    then existsb (is_special sep) f || is_space (next_rune f)
    else has_sub (encode_rune sep) f || existsb (is_special 34) f || is_space (next_rune f)
  end.

Definition esc_byte (crlf : bool) (ch : Z) : bytes :=
  if ch =? 34 then [34; 34]
  else if ch =? 13 then (if crlf then [] else [13])
  else if ch =? 10 then (if crlf then [13; 10] else [10])
  else [ch].

Definition enc_field (sep : Z) (crlf : bool) (f : bytes) : bytes :=
  if field_needs_quotes sep f then 34 :: flat_map (esc_byte crlf) f ++ [34] else f.

Fixpoint join_enc (sep : Z) (crlf : bool) (fs : list bytes) : bytes :=
  match fs with
  | [] => []
  | [f] => enc_field sep crlf f
  | f :: fs' => enc_field sep crlf f ++ encode_rune sep ++ join_enc sep crlf fs'
  end.

(* a record that is a single empty field *)
Definition lone_empty (fs : list bytes) : bool :=
  match fs with [[]] => true | _ => false end.

(* the text of a row: interp.writeCSV writes a lone empty field as two quotes itself (a row
   csv.Writer would write as an empty line); every other row is Writer.Write(record) with
   Comma = sep, UseCRLF = crlf *)
Definition row_text (sep : Z) (crlf : bool) (fs : list bytes) : bytes :=
  if lone_empty fs then [34; 34] else join_enc sep crlf fs.

Definition write_record (sep : Z) (crlf : bool) (fs : list bytes) : bytes :=
  row_text sep crlf fs ++ (if crlf then [13; 10] else [10]).

Definition write_csv (sep : Z) (crlf : bool) (rows : list (list bytes)) : bytes :=
  flat_map (write_record sep crlf) rows.

(* interp.joinFields in CSV/TSV output mode *)
Definition join_fields (sep : Z) (crlf : bool) (fs : list bytes) : bytes :=
  let line := write_record sep crlf fs in
  ztake (zlen line - len_newline line) line.

(* ------------------------------------------------------------------------- *)
(* Where a row goes: interp.writeCSV over the destination of the print        *)

(* An output destination: an unbuffered sink (bytes.Buffer, *os.File, a pipe: [got] = what
   has reached it), or a bufio.Writer of [size] bytes holding [buf] in front of another
   destination (standard output given as a *bufio.Writer; the file and command streams of
   iostream.go, which embed one of outputBufSize bytes). *)
Inductive dest :=
| DRaw (got : bytes)
| DBuf (size : Z) (buf : bytes) (under : dest).

(* bufio.Writer.Write: while len(p) > Available(): with an empty buffer write p straight
   through, otherwise fill the buffer and flush it; then buffer what is left *)
Fixpoint d_write (d : dest) (p : bytes) : dest :=
  match d with
  | DRaw got => DRaw (got ++ p)
  | DBuf size buf under =>
      if zlen p <=? size - zlen buf then DBuf size (buf ++ p) under
      else if zlen buf =? 0 then DBuf size [] (d_write under p)
      else
        let n := size - zlen buf in
        let p' := zdrop n p in
        if zlen p' <=? size then DBuf size p' (d_write under (buf ++ ztake n p))
        else DBuf size [] (d_write under (buf ++ p))
          (* two writes to [under] (the flushed buffer, then p' straight through), modelled as
             one write of their concatenation: where [under] cuts them is not observable once
             it is closed (d_total_write) *)
  end.

(* bufio.Writer.Flush: this layer only *)
Definition d_flush (d : dest) : dest :=
  match d with
  | DRaw got => DRaw got
  | DBuf size buf under => DBuf size [] (d_write under buf)
  end.

Fixpoint d_depth (d : dest) : nat :=
  match d with DRaw _ => O | DBuf _ _ under => S (d_depth under) end.

(* end of the run / close of the stream: every layer is flushed, outermost first
   (fuel = the number of layers) *)
Fixpoint d_close_f (fuel : nat) (d : dest) : dest :=
  match fuel, d with
  | S f, DBuf size buf under => DBuf size [] (d_close_f f (d_write under buf))
  | _, _ => d
  end.

Definition d_close (d : dest) : dest := d_close_f (d_depth d) d.

(* what has reached the sink at the bottom *)
Fixpoint delivered (d : dest) : bytes :=
  match d with DRaw got => got | DBuf _ _ under => delivered under end.

(* everything written so far, in order: delivered or still in some buffer *)
Fixpoint d_total (d : dest) : bytes :=
  match d with DRaw got => got | DBuf _ buf under => d_total under ++ buf end.

(* the writer a print statement is handed, and whether its dynamic type is *bufio.Writer
   (what writeCSV's type assertion asks; a stream that embeds one is not) *)
Record out := mkOut { o_bufio : bool; o_d : dest }.

Definition csv_buf_size : Z := 4096.   (* bufio default size used by csv.NewWriter *)

(* writing through the scratch Writer p.csvOutput (4096 bytes) wrapped around the destination,
   flushed before writeCSV returns *)
Definition wrap_write (d : dest) (row : bytes) : dest :=
  match d_flush (d_write (DBuf csv_buf_size [] d) row) with
  | DBuf _ _ under => under
  | DRaw got => DRaw got
  end.

(* csv.NewWriter(output) writes into output itself only when it is a *bufio.Writer of at
   least 4096 bytes *)
Definition direct (o : out) : bool :=
  o_bufio o && match o_d o with DBuf size _ _ => csv_buf_size <=? size | DRaw _ => false end.

(* interp.writeCSV(output, fields): a *bufio.Writer with Size() >= 4096 is written to
   directly; any other writer (also a smaller *bufio.Writer) is wrapped in the scratch Writer,
   which is flushed before returning.  (The lone empty field goes by writeOutput to the same
   writer as a row written by csv.Writer would.) *)
Definition write_csv_to (sep : Z) (crlf : bool) (o : out) (fs : list bytes) : out :=
  let row := write_record sep crlf fs in
  if direct o then mkOut (o_bufio o) (d_write (o_d o) row)
  else mkOut (o_bufio o) (wrap_write (o_d o) row).

Definition write_rows_to (sep : Z) (crlf : bool) (o : out) (rows : list (list bytes)) : out :=
  fold_left (write_csv_to sep crlf) rows o.

(* the bytes at the destination after the rows were printed and the run ended *)
Definition emit_rows (sep : Z) (crlf : bool) (o : out) (rows : list (list bytes)) : bytes :=
  delivered (d_close (o_d (write_rows_to sep crlf o rows))).

(* ------------------------------------------------------------------------- *)
(* Specification: an RFC 4180 reader with lenient quotes, written from the
   grammar, independent of the code above.  A lexer marks the structural items
   (quote, line break, separator, comment character); a six-state machine
   builds the records.                                                        *)

Inductive tok :=
| TQ                    (* the quote character, byte 34 *)
| TNL (crlf : bool)     (* LF, or CR LF *)
| TSep
| TCom
| TB (b : Z).

Section Rfc.
Variable sepb comb : bytes.   (* UTF-8 of the separator / of the comment character ([] = none) *)

Definition lit (t : tok) : bytes :=
  match t with
  | TQ => [34] | TNL true => [13; 10] | TNL false => [10]
  | TSep => sepb | TCom => comb | TB b => [b]
  end.

(* [skip] > 0: inside a multi-byte item already emitted *)
Fixpoint lex (skip : nat) (s : bytes) : list tok :=
  match s with
  | [] => []
  | x :: t =>
    match skip with
    | S k => lex k t
    | O =>
      if x =? 34 then TQ :: lex 0 t
      else if x =? 10 then TNL false :: lex 0 t
      else if (x =? 13) && prefix_of [10] t then TNL true :: lex 1 t
      else if prefix_of sepb s && negb (zlen sepb =? 0) then TSep :: lex (length sepb - 1) t
      else if prefix_of comb s && negb (zlen comb =? 0) then TCom :: lex (length comb - 1) t
      else TB x :: lex 0 t
    end
  end.

Inductive rstate :=
| RLine        (* at the start of a line, between records *)
| RField       (* at the start of a field *)
| RUnq         (* inside an unquoted field *)
| RQuo         (* inside a quoted field *)
| RAfterQ      (* just after a quote inside a quoted field *)
| RComment.    (* inside a comment line *)

(* a record: its fields, its own text (without the line terminator), and whether a
   quoted field contained a CR LF line break (then $0 has its CRs removed) *)
Definition rrec : Type := list bytes * bytes * bool.

(* the text without a final LF / CR LF.  (Only a quoted field still open at the end of the
   input can leave one: it is the last line's terminator all the same.) *)
Definition strip_nl (b : bytes) : bytes := ztake (zlen b - len_newline b) b.

(* the machine's registers: state, bytes of the current field, completed fields, text of
   the record so far, CR LF seen inside quotes *)
Record rreg := mkReg { r_q : rstate; r_cur : bytes; r_fs : list bytes; r_raw : bytes; r_cr : bool }.

Definition reg0 : rreg := mkReg RLine [] [] [] false.

(* one item: the new registers and the record completed by it, if any *)
Definition rstep (g : rreg) (t : tok) : rreg * option rrec :=
  let '(mkReg q cur fs raw cr) := g in
  let raw' := raw ++ lit t in
  let unq :=       (* the reaction of an unquoted field *)
    match t with
    | TSep => (mkReg RField [] (fs ++ [cur]) raw' cr, None)
    | TNL _ => (reg0, Some (fs ++ [cur], raw, cr))
    | _ => (mkReg RUnq (cur ++ lit t) fs raw' cr, None)
    end in
  match q with
  | RLine =>
      match t with
      | TNL _ => (reg0, None)                                          (* blank line *)
      | TCom => (mkReg RComment [] [] [] false, None)
      | TQ => (mkReg RQuo [] [] raw' false, None)
      | _ => unq
      end
  | RComment =>
      match t with
      | TNL _ => (reg0, None)
      | _ => (g, None)
      end
  | RField =>
      match t with
      | TQ => (mkReg RQuo [] fs raw' cr, None)
      | _ => unq
      end
  | RUnq => unq
  | RQuo =>
      match t with
      | TQ => (mkReg RAfterQ cur fs raw' cr, None)
      | TNL crlf => (mkReg RQuo (cur ++ [10]) fs raw' (cr || crlf), None)   (* CR LF folds to LF *)
      | _ => (mkReg RQuo (cur ++ lit t) fs raw' cr, None)
      end
  | RAfterQ =>
      match t with
      | TQ => (mkReg RQuo (cur ++ [34]) fs raw' cr, None)               (* doubled quote *)
      | TSep => (mkReg RField [] (fs ++ [cur]) raw' cr, None)
      | TNL _ => (reg0, Some (fs ++ [cur], raw, cr))
      | _ => (mkReg RQuo (cur ++ [34] ++ lit t) fs raw' cr, None)       (* bare quote: literal *)
      end
  end.

(* [eofcr]: the input ended with a lone CR after an unterminated last line; it is not
   part of any field but it is part of the record's text *)
Fixpoint rfc_run (eofcr : bytes) (g : rreg) (ts : list tok) : list rrec :=
  match ts with
  | [] =>
      match r_q g with
      | RLine | RComment => []
      | _ => [(r_fs g ++ [r_cur g], strip_nl (r_raw g ++ eofcr), r_cr g)]
      end
  | t :: r =>
      let '(g', out) := rstep g t in
      match out with
      | Some x => x :: rfc_run eofcr g' r
      | None => rfc_run eofcr g' r
      end
  end.

End Rfc.

Definition rfc_records (sep comment : Z) (data : bytes) : list rrec :=
  let data := if prefix_of bom data then zdrop 3 data else data in
  let eofcr := last_is 13 data in
  let body := if eofcr then removelast data else data in
  let comb := if comment =? 0 then [] else encode_rune comment in
  rfc_run (encode_rune sep) comb (if eofcr then [13] else []) reg0
          (lex (encode_rune sep) comb 0 body).

(* the fields of every record *)
Definition rfc_parse (sep comment : Z) (data : bytes) : list (list bytes) :=
  map (fun r => fst (fst r)) (rfc_records sep comment data).

(* $0 of a record as the property words it: its own text; when a quoted field held a
   CR LF line break the implementation documents that CRs are dropped from $0 *)
Definition rrec_text (r : rrec) : bytes :=
  if snd r then remove_cr (snd (fst r)) else snd (fst r).
