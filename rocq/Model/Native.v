(* C17 — model of native (Go-defined) functions called from AWK.
   Mirrors, function by function and as they are in the pinned tree:
     interp/functions.go   callNative toNative fromNative initNativeFuncs
                           checkNativeFunc validNativeType          (lines 19-242)
     interp/value.go       value.boolean value.num value.str          (the three views)
     internal/resolver/resolve.go  native index assignment (128-139) and the
                           arity check of a call to a native function (472-482)
     reflect.Value.Call    argument count and assignability checks (the part of the
                           library that can panic on what callNative hands it)
   Definitions only.  Three primitives of other properties are parameters:
     parse_float  = value.go parseFloat       (None = error)
     parse_prefix = value.go parseFloatPrefix
     fmt_float    = the CONVFMT rendering of a finite non-integral number. *)
From Verif Require Import Lib.Base Lib.Dyadic.

(* ------------------------------------------------------------------ *)
(* Go types as reflect sees them.  [d = true] is a user-defined type whose
   underlying type is the shown one ([type MyInt int]); [d = false] is the
   predeclared type itself ([int], [string], the literal [[]T]).  [WP] is
   int/uint (64 bits on the pinned platform, a type distinct from int64). *)
Inductive width : Type := W8 | W16 | W32 | W64 | WP.

Inductive ty : Type :=
| TBool (d : bool)
| TInt (w : width) (d : bool)
| TUint (w : width) (d : bool)
| TFloat32 (d : bool)
| TFloat64 (d : bool)
| TString (d : bool)
| TSlice (elem : ty) (d : bool)
| TError                       (* exactly the predeclared interface type error *)
| TOther.                      (* chan map struct pointer func array complex uintptr, other interfaces *)

Inductive kind : Type :=
| KBool | KInt (w : width) | KUint (w : width) | KFloat32 | KFloat64 | KString | KSlice | KOther.

Definition kind_of (t : ty) : kind :=
  match t with
  | TBool _ => KBool
  | TInt w _ => KInt w
  | TUint w _ => KUint w
  | TFloat32 _ => KFloat32
  | TFloat64 _ => KFloat64
  | TString _ => KString
  | TSlice _ _ => KSlice
  | TError => KOther
  | TOther => KOther
  end.

Definition is_uint8_kind (k : kind) : bool :=
  match k with KUint W8 => true | _ => false end.

Definition width_eqb (a b : width) : bool :=
  match a, b with
  | W8, W8 | W16, W16 | W32, W32 | W64, W64 | WP, WP => true
  | _, _ => false
  end.

(* type identity (two user-defined types of the same shape are not told apart: the
   model only ever compares against types all of whose flags are false, or a type
   against itself) *)
Fixpoint ty_eqb (a b : ty) : bool :=
  match a, b with
  | TBool d1, TBool d2 => Bool.eqb d1 d2
  | TInt w1 d1, TInt w2 d2 => width_eqb w1 w2 && Bool.eqb d1 d2
  | TUint w1 d1, TUint w2 d2 => width_eqb w1 w2 && Bool.eqb d1 d2
  | TFloat32 d1, TFloat32 d2 => Bool.eqb d1 d2
  | TFloat64 d1, TFloat64 d2 => Bool.eqb d1 d2
  | TString d1, TString d2 => Bool.eqb d1 d2
  | TSlice e1 d1, TSlice e2 d2 => ty_eqb e1 e2 && Bool.eqb d1 d2
  | TError, TError => true
  | TOther, TOther => true
  | _, _ => false
  end.

Definition byte_slice : ty := TSlice (TUint W8 false) false.     (* []byte *)

(* Go spec "named type": every basic type is named; a slice only when defined. *)
Definition is_named (t : ty) : bool :=
  match t with TSlice _ d => d | _ => true end.

Definition underlying (t : ty) : ty :=
  match t with
  | TBool _ => TBool false
  | TInt w _ => TInt w false
  | TUint w _ => TUint w false
  | TFloat32 _ => TFloat32 false
  | TFloat64 _ => TFloat64 false
  | TString _ => TString false
  | TSlice e _ => TSlice e false
  | TError => TError
  | TOther => TOther
  end.

(* Go assignability V -> T, the two clauses that can apply to what callNative builds:
   identical types; or identical underlying types and one of them not a named type. *)
Definition assignable (v t : ty) : bool :=
  ty_eqb v t || (ty_eqb (underlying v) (underlying t) && (negb (is_named v) || negb (is_named t))).

(* ------------------------------------------------------------------ *)
(* Outcomes with the reason of a panic *)
Inductive pk : Type :=
| PkArgType      (* toNative: "unexpected argument type" *)
| PkArgSlice     (* toNative: "unexpected argument slice" *)
| PkRetType      (* fromNative: "unexpected return type" *)
| PkRetSlice     (* fromNative: "unexpected return slice" *)
| PkNumOut       (* callNative: "unexpected number of return values" *)
| PkCallAssign   (* reflect: Call using X as type Y / cannot use X as type Y in Call *)
| PkCallArity    (* reflect: Call with too few/many input arguments *)
| PkNilType      (* method call on the nil reflect.Type of a nil interface value *)
| PkNonFunc      (* reflect: NumIn of non-func type *)
| PkElem         (* reflect: Elem of a type that has none *)
| PkIndex        (* Go index out of range *)
| PkIsNil        (* reflect: IsNil of a non-nilable value *)
| PkConvert      (* reflect.Value.Convert: value cannot be converted *)
| PkIllTyped.    (* a reflect.Value whose data does not fit its type: excluded by Go's typing *)

Inductive nres (A : Type) : Type :=
| NOk (a : A)
| NPanic (k : pk).
Arguments NOk {A} a.
Arguments NPanic {A} k.

Definition nbind {A B} (r : nres A) (f : A -> nres B) : nres B :=
  match r with NOk a => f a | NPanic k => NPanic k end.
Notation "'ndo' x <- r ; k" := (nbind r (fun x => k)) (at level 200, x pattern, r at level 100, k at level 200).

Definition nindex {A} (l : list A) (i : Z) : nres A :=
  if (0 <=? i) && (i <? zlen l)
  then match nth_error l (Z.to_nat i) with Some a => NOk a | None => NPanic PkIndex end
  else NPanic PkIndex.

Definition elem (t : ty) : nres ty :=
  match t with TSlice e _ => NOk e | _ => NPanic PkElem end.

(* ------------------------------------------------------------------ *)
(* Go values (reflect.Value): a type and the data *)
Inductive gdata : Type :=
| DBool (b : bool)
| DInt (z : Z)            (* v.Int() *)
| DUint (z : Z)           (* v.Uint() *)
| DFloat (x : fnum)       (* v.Float(), a float32 widened exactly *)
| DStr (s : bytes)
| DBytes (s : bytes)      (* non-nil slice *)
| DNilSlice
| DErrNil
| DErr (id : Z)           (* identity of a non-nil error value *)
| DOpaque.

Record gval : Type := GV { gty : ty; gdat : gdata }.

(* AWK values (interp/value.go) *)
Inductive value : Type :=
| VNull
| VStr (s : bytes)
| VNum (x : fnum)
| VNumStr (s : bytes).

(* ------------------------------------------------------------------ *)
(* float64 -> integer conversions as the Go 1.23 amd64 compiler emits them.
   int64/int: CVTTSD2SQ (Lib.Dyadic.f2i64).  int8/int16/int32: CVTTSD2SL, i.e.
   truncation when it fits 32 bits, else -2^31, then the low bits are kept. *)
Definition two31 : Z := 2147483648.
Definition in_i32 (t : Z) : bool := (- two31 <=? t) && (t <? two31).
Definition f2i32 (x : fnum) : Z :=
  match x with
  | FFin m e => let t := ftrunc m e in if in_i32 t then t else - two31
  | _ => - two31
  end.

Definition wbits (w : width) : Z :=
  match w with W8 => 8 | W16 => 16 | W32 => 32 | W64 => 64 | WP => 64 end.

(* keep the low n bits, read as two's complement / as unsigned *)
Definition wrap_s (n z : Z) : Z :=
  let r := z mod 2 ^ n in if r <? 2 ^ (n - 1) then r else r - 2 ^ n.
Definition wrap_u (n z : Z) : Z := z mod 2 ^ n.

Definition to_int (w : width) (x : fnum) : Z :=
  match w with
  | W8 => wrap_s 8 (f2i32 x)
  | W16 => wrap_s 16 (f2i32 x)
  | W32 => f2i32 x
  | W64 => f2i64 x
  | WP => f2i64 x
  end.

(* functions.go toUint64: numbers in [2^63, 2^64) are converted directly (truncation);
   everything else goes through int64: negative numbers wrap modulo 2^64, and what does not
   fit int64 (x < -2^63, x >= 2^64, NaN, +-Inf) gives uint64(-2^63) = 2^63. *)
Definition to_uint64 (x : fnum) : Z :=
  match x with
  | FFin m e => let t := ftrunc m e in
                if (two63 <=? t) && (t <? two64) then t else wrap_u 64 (f2i64 x)
  | _ => wrap_u 64 (f2i64 x)
  end.

(* uint64 and uint: toUint64(x); the narrower kinds: uintN(int64(x)) *)
Definition to_uint (w : width) (x : fnum) : Z :=
  match w with
  | W64 | WP => to_uint64 x
  | _ => wrap_u (wbits w) (f2i64 x)
  end.

(* Round the dyadic m*2^e to nearest-even with [prec] mantissa bits, least exponent
   [emin], overflow at 2^emax: float32(x) = fround 24 (-149) 128, and the
   int64/uint64 -> float64 conversion = fround 53 (-1074) 1024. *)
Definition fround (prec emin emax m e : Z) : fnum :=
  if m =? 0 then FFin 0 0 else
  let a := Z.abs m in
  let n := Z.log2 a + 1 in
  let e' := Z.max (e + n - prec) emin in
  if e' <=? e then (if e + n <=? emax then FFin m e else FInf (m <? 0))
  else
    let s := e' - e in
    let q := a / 2 ^ s in
    let r := a mod 2 ^ s in
    let half := 2 ^ (s - 1) in
    let q' := if (half <? r) || ((r =? half) && Z.odd q) then q + 1 else q in
    if 2 ^ (emax - e') <=? q' then FInf (m <? 0)
    else FFin (if m <? 0 then - q' else q') e'.

Definition to_f32 (x : fnum) : fnum :=
  match x with FFin m e => fround 24 (-149) 128 m e | _ => x end.

Definition z_to_f64 (z : Z) : fnum := fround 53 (-1074) 1024 z 0.

(* strconv.FormatInt(z, 10) *)
Fixpoint dec_digits (fuel : nat) (z : Z) (acc : bytes) : bytes :=
  match fuel with
  | O => acc
  | S f => let acc' := (48 + z mod 10) :: acc in
           if z <? 10 then acc' else dec_digits f (z / 10) acc'
  end.
Definition z_to_dec (z : Z) : bytes :=
  if z <? 0 then 45 :: dec_digits 20 (- z) [] else dec_digits 20 z [].

(* ------------------------------------------------------------------ *)
(* Signatures, function values, the keyword table *)
Record sig : Type := { params : list ty; variadic : bool; results : list ty }.

(* an entry of Config.Funcs: any Go value *)
Inductive fval : Type :=
| FNil                                                   (* the nil interface value *)
| FNonFunc                                               (* a non-function, e.g. 42 *)
| FFunc (s : sig) (body : list gval -> list gval).       (* body = the Go code of the function *)

(* lexer/token.go keywordTokens, as byte strings (kept equal to the repository's table
   by Proofs/NativeCheck.v against Gen/Keywords.v) *)
Definition keywords : list bytes :=
  [ [66;69;71;73;78]; [69;78;68]; [97;116;97;110;50]; [98;114;101;97;107]; [99;108;111;115;101];
    [99;111;110;116;105;110;117;101]; [99;111;115]; [100;101;108;101;116;101]; [100;111];
    [101;108;115;101]; [101;120;105;116]; [101;120;112]; [102;102;108;117;115;104]; [102;111;114];
    [102;117;110;99;116;105;111;110]; [103;101;116;108;105;110;101]; [103;115;117;98]; [105;102];
    [105;110]; [105;110;100;101;120]; [105;110;116]; [108;101;110;103;116;104]; [108;111;103];
    [109;97;116;99;104]; [110;101;120;116]; [110;101;120;116;102;105;108;101]; [112;114;105;110;116];
    [112;114;105;110;116;102]; [114;97;110;100]; [114;101;116;117;114;110]; [115;105;110];
    [115;112;108;105;116]; [115;112;114;105;110;116;102]; [115;113;114;116]; [115;114;97;110;100];
    [115;117;98]; [115;117;98;115;116;114]; [115;121;115;116;101;109]; [116;111;108;111;119;101;114];
    [116;111;117;112;112;101;114]; [119;104;105;108;101] ].

Fixpoint mem_bytes (x : bytes) (l : list bytes) : bool :=
  match l with [] => false | y :: l' => bytes_eqb x y || mem_bytes x l' end.

Definition is_keyword (name : bytes) : bool := mem_bytes name keywords.

(* ------------------------------------------------------------------ *)
(* functions.go:223 validNativeType *)
Definition valid_native_type (t : ty) : bool :=
  match t with
  | TSlice e _ => is_uint8_kind (kind_of e)
  | _ => match kind_of t with
         | KBool | KInt _ | KUint _ | KFloat32 | KFloat64 | KString => true
         | _ => false
         end
  end.

Inductive setup_err : Type :=
| EKeyword                  (* can't use keyword %q as native function name *)
| ENotFunc                  (* native function %q is not a function *)
| EParam (i : Z)            (* native function %q param %d is not int or string *)
| EReturn                   (* ... return value is not int or string *)
| EFirstReturn              (* ... first return value is not int or string *)
| ESecondNotError           (* ... second return value is not an error *)
| ETooManyResults.          (* ... returns more than two values *)

(* functions.go:191-199, the loop over the parameters; n = typ.NumIn() *)
Fixpoint check_params (is_var : bool) (n i : Z) (ps : list ty) : nres (option setup_err) :=
  match ps with
  | [] => NOk None
  | p :: rest =>
      ndo param <- (if is_var && (i =? n - 1) then elem p else NOk p);
      if valid_native_type param then check_params is_var n (i + 1) rest
      else NOk (Some (EParam i))
  end.

Definition check_results (rs : list ty) : option setup_err :=
  match rs with
  | [] => None
  | [r] => if valid_native_type r then None else Some EReturn
  | [r; e] => if negb (valid_native_type r) then Some EFirstReturn
              else if negb (ty_eqb e TError) then Some ESecondNotError
              else None
  | _ => Some ETooManyResults
  end.

(* functions.go:182 checkNativeFunc: NOk None = accepted, NOk (Some e) = *interp.Error *)
Definition check_native_func (name : bytes) (f : fval) : nres (option setup_err) :=
  if is_keyword name then NOk (Some EKeyword)
  else match f with
       | FNil => NOk (Some ENotFunc)          (* typ == nil *)
       | FNonFunc => NOk (Some ENotFunc)       (* typ.Kind() != reflect.Func *)
       | FFunc s _ =>
           ndo r <- check_params (variadic s) (zlen (params s)) 0 (params s);
           match r with
           | Some e => NOk (Some e)
           | None => NOk (check_results (results s))
           end
       end.

(* ------------------------------------------------------------------ *)
(* The two name-sorted index assignments.  Go compares strings bytewise. *)
Fixpoint bytes_ltb (a b : bytes) : bool :=
  match a, b with
  | [], [] => false
  | [], _ :: _ => true
  | _ :: _, [] => false
  | x :: a', y :: b' => if x <? y then true else if y <? x then false else bytes_ltb a' b'
  end.

Fixpoint insert_name (x : bytes) (l : list bytes) : list bytes :=
  match l with
  | [] => [x]
  | y :: l' => if bytes_ltb y x then y :: insert_name x l' else x :: l
  end.

(* sort.Strings: the sorted permutation (unique, map keys being distinct) *)
Definition sort_names (l : list bytes) : list bytes := fold_right insert_name [] l.

Fixpoint index_of (x : bytes) (l : list bytes) : Z :=
  match l with
  | [] => 0
  | y :: l' => if bytes_eqb x y then 0 else 1 + index_of x l'
  end.

Fixpoint lookup (name : bytes) (funcs : list (bytes * fval)) : option fval :=
  match funcs with
  | [] => None
  | (n, f) :: rest => if bytes_eqb name n then Some f else lookup name rest
  end.

(* resolve.go:128-139: [funcs] in the iteration order of the resolver's map walk *)
Definition resolver_index (funcs : list (bytes * fval)) (name : bytes) : Z :=
  index_of name (sort_names (map fst funcs)).

Inductive parse_err : Type :=
| PUndefined          (* undefined function %q *)
| PNotFunc            (* native function %q is not a function *)
| PTooMany.           (* %q called with more arguments than declared *)

(* resolve.go:466-482 for a call name(args) with nargs arguments.  A function defined
   with the AWK "function" keyword overrides the native one (its own arity rule is not
   part of this model: callers pass at most its parameter count). *)
Definition resolve_call (funcs : list (bytes * fval)) (awk_defined : list bytes)
                        (name : bytes) (nargs : Z) : nres (option parse_err) :=
  if mem_bytes name awk_defined then NOk None
  else match lookup name funcs with
       | None => NOk (Some PUndefined)
       | Some FNil => NOk (Some PNotFunc)         (* typ == nil *)
       | Some FNonFunc => NOk (Some PNotFunc)     (* typ.Kind() != reflect.Func *)
       | Some (FFunc s _) =>
           let num_params := if variadic s then 1000000000 else zlen (params s) in
           if num_params <? nargs then NOk (Some PTooMany) else NOk None
       end.

(* functions.go:137 nativeFunc{isVariadic, in, value}: the signature and the code *)
Definition nfunc : Type := (sig * (list gval -> list gval))%type.

(* functions.go:144 initNativeFuncs; [funcs] in the iteration order of ITS map walk.
   inl (name, e) = the *interp.Error returned; inr tbl = p.nativeFuncs. *)
Fixpoint check_all (funcs : list (bytes * fval)) : nres (option (bytes * setup_err)) :=
  match funcs with
  | [] => NOk None
  | (name, f) :: rest =>
      ndo r <- check_native_func name f;
      match r with
      | Some e => NOk (Some (name, e))
      | None => check_all rest
      end
  end.

Fixpoint build_table (funcs : list (bytes * fval)) (names : list bytes) : nres (list nfunc) :=
  match names with
  | [] => NOk []
  | name :: rest =>
      ndo nf <- match lookup name funcs with
                | Some (FFunc s b) => NOk (s, b)
                | Some FNonFunc => NPanic PkNonFunc
                | _ => NPanic PkNilType
                end;
      ndo tl <- build_table funcs rest;
      NOk (nf :: tl)
  end.

Definition init_native_funcs (funcs : list (bytes * fval)) : nres ((bytes * setup_err) + list nfunc) :=
  ndo r <- check_all funcs;
  match r with
  | Some ne => NOk (inl ne)
  | None => ndo tbl <- build_table funcs (sort_names (map fst funcs)); NOk (inr tbl)
  end.

(* ------------------------------------------------------------------ *)
(* reflect.Value.Call on the function (sig, body): count check, then every argument
   must be assignable to its parameter (the variadic tail to the element type). *)
Definition call_target (s : sig) (i : Z) : nres ty :=
  let n := zlen (params s) in
  if variadic s && (n - 1 <=? i) then (ndo l <- nindex (params s) (n - 1); elem l)
  else nindex (params s) i.

Fixpoint check_assign (s : sig) (i : Z) (vals : list gval) : nres unit :=
  match vals with
  | [] => NOk tt
  | v :: rest =>
      ndo t <- call_target s i;
      if assignable (gty v) t then check_assign s (i + 1) rest else NPanic PkCallAssign
  end.

Definition reflect_call (f : nfunc) (vals : list gval) : nres (list gval) :=
  let '(s, body) := f in
  let n := zlen (params s) in
  if (if variadic s then zlen vals <? n - 1 else negb (zlen vals =? n)) then NPanic PkCallArity
  else ndo _ <- check_assign s 0 vals; NOk (body vals).

(* reflect.Zero(t) *)
Definition zero_data (t : ty) : gdata :=
  match t with
  | TBool _ => DBool false
  | TInt _ _ => DInt 0
  | TUint _ _ => DUint 0
  | TFloat32 _ | TFloat64 _ => DFloat (FFin 0 0)
  | TString _ => DStr []
  | TSlice _ _ => DNilSlice
  | TError => DErrNil
  | TOther => DOpaque
  end.
Definition zero_value (t : ty) : gval := GV t (zero_data t).

(* functions.go:112 fromNative.  The data always fits the kind in Go; the model says
   PkIllTyped for a value that breaks this. *)
Definition from_native (v : gval) : nres value :=
  match kind_of (gty v) with
  | KBool => match gdat v with
             | DBool b => NOk (VNum (FFin (if b then 1 else 0) 0))
             | _ => NPanic PkIllTyped end
  | KInt _ => match gdat v with DInt z => NOk (VNum (z_to_f64 z)) | _ => NPanic PkIllTyped end
  | KUint _ => match gdat v with DUint z => NOk (VNum (z_to_f64 z)) | _ => NPanic PkIllTyped end
  | KFloat32 | KFloat64 => match gdat v with DFloat x => NOk (VNum x) | _ => NPanic PkIllTyped end
  | KString => match gdat v with DStr s => NOk (VStr s) | _ => NPanic PkIllTyped end
  | KSlice =>
      match gty v with
      | TSlice e _ =>
          if is_uint8_kind (kind_of e)         (* v.Type().Elem().Kind() == reflect.Uint8: v.Bytes() *)
          then match gdat v with
               | DBytes s => NOk (VStr s)
               | DNilSlice => NOk (VStr [])
               | _ => NPanic PkIllTyped end
          else NPanic PkRetSlice
      | _ => NPanic PkIllTyped
      end
  | KOther => NPanic PkRetType
  end.

Inductive call_result : Type :=
| CValue (v : value) (recv : list gval)     (* value pushed; recv = what the Go function received *)
| CError (id : Z) (recv : list gval).       (* the error callNative returns *)

Section Prims.
  Variable parse_float : bytes -> option fnum.
  Variable parse_prefix : bytes -> fnum.
  Variable fmt_float : fnum -> bytes.

  (* value.go:92 boolean *)
  Definition v_boolean (v : value) : bool :=
    match v with
    | VStr s => negb (bytes_eqb s [])
    | VNumStr s => match parse_float s with
                   | None => negb (bytes_eqb s [])
                   | Some f => negb (is_zero f)
                   end
    | VNum x => negb (is_zero x)
    | VNull => false
    end.

  (* value.go:160 num *)
  Definition v_num (v : value) : fnum :=
    match v with
    | VStr s | VNumStr s => parse_prefix s
    | VNum x => x
    | VNull => FFin 0 0
    end.

  (* value.go:135 str (p.toString) *)
  Definition num_str (x : fnum) : bytes :=
    match x with
    | FNaN => [110;97;110]
    | FInf true => [45;105;110;102]
    | FInf false => [105;110;102]
    | FFin _ _ => let i := f2i64 x in
                  if feq x (FFin i 0) then z_to_dec i else fmt_float x
    end.

  Definition v_str (v : value) : bytes :=
    match v with
    | VNum x => num_str x
    | VStr s | VNumStr s => s
    | VNull => []
    end.

  (* functions.go:69 toNative *)
  Definition to_native (v : value) (t : ty) : nres gval :=
    match kind_of t with
    | KBool => NOk (GV (TBool false) (DBool (v_boolean v)))
    | KInt w => NOk (GV (TInt w false) (DInt (to_int w (v_num v))))
    | KUint w => NOk (GV (TUint w false) (DUint (to_uint w (v_num v))))
    | KFloat32 => NOk (GV (TFloat32 false) (DFloat (to_f32 (v_num v))))
    | KFloat64 => NOk (GV (TFloat64 false) (DFloat (v_num v)))
    | KString => NOk (GV (TString false) (DStr (v_str v)))
    | KSlice =>
        ndo e <- elem t;
        if is_uint8_kind (kind_of e) then NOk (GV t (DBytes (v_str v)))   (* reflect.MakeSlice(typ, ..) *)
        else NPanic PkArgSlice
    | KOther => NPanic PkArgType
    end.

  (* functions.go callNative: if arg.Type() != argType { arg = arg.Convert(argType) }.
     Convert between types of identical underlying type keeps the data. *)
  Definition convert_arg (v : gval) (t : ty) : nres gval :=
    if ty_eqb (gty v) t then NOk v
    else if ty_eqb (underlying (gty v)) (underlying t) then NOk (GV t (gdat v))
    else NPanic PkConvert.

  (* functions.go:32-46: the loop over the AWK arguments *)
  Fixpoint build_args (s : sig) (variadic_type : ty) (i : Z) (args : list value) : nres (list gval) :=
    match args with
    | [] => NOk []
    | a :: rest =>
        ndo arg_type <- (if negb (variadic s) || (i <? zlen (params s) - 1)
                         then nindex (params s) i else NOk variadic_type);
        ndo v0 <- to_native a arg_type;
        ndo v <- convert_arg v0 arg_type;
        ndo tl <- build_args s variadic_type (i + 1) rest;
        NOk (v :: tl)
    end.

  (* functions.go:43-45: zero values for i = len(args) .. minIn-1 *)
  Fixpoint zero_fill (s : sig) (i : Z) (count : nat) : nres (list gval) :=
    match count with
    | O => NOk []
    | S c => ndo t <- nindex (params s) i;
             ndo tl <- zero_fill s (i + 1) c;
             NOk (zero_value t :: tl)
    end.

  (* functions.go:21 callNative *)
  Definition call_native (tbl : list nfunc) (idx : Z) (args : list value) : nres call_result :=
    ndo f <- nindex tbl idx;
    let s := fst f in
    let min_in0 := zlen (params s) in
    ndo vt <- (if variadic s
               then (ndo l <- nindex (params s) (zlen (params s) - 1); elem l)
               else NOk TOther);                   (* variadicType stays nil: never read *)
    let min_in := if variadic s then min_in0 - 1 else min_in0 in
    ndo vals <- build_args s vt 0 args;
    ndo zs <- zero_fill s (zlen args) (Z.to_nat (min_in - zlen args));
    let values := vals ++ zs in
    ndo outs <- reflect_call f values;
    match outs with
    | [] => NOk (CValue VNull values)
    | [o] => ndo r <- from_native o; NOk (CValue r values)
    | [o; e] =>
        match gdat e with
        | DErrNil => ndo r <- from_native o; NOk (CValue r values)
        | DErr id => NOk (CError id values)
        | _ => NPanic PkIsNil
        end
    | _ => NPanic PkNumOut
    end.

  (* ---------------------------------------------------------------- *)
  (* One call  name(args)  in a program run through ParseProgram + ExecProgram with the
     same Funcs map: parse-time check, set-up, the call by the resolver's index into the
     interpreter's table. [funcs_r] / [funcs_i]: the map in the resolver's / the
     interpreter's iteration order. *)
  Inductive outcome : Type :=
  | OParseError (e : parse_err)
  | OSetupError (name : bytes) (e : setup_err)
  | OAwkFunc                                  (* the AWK-defined function of that name ran *)
  | ORunError (id : Z) (recv : list gval)     (* ExecProgram returned the native's error *)
  | OValue (v : value) (recv : list gval)
  | OPanic (k : pk).

  Definition run (funcs_r funcs_i : list (bytes * fval)) (awk_defined : list bytes)
                 (name : bytes) (args : list value) : outcome :=
    match resolve_call funcs_r awk_defined name (zlen args) with
    | NPanic k => OPanic k
    | NOk (Some e) => OParseError e
    | NOk None =>
        match init_native_funcs funcs_i with
        | NPanic k => OPanic k
        | NOk (inl (n, e)) => OSetupError n e
        | NOk (inr tbl) =>
            if mem_bytes name awk_defined then OAwkFunc
            else match call_native tbl (resolver_index funcs_r name) args with
                 | NPanic k => OPanic k
                 | NOk (CValue v recv) => OValue v recv
                 | NOk (CError id recv) => ORunError id recv
                 end
        end
    end.

  (* ---------------------------------------------------------------- *)
  (* The reusable interpreter: interp.New once, then Interpreter.Execute several times.
     The only native-function state that survives between calls is p.nativeFuncs:
     [None] = nil, [Some tbl] = the table.  interp.go setExecuteConfig:
         if p.nativeFuncs == nil { err := p.initNativeFuncs(config.Funcs); if err != nil { return err } }
     and initNativeFuncs assigns p.nativeFuncs only after every entry has passed checkNativeFunc
     (an empty map gives make([]nativeFunc, 0): non-nil, the empty table). *)
  Definition istate : Type := option (list nfunc).

  (* the rest of one Execute once set-up has succeeded: the program's call name(args) *)
  Definition call_outcome (funcs_r : list (bytes * fval)) (awk_defined : list bytes)
                          (name : bytes) (args : list value) (tbl : list nfunc) : outcome :=
    if mem_bytes name awk_defined then OAwkFunc
    else match call_native tbl (resolver_index funcs_r name) args with
         | NPanic k => OPanic k
         | NOk (CValue v recv) => OValue v recv
         | NOk (CError id recv) => ORunError id recv
         end.

  (* one Execute(config) with config.Funcs = funcs_i (in the iteration order of this call) *)
  Definition exec_one (funcs_r : list (bytes * fval)) (awk_defined : list bytes)
                      (name : bytes) (args : list value)
                      (st : istate) (funcs_i : list (bytes * fval)) : istate * outcome :=
    match st with
    | Some tbl => (st, call_outcome funcs_r awk_defined name args tbl)   (* guard false: Funcs not looked at *)
    | None =>
        match init_native_funcs funcs_i with
        | NPanic k => (None, OPanic k)
        | NOk (inl (n, e)) => (None, OSetupError n e)                   (* nothing was assigned *)
        | NOk (inr tbl) => (Some tbl, call_outcome funcs_r awk_defined name args tbl)
        end
    end.

  Fixpoint exec_history (funcs_r : list (bytes * fval)) (awk_defined : list bytes)
                        (name : bytes) (args : list value)
                        (st : istate) (maps : list (list (bytes * fval))) : list outcome :=
    match maps with
    | [] => []
    | m :: rest =>
        let '(st', o) := exec_one funcs_r awk_defined name args st m in
        o :: exec_history funcs_r awk_defined name args st' rest
    end.

  (* ParseProgram with funcs_r, New, then one Execute per element of [maps] *)
  Definition run_history (funcs_r : list (bytes * fval)) (awk_defined : list bytes)
                         (name : bytes) (args : list value)
                         (maps : list (list (bytes * fval))) : outcome + list outcome :=
    match resolve_call funcs_r awk_defined name (zlen args) with
    | NPanic k => inl (OPanic k)
    | NOk (Some e) => inl (OParseError e)
    | NOk None => inr (exec_history funcs_r awk_defined name args None maps)
    end.
End Prims.
