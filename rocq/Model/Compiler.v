(* C01: internal/compiler/compiler.go as a functional compiler from the resolved
   syntax tree to a list of instructions.  Go emits code sequentially and patches
   forward jumps afterwards; here every jump offset is computed from the sizes of the
   code fragments it jumps over, which gives the same words (checked on every run by
   comparing [encode (comp …)] with parser.Program.Compiled, see harness/c01). *)
From Verif Require Import Lib.Base Lib.Dyadic Model.Ast Model.Instr.

Definition one_bits : Z := 4607182418800017408.      (* float64 1.0 *)
Definition zero_bits : Z := 0.

(* ---- constants the compiler inspects ------------------------------------ *)

(* decimal rendering of an integer (strconv.FormatInt(n, 10)) *)
Fixpoint pos_digits (fuel : nat) (n : Z) (acc : bytes) : bytes :=
  match fuel with
  | O => acc
  | S f => if n <? 10 then (48 + n) :: acc else pos_digits f (n / 10) ((48 + n mod 10) :: acc)
  end.
Definition dec_of_Z (n : Z) : bytes :=
  if n <? 0 then 45 :: pos_digits 80 (- n) [] else pos_digits 80 n [].

(* e.Value == float64(int64(e.Value)): index constant rendered as the decimal string (compiler.go index()) *)
Definition int_index_str (bits : Z) : option bytes :=
  match of_bits bits with
  | FFin m e => if is_integral m e && in_i64 (ftrunc m e) then Some (dec_of_Z (ftrunc m e)) else None
  | _ => None
  end.

(* index.Value == float64(Opcode(index.Value)), Opcode = int32: $i with a small integer constant *)
Definition fieldint_of (bits : Z) : option Z :=
  match of_bits bits with
  | FFin m e =>
      let t := ftrunc m e in
      if is_integral m e && (-2147483648 <=? t) && (t <? 2147483648) then Some t else None
  | _ => None
  end.

(* ---- small tables --------------------------------------------------------- *)

Definition var_get (sc : scope) (i : Z) : instr :=
  match sc with SGlobal => IGlobal i | SLocal => ILocal i | SSpecial => ISpecial i end.
Definition var_set (sc : scope) (i : Z) : instr :=
  match sc with SGlobal => IAssignGlobal i | SLocal => IAssignLocal i | SSpecial => IAssignSpecial i end.
Definition var_incr (sc : scope) (amt i : Z) : instr :=
  match sc with SGlobal => IIncrGlobal amt i | SLocal => IIncrLocal amt i | SSpecial => IIncrSpecial amt i end.
Definition var_aug (sc : scope) (op : arith) (i : Z) : instr :=
  match sc with SGlobal => IAugGlobal op i | SLocal => IAugLocal op i | SSpecial => IAugSpecial op i end.

Definition binop_instr (op : binop) : instr :=
  match op with
  | BArith a => IArith a
  | BCmp c => ICmp c
  | BMatch => IMatch
  | BNotMatch => INotMatch
  end.
Definition unop_instr (op : unop) : instr :=
  match op with UNeg => IUnaryMinus | UNot => INot | UPlus => IUnaryPlus end.

Definition is_ordering (c : cmp) : bool :=
  match c with CEq | CNe => false | _ => true end.
Definition cmp_neg (c : cmp) : cmp :=
  match c with CEq => CNe | CNe => CEq | CLt => CGe | CLe => CGt | CGt => CLe | CGe => CLt end.

Definition incr_amount (decr : bool) : Z := if decr then -1 else 1.
Definition incr_arith (decr : bool) : arith := if decr then ASub else AAdd.

(* condition(expr, invert) followed by the jump it returns, with the given offset *)
Definition cond_code (ce : expr -> code) (e : expr) (invert : bool) (off : Z) : code :=
  match e with
  | EBin (BCmp c) l r =>
      if invert && is_ordering c then ce e ++ [IJumpFalse off]
      else ce l ++ ce r ++ [IJumpCmp (if invert then cmp_neg c else c) off]
  | _ => ce e ++ [if invert then IJumpFalse off else IJumpTrue off]
  end.

(* ---- expressions ----------------------------------------------------------- *)

(* number of operands of a concatenation chain (concatOp) *)
Fixpoint cat_count (e : expr) : Z :=
  match e with
  | EConcat l r => cat_count l + 1
  | _ => 1
  end.

(* [comp_g false e] is c.expr(e); [comp_g true e] pushes the operands of the
   concatenation chain e left to right (it is c.expr(e) when e is not a concatenation) *)
Definition index_multi_tail (es : exprs) : code :=
  if 1 <? exprs_len es then [IIndexMulti (exprs_len es)] else [].

Fixpoint args_scalars (a : args) : Z :=
  match a with
  | Anil => 0
  | AconsS _ a' => 1 + args_scalars a'
  | AconsA _ _ a' => args_scalars a'
  end.

Fixpoint args_arrays (a : args) : list (scope * Z) :=
  match a with
  | Anil => []
  | AconsS _ a' => args_arrays a'
  | AconsA sc i a' => (sc, i) :: args_arrays a'
  end.

Fixpoint comp_g (flat : bool) (e : expr) {struct e} : code :=
  match e with
  | ENum b => [INum b]
  | EStr s => [IStr s]
  | ERegex r => [IRegex r]
  | EField e1 =>
      match e1 with
      | ENum b => match fieldint_of b with
                  | Some n => [IFieldInt n]
                  | None => comp_g false e1 ++ [IField]
                  end
      | _ => comp_g false e1 ++ [IField]
      end
  | ENamedField e1 =>
      match e1 with
      | EStr s => [IFieldByNameStr s]
      | _ => comp_g false e1 ++ [IFieldByName]
      end
  | EVar sc i => [var_get sc i]
  | EIndex sc i idx => (comp_index_items idx ++ index_multi_tail idx) ++ [IArray sc i]
  | EIn idx sc i => (comp_index_items idx ++ index_multi_tail idx) ++ [IIn sc i]
  | EBin op l r => comp_g false l ++ comp_g false r ++ [binop_instr op]
  | EAnd l r =>
      let cr := comp_g false r in
      comp_g false l ++ [IDupe; IJumpFalse (1 + csize cr); IDrop] ++ cr ++ [IBoolean]
  | EOr l r =>
      let cr := comp_g false r in
      comp_g false l ++ [IDupe; IJumpTrue (1 + csize cr); IDrop] ++ cr ++ [IBoolean]
  | EConcat l r =>
      if flat then comp_g true l ++ comp_g false r      (* operands of a chain, left to right *)
      else
        let n := cat_count l + 1 in
        comp_g true l ++ comp_g false r ++ [if n =? 2 then IConcat else IConcatMulti n]
  | EUnary op e1 => comp_g false e1 ++ [unop_instr op]
  | ECond c t f =>
      let ct := comp_g false t in
      let cf := comp_g false f in
      cond_code (comp_g false) c true (csize ct + 2) ++ ct ++ [IJump (csize cf)] ++ cf
  | EAssign lv r => comp_g false r ++ [IDupe] ++ comp_assign lv
  | EAugAssign lv op r =>
      match lv with
      | LVar sc i => comp_g false r ++ [var_get sc i; ISwap; IArith op; IDupe; var_set sc i]
      | _ => comp_g false r ++ comp_dupe_lv lv ++ [IRote; IArith op; IDupe] ++ comp_assign_rote lv
      end
  | EIncr lv decr pre =>
      if pre
      then comp_dupe_lv lv ++ [INum one_bits; IArith (incr_arith decr); IDupe] ++ comp_assign_rote lv
      else comp_dupe_lv lv ++ [IUnaryPlus; IDupe; INum one_bits; IArith (incr_arith decr)] ++ comp_assign_rote lv
  | EGroup e1 => comp_g false e1
  | ECall b es => comp_exprs es ++ [ICallBuiltin b]
  | ELengthArray sc i => [ICallLengthArray sc i]
  | ESplit s sc i => comp_g false s ++ [ICallSplit sc i]
  | ESplitSep s sc i sep isre => comp_g false s ++ comp_g false sep ++ [ICallSplitSep sc i isre]
  | ESubVar g re repl sc i =>
      comp_g false re ++ comp_g false repl ++ [var_get sc i; ICallBuiltin (if g then BGsub else BSub); var_set sc i]
  | ESubLv g re repl lv =>
      comp_dupe_lv lv ++ comp_g false re ++ comp_g false repl ++
      [IRote; ICallBuiltin (if g then BGsub else BSub); IRote] ++
      match lv with
      | LIndex sc i _ => [IAssignArray sc i]
      | _ => [IAssignFieldSub]
      end
  | ESprintf es => comp_exprs es ++ [ICallSprintf (exprs_len es)]
  | EUserCall fi nsc a =>
      let k := args_scalars a in
      comp_args a ++ (if k <? nsc then [INulls (nsc - k)] else []) ++ [ICallUser fi (args_arrays a)]
  | ENativeCall fi es => comp_exprs es ++ [ICallNative fi (exprs_len es)]
  | EGetline r src =>
      match r with
      | RNone => [IGetline RNone]
      | _ => comp_g false src ++ [IGetline r]
      end
  | EGetlineLv r src lv =>
      let cs := match r with RNone => [] | _ => comp_g false src end in
      match lv with
      | LVar sc i => cs ++ [IGetlineVar sc r i]
      | LField e1 => comp_g false e1 ++ cs ++ [IGetlineField r]
      | LIndex sc i idx => (comp_index_items idx ++ index_multi_tail idx) ++ cs ++ [IGetlineArray r sc i]
      end
  end

with comp_exprs (es : exprs) : code :=
  match es with
  | Enil => []
  | Econs e es' => comp_g false e ++ comp_exprs es'
  end

(* index(): integer constants become string constants; IndexMulti for several *)
with comp_index_items (es : exprs) : code :=
  match es with
  | Enil => []
  | Econs e es' =>
      (match e with
       | ENum b => match int_index_str b with
                   | Some s => [IStr s]
                   | None => comp_g false e
                   end
       | _ => comp_g false e
       end) ++ comp_index_items es'
  end

(* assign(): the value is on the stack *)
with comp_assign (lv : lval) : code :=
  match lv with
  | LVar sc i => [var_set sc i]
  | LField e => comp_g false e ++ [IAssignField]
  | LIndex sc i idx => (comp_index_items idx ++ index_multi_tail idx) ++ [IAssignArray sc i]
  end

(* assignRoteIndex(): the index is already on the stack under two values *)
with comp_assign_rote (lv : lval) : code :=
  match lv with
  | LVar sc i => [var_set sc i]
  | LField _ => [IRote; IAssignField]
  | LIndex sc i _ => [IRote; IAssignArray sc i]
  end

(* dupeIndexLValue(): push the index (kept) and the current value *)
with comp_dupe_lv (lv : lval) : code :=
  match lv with
  | LVar sc i => [var_get sc i]
  | LField e => comp_g false e ++ [IDupe; IField]
  | LIndex sc i idx => (comp_index_items idx ++ index_multi_tail idx) ++ [IDupe; IArray sc i]
  end

with comp_args (a : args) : code :=
  match a with
  | Anil => []
  | AconsS e a' => comp_g false e ++ comp_args a'
  | AconsA _ _ a' => comp_args a'
  end.

Definition comp_expr : expr -> code := comp_g false.
Definition comp_cat : expr -> code := comp_g true.
Definition comp_index (es : exprs) : code := comp_index_items es ++ index_multi_tail es.
Definition comp_cond := cond_code comp_expr.

(* ---- statements ------------------------------------------------------------ *)

(* where break / continue go, as word distances from the END of the current fragment *)
Inductive lctx : Type :=
| LNone                                (* not inside a loop *)
| LForIn (cd : Z)                      (* for-in body: break = BreakForIn, continue = jump to the end of the body *)
| LLoop (bd cd : Z).                   (* while / for / do *)

Definition shift (l : lctx) (d : Z) : lctx :=
  match l with
  | LNone => LNone
  | LForIn cd => LForIn (cd + d)
  | LLoop bd cd => LLoop (bd + d) (cd + d)
  end.

(* the statement-position shortcuts of compiler.go:243-323 *)
Definition comp_expr_stmt (e : expr) : code :=
  match e with
  | EAssign lv r => comp_expr r ++ comp_assign lv
  | EIncr lv decr _ =>
      match lv with
      | LVar sc i => [var_incr sc (incr_amount decr) i]
      | LField e1 => comp_expr e1 ++ [IIncrField (incr_amount decr)]
      | LIndex sc i idx => comp_index idx ++ [IIncrArray sc (incr_amount decr) i]
      end
  | EAugAssign lv op r =>
      comp_expr r ++
      match lv with
      | LVar sc i => [var_aug sc op i]
      | LField e1 => comp_expr e1 ++ [IAugField op]
      | LIndex sc i idx => comp_index idx ++ [IAugArray sc op i]
      end
  | _ => comp_expr e ++ [IDrop]
  end.

Definition comp_print (pf : bool) (r : redir) (dest : expr) (args : exprs) : code :=
  (match r with RNone => [] | _ => comp_expr dest end) ++ comp_exprs args ++
  [if pf then IPrintf (exprs_len args) r else IPrint (exprs_len args) r].

Fixpoint comp_stmt (l : lctx) (s : stmt) : code :=
  match s with
  | SExpr e => comp_expr_stmt e
  | SPrint r dest args => comp_print false r dest args
  | SPrintf r dest args => comp_print true r dest args
  | SIf c body els =>
      if stmts_is_nil els then
        let cb := comp_stmts l body in
        comp_cond c true (csize cb) ++ cb
      else
        let ce := comp_stmts l els in
        let cb := comp_stmts (shift l (2 + csize ce)) body in
        comp_cond c true (csize cb + 2) ++ cb ++ [IJump (csize ce)] ++ ce
  | SFor pre c post body =>
      let cpre := match pre with OSnone => [] | OSsome s1 => comp_stmt LNone s1 end in
      let cpost := match post with OSnone => [] | OSsome s1 => comp_stmt LNone s1 end in
      match c with
      | OEsome ce =>
          (* bottom test: condition(c,false), jumpBackward to the loop start *)
          let body_sz := csize (comp_stmts (LLoop 0 0) body) in
          let bot0 := comp_cond ce false 0 in
          let tail := csize cpost + csize bot0 in
          let cb := comp_stmts (LLoop tail 0) body in
          let bot := comp_cond ce false (- (body_sz + tail)) in
          cpre ++ comp_cond ce true (body_sz + tail) ++ cb ++ cpost ++ bot
      | OEnone =>
          let body_sz := csize (comp_stmts (LLoop 0 0) body) in
          let tail := csize cpost + 2 in
          let cb := comp_stmts (LLoop tail 0) body in
          cpre ++ cb ++ cpost ++ [IJump (- (body_sz + tail))]
      end
  | SForIn vsc vi asc ai body =>
      let cb := comp_stmts (LForIn 0) body in
      IForIn vsc vi asc ai (csize cb) :: cb
  | SWhile c body =>
      let body_sz := csize (comp_stmts (LLoop 0 0) body) in
      let bot0 := comp_cond c false 0 in
      let tail := csize bot0 in
      let cb := comp_stmts (LLoop tail 0) body in
      comp_cond c true (body_sz + tail) ++ cb ++ comp_cond c false (- (body_sz + tail))
  | SDoWhile body c =>
      let body_sz := csize (comp_stmts (LLoop 0 0) body) in
      let bot0 := comp_cond c false 0 in
      let tail := csize bot0 in
      let cb := comp_stmts (LLoop tail 0) body in
      cb ++ comp_cond c false (- (body_sz + tail))
  | SBreak =>
      match l with
      | LLoop bd _ => [IJump bd]
      | LForIn _ => [IBreakForIn]
      | LNone => [IBreakForIn]           (* rejected by the parser; excluded by wf *)
      end
  | SContinue =>
      match l with
      | LLoop _ cd => [IJump cd]
      | LForIn cd => [IJump cd]
      | LNone => [IJump 0]               (* rejected by the parser; excluded by wf *)
      end
  | SNext => [INext]
  | SNextfile => [INextfile]
  | SExit oe => match oe with OEsome e => comp_expr e ++ [IExitStatus] | OEnone => [IExit] end
  | SReturn oe => match oe with OEsome e => comp_expr e ++ [IReturn] | OEnone => [IReturnNull] end
  | SDelete sc i idx => comp_index idx ++ [IDelete sc i]
  | SDeleteAll sc i => [IDeleteAll sc i]
  | SBlock body => comp_stmts l body
  end

with comp_stmts (l : lctx) (ss : stmts) : code :=
  match ss with
  | Snil => []
  | Scons s ss' =>
      let rest_sz := csize (comp_stmts l ss') in
      comp_stmt (shift l rest_sz) s ++ comp_stmts l ss'
  end.

(* ---- program units ---------------------------------------------------------- *)

Definition comp_block (ss : stmts) : code := comp_stmts LNone ss.

Record cfunc : Type := { cf_nscalars : Z; cf_narrays : Z; cf_body : code }.

Definition comp_func (f : func) : cfunc :=
  {| cf_nscalars := f_nscalars f; cf_narrays := f_narrays f; cf_body := comp_block (f_body f) |}.

Record cprogram : Type := {
  c_begin : code;
  c_actions : list (list code * option code);
  c_end : code;
  c_funcs : list cfunc
}.

(* compiler.go Compile: an action body / END block that compiles to no code ('{}', '{ { } }')
   gets a Nop, so that the interpreter does not take it for "no action" / "no END" *)
Definition nop_if_empty (c : code) : code := match c with [] => [INop] | _ => c end.

Definition comp_action_body (b : option stmts) : option code :=
  match b with
  | None => None
  | Some ss => Some (nop_if_empty (comp_block ss))
  end.

Definition comp_end_block (ss : stmts) : code := nop_if_empty (comp_block ss).

Definition comp_program (p : program) : cprogram :=
  {| c_begin := flat_map comp_block (p_begin p);
     c_actions := map (fun a => (map comp_expr (fst a), comp_action_body (snd a))) (p_actions p);
     c_end := flat_map comp_end_block (p_end p);
     c_funcs := map comp_func (p_funcs p) |}.
