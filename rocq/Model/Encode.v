(* C01: flattening of the instruction list into the []Opcode words the Go compiler
   emits, with the constant tables (numbers, strings, regexes: index = first occurrence
   in emission order).  Opcode numbers are looked up BY NAME in the tables the
   translator regenerates from internal/compiler/opcodes.go and lexer/token.go. *)
From Coq Require Import String.
From Verif Require Import Lib.Base Lib.Dyadic Model.Ast Model.Instr Model.Compiler Gen.Opcodes.

Fixpoint name_index (names : list string) (n : string) (k : Z) : option Z :=
  match names with
  | [] => None
  | x :: t => if String.eqb x n then Some k else name_index t n (k + 1)
  end.

Definition opn (n : string) : Z := match name_index opcode_names n 0 with Some k => k | None => -1 end.
Definition augn (n : string) : Z := match name_index augop_names n 0 with Some k => k | None => -1 end.
Definition bin (n : string) : Z := match name_index builtinop_names n 0 with Some k => k | None => -1 end.
Definition tokn (n : string) : Z := match name_index token_names n 0 with Some k => k | None => -1 end.

Open Scope string_scope.
Open Scope Z_scope.

Definition scope_num (sc : scope) : Z := match sc with SLocal => 1 | SSpecial => 2 | SGlobal => 3 end.

Definition arith_aug (a : arith) : Z :=
  augn (match a with AAdd => "AugOpAdd" | ASub => "AugOpSub" | AMul => "AugOpMul"
                | ADiv => "AugOpDiv" | APow => "AugOpPow" | AMod => "AugOpMod" end).
Definition arith_op (a : arith) : Z :=
  opn (match a with AAdd => "Add" | ASub => "Subtract" | AMul => "Multiply"
               | ADiv => "Divide" | APow => "Power" | AMod => "Modulo" end).
Definition cmp_op (c : cmp) : Z :=
  opn (match c with CEq => "Equals" | CNe => "NotEquals" | CLt => "Less" | CLe => "LessOrEqual"
               | CGt => "Greater" | CGe => "GreaterOrEqual" end).
Definition cmp_jump (c : cmp) : Z :=
  opn (match c with CEq => "JumpEquals" | CNe => "JumpNotEquals" | CLt => "JumpLess" | CLe => "JumpLessOrEqual"
               | CGt => "JumpGreater" | CGe => "JumpGreaterOrEqual" end).
Definition redir_tok (r : redir) : Z :=
  tokn (match r with RNone => "ILLEGAL" | RPipe => "PIPE" | RLess => "LESS" | RGreater => "GREATER" | RAppend => "APPEND" end).
Definition builtin_num (b : builtin) : Z :=
  bin (match b with
       | BAtan2 => "BuiltinAtan2" | BClose => "BuiltinClose" | BCos => "BuiltinCos" | BExp => "BuiltinExp"
       | BFflush => "BuiltinFflush" | BFflushAll => "BuiltinFflushAll" | BGsub => "BuiltinGsub"
       | BIndex => "BuiltinIndex" | BInt => "BuiltinInt" | BLength => "BuiltinLength"
       | BLengthArg => "BuiltinLengthArg" | BLog => "BuiltinLog" | BMatchFn => "BuiltinMatch"
       | BRand => "BuiltinRand" | BSin => "BuiltinSin" | BSqrt => "BuiltinSqrt" | BSrand => "BuiltinSrand"
       | BSrandSeed => "BuiltinSrandSeed" | BSub => "BuiltinSub" | BSubstr => "BuiltinSubstr"
       | BSubstrLength => "BuiltinSubstrLength" | BSystem => "BuiltinSystem"
       | BTolower => "BuiltinTolower" | BToupper => "BuiltinToupper" end).

(* constant tables *)
Record pools : Type := { pl_nums : list Z; pl_strs : list bytes; pl_regexes : list bytes }.
Definition empty_pools : pools := {| pl_nums := []; pl_strs := []; pl_regexes := [] |}.

(* Go map[float64]int key equality: +0 and -0 are the same key *)
Definition num_key_eqb (a b : Z) : bool :=
  (a =? b) || (((a =? 0) || (a =? two63)) && ((b =? 0) || (b =? two63))).

Fixpoint find_idx {A} (eqb : A -> A -> bool) (l : list A) (x : A) (k : Z) : option Z :=
  match l with
  | [] => None
  | y :: t => if eqb y x then Some k else find_idx eqb t x (k + 1)
  end.

Definition num_index (p : pools) (b : Z) : Z * pools :=
  match find_idx num_key_eqb (pl_nums p) b 0 with
  | Some k => (k, p)
  | None => (zlen (pl_nums p), {| pl_nums := pl_nums p ++ [b]; pl_strs := pl_strs p; pl_regexes := pl_regexes p |})
  end.
Definition str_index (p : pools) (s : bytes) : Z * pools :=
  match find_idx bytes_eqb (pl_strs p) s 0 with
  | Some k => (k, p)
  | None => (zlen (pl_strs p), {| pl_nums := pl_nums p; pl_strs := pl_strs p ++ [s]; pl_regexes := pl_regexes p |})
  end.
Definition regex_index (p : pools) (s : bytes) : Z * pools :=
  match find_idx bytes_eqb (pl_regexes p) s 0 with
  | Some k => (k, p)
  | None => (zlen (pl_regexes p), {| pl_nums := pl_nums p; pl_strs := pl_strs p; pl_regexes := pl_regexes p ++ [s] |})
  end.

Definition sc_op (sc : scope) (g l s : string) : Z :=
  opn (match sc with SGlobal => g | SLocal => l | SSpecial => s end).

Definition enc_instr (p : pools) (i : instr) : list Z * pools :=
  match i with
  | INop => ([opn "Nop"], p)
  | INum b => let '(k, p') := num_index p b in ([opn "Num"; k], p')
  | IStr s => let '(k, p') := str_index p s in ([opn "Str"; k], p')
  | IDupe => ([opn "Dupe"], p) | IDrop => ([opn "Drop"], p) | ISwap => ([opn "Swap"], p) | IRote => ([opn "Rote"], p)
  | IField => ([opn "Field"], p)
  | IFieldInt n => ([opn "FieldInt"; n], p)
  | IFieldByName => ([opn "FieldByName"], p)
  | IFieldByNameStr s => let '(k, p') := str_index p s in ([opn "FieldByNameStr"; k], p')
  | IGlobal n => ([opn "Global"; n], p) | ILocal n => ([opn "Local"; n], p) | ISpecial n => ([opn "Special"; n], p)
  | IArray sc n => ([sc_op sc "ArrayGlobal" "ArrayLocal" "?"; n], p)
  | IIn sc n => ([sc_op sc "InGlobal" "InLocal" "InLocal"; n], p)
  | IAssignField => ([opn "AssignField"], p)
  | IAssignFieldSub => ([opn "AssignFieldSub"], p)
  | IAssignGlobal n => ([opn "AssignGlobal"; n], p)
  | IAssignLocal n => ([opn "AssignLocal"; n], p)
  | IAssignSpecial n => ([opn "AssignSpecial"; n], p)
  | IAssignArray sc n => ([sc_op sc "AssignArrayGlobal" "AssignArrayLocal" "?"; n], p)
  | IDelete sc n => ([opn "Delete"; scope_num sc; n], p)
  | IDeleteAll sc n => ([opn "DeleteAll"; scope_num sc; n], p)
  | IIncrField a => ([opn "IncrField"; a], p)
  | IIncrGlobal a n => ([opn "IncrGlobal"; a; n], p)
  | IIncrLocal a n => ([opn "IncrLocal"; a; n], p)
  | IIncrSpecial a n => ([opn "IncrSpecial"; a; n], p)
  | IIncrArray sc a n => ([sc_op sc "IncrArrayGlobal" "IncrArrayLocal" "IncrArrayLocal"; a; n], p)
  | IAugField op => ([opn "AugAssignField"; arith_aug op], p)
  | IAugGlobal op n => ([opn "AugAssignGlobal"; arith_aug op; n], p)
  | IAugLocal op n => ([opn "AugAssignLocal"; arith_aug op; n], p)
  | IAugSpecial op n => ([opn "AugAssignSpecial"; arith_aug op; n], p)
  | IAugArray sc op n => ([sc_op sc "AugAssignArrayGlobal" "AugAssignArrayLocal" "AugAssignArrayLocal"; arith_aug op; n], p)
  | IRegex r => let '(k, p') := regex_index p r in ([opn "Regex"; k], p')
  | IIndexMulti n => ([opn "IndexMulti"; n], p)
  | IConcatMulti n => ([opn "ConcatMulti"; n], p)
  | IArith a => ([arith_op a], p)
  | ICmp c => ([cmp_op c], p)
  | IConcat => ([opn "Concat"], p)
  | IMatch => ([opn "Match"], p)
  | INotMatch => ([opn "NotMatch"], p)
  | INot => ([opn "Not"], p)
  | IUnaryMinus => ([opn "UnaryMinus"], p)
  | IUnaryPlus => ([opn "UnaryPlus"], p)
  | IBoolean => ([opn "Boolean"], p)
  | IJump off => ([opn "Jump"; off], p)
  | IJumpFalse off => ([opn "JumpFalse"; off], p)
  | IJumpTrue off => ([opn "JumpTrue"; off], p)
  | IJumpCmp c off => ([cmp_jump c; off], p)
  | INext => ([opn "Next"], p) | INextfile => ([opn "Nextfile"], p)
  | IExit => ([opn "Exit"], p) | IExitStatus => ([opn "ExitStatus"], p)
  | IForIn vsc vi asc ai off => ([opn "ForIn"; scope_num vsc; vi; scope_num asc; ai; off], p)
  | IBreakForIn => ([opn "BreakForIn"], p)
  | ICallBuiltin b => ([opn "CallBuiltin"; builtin_num b], p)
  | ICallLengthArray sc n => ([opn "CallLengthArray"; scope_num sc; n], p)
  | ICallSplit sc n => ([opn "CallSplit"; scope_num sc; n], p)
  | ICallSplitSep sc n isre => ([opn "CallSplitSep"; scope_num sc; n; if isre then 1 else 0], p)
  | ICallSprintf n => ([opn "CallSprintf"; n], p)
  | ICallUser fi arrs =>
      (([opn "CallUser"; fi; zlen arrs] ++ flat_map (fun a => [scope_num (fst a); snd a]) arrs)%list, p)
  | ICallNative fi n => ([opn "CallNative"; fi; n], p)
  | IReturn => ([opn "Return"], p) | IReturnNull => ([opn "ReturnNull"], p)
  | INulls n => ([opn "Nulls"; n], p)
  | IPrint n r => ([opn "Print"; n; redir_tok r], p)
  | IPrintf n r => ([opn "Printf"; n; redir_tok r], p)
  | IGetline r => ([opn "Getline"; redir_tok r], p)
  | IGetlineField r => ([opn "GetlineField"; redir_tok r], p)
  | IGetlineVar sc r n => ([sc_op sc "GetlineGlobal" "GetlineLocal" "GetlineSpecial"; redir_tok r; n], p)
  | IGetlineArray r sc n => ([opn "GetlineArray"; redir_tok r; scope_num sc; n], p)
  end.

Fixpoint enc_code (p : pools) (c : code) : list Z * pools :=
  match c with
  | [] => ([], p)
  | i :: c' =>
      let '(w, p1) := enc_instr p i in
      let '(ws, p2) := enc_code p1 c' in
      ((w ++ ws)%list, p2)
  end.

Fixpoint enc_codes (p : pools) (cs : list code) : list (list Z) * pools :=
  match cs with
  | [] => ([], p)
  | c :: cs' =>
      let '(w, p1) := enc_code p c in
      let '(ws, p2) := enc_codes p1 cs' in
      (w :: ws, p2)
  end.

Record eprogram : Type := {
  e_funcs : list (Z * Z * list Z);                    (* nscalars, narrays, body *)
  e_begin : list Z;
  e_actions : list (list (list Z) * option (list Z));
  e_end : list Z;
  e_pools : pools
}.

Fixpoint enc_actions (p : pools) (acts : list (list code * option code))
  : list (list (list Z) * option (list Z)) * pools :=
  match acts with
  | [] => ([], p)
  | (pats, body) :: t =>
      let '(wp, p1) := enc_codes p pats in
      let '(wb, p2) := match body with
                       | None => (None, p1)
                       | Some b => let '(w, p') := enc_code p1 b in (Some w, p')
                       end in
      let '(wt, p3) := enc_actions p2 t in
      ((wp, wb) :: wt, p3)
  end.

(* compile order of compiler.go Compile: functions, BEGIN, pattern-actions, END *)
Definition encode_program (cp : cprogram) : eprogram :=
  let '(fb, p1) := enc_codes empty_pools (map cf_body (c_funcs cp)) in
  let fs := map (fun x => (cf_nscalars (fst x), cf_narrays (fst x), snd x)) (combine (c_funcs cp) fb) in
  let '(b, p2) := enc_code p1 (c_begin cp) in
  let '(acts, p3) := enc_actions p2 (c_actions cp) in
  let '(e, p4) := enc_code p3 (c_end cp) in
  {| e_funcs := fs; e_begin := b; e_actions := acts; e_end := e; e_pools := p4 |}.
