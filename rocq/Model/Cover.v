(* C18: model of internal/cover/cover.go (Annotate, annotateStmts, trackStatement, endPos,
   WriteProfile), internal/parseutil/filereader.go (AddFile, FileLine) and of the part of
   goawk.go / interp.go that decides what an annotated program does (program driver, "no
   action body = print $0").  Definitions only.

   Part 1 (executable, extracted): statement trees with positions, the annotation, the block
   table, the profile text.  The instrumentation never looks inside expressions, so the tree
   is polymorphic in an opaque payload type [E].

   Part 2 (abstract semantics, Section variables): a fuel-indexed big-step evaluator over the
   same trees.  Expressions, simple statements, input and output are abstract; an expression
   evaluation is a resumption that may call user functions (whose bodies contain counters).
   The state is (user-visible state, the __COVER array, ghost trace of "statement began"
   events).  The abstract primitives act on the user-visible state only: that is the
   hypothesis "__COVER does not occur in the program". *)
From Verif Require Import Lib.Base.

(* ------------------------------------------------------------------------------------ *)
(* Part 1: trees, annotation, block table, profile                                        *)
(* ------------------------------------------------------------------------------------ *)

(* lexer.Position *)
Record pos : Type := mkpos { pline : Z; pcol : Z }.
Definition pos0 : pos := mkpos 0 0.
Definition pos_eqb (a b : pos) : bool := (pline a =? pline b) && (pcol a =? pcol b).
(* lexicographic order on (line, column) *)
Definition pos_lt (a b : pos) : Prop := pline a < pline b \/ (pline a = pline b /\ pcol a < pcol b).
Definition pos_le (a b : pos) : Prop := pline a < pline b \/ (pline a = pline b /\ pcol a <= pcol b).

(* cover.Mode (ModeUnspecified never reaches Annotate: goawk.go turns it into ModeSet) *)
Inductive cmode : Type := MSet | MCount.

(* the ast.Stmt kinds that fall into the [default] case of annotateStmts *)
Inductive skind : Type :=
| KPrint | KPrintf | KExpr | KDelete | KBreak | KContinue | KNext | KNextfile | KExit | KReturn.

(* ast.Stmt with Start/End/BodyStart; [E] is the opaque payload (expressions, print
   arguments, for-headers ...).  [SCover m i] is the statement built by trackStatement:
   [__COVER[i]++] (count) or [__COVER[i] = 1] (set), an ExprStmt with zero positions. *)
Inductive cstmt (E : Type) : Type :=
| SSimple (k : skind) (e : E) (st en : pos)
| SIf (c : E) (st bs en : pos) (body els : list (cstmt E))
| SFor (pre c post : option E) (st bs en : pos) (body : list (cstmt E))
| SForIn (h : E) (st bs en : pos) (body : list (cstmt E))
| SWhile (c : E) (st bs en : pos) (body : list (cstmt E))
| SDoWhile (c : E) (st en : pos) (body : list (cstmt E))
| SBlock (st en : pos) (body : list (cstmt E))
| SCover (m : cmode) (i : Z).
Arguments SSimple {E}. Arguments SIf {E}. Arguments SFor {E}. Arguments SForIn {E}.
Arguments SWhile {E}. Arguments SDoWhile {E}. Arguments SBlock {E}. Arguments SCover {E}.

(* ast.Action: Stmts == nil ("pattern only", print $0) is [None]; a bare {} is [Some []] *)
Record action (E : Type) : Type := mkaction { a_pat : list E; a_body : option (list (cstmt E)) }.
Arguments mkaction {E}. Arguments a_pat {E}. Arguments a_body {E}.

(* ast.Program (function names and parameters are opaque: a call names a function by index) *)
Record program (E : Type) : Type := mkprogram {
  p_begin : list (list (cstmt E));
  p_actions : list (action E);
  p_end : list (list (cstmt E));
  p_funcs : list (list (cstmt E)) }.
Arguments mkprogram {E}. Arguments p_begin {E}. Arguments p_actions {E}.
Arguments p_end {E}. Arguments p_funcs {E}.

(* cover.trackedBlock; start and end are file-local lines after FileLine *)
Record block : Type := mkblock { b_path : bytes; b_start : pos; b_end : pos; b_num : Z }.

(* parseutil.file *)
Definition ftable : Type := list (bytes * Z).

Section Annotate.
Context {E : Type}.

(* Stmt.StartPos / Stmt.EndPos *)
Definition start_of (s : cstmt E) : pos :=
  match s with
  | SSimple _ _ st _ | SIf _ st _ _ _ _ | SFor _ _ _ st _ _ _ | SForIn _ st _ _ _
  | SWhile _ st _ _ _ | SDoWhile _ st _ _ | SBlock st _ _ => st
  | SCover _ _ => pos0
  end.
Definition end_of (s : cstmt E) : pos :=
  match s with
  | SSimple _ _ _ en | SIf _ _ _ en _ _ | SFor _ _ _ _ _ en _ | SForIn _ _ _ en _
  | SWhile _ _ _ en _ | SDoWhile _ _ en _ | SBlock _ en _ => en
  | SCover _ _ => pos0
  end.

(* cover.endPos *)
Definition end_pos (s : cstmt E) : pos :=
  match s with
  | SIf _ _ bs _ _ _ | SFor _ _ _ _ bs _ _ | SForIn _ _ bs _ _ | SWhile _ _ bs _ _ => bs
  | _ => end_of s
  end.

(* FileReader.FileLine: the loop over fr.files with the running startLine *)
Fixpoint file_line_from (files : ftable) (start line : Z) : bytes * Z :=
  match files with
  | [] => ([], 0)
  | (path, lines) :: rest =>
      if (start <=? line) && (line <? start + lines) then (path, line - start + 1)
      else file_line_from rest (start + lines) line
  end.
Definition file_line (files : ftable) (line : Z) : bytes * Z := file_line_from files 1 line.

(* last element of the non-empty list x :: l  (stmts[len(stmts)-1]) *)
Fixpoint last_ne {A} (x : A) (l : list A) : A :=
  match l with [] => x | y :: t => last_ne y t end.

Variable files : ftable.
Variable mode : cmode.

(* cover.trackStatement on the non-empty slice whose first element is [first], last element
   [last] and length [num]; returns the counter statement and the extended block table *)
Definition track (bl : list block) (first last : cstmt E) (num : Z) : cstmt E * list block :=
  let start1 := start_of first in
  let end2 := end_pos last in
  let '(path, start_line) := file_line files (pline start1) in
  let '(_, end_line) := file_line files (pline end2) in
  let bl' := bl ++ [mkblock path (mkpos start_line (pcol start1)) (mkpos end_line (pcol end2)) num] in
  (SCover mode (zlen bl'), bl').

(* the loop of annotateStmts.  [f] handles one statement: annotates its nested bodies
   (registering their blocks first) and says whether it ends the current block.
   [pend] = trackedBlockStmts, [res] = res. *)
Section Loop.
Variable f : cstmt E -> list block -> cstmt E * list block * bool.
Fixpoint ann_loop (ss : list (cstmt E)) (bl : list block) (pend res : list (cstmt E))
  : list (cstmt E) * list block :=
  match ss with
  | [] =>
      match pend with
      | [] => (res, bl)                                    (* len(trackedBlockStmts) == 0 *)
      | p :: ps => let '(ctr, bl') := track bl p (last_ne p ps) (zlen pend) in
                   (res ++ ctr :: pend, bl')
      end
  | s :: t =>
      let '(s', bl1, ends) := f s bl in
      let pend' := pend ++ [s'] in
      if ends then
        let first := match pend with [] => s' | p :: _ => p end in
        let '(ctr, bl2) := track bl1 first s' (zlen pend') in
        ann_loop t bl2 [] (res ++ ctr :: pend')
      else ann_loop t bl1 pend' res
  end.
End Loop.

(* the type switch of annotateStmts *)
Fixpoint ann_stmt (s : cstmt E) (bl : list block) : cstmt E * list block * bool :=
  match s with
  | SIf c st bs en body els =>
      let '(body', bl1) := ann_loop ann_stmt body bl [] [] in
      let '(els', bl2) := ann_loop ann_stmt els bl1 [] [] in
      (SIf c st bs en body' els', bl2, true)
  | SFor pre c post st bs en body =>
      let '(body', bl1) := ann_loop ann_stmt body bl [] [] in (SFor pre c post st bs en body', bl1, true)
  | SForIn h st bs en body =>
      let '(body', bl1) := ann_loop ann_stmt body bl [] [] in (SForIn h st bs en body', bl1, true)
  | SWhile c st bs en body =>
      let '(body', bl1) := ann_loop ann_stmt body bl [] [] in (SWhile c st bs en body', bl1, true)
  | SDoWhile c st en body =>
      let '(body', bl1) := ann_loop ann_stmt body bl [] [] in (SDoWhile c st en body', bl1, true)
  | SBlock st en body =>
      let '(body', bl1) := ann_loop ann_stmt body bl [] [] in (SBlock st en body', bl1, true)
  | _ => (s, bl, false)
  end.

(* cover.annotateStmts.  For the empty list the loop below returns ([], bl) without touching
   the block table, which is the early return "if len(stmts) == 0 { return stmts }"; whether
   that empty list is nil or not only matters for action bodies, see [ann_body]. *)
Definition ann_stmts (ss : list (cstmt E)) (bl : list block) : list (cstmt E) * list block :=
  ann_loop ann_stmt ss bl [] [].

(* annotateStmtsList / annotateFunctions: one annotateStmts per element, in order *)
Fixpoint ann_lists (ls : list (list (cstmt E))) (bl : list block) : list (list (cstmt E)) * list block :=
  match ls with
  | [] => ([], bl)
  | l :: t => let '(l', bl1) := ann_stmts l bl in
              let '(t', bl2) := ann_lists t bl1 in (l' :: t', bl2)
  end.

(* annotateActions.  annotateStmts returns an empty list unchanged ("if len(stmts) == 0
   { return stmts }": nil stays nil, a bare {} stays a non-nil empty list); a non-empty list
   comes back non-empty (the first thing appended to res is a counter). *)
Definition ann_body (b : option (list (cstmt E))) (bl : list block) : option (list (cstmt E)) * list block :=
  match b with
  | None => (None, bl)
  | Some ss => let '(r, bl1) := ann_stmts ss bl in (Some r, bl1)
  end.
Fixpoint ann_actions (acts : list (action E)) (bl : list block) : list (action E) * list block :=
  match acts with
  | [] => ([], bl)
  | a :: t => let '(b', bl1) := ann_body (a_body a) bl in
              let '(t', bl2) := ann_actions t bl1 in (mkaction (a_pat a) b' :: t', bl2)
  end.

(* Cover.Annotate, starting from an empty block table *)
Definition annotate (p : program E) : program E * list block :=
  let '(bg, bl1) := ann_lists (p_begin p) [] in
  let '(acts, bl2) := ann_actions (p_actions p) bl1 in
  let '(en, bl3) := ann_lists (p_end p) bl2 in
  let '(fns, bl4) := ann_lists (p_funcs p) bl3 in
  (mkprogram bg acts en fns, bl4).

End Annotate.

(* ---- what the compiler and the interpreter make of a body (compiler.go Compile) ----
   c.stmt(BlockStmt) is c.stmts(s.Body), so a body of (nested) empty blocks emits no opcode;
   [codeless_stmt] names that shape.  Compile adds a Nop whenever the compiled body of an action
   or of an END block is empty ("if len(c.code) == 0 { c.add(Nop) }"), be it a bare {} or
   { { } }: only a missing action body (Stmts == nil) has no code. *)
Section Codeless.
Context {E : Type}.
Fixpoint codeless_stmt (s : cstmt E) : bool :=
  match s with
  | SBlock _ _ body => forallb codeless_stmt body
  | _ => false
  end.
(* the interpreter prints $0 when len(action.Body) == 0: exactly when there is no action body *)
Definition action_prints (b : option (list (cstmt E))) : bool :=
  match b with
  | None => true
  | Some _ => false
  end.
(* every END block contributes at least one opcode to the END sequence; executeAll skips the
   input when there are no actions and len(End) == 0, i.e. when there is no END block *)
Definition end_is_empty (ls : list (list (cstmt E))) : bool :=
  match ls with [] => true | _ :: _ => false end.
End Codeless.

(* ---- specification vocabulary over annotated trees ---- *)
Section Tagged.
Context {E : Type}.
(* every statement of every statement list (nested bodies included, in source order), with
   its start position and the index of the counter statement that immediately precedes it
   in its list, if any *)
Section TagLoop.
Variable f : cstmt E -> list (option Z * pos).
Fixpoint tagged_list (prev : option Z) (l : list (cstmt E)) : list (option Z * pos) :=
  match l with
  | [] => []
  | SCover _ i :: t => tagged_list (Some i) t
  | s :: t => (prev, start_of s) :: f s ++ tagged_list None t
  end.
End TagLoop.
Fixpoint tagged_in (s : cstmt E) : list (option Z * pos) :=
  match s with
  | SIf _ _ _ _ body els => tagged_list tagged_in None body ++ tagged_list tagged_in None els
  | SFor _ _ _ _ _ _ body | SForIn _ _ _ _ body | SWhile _ _ _ _ body
  | SDoWhile _ _ _ body | SBlock _ _ body => tagged_list tagged_in None body
  | _ => []
  end.
Definition tagged (l : list (cstmt E)) : list (option Z * pos) := tagged_list tagged_in None l.
Definition tagged_body (b : option (list (cstmt E))) : list (option Z * pos) :=
  match b with None => [] | Some l => tagged l end.
Definition tagged_prog (p : program E) : list (option Z * pos) :=
  concat (map tagged (p_begin p)) ++ concat (map (fun a => tagged_body (a_body a)) (p_actions p))
  ++ concat (map tagged (p_end p)) ++ concat (map tagged (p_funcs p)).
(* the (counter index, start position of the statement it guards) pairs *)
Fixpoint marks_of (t : list (option Z * pos)) : list (Z * pos) :=
  match t with
  | [] => []
  | (Some i, p) :: r => (i, p) :: marks_of r
  | (None, _) :: r => marks_of r
  end.
End Tagged.

(* ---- the __COVER array and the ghost count ---- *)
(* __COVER as a map from the numeric index to the stored number; absent = never assigned *)
Definition cover_array : Type := Z -> option Z.
Definition cover_empty : cover_array := fun _ => None.
(* what WriteProfile reports for index i: a missing key reads as 0 *)
Definition cover_get (x : cover_array) (i : Z) : Z := match x i with Some v => v | None => 0 end.
(* the counter statement: __COVER[i]++ (an unset element counts from 0) / __COVER[i] = 1 *)
Definition cover_bump (m : cmode) (i : Z) (x : cover_array) : cover_array :=
  fun j => if j =? i then Some (match m with MCount => cover_get x i + 1 | MSet => 1 end) else x j.
(* number of "a statement starting at p began executing" events in a trace *)
Fixpoint began (p : pos) (tr : list pos) : Z :=
  match tr with
  | [] => 0
  | q :: t => (if pos_eqb q p then 1 else 0) + began p t
  end.

(* ---- FileReader.AddFile ---- *)
Fixpoint count_nl (s : bytes) : Z :=
  match s with [] => 0 | c :: t => (if c =? 10 then 1 else 0) + count_nl t end.
Definition ends_nl (s : bytes) : bool :=
  match rev s with c :: _ => c =? 10 | [] => false end.
(* state = (file table, concatenated source).  The newline test looks at the WHOLE buffer,
   the line count at the bytes added by this call (content plus the possible newline). *)
Definition add_file (st : ftable * bytes) (path content : bytes) : ftable * bytes :=
  let '(files, src) := st in
  let src1 := src ++ content in
  let src2 := if ends_nl src1 then src1 else src1 ++ [10] in
  let added := skipn (length src) src2 in
  (files ++ [(path, count_nl added)], src2).

(* ---- WriteProfile ---- *)
(* %d *)
Fixpoint dec_digits (fuel : nat) (n : Z) (acc : bytes) : bytes :=
  match fuel with
  | O => acc
  | S f => let acc' := (48 + n mod 10) :: acc in
           if n <? 10 then acc' else dec_digits f (n / 10) acc'
  end.
Definition dec_of_Z (n : Z) : bytes :=
  if n <? 0 then 45 :: dec_digits (S (Z.to_nat (Z.log2 (- n)))) (- n) []
  else dec_digits (S (Z.to_nat (Z.log2 n))) n [].

(* Mode.String *)
Definition mode_name (m : cmode) : bytes :=
  match m with MSet => [115; 101; 116] | MCount => [99; 111; 117; 110; 116] end.

(* dataInts[i]: a missing key of a Go map reads as the zero value *)
Fixpoint lookup_count (data : list (Z * Z)) (i : Z) : Z :=
  match data with
  | [] => 0
  | (k, v) :: t => if k =? i then v else lookup_count t i
  end.

(* one "%s:%d.%d,%d.%d %d %d\n" line; [abs] is toAbsolutePath (filepath.Abs, outside the model) *)
Definition profile_line (abs : bytes -> bytes) (b : block) (cnt : Z) : bytes :=
  abs (b_path b) ++ [58] ++ dec_of_Z (pline (b_start b)) ++ [46] ++ dec_of_Z (pcol (b_start b))
  ++ [44] ++ dec_of_Z (pline (b_end b)) ++ [46] ++ dec_of_Z (pcol (b_end b))
  ++ [32] ++ dec_of_Z (b_num b) ++ [32] ++ dec_of_Z cnt ++ [10].

Fixpoint profile_lines (abs : bytes -> bytes) (bl : list block) (data : list (Z * Z)) (i : Z) : bytes :=
  match bl with
  | [] => []
  | b :: t => profile_line abs b (lookup_count data (i + 1)) ++ profile_lines abs t data (i + 1)
  end.

(* the file content after WriteProfile, given whether the file existed and what it held *)
Definition write_profile (m : cmode) (append existed : bool) (old : bytes) (abs : bytes -> bytes)
  (bl : list block) (data : list (Z * Z)) : bytes :=
  let is_new := negb (existed && append) in
  (if is_new then [109; 111; 100; 101; 58; 32] ++ mode_name m ++ [10] else old)
  ++ profile_lines abs bl data 0.

(* ------------------------------------------------------------------------------------ *)
(* Part 2: abstract semantics                                                             *)
(* ------------------------------------------------------------------------------------ *)

Section Sem.
Variable E : Type.   (* opaque syntax: expressions, print/delete statements, for-headers *)
Variable U : Type.   (* user-visible interpreter state: every variable except __COVER, fields,
                        input position, output written so far, open streams, exit status *)
Variable K : Type.   (* an expression evaluation suspended at a user-function call *)
Variable V : Type.   (* values and error payloads *)
Variable I : Type.   (* for-in iterator *)
Variable X : Type.   (* the __COVER array *)

Inductive abort : Type := AExit | ANext | ANextfile | AErr (v : V).
Inductive outcome : Type :=
| ONormal | OBreak | OContinue | OReturn (v : V) | OAbort (a : abort)
| OFuel                (* fuel exhausted: excluded in the theorems' readings, never a normal result *)
| OStuck.              (* ill-formed tree: call of an undefined function, break outside a loop ... *)
Inductive vres : Type := VVal (v : V) | VOut (o : outcome).
Inductive estep : Type :=
| EDone (u : U) (r : V + abort)       (* finished: a value, or exit/next/error raised inside *)
| ECall (f : nat) (u : U) (k : K).    (* wants user function f run (frame already set up in u) *)

Variable ev_start : E -> U -> estep.         (* evaluate up to the first user-function call *)
Variable ev_resume : K -> U -> V -> estep.   (* continue with the callee's return value *)
Variable truthy : V -> bool.
Variable nil_v : V.                          (* value of a function that ends without return *)
Variable forin_init : E -> U -> I.
Variable forin_next : E -> I -> U -> option (I * U).   (* bind the next key, if any *)
Variable bump : cmode -> Z -> X -> X.        (* effect of the counter statement on __COVER *)

Record st : Type := mkst { s_u : U; s_x : X; s_tr : list pos }.

(* ghost: a statement of a statement list begins executing (counter statements have no
   source position and are not statements of the program) *)
Definition mark (s : cstmt E) (q : st) : st :=
  match s with
  | SCover _ _ => q
  | _ => mkst (s_u q) (s_x q) (start_of s :: s_tr q)
  end.

Variable funcs : list (list (cstmt E)).

Section Fuel.
(* the evaluator with less fuel *)
Variable exec_rec : cstmt E -> st -> st * outcome.

Fixpoint exec_list (l : list (cstmt E)) (q : st) : st * outcome :=
  match l with
  | [] => (q, ONormal)
  | s :: t => match exec_rec s (mark s q) with
              | (q', ONormal) => exec_list t q'
              | r => r
              end
  end.

Definition call_fn (f : nat) (q : st) : st * outcome :=
  match nth_error funcs f with
  | None => (q, OStuck)
  | Some body => exec_list body q
  end.

(* run an expression evaluation to completion; [m] bounds the number of calls it makes *)
Fixpoint drive (m : nat) (stp : estep) (x : X) (tr : list pos) : st * vres :=
  match stp with
  | EDone u (inl v) => (mkst u x tr, VVal v)
  | EDone u (inr a) => (mkst u x tr, VOut (OAbort a))
  | ECall f u k =>
      match m with
      | O => (mkst u x tr, VOut OFuel)
      | S m' =>
          match call_fn f (mkst u x tr) with
          | (q, ONormal) => drive m' (ev_resume k (s_u q) nil_v) (s_x q) (s_tr q)
          | (q, OReturn v) => drive m' (ev_resume k (s_u q) v) (s_x q) (s_tr q)
          | (q, OAbort a) => (q, VOut (OAbort a))
          | (q, OFuel) => (q, VOut OFuel)
          | (q, _) => (q, VOut OStuck)
          end
      end
  end.

Variable fuel : nat.
Definition eval (e : E) (q : st) : st * vres := drive fuel (ev_start e (s_u q)) (s_x q) (s_tr q).
Definition eval_opt (e : option E) (q : st) : st * vres :=
  match e with None => (q, VVal nil_v) | Some e => eval e q end.
(* a missing for-condition is true *)
Definition eval_cond (e : option E) (q : st) : st * (bool + outcome) :=
  match e with
  | None => (q, inl true)
  | Some e => match eval e q with
              | (q', VVal v) => (q', inl (truthy v))
              | (q', VOut o) => (q', inr o)
              end
  end.

Fixpoint while_loop (m : nat) (c : E) (body : list (cstmt E)) (q : st) : st * outcome :=
  match m with
  | O => (q, OFuel)
  | S m' =>
      match eval c q with
      | (q1, VOut o) => (q1, o)
      | (q1, VVal v) =>
          if truthy v then
            match exec_list body q1 with
            | (q2, ONormal) | (q2, OContinue) => while_loop m' c body q2
            | (q2, OBreak) => (q2, ONormal)
            | r => r
            end
          else (q1, ONormal)
      end
  end.

Fixpoint do_loop (m : nat) (c : E) (body : list (cstmt E)) (q : st) : st * outcome :=
  match m with
  | O => (q, OFuel)
  | S m' =>
      match exec_list body q with
      | (q1, ONormal) | (q1, OContinue) =>
          match eval c q1 with
          | (q2, VOut o) => (q2, o)
          | (q2, VVal v) => if truthy v then do_loop m' c body q2 else (q2, ONormal)
          end
      | (q1, OBreak) => (q1, ONormal)
      | r => r
      end
  end.

Fixpoint for_loop (m : nat) (c post : option E) (body : list (cstmt E)) (q : st) : st * outcome :=
  match m with
  | O => (q, OFuel)
  | S m' =>
      match eval_cond c q with
      | (q1, inl true) =>
          match exec_list body q1 with
          | (q2, ONormal) | (q2, OContinue) =>
              match eval_opt post q2 with
              | (q3, VVal _) => for_loop m' c post body q3
              | (q3, VOut o) => (q3, o)
              end
          | (q2, OBreak) => (q2, ONormal)
          | r => r
          end
      | (q1, inl false) => (q1, ONormal)
      | (q1, inr o) => (q1, o)
      end
  end.

Fixpoint forin_loop (m : nat) (h : E) (it : I) (body : list (cstmt E)) (q : st) : st * outcome :=
  match m with
  | O => (q, OFuel)
  | S m' =>
      match forin_next h it (s_u q) with
      | None => (q, ONormal)
      | Some (it', u') =>
          match exec_list body (mkst u' (s_x q) (s_tr q)) with
          | (q2, ONormal) | (q2, OContinue) => forin_loop m' h it' body q2
          | (q2, OBreak) => (q2, ONormal)
          | r => r
          end
      end
  end.

Definition exec_simple (k : skind) (e : E) (q : st) : st * outcome :=
  match k with
  | KBreak => (q, OBreak)
  | KContinue => (q, OContinue)
  | KNext => (q, OAbort ANext)
  | KNextfile => (q, OAbort ANextfile)
  | KExit => match eval e q with            (* the payload stores the status in the state *)
             | (q', VVal _) => (q', OAbort AExit)
             | (q', VOut o) => (q', o)
             end
  | KReturn => match eval e q with
               | (q', VVal v) => (q', OReturn v)
               | (q', VOut o) => (q', o)
               end
  | KPrint | KPrintf | KExpr | KDelete =>
      match eval e q with
      | (q', VVal _) => (q', ONormal)
      | (q', VOut o) => (q', o)
      end
  end.

Definition exec_body (s : cstmt E) (q : st) : st * outcome :=
  match s with
  | SSimple k e _ _ => exec_simple k e q
  | SIf c _ _ _ body els =>
      match eval c q with
      | (q1, VVal v) => if truthy v then exec_list body q1 else exec_list els q1
      | (q1, VOut o) => (q1, o)
      end
  | SFor pre c post _ _ _ body =>
      match eval_opt pre q with
      | (q1, VVal _) => for_loop fuel c post body q1
      | (q1, VOut o) => (q1, o)
      end
  | SForIn h _ _ _ body => forin_loop fuel h (forin_init h (s_u q)) body q
  | SWhile c _ _ _ body => while_loop fuel c body q
  | SDoWhile c _ _ body => do_loop fuel c body q
  | SBlock _ _ body => exec_list body q
  | SCover m i => (mkst (s_u q) (bump m i (s_x q)) (s_tr q), ONormal)
  end.
End Fuel.

(* fuel bounds the nesting depth of statements and calls, the number of iterations of each
   loop and the number of calls made by each expression; inserting counter statements into
   statement lists needs no extra fuel *)
Fixpoint exec (n : nat) (s : cstmt E) (q : st) : st * outcome :=
  match n with
  | O => (q, OFuel)
  | S n' => exec_body (exec n') n' s q
  end.

(* ---- program driver: interp.executeAll / execActions ---- *)
Inductive nrec : Type := NRec (u : U) | NEof (u : U) | NErr (u : U) (v : V).
Variable next_record : U -> nrec.              (* p.nextLine + setLine *)
Variable print_record : U -> U * option V.     (* printLine(p.output, p.line) *)
Variable skip_file : U -> U.                   (* nextfile: p.scanner = nil *)

Section Driver.
Variable n : nat.
Let xlist := exec_list (exec n).
Let xeval := eval (exec n) n.

(* BEGIN blocks (and END blocks) are compiled into one code sequence each *)
Fixpoint run_lists (ls : list (list (cstmt E))) (q : st) : st * outcome :=
  match ls with
  | [] => (q, ONormal)
  | l :: t => match xlist l q with
              | (q', ONormal) => run_lists t q'
              | r => r
              end
  end.

(* does action [a] match the current record?  [inr] = in-range flag of this action; the
   result is (state, matched or the outcome that stopped the evaluation, new in-range flag) *)
Definition eval_bool (p : E) (q : st) : st * (bool + outcome) :=
  match xeval p q with
  | (q1, VVal v) => (q1, inl (truthy v))
  | (q1, VOut o) => (q1, inr o)
  end.
Definition match_action (a : action E) (inr_ : bool) (q : st) : st * (bool + outcome) * bool :=
  match a_pat a with
  | [] => (q, inl true, inr_)
  | [p] => (eval_bool p q, inr_)
  | p1 :: p2 :: _ =>
      match (if inr_ then (q, inl true) else eval_bool p1 q) with
      | (q1, inl true) =>
          match eval_bool p2 q1 with
          | (q2, inl stop) => (q2, inl true, negb stop)
          | (q2, inr o) => (q2, inr o, true)
          end
      | (q1, inl false) => (q1, inl false, false)
      | (q1, inr o) => (q1, inr o, inr_)
      end
  end.

Definition print_q (q : st) : st * outcome :=
  match print_record (s_u q) with
  | (u', None) => (mkst u' (s_x q) (s_tr q), ONormal)
  | (u', Some v) => (mkst u' (s_x q) (s_tr q), OAbort (AErr v))
  end.

(* all actions on one record.  Result: the in-range flags and
   ONormal (go on with the next record) or what stopped the program *)
Fixpoint run_actions (acts : list (action E)) (inrs : list bool) (q : st) : st * list bool * outcome :=
  match acts with
  | [] => (q, [], ONormal)
  | a :: t =>
      let flag := match inrs with b :: _ => b | [] => false end in
      let inrs' := match inrs with _ :: r => r | [] => [] end in
      match match_action a flag q with
      | (q1, inl true, inr') =>
          let r := match a_body a with
                   | Some body =>
                       if action_prints (a_body a) then print_q q1   (* never: a present body has code *)
                       else xlist body q1
                   | None => print_q q1                              (* no action = print $0 *)
                   end in
          match r with
          | (q2, ONormal) => let '(q3, rest, o) := run_actions t inrs' q2 in (q3, inr' :: rest, o)
          | (q2, OAbort ANext) => (q2, inr' :: inrs', ONormal)
          | (q2, OAbort ANextfile) => (mkst (skip_file (s_u q2)) (s_x q2) (s_tr q2), inr' :: inrs', ONormal)
          | (q2, o) => (q2, inr' :: inrs', match o with ONormal => OStuck | _ => o end)
          end
      | (q1, inl false, inr') => let '(q3, rest, o) := run_actions t inrs' q1 in (q3, inr' :: rest, o)
      | (q1, inr o, inr') => (q1, inr' :: inrs', o)
      end
  end.

Fixpoint run_records (m : nat) (acts : list (action E)) (inrs : list bool) (q : st) : st * outcome :=
  match m with
  | O => (q, OFuel)
  | S m' =>
      match next_record (s_u q) with
      | NEof u => (mkst u (s_x q) (s_tr q), ONormal)
      | NErr u v => (mkst u (s_x q) (s_tr q), OAbort (AErr v))
      | NRec u =>
          match run_actions acts inrs (mkst u (s_x q) (s_tr q)) with
          | (q1, inrs', ONormal) => run_records m' acts inrs' q1
          | (q1, _, o) => (q1, o)
          end
      end
  end.

(* interp.executeAll: the final outcome is ONormal (status is in the state) or the error /
   fuel / stuck outcome that stopped the run *)
Definition run_main (p : program E) (q1 : st) : st * outcome :=
  match run_records n (p_actions p) (map (fun _ => false) (p_actions p)) q1 with
  | (q2, OAbort AExit) => (q2, ONormal)
  | r => r
  end.
Definition run_end (p : program E) (q2 : st) : st * outcome :=
  match run_lists (p_end p) q2 with
  | (q3, OAbort AExit) => (q3, ONormal)
  | r => r
  end.
Definition after_begin (p : program E) (q1 : st) (exited : bool) : st * outcome :=
  match p_actions p, end_is_empty (p_end p) with
  | [], true => (q1, ONormal)                        (* only BEGIN: input is not read *)
  | _, _ =>
      match (if exited then (q1, ONormal) else run_main p q1) with
      | (q2, ONormal) => run_end p q2
      | r => r
      end
  end.
Definition exec_prog (p : program E) (q : st) : st * outcome :=
  match run_lists (p_begin p) q with
  | (q1, ONormal) => after_begin p q1 false
  | (q1, OAbort AExit) => after_begin p q1 true
  | r => r
  end.
End Driver.

End Sem.
