(* C20 — model of the program printer of goawk: every String() method of internal/ast/ast.go
   (Program, Stmts, Action, Function, all Expr and Stmt nodes, parenthesize, printString, formatRegex),
   ast.formatString (strconv.Quote with AWK's eight-digit \u escape) and the "%.6g" / FormatInt rendering of NumExpr, and — for reading the text
   back — lexer.scan, lexer.scanRegex and lexer.parseString (lexer/lexer.go).

   The printers produce a list of PIECES: a token (of C04's token type) or one space.  The text Go
   prints is [render] of the piece list; the token list the text is claimed to lex to is [toks].
   Each String() method is mirrored by one equation with the same concatenation structure (where Go
   writes  a + " " + op + " " + b  the model writes  a ++ [PSp; PT op; PSp] ++ b).
   Precedence numbers and the comparison of parenthesize come from Gen/Prec.v (regenerated from
   ast.go on every check), strconv.IsPrint from the table in the same file.
   Definitions only. *)
From Verif Require Import Lib.Base Lib.Utf8 Lib.Dyadic Gen.Prec Model.ExprAst Model.ExprParser.

(* ====================================================================================
   1. trees: C04's expr (NumExpr carries the text NumExpr.String() produces: [fmt_num] below),
      plus statements and programs
   ==================================================================================== *)

Inductive stmt :=
| SPrint (is_printf : bool) (args : list expr) (rd : redir) (dest : option expr)
| SExpr (e : expr)
| SIf (c : expr) (body els : list stmt)
| SFor (pre : option stmt) (c : option expr) (post : option stmt) (body : list stmt)
| SForIn (v a : bytes) (body : list stmt)
| SWhile (c : expr) (body : list stmt)
| SDo (body : list stmt) (c : expr)
| SBreak | SContinue | SNext | SNextfile
| SExit (status : option expr)
| SDelete (a : bytes) (idx : list expr)
| SReturn (v : option expr)
| SBlock (body : list stmt).

Record action := { a_pattern : list expr; a_body : option (list stmt) }.
Record func := { f_name : bytes; f_params : list bytes; f_body : list stmt }.
Record program := { p_begin : list (list stmt); p_actions : list action; p_end : list (list stmt); p_funcs : list func }.

(* ====================================================================================
   2. pieces
   ==================================================================================== *)

Inductive piece := PT (t : tok) | PSp.

Fixpoint toks (ps : list piece) : list tok :=
  match ps with
  | [] => []
  | PT t :: r => t :: toks r
  | PSp :: r => toks r
  end.

(* lexer.Token numbers of the keywords that C04's token type does not name (lexer/token.go) *)
Definition kBEGIN : tok := TOther 44.
Definition kBREAK : tok := TOther 45.
Definition kCONTINUE : tok := TOther 46.
Definition kDELETE : tok := TOther 47.
Definition kDO : tok := TOther 48.
Definition kELSE : tok := TOther 49.
Definition kEND : tok := TOther 50.
Definition kEXIT : tok := TOther 51.
Definition kFOR : tok := TOther 52.
Definition kFUNCTION : tok := TOther 53.
Definition kIF : tok := TOther 55.
Definition kNEXT : tok := TOther 57.
Definition kNEXTFILE : tok := TOther 58.
Definition kRETURN : tok := TOther 61.
Definition kWHILE : tok := TOther 62.

Definition un_tok (op : unop) : tok := match op with UNot => TNot | UPlus => TAdd | UMinus => TSub end.
Definition inc_tk (op : incop) : tok := match op with IIncr => TIncr | IDecr => TDecr end.
Definition bin_tok (op : binop) : list tok :=
  match op with
  | BAdd => [TAdd] | BSub => [TSub] | BMul => [TMul] | BDiv => [TDiv] | BMod => [TMod] | BPow => [TPow]
  | BEq => [TEquals] | BNe => [TNotEquals] | BLt => [TLess] | BLe => [TLte] | BGt => [TGreater] | BGe => [TGte]
  | BMatch => [TMatch] | BNotMatch => [TNotMatch] | BAnd => [TAnd] | BOr => [TOr] | BConcat => []
  end.
(* AugAssignExpr: e.Op.String() + "=" ; the parser only builds + - * / % ^ *)
Definition aug_tk (op : binop) : tok :=
  match op with
  | BAdd => TAddAssign | BSub => TSubAssign | BMul => TMulAssign | BDiv => TDivAssign | BMod => TModAssign
  | BPow => TPowAssign | _ => TAssign
  end.
Definition redir_tok (rd : redir) : tok :=
  match rd with RGreater => TGreater | RAppend => TAppend | RPipe => TPipe | RNone => TOther 0 end.

(* ====================================================================================
   3. precedence() and parenthesize
   ==================================================================================== *)

Definition binop_prec (op : binop) : Z :=
  match op with
  | BAnd => prec_Binary_AND | BOr => prec_Binary_OR | BConcat => prec_Binary_CONCAT
  | BAdd => prec_Binary_ADD | BSub => prec_Binary_SUB
  | BMul => prec_Binary_MUL | BDiv => prec_Binary_DIV | BMod => prec_Binary_MOD
  | BEq => prec_Binary_EQUALS | BLt => prec_Binary_LESS | BLe => prec_Binary_LTE | BGt => prec_Binary_GREATER
  | BGe => prec_Binary_GTE | BNe => prec_Binary_NOT_EQUALS
  | BMatch => prec_Binary_MATCH | BNotMatch => prec_Binary_NOT_MATCH
  | BPow => prec_Binary_POW
  end.

Definition gprec (e : expr) : Z :=
  match e with
  | ENum _ => prec_NumExpr
  | EStr _ | EStrRegex _ => prec_StrExpr
  | ERegex _ => prec_RegExpr
  | EField _ => prec_FieldExpr
  | ENamedField _ => prec_NamedFieldExpr
  | EVar _ => prec_VarExpr
  | EIndex _ _ => prec_IndexExpr
  | EIn _ _ => prec_InExpr
  | EUnary _ _ => prec_UnaryExpr
  | EBinary op _ _ => binop_prec op
  | ECond _ _ _ => prec_CondExpr
  | EAssign _ _ => prec_AssignExpr
  | EAugAssign _ _ _ => prec_AugAssignExpr
  | EIncr _ pre _ => if pre then prec_IncrExpr_pre else prec_IncrExpr_post
  | ECall _ _ => prec_CallExpr
  | EUserCall _ _ => prec_UserCallExpr
  | EMulti _ => prec_MultiExpr
  | EGetline _ _ _ => prec_GetlineExpr
  | EGroup _ => prec_GroupingExpr
  end.

(* does parenthesize(c, parent) add parentheses *)
Definition needs_paren (c parent : expr) : bool := paren_cmp (gprec c) (gprec parent).

Definition lpar : piece := PT (TLParen true).
Definition rpar : piece := PT TRParen.

(* strings.Join(parts, ", ") *)
Definition pjoin (f : expr -> list piece) : list expr -> list piece :=
  fix go (es : list expr) : list piece :=
    match es with
    | [] => []
    | x :: r => match r with [] => f x | _ => f x ++ PT TComma :: PSp :: go r end
    end.

(* ====================================================================================
   6. formatString, formatRegex, token spellings, render (placed before Expr.String(): UnaryExpr.String() looks at the operand's text)
   ==================================================================================== *)

Definition hexdig (n : Z) : Z := if n <? 10 then 48 + n else 87 + n.      (* lowerhex[n] *)

Fixpoint in_ranges (rs : list (Z * Z)) (r : Z) : bool :=
  match rs with
  | [] => false
  | (lo, hi) :: t => if r <? lo then false else if r <=? hi then true else in_ranges t r
  end.

(* strconv.IsPrint (the table is sorted, so the search can stop early) *)
Definition is_print (r : Z) : bool := in_ranges go_isprint_ranges r.

Definition valid_rune (r : Z) : bool :=
  ((0 <=? r) && (r <? 55296)) || ((57343 <? r) && (r <=? 1114111)).

(* n hexadecimal digits of r, most significant first *)
Fixpoint hexn (n : nat) (r : Z) : bytes :=
  match n with
  | O => []
  | S k => hexn k (r / 16) ++ [hexdig (r mod 16)]
  end.

(* one rune of ast.formatString (strconv.Quote except for the last case) *)
Definition escaped_rune (r : Z) : bytes :=
  if (r =? 34) || (r =? 92) then [92; r]
  else if is_print r then encode_rune r
  else if r =? 7 then [92; 97]
  else if r =? 8 then [92; 98]
  else if r =? 12 then [92; 102]
  else if r =? 10 then [92; 110]
  else if r =? 13 then [92; 114]
  else if r =? 9 then [92; 116]
  else if r =? 11 then [92; 118]
  else if (r <? 32) || (r =? 127) then 92 :: 120 :: hexn 2 r
  else 92 :: 117 :: hexn 8 r.          (* \u%08x: AWK's \u takes up to eight hex digits *)

(* the loop of ast.formatString *)
Fixpoint quote_body (fuel : nat) (s : bytes) : bytes :=
  match fuel with
  | O => []
  | S k =>
    match s with
    | [] => []
    | b0 :: _ =>
      let '(r, w) := if b0 <? 128 then (b0, 1) else decode_rune s in
      if (w =? 1) && (r =? rune_error)
      then 92 :: 120 :: hexn 2 b0 ++ quote_body k (zdrop 1 s)
      else escaped_rune r ++ quote_body k (zdrop w s)
    end
  end.

Definition quote (s : bytes) : bytes := 34 :: quote_body (length s) s ++ [34].

(* formatRegex: "/" + strings.ReplaceAll(r, "/", `\/`) + "/" *)
Fixpoint regex_escape (s : bytes) : bytes :=
  match s with
  | [] => []
  | b :: r => if b =? 47 then 92 :: 47 :: regex_escape r else b :: regex_escape r
  end.
Definition format_regex (s : bytes) : bytes := 47 :: regex_escape s ++ [47].

(* ASCII text of a Coq string literal is not used in Model files (extraction): byte lists *)
Definition bfn_name (f : bfn) : bytes :=
  match f with
  | FAtan2 => [97;116;97;110;50] | FClose => [99;108;111;115;101] | FCos => [99;111;115] | FExp => [101;120;112]
  | FFflush => [102;102;108;117;115;104] | FGsub => [103;115;117;98] | FIndex => [105;110;100;101;120]
  | FInt => [105;110;116] | FLength => [108;101;110;103;116;104] | FLog => [108;111;103]
  | FMatch => [109;97;116;99;104] | FRand => [114;97;110;100] | FSin => [115;105;110]
  | FSplit => [115;112;108;105;116] | FSprintf => [115;112;114;105;110;116;102] | FSqrt => [115;113;114;116]
  | FSrand => [115;114;97;110;100] | FSub => [115;117;98] | FSubstr => [115;117;98;115;116;114]
  | FSystem => [115;121;115;116;101;109] | FTolower => [116;111;108;111;119;101;114]
  | FToupper => [116;111;117;112;112;101;114]
  end.

(* lexer.Token.String() for the keyword / pseudo tokens, by token number *)
Definition other_name (k : Z) : bytes :=
  if k =? 44 then [66;69;71;73;78]                          (* BEGIN *)
  else if k =? 45 then [98;114;101;97;107]                  (* break *)
  else if k =? 46 then [99;111;110;116;105;110;117;101]     (* continue *)
  else if k =? 47 then [100;101;108;101;116;101]            (* delete *)
  else if k =? 48 then [100;111]                            (* do *)
  else if k =? 49 then [101;108;115;101]                    (* else *)
  else if k =? 50 then [69;78;68]                           (* END *)
  else if k =? 51 then [101;120;105;116]                    (* exit *)
  else if k =? 52 then [102;111;114]                        (* for *)
  else if k =? 53 then [102;117;110;99;116;105;111;110]     (* function *)
  else if k =? 55 then [105;102]                            (* if *)
  else if k =? 57 then [110;101;120;116]                    (* next *)
  else if k =? 58 then [110;101;120;116;102;105;108;101]    (* nextfile *)
  else if k =? 61 then [114;101;116;117;114;110]            (* return *)
  else if k =? 62 then [119;104;105;108;101]                (* while *)
  else [60;105;108;108;101;103;97;108;62].                  (* <illegal> *)

Definition tok_bytes (t : tok) : bytes :=
  match t with
  | TNewline => [10]
  | TAdd => [43] | TAddAssign => [43;61] | TAnd => [38;38] | TAppend => [62;62] | TAssign => [61] | TAt => [64]
  | TColon => [58] | TComma => [44] | TDecr => [45;45] | TDiv => [47] | TDivAssign => [47;61] | TDollar => [36]
  | TEquals => [61;61] | TGte => [62;61] | TGreater => [62] | TIncr => [43;43] | TLBrace => [123]
  | TLBracket => [91] | TLess => [60] | TLParen _ => [40] | TLte => [60;61] | TMatch => [126] | TMod => [37]
  | TModAssign => [37;61] | TMul => [42] | TMulAssign => [42;61] | TNotMatch => [33;126] | TNot => [33]
  | TNotEquals => [33;61] | TOr => [124;124] | TPipe => [124] | TPow => [94] | TPowAssign => [94;61]
  | TQuestion => [63] | TRBrace => [125] | TRBracket => [93] | TRParen => [41] | TSemicolon => [59]
  | TSub => [45] | TSubAssign => [45;61]
  | TGetline => [103;101;116;108;105;110;101] | TIn => [105;110]
  | TPrint => [112;114;105;110;116] | TPrintf => [112;114;105;110;116;102]
  | TFunc f => bfn_name f
  | TName s => s
  | TNumber s => s
  | TString s => quote s
  | TRegex s => format_regex s
  | TOther k => other_name k
  end.

Definition piece_bytes (p : piece) : bytes := match p with PT t => tok_bytes t | PSp => [32] end.
Definition render (ps : list piece) : bytes := flat_map piece_bytes ps.


(* ====================================================================================
   4. Expr.String()
   ==================================================================================== *)

(* UnaryExpr.String(): the operator is + or - and the operand's text begins with the same character *)
Definition ch1 (bs : bytes) : Z := match bs with b :: _ => b | [] => 0 end.
Definition sign_clash (op : unop) (first : Z) : bool :=
  match op with UMinus => first =? 45 | UPlus => first =? 43 | UNot => false end.

Fixpoint pe (e : expr) : list piece :=
  let paren (c : expr) : list piece := if needs_paren c e then lpar :: pe c ++ [rpar] else pe c in
  match e with
  | ENum s => [PT (TNumber s)]
  | EStr s => [PT (TString s)]
  | EStrRegex s => [PT (TRegex s)]
  | ERegex s => [PT (TRegex s)]
  | EField i => PT TDollar :: paren i
  | ENamedField i => PT TAt :: paren i
  | EVar s => [PT (TName s)]
  | EIndex a idx => PT (TName a) :: PT TLBracket :: pjoin pe idx ++ [PT TRBracket]
  | EIn [x] a => paren x ++ [PSp; PT TIn; PSp; PT (TName a)]
  | EIn idx a => lpar :: pjoin pe idx ++ [rpar; PSp; PT TIn; PSp; PT (TName a)]
  | EUnary op v =>
      (* op + " " + value when op is + or - and strings.HasPrefix(value, op), else op + value *)
      PT (un_tok op)
      :: (if sign_clash op (ch1 (render (paren v))) then [PSp] else []) ++ paren v
  | EBinary op l r =>
      paren l ++ (match op with BConcat => [PSp] | _ => PSp :: map PT (bin_tok op) ++ [PSp] end) ++ paren r
  | ECond c t f => paren c ++ [PSp; PT TQuestion; PSp] ++ paren t ++ [PSp; PT TColon; PSp] ++ paren f
  | EAssign l r => paren l ++ [PSp; PT TAssign; PSp] ++ paren r
  | EAugAssign op l r => paren l ++ [PSp; PT (aug_tk op); PSp] ++ paren r
  | EIncr op true x => PT (inc_tk op) :: paren x
  | EIncr op false x => paren x ++ [PT (inc_tk op)]
  | ECall f args => PT (TFunc f) :: PT (TLParen false) :: pjoin pe args ++ [rpar]
  | EUserCall n args => PT (TName n) :: PT (TLParen false) :: pjoin pe args ++ [rpar]
  | EMulti es => lpar :: pjoin pe es ++ [rpar]
  | EGetline c t f =>
      (match c with Some x => paren x ++ [PSp; PT TPipe] | None => [] end)
      ++ PT TGetline
      :: (match t with Some x => PSp :: pe x | None => [] end)
      ++ (match f with Some y => PSp :: PT TLess :: paren y | None => [] end)
  | EGroup x => lpar :: pe x ++ [rpar]
  end.

(* ====================================================================================
   5. Stmt.String(), Stmts.String(), Action, Function, Program
   ==================================================================================== *)

(* strings.Split(s, "\n") then "    " + line + "\n" for every line: as the text is the rendering of
   a piece list, a newline occurs as the NEWLINE piece or inside the text of a literal token *)
Fixpoint indent_bytes (s : bytes) : bytes :=
  match s with
  | [] => []
  | b :: r => if b =? 10 then 10 :: 32 :: 32 :: 32 :: 32 :: indent_bytes r else b :: indent_bytes r
  end.

Definition sp4 : list piece := [PSp; PSp; PSp; PSp].

Definition indent_piece (p : piece) : list piece :=
  match p with
  | PT TNewline => PT TNewline :: sp4
  | PT (TRegex s) => [PT (TRegex (indent_bytes s))]
  | PT (TName s) => [PT (TName (indent_bytes s))]
  | PT (TNumber s) => [PT (TNumber (indent_bytes s))]
  | _ => [p]
  end.

(* one statement's text inside Stmts.String() *)
Definition indent_stmt (ps : list piece) : list piece :=
  sp4 ++ flat_map indent_piece ps ++ [PT TNewline].

Definition popt (o : option expr) : list piece :=
  match o with Some x => PSp :: pe x | None => [] end.

(* printString *)
Definition print_pieces (is_printf : bool) (args : list expr) (rd : redir) (dest : option expr) : list piece :=
  PT (if is_printf then TPrintf else TPrint) :: PSp :: pjoin pe args
  ++ (match dest with Some d => PSp :: PT (redir_tok rd) :: pe d | None => [] end).

Definition open_brace : list piece := [PT TLBrace; PT TNewline].

Fixpoint pst (s : stmt) : list piece :=
  let pss : list stmt -> list piece :=
    fix go (ss : list stmt) : list piece :=
      match ss with [] => [] | x :: r => indent_stmt (pst x) ++ go r end in
  let ost (o : option stmt) : list piece := match o with Some x => pst x | None => [] end in
  match s with
  | SPrint pf args rd dest => print_pieces pf args rd dest
  | SExpr e => pe e
  | SIf c body els =>
      [PT kIF; PSp; lpar] ++ pe c ++ [rpar; PSp] ++ open_brace ++ pss body ++ [PT TRBrace]
      ++ (match els with
          | [] => []
          | _ => [PSp; PT kELSE; PSp] ++ open_brace ++ pss els ++ [PT TRBrace]
          end)
  | SFor pre c post body =>
      [PT kFOR; PSp; lpar] ++ ost pre ++ [PT TSemicolon] ++ popt c ++ [PT TSemicolon]
      ++ (match post with Some x => PSp :: pst x | None => [] end)
      ++ [rpar; PSp] ++ open_brace ++ pss body ++ [PT TRBrace]
  | SForIn v a body =>
      [PT kFOR; PSp; lpar; PT (TName v); PSp; PT TIn; PSp; PT (TName a); rpar; PSp] ++ open_brace
      ++ pss body ++ [PT TRBrace]
  | SWhile c body =>
      [PT kWHILE; PSp; lpar] ++ pe c ++ [rpar; PSp] ++ open_brace ++ pss body ++ [PT TRBrace]
  | SDo body c =>
      [PT kDO; PSp] ++ open_brace ++ pss body ++ [PT TRBrace; PSp; PT kWHILE; PSp; lpar] ++ pe c ++ [rpar]
  | SBreak => [PT kBREAK]
  | SContinue => [PT kCONTINUE]
  | SNext => [PT kNEXT]
  | SNextfile => [PT kNEXTFILE]
  | SExit st => PT kEXIT :: popt st
  | SDelete a idx =>
      match idx with
      | [] => [PT kDELETE; PSp; PT (TName a)]
      | _ => [PT kDELETE; PSp; PT (TName a); PT TLBracket] ++ pjoin pe idx ++ [PT TRBracket]
      end
  | SReturn v => PT kRETURN :: popt v
  | SBlock body => open_brace ++ pss body ++ [PT TRBrace]
  end.

(* Stmts.String() *)
Fixpoint pstmts (ss : list stmt) : list piece :=
  match ss with [] => [] | x :: r => indent_stmt (pst x) ++ pstmts r end.

Definition braced (ss : list stmt) : list piece := open_brace ++ pstmts ss ++ [PT TRBrace].

(* Action.String() *)
Definition paction (a : action) : list piece :=
  pjoin pe (a_pattern a)
  ++ (match a_pattern a, a_body a with _ :: _, Some _ => [PSp] | _, _ => [] end)
  ++ (match a_body a with Some ss => braced ss | None => [] end).

Fixpoint pnames (ns : list bytes) : list piece :=
  match ns with
  | [] => []
  | x :: r => match r with [] => [PT (TName x)] | _ => PT (TName x) :: PT TComma :: PSp :: pnames r end
  end.

(* Function.String() *)
Definition pfunc (f : func) : list piece :=
  [PT kFUNCTION; PSp; PT (TName (f_name f)); PT (TLParen false)] ++ pnames (f_params f) ++ [rpar; PSp]
  ++ braced (f_body f).

(* strings.Join(parts, "\n\n") *)
Fixpoint join_parts (parts : list (list piece)) : list piece :=
  match parts with
  | [] => []
  | x :: r => match r with [] => x | _ => x ++ PT TNewline :: PT TNewline :: join_parts r end
  end.

(* Program.String() *)
Definition pprogram (p : program) : list piece :=
  join_parts
    (map (fun ss => [PT kBEGIN; PSp] ++ braced ss) (p_begin p)
     ++ map paction (p_actions p)
     ++ map (fun ss => [PT kEND; PSp] ++ braced ss) (p_end p)
     ++ map pfunc (p_funcs p)).

(* the text of Program.String() *)
Definition program_string (p : program) : bytes := render (pprogram p).

(* ====================================================================================
   7. NumExpr.String(): 1e999 if infinite, FormatInt(int64(v)) if v == float64(int64(v)), else Sprintf("%.6g", v)
   ==================================================================================== *)

Fixpoint dec_digits (fuel : nat) (n : Z) (acc : bytes) : bytes :=
  match fuel with
  | O => acc
  | S k => if n <? 10 then (48 + n) :: acc else dec_digits k (n / 10) ((48 + n mod 10) :: acc)
  end.
(* decimal text of n >= 0 *)
Definition dec_nat (n : Z) : bytes := dec_digits (S (Z.to_nat (Z.log2 n))) n [].
Definition format_int (n : Z) : bytes := if n <? 0 then 45 :: dec_nat (- n) else dec_nat n.

(* is num/den >= 10^k  (num, den > 0) *)
Definition ge_pow10 (num den k : Z) : bool :=
  if 0 <=? k then den * 10 ^ k <=? num else den <=? num * 10 ^ (- k).

Fixpoint adj_up (fuel : nat) (num den x : Z) : Z :=
  match fuel with O => x | S k => if ge_pow10 num den (x + 1) then adj_up k num den (x + 1) else x end.
Fixpoint adj_down (fuel : nat) (num den x : Z) : Z :=
  match fuel with O => x | S k => if ge_pow10 num den x then x else adj_down k num den (x - 1) end.

(* floor(log10(num/den)) *)
Definition dec_exp (num den : Z) : Z :=
  let est := ((Z.log2 num - Z.log2 den) * 30103) / 100000 in
  adj_down 8 num den (adj_up 8 num den est).

(* the value rounded to 6 significant digits, half to even: (D, X) with 10^5 <= D < 10^6,
   value ~ D * 10^(X-5) *)
Definition round6 (num den : Z) : Z * Z :=
  let x := dec_exp num den in
  let '(n, d) := if x <=? 5 then (num * 10 ^ (5 - x), den) else (num, den * 10 ^ (x - 5)) in
  let q := n / d in
  let r := n mod d in
  let q' := if (d <? 2 * r) || ((d =? 2 * r) && Z.odd q) then q + 1 else q in
  if q' =? 1000000 then (100000, x + 1) else (q', x).

Fixpoint trim_zeros_rev (l : bytes) : bytes :=
  match l with 48 :: r => trim_zeros_rev r | _ => l end.
Definition trim_zeros (l : bytes) : bytes := rev (trim_zeros_rev (rev l)).

Definition nth_digit (ds : bytes) (j : Z) : Z :=
  if (0 <=? j) && (j <? zlen ds) then nth (Z.to_nat j) ds 48 else 48.

Fixpoint digit_run (n : nat) (ds : bytes) (from : Z) : bytes :=
  match n with O => [] | S k => nth_digit ds from :: digit_run k ds (from + 1) end.

(* strconv %e exponent: sign and at least two digits *)
Definition exp_text (x : Z) : bytes :=
  let a := Z.abs x in
  (if x <? 0 then 45 else 43) :: (if a <? 10 then 48 :: dec_nat a else dec_nat a).

(* strconv.FormatFloat(v, 'g', 6, 64) for the positive rational num/den *)
Definition fmt_g6_pos (num den : Z) : bytes :=
  let '(d6, x) := round6 num den in
  let ds := trim_zeros (dec_nat d6) in           (* digs.d[:digs.nd] *)
  let nd := zlen ds in
  let dp := x + 1 in                             (* digs.dp *)
  if (x <? -4) || (6 <=? x)
  then (* fmtE with precision nd-1 *)
       nth_digit ds 0 :: (if 1 <? nd then 46 :: digit_run (Z.to_nat (nd - 1)) ds 1 else []) ++ 101 :: exp_text x
  else (* fmtF with precision max(nd - dp, 0) (dp = 6: precision 0) *)
       let fprec := if dp <? 6 then Z.max (nd - dp) 0 else 0 in
       (if 0 <? dp then digit_run (Z.to_nat dp) ds 0 else [48])
       ++ (if 0 <? fprec then 46 :: digit_run (Z.to_nat fprec) ds dp else []).

Definition fmt_g6 (v : fnum) : bytes :=
  match v with
  | FNaN => [78;97;78]
  | FInf false => [43;73;110;102]
  | FInf true => [45;73;110;102]
  | FFin m e =>
      if m =? 0 then [48]
      else
        let a := Z.abs m in
        let body := if 0 <=? e then fmt_g6_pos (a * 2 ^ e) 1 else fmt_g6_pos a (2 ^ (- e)) in
        if m <? 0 then 45 :: body else body
  end.

(* NumExpr.String() *)
Definition fmt_num (v : fnum) : bytes :=
  match v with
  | FInf false => [49; 101; 57; 57; 57]            (* math.IsInf: 1e999 *)
  | FInf true => [45; 49; 101; 57; 57; 57]         (* -1e999 *)
  | _ =>
  let i := f2i64 v in
  if feq v (fnum_of_Z i) then format_int i else fmt_g6 v
  end.

(* ====================================================================================
   8. reading the text back: lexer.parseString, lexer.scan, lexer.scanRegex
   ==================================================================================== *)

Definition ch (bs : bytes) : Z := match bs with b :: _ => b | [] => 0 end.      (* l.ch, 0 at the end *)
Definition nxt (bs : bytes) : bytes := match bs with _ :: r => r | [] => [] end. (* l.next() *)

Definition is_digit (c : Z) : bool := (48 <=? c) && (c <=? 57).
Definition is_name_start (c : Z) : bool :=
  (c =? 95) || ((97 <=? c) && (c <=? 122)) || ((65 <=? c) && (c <=? 90)).
Definition hex_digit (c : Z) : Z :=
  if is_digit c then c - 48
  else if (97 <=? c) && (c <=? 102) then c - 87
  else if (65 <=? c) && (c <=? 70) then c - 55
  else -1.
Definition is_octal (c : Z) : bool := (48 <=? c) && (c <=? 55).

(* up to n further hex digits of a \u escape *)
Fixpoint more_hex (n : nat) (r : Z) (bs : bytes) : Z * bytes :=
  match n with
  | O => (r, bs)
  | S k => let d := hex_digit (ch bs) in if d <? 0 then (r, bs) else more_hex k (r * 16 + d) (nxt bs)
  end.

(* lexer.parseString(quote, ch, next): Some (chars, rest at the terminator) or None (error) *)
Fixpoint parse_string (fuel : nat) (quote : Z) (bs : bytes) (acc : bytes) : option (bytes * bytes) :=
  match fuel with
  | O => None
  | S k =>
    let c := ch bs in
    if (c =? quote) || (c =? 0) then Some (rev acc, bs)
    else if (c =? 13) || (c =? 10) then None
    else if negb (c =? 92) then parse_string k quote (nxt bs) (c :: acc)
    else
      let b1 := nxt bs in
      let e := ch b1 in
      if e =? 110 then parse_string k quote (nxt b1) (10 :: acc)
      else if e =? 116 then parse_string k quote (nxt b1) (9 :: acc)
      else if e =? 114 then parse_string k quote (nxt b1) (13 :: acc)
      else if e =? 97 then parse_string k quote (nxt b1) (7 :: acc)
      else if e =? 98 then parse_string k quote (nxt b1) (8 :: acc)
      else if e =? 102 then parse_string k quote (nxt b1) (12 :: acc)
      else if e =? 118 then parse_string k quote (nxt b1) (11 :: acc)
      else if e =? 120 then
        let b2 := nxt b1 in
        let d1 := hex_digit (ch b2) in
        if d1 <? 0 then None
        else
          let b3 := nxt b2 in
          let d2 := hex_digit (ch b3) in
          if d2 <? 0 then parse_string k quote b3 (d1 :: acc)
          else parse_string k quote (nxt b3) ((d1 * 16 + d2) mod 256 :: acc)
      else if e =? 117 then
        let b2 := nxt b1 in
        let d1 := hex_digit (ch b2) in
        if d1 <? 0 then None
        else
          let '(r, b3) := more_hex 7 d1 (nxt b2) in
          if valid_rune r then parse_string k quote b3 (rev (encode_rune r) ++ acc) else None
      else if is_octal e then
        let b2 := nxt b1 in
        let c1 := e - 48 in
        if is_octal (ch b2) then
          let c2 := c1 * 8 + (ch b2 - 48) in
          let b3 := nxt b2 in
          if is_octal (ch b3) then parse_string k quote (nxt b3) ((c2 * 8 + (ch b3 - 48)) mod 256 :: acc)
          else parse_string k quote b3 (c2 :: acc)
        else parse_string k quote b2 (c1 :: acc)
      else
        parse_string k quote (nxt b1) ((if e =? 0 then 92 else e) :: acc)
  end.

Inductive sres :=
| SEof
| STok (t : tok) (sp : bool) (rest : bytes)     (* token, lexer.HadSpace(), remaining input *)
| SIllegal
| SUnmod.                                       (* comments and line continuations: never printed *)

(* the whitespace loop of scan: (remaining input, hadSpace) *)
Fixpoint skip_ws (bs : bytes) (sp : bool) : bytes * bool :=
  match bs with
  | b :: r => if (b =? 32) || (b =? 9) || (b =? 13) then skip_ws r true else (bs, sp)
  | [] => ([], sp)
  end.

Fixpoint span (p : Z -> bool) (bs : bytes) : bytes * bytes :=
  match bs with
  | b :: r => if p b then let '(a, t) := span p r in (b :: a, t) else ([], bs)
  | [] => ([], [])
  end.

Definition is_name_char (c : Z) : bool := is_name_start c || is_digit c.

Definition keyword_table : list (bytes * tok) :=
  [ (other_name 44, kBEGIN); (other_name 45, kBREAK); (other_name 46, kCONTINUE); (other_name 47, kDELETE);
    (other_name 48, kDO); (other_name 49, kELSE); (other_name 50, kEND); (other_name 51, kEXIT);
    (other_name 52, kFOR); (other_name 53, kFUNCTION); (tok_bytes TGetline, TGetline); (other_name 55, kIF);
    (tok_bytes TIn, TIn); (other_name 57, kNEXT); (other_name 58, kNEXTFILE); (tok_bytes TPrint, TPrint);
    (tok_bytes TPrintf, TPrintf); (other_name 61, kRETURN); (other_name 62, kWHILE) ]
  ++ map (fun f => (bfn_name f, TFunc f))
       [FAtan2; FClose; FCos; FExp; FFflush; FGsub; FIndex; FInt; FLength; FLog; FMatch; FRand; FSin; FSplit;
        FSprintf; FSqrt; FSrand; FSub; FSubstr; FSystem; FTolower; FToupper].

Fixpoint lookup_kw (tbl : list (bytes * tok)) (s : bytes) : option tok :=
  match tbl with
  | [] => None
  | (k, t) :: r => if bytes_eqb k s then Some t else lookup_kw r s
  end.

(* lexer.KeywordToken *)
Definition keyword_token (s : bytes) : option tok := lookup_kw keyword_table s.

(* the NUMBER case of scan; first = the character already consumed, r = the input after it.
   Returns the input after the number, or None ("expected digits"). *)
Definition scan_number_rest (first : Z) (r : bytes) : option bytes :=
  let '(got1, r2) :=
    if first =? 46 then (false, r)
    else let '(_, r1) := span is_digit r in (true, if ch r1 =? 46 then nxt r1 else r1) in
  let '(ds2, r3) := span is_digit r2 in
  let got := got1 || negb (match ds2 with [] => true | _ => false end) in
  if negb got then None
  else if (ch r3 =? 101) || (ch r3 =? 69) then
    let r4 := nxt r3 in
    let r5 := if (ch r4 =? 43) || (ch r4 =? 45) then nxt r4 else r4 in
    let '(ds3, r6) := span is_digit r5 in
    match ds3 with [] => Some r3 | _ => Some r6 end
  else Some r3.

(* lexer.scan after the whitespace loop: bs = the input from l.ch on, sp = l.hadSpace *)
Definition scan_body (bs : bytes) (sp : bool) : sres :=
  match bs with
  | [] => SEof
  | c :: r =>
    if c =? 0 then SEof
    else if (c =? 92) || (c =? 35) then SUnmod
    else if is_name_start c then
      let '(more, rest) := span is_name_char r in
      let name := c :: more in
      match keyword_token name with Some t => STok t sp rest | None => STok (TName name) sp rest end
    else if is_digit c || (c =? 46) then
      match scan_number_rest c r with
      | None => SIllegal
      | Some rest => STok (TNumber (firstn (length bs - length rest) bs)) sp rest
      end
    else if (c =? 34) || (c =? 39) then
      match parse_string (S (length r)) c r [] with
      | None => SIllegal
      | Some (s, rest) => if ch rest =? c then STok (TString s) sp (nxt rest) else SIllegal
      end
    else
    let one (t : tok) := STok t sp r in
    let two (t : tok) := STok t sp (nxt r) in
    let n := ch r in
    if c =? 36 then one TDollar
    else if c =? 64 then one TAt
    else if c =? 123 then one TLBrace
    else if c =? 125 then one TRBrace
    else if c =? 61 then (if n =? 61 then two TEquals else one TAssign)
    else if c =? 60 then (if n =? 61 then two TLte else one TLess)
    else if c =? 62 then (if n =? 61 then two TGte else if n =? 62 then two TAppend else one TGreater)
    else if c =? 40 then one (TLParen sp)
    else if c =? 41 then one TRParen
    else if c =? 44 then one TComma
    else if c =? 59 then one TSemicolon
    else if c =? 43 then (if n =? 43 then two TIncr else if n =? 61 then two TAddAssign else one TAdd)
    else if c =? 45 then (if n =? 45 then two TDecr else if n =? 61 then two TSubAssign else one TSub)
    else if c =? 42 then
      (if n =? 42 then (if ch (nxt r) =? 61 then STok TPowAssign sp (nxt (nxt r)) else two TPow)
       else if n =? 61 then two TMulAssign else one TMul)
    else if c =? 47 then (if n =? 61 then two TDivAssign else one TDiv)
    else if c =? 37 then (if n =? 61 then two TModAssign else one TMod)
    else if c =? 91 then one TLBracket
    else if c =? 93 then one TRBracket
    else if c =? 10 then one TNewline
    else if c =? 94 then (if n =? 61 then two TPowAssign else one TPow)
    else if c =? 33 then (if n =? 61 then two TNotEquals else if n =? 126 then two TNotMatch else one TNot)
    else if c =? 126 then one TMatch
    else if c =? 63 then one TQuestion
    else if c =? 58 then one TColon
    else if c =? 38 then (if n =? 38 then two TAnd else SIllegal)
    else if c =? 124 then (if n =? 124 then two TOr else one TPipe)
    else SIllegal
  end.

(* lexer.scan *)
Definition scan1 (src : bytes) : sres :=
  let '(bs, sp) := skip_ws src false in scan_body bs sp.

(* lexer.scanRegex after DIV (eq = false) or DIV_ASSIGN (eq = true): Some (regex, rest) or None *)
Fixpoint scan_regex_loop (fuel : nat) (bs : bytes) (acc : bytes) : option (bytes * bytes) :=
  match fuel with
  | O => None
  | S k =>
    let c := ch bs in
    if c =? 47 then Some (rev acc, nxt bs)
    else if c =? 0 then None
    else if (c =? 13) || (c =? 10) then None
    else if c =? 92 then
      let b1 := nxt bs in
      let c1 := ch b1 in
      scan_regex_loop k (nxt b1) (if c1 =? 47 then c1 :: acc else c1 :: 92 :: acc)
    else scan_regex_loop k (nxt bs) (c :: acc)
  end.
Definition scan_regex (eq : bool) (bs : bytes) : option (bytes * bytes) :=
  scan_regex_loop (S (length bs)) bs (if eq then [61] else []).

(* ---- token equality ---- *)
Definition bfn_eqb (a b : bfn) : bool := bytes_eqb (bfn_name a) (bfn_name b).

Definition tok_eqb (a b : tok) : bool :=
  match a, b with
  | TName x, TName y | TNumber x, TNumber y | TString x, TString y | TRegex x, TRegex y => bytes_eqb x y
  | TFunc f, TFunc g => bfn_eqb f g
  | TOther x, TOther y => x =? y
  | TLParen x, TLParen y => Bool.eqb x y
  | TName _, _ | TNumber _, _ | TString _, _ | TRegex _, _ | TFunc _, _ | TOther _, _ | TLParen _, _ => false
  | _, TName _ | _, TNumber _ | _, TString _ | _, TRegex _ | _, TFunc _ | _, TOther _ | _, TLParen _ => false
  | _, _ => bytes_eqb (tok_bytes a) (tok_bytes b)
  end.

Definition is_lparen (t : tok) : bool := match t with TLParen _ => true | _ => false end.
Definition is_name_tok (t : tok) : bool := match t with TName _ => true | _ => false end.

(* ---- the text lexes to the token list ts, under the parser's protocol:
   where ts has a REGEX token the parser has just seen DIV / DIV_ASSIGN in operand position and
   calls ScanRegex; the HadSpace flag of "(" is consulted only directly after a NAME
   (parser.primary, optionalLValue's PeekByte), so it is compared only there. *)
Fixpoint lex_as (after_name : bool) (ts : list tok) (bs : bytes) : bool :=
  match ts with
  | [] => match scan1 bs with SEof => true | _ => false end
  | TRegex s :: ts' =>
      match scan1 bs with
      | STok TDiv _ r =>
          match scan_regex false r with
          | Some (s', r') => bytes_eqb s s' && lex_as false ts' r'
          | None => false
          end
      | STok TDivAssign _ r =>
          match scan_regex true r with
          | Some (s', r') => bytes_eqb s s' && lex_as false ts' r'
          | None => false
          end
      | _ => false
      end
  | t :: ts' =>
      match scan1 bs with
      | STok t' _ r =>
          (if is_lparen t && is_lparen t' && negb after_name then true else tok_eqb t t')
          && lex_as (is_name_tok t) ts' r
      | _ => false
      end
  end.

(* all tokens of a text by plain Scan calls (no ScanRegex), for the correspondence of scan1 *)
Fixpoint scan_all (fuel : nat) (bs : bytes) : list tok * Z :=     (* tokens, 0 = EOF / 1 = illegal / 2 = unmodelled / 3 = fuel *)
  match fuel with
  | O => ([], 3)
  | S k =>
    match scan1 bs with
    | SEof => ([], 0)
    | SIllegal => ([], 1)
    | SUnmod => ([], 2)
    | STok t _ r => let '(l, c) := scan_all k r in (t :: l, c)
    end
  end.
