(* C03: model of lexer/lexer.go (NewLexer, Scan, scan, ScanRegex, scanRegex, next, unread,
   choice, parseString), lexer/token.go (token numbers, keyword table) and of goawk.go
   showSourceLine.  Definitions only.

   The model keeps the EXACT bookkeeping of the Go code: [offset] (index of the next byte to
   load, one past the end once the end was loaded), [ch] (current byte, 0 at the end), [lpos]
   (l.pos) and [npos] (l.nextPos); [unread] steps l.pos one column back and makes the old
   l.pos the next position, as the Go code does.  Go indexing and
   slicing are checked ([LPanic] where Go would panic); every loop runs on explicit fuel
   ([LFuel] when it runs out; Proofs/LexerTotal.v shows it never does with fuel = length+2).

   Ghost field (not in the Go code): a token additionally records the byte offset at which its
   position was captured ([tstart]). *)
From Verif Require Import Lib.Base Lib.Utf8.
Open Scope Z_scope.

(* ---- outcome of a modelled lexer operation ---------------------------------------- *)
Inductive lres (A : Type) : Type :=
| LOk (a : A)
| LPanic            (* Go would panic: index / slice out of range, explicit panic *)
| LFuel.            (* the model's loop fuel ran out *)
Arguments LOk {A} a.
Arguments LPanic {A}.
Arguments LFuel {A}.

Definition lbind {A B} (r : lres A) (f : A -> lres B) : lres B :=
  match r with LOk a => f a | LPanic => LPanic | LFuel => LFuel end.
Notation "'dol' x <- r ; k" := (lbind r (fun x => k))
  (at level 200, x pattern, r at level 100, k at level 200).

Definition of_res {A} (r : res A) : lres A :=
  match r with Ok a => LOk a | _ => LPanic end.

(* ---- token.go ---------------------------------------------------------------------- *)
Definition T_ILLEGAL : Z := 0. Definition T_EOF : Z := 1. Definition T_NEWLINE : Z := 2.
Definition T_CONCAT : Z := 3. Definition T_ADD : Z := 4. Definition T_ADD_ASSIGN : Z := 5.
Definition T_AND : Z := 6. Definition T_APPEND : Z := 7. Definition T_ASSIGN : Z := 8.
Definition T_AT : Z := 9. Definition T_COLON : Z := 10. Definition T_COMMA : Z := 11.
Definition T_DECR : Z := 12. Definition T_DIV : Z := 13. Definition T_DIV_ASSIGN : Z := 14.
Definition T_DOLLAR : Z := 15. Definition T_EQUALS : Z := 16. Definition T_GTE : Z := 17.
Definition T_GREATER : Z := 18. Definition T_INCR : Z := 19. Definition T_LBRACE : Z := 20.
Definition T_LBRACKET : Z := 21. Definition T_LESS : Z := 22. Definition T_LPAREN : Z := 23.
Definition T_LTE : Z := 24. Definition T_MATCH : Z := 25. Definition T_MOD : Z := 26.
Definition T_MOD_ASSIGN : Z := 27. Definition T_MUL : Z := 28. Definition T_MUL_ASSIGN : Z := 29.
Definition T_NOT_MATCH : Z := 30. Definition T_NOT : Z := 31. Definition T_NOT_EQUALS : Z := 32.
Definition T_OR : Z := 33. Definition T_PIPE : Z := 34. Definition T_POW : Z := 35.
Definition T_POW_ASSIGN : Z := 36. Definition T_QUESTION : Z := 37. Definition T_RBRACE : Z := 38.
Definition T_RBRACKET : Z := 39. Definition T_RPAREN : Z := 40. Definition T_SEMICOLON : Z := 41.
Definition T_SUB : Z := 42. Definition T_SUB_ASSIGN : Z := 43. Definition T_BEGIN : Z := 44.
Definition T_BREAK : Z := 45. Definition T_CONTINUE : Z := 46. Definition T_DELETE : Z := 47.
Definition T_DO : Z := 48. Definition T_ELSE : Z := 49. Definition T_END : Z := 50.
Definition T_EXIT : Z := 51. Definition T_FOR : Z := 52. Definition T_FUNCTION : Z := 53.
Definition T_GETLINE : Z := 54. Definition T_IF : Z := 55. Definition T_IN : Z := 56.
Definition T_NEXT : Z := 57. Definition T_NEXTFILE : Z := 58. Definition T_PRINT : Z := 59.
Definition T_PRINTF : Z := 60. Definition T_RETURN : Z := 61. Definition T_WHILE : Z := 62.
Definition T_F_ATAN2 : Z := 63. Definition T_F_CLOSE : Z := 64. Definition T_F_COS : Z := 65.
Definition T_F_EXP : Z := 66. Definition T_F_FFLUSH : Z := 67. Definition T_F_GSUB : Z := 68.
Definition T_F_INDEX : Z := 69. Definition T_F_INT : Z := 70. Definition T_F_LENGTH : Z := 71.
Definition T_F_LOG : Z := 72. Definition T_F_MATCH : Z := 73. Definition T_F_RAND : Z := 74.
Definition T_F_SIN : Z := 75. Definition T_F_SPLIT : Z := 76. Definition T_F_SPRINTF : Z := 77.
Definition T_F_SQRT : Z := 78. Definition T_F_SRAND : Z := 79. Definition T_F_SUB : Z := 80.
Definition T_F_SUBSTR : Z := 81. Definition T_F_SYSTEM : Z := 82. Definition T_F_TOLOWER : Z := 83.
Definition T_F_TOUPPER : Z := 84. Definition T_NAME : Z := 85. Definition T_NUMBER : Z := 86.
Definition T_STRING : Z := 87. Definition T_REGEX : Z := 88.

(* keywordTokens, as (name, token number); same order as the Go map literal *)
Definition keywords : list (bytes * Z) :=
  [ ([66; 69; 71; 73; 78], T_BEGIN) (* BEGIN *);
    ([98; 114; 101; 97; 107], T_BREAK) (* break *);
    ([99; 111; 110; 116; 105; 110; 117; 101], T_CONTINUE) (* continue *);
    ([100; 101; 108; 101; 116; 101], T_DELETE) (* delete *);
    ([100; 111], T_DO) (* do *);
    ([101; 108; 115; 101], T_ELSE) (* else *);
    ([69; 78; 68], T_END) (* END *);
    ([101; 120; 105; 116], T_EXIT) (* exit *);
    ([102; 111; 114], T_FOR) (* for *);
    ([102; 117; 110; 99; 116; 105; 111; 110], T_FUNCTION) (* function *);
    ([103; 101; 116; 108; 105; 110; 101], T_GETLINE) (* getline *);
    ([105; 102], T_IF) (* if *);
    ([105; 110], T_IN) (* in *);
    ([110; 101; 120; 116], T_NEXT) (* next *);
    ([110; 101; 120; 116; 102; 105; 108; 101], T_NEXTFILE) (* nextfile *);
    ([112; 114; 105; 110; 116], T_PRINT) (* print *);
    ([112; 114; 105; 110; 116; 102], T_PRINTF) (* printf *);
    ([114; 101; 116; 117; 114; 110], T_RETURN) (* return *);
    ([119; 104; 105; 108; 101], T_WHILE) (* while *);
    ([97; 116; 97; 110; 50], T_F_ATAN2) (* atan2 *);
    ([99; 108; 111; 115; 101], T_F_CLOSE) (* close *);
    ([99; 111; 115], T_F_COS) (* cos *);
    ([101; 120; 112], T_F_EXP) (* exp *);
    ([102; 102; 108; 117; 115; 104], T_F_FFLUSH) (* fflush *);
    ([103; 115; 117; 98], T_F_GSUB) (* gsub *);
    ([105; 110; 100; 101; 120], T_F_INDEX) (* index *);
    ([105; 110; 116], T_F_INT) (* int *);
    ([108; 101; 110; 103; 116; 104], T_F_LENGTH) (* length *);
    ([108; 111; 103], T_F_LOG) (* log *);
    ([109; 97; 116; 99; 104], T_F_MATCH) (* match *);
    ([114; 97; 110; 100], T_F_RAND) (* rand *);
    ([115; 105; 110], T_F_SIN) (* sin *);
    ([115; 112; 108; 105; 116], T_F_SPLIT) (* split *);
    ([115; 112; 114; 105; 110; 116; 102], T_F_SPRINTF) (* sprintf *);
    ([115; 113; 114; 116], T_F_SQRT) (* sqrt *);
    ([115; 114; 97; 110; 100], T_F_SRAND) (* srand *);
    ([115; 117; 98], T_F_SUB) (* sub *);
    ([115; 117; 98; 115; 116; 114], T_F_SUBSTR) (* substr *);
    ([115; 121; 115; 116; 101; 109], T_F_SYSTEM) (* system *);
    ([116; 111; 108; 111; 119; 101; 114], T_F_TOLOWER) (* tolower *);
    ([116; 111; 117; 112; 112; 101; 114], T_F_TOUPPER) (* toupper *) ].

(* KeywordToken: map lookup, ILLEGAL (the zero value) when absent *)
Fixpoint keyword_lookup (tbl : list (bytes * Z)) (name : bytes) : Z :=
  match tbl with
  | [] => T_ILLEGAL
  | (k, t) :: rest => if bytes_eqb k name then t else keyword_lookup rest name
  end.
Definition keyword_token (name : bytes) : Z := keyword_lookup keywords name.

(* ---- the Lexer struct -------------------------------------------------------------- *)
Definition position : Type := (Z * Z)%type.          (* (Line, Column) *)

Record lexer : Type := mkL {
  offset : Z;
  ch : Z;
  lpos : position;
  npos : position;
  hadSpace : bool;
  lastTok : Z
}.

Definition col_add (p : position) (d : Z) : position := (fst p, snd p + d).

(* func (l *Lexer) next() *)
Definition next (src : bytes) (l : lexer) : lres lexer :=
  let p := npos l in
  if offset l >=? zlen src then
    if ch l =? 0
    then LOk (mkL (offset l) (ch l) p p (hadSpace l) (lastTok l))
    else LOk (mkL (offset l + 1) 0 p p (hadSpace l) (lastTok l))
  else
    dol c <- of_res (index src (offset l));
    let np := if c =? 10 then (fst p + 1, 1) else if c =? 13 then p else col_add p 1 in
    LOk (mkL (offset l + 1) c p np (hadSpace l) (lastTok l)).

(* func (l *Lexer) unread() *)
Definition unread (src : bytes) (l : lexer) : lres lexer :=
  dol c <- of_res (index src (offset l - 1 - 1));
  LOk (mkL (offset l - 1) c (col_add (lpos l) (-1)) (lpos l) (hadSpace l) (lastTok l)).

(* func NewLexer(src) *)
Definition new_lexer (src : bytes) : lres lexer :=
  next src (mkL 0 0 (0, 0) (1, 1) false T_ILLEGAL).

Definition is_name_start (c : Z) : bool :=
  (c =? 95) || ((97 <=? c) && (c <=? 122)) || ((65 <=? c) && (c <=? 90)).
Definition is_digit (c : Z) : bool := (48 <=? c) && (c <=? 57).

Definition hex_digit (c : Z) : Z :=
  if is_digit c then c - 48
  else if (97 <=? c) && (c <=? 102) then c - 97 + 10
  else if (65 <=? c) && (c <=? 70) then c - 65 + 10
  else -1.

(* func (l *Lexer) choice(ch, one, two) *)
Definition choice (src : bytes) (l : lexer) (c one two : Z) : lres (Z * lexer) :=
  if ch l =? c then dol l' <- next src l; LOk (two, l') else LOk (one, l).

(* `for cond(l.ch) { l.next() }` *)
Fixpoint skip_while (src : bytes) (fuel : nat) (cond : Z -> bool) (l : lexer) : lres lexer :=
  match fuel with
  | O => LFuel
  | S f => if cond (ch l) then dol l' <- next src l; skip_while src f cond l' else LOk l
  end.

(* same loop, also reporting whether it ran at least once (gotDigit) *)
Fixpoint skip_digits (src : bytes) (fuel : nat) (got : bool) (l : lexer) : lres (bool * lexer) :=
  match fuel with
  | O => LFuel
  | S f => if is_digit (ch l) then dol l' <- next src l; skip_digits src f true l' else LOk (got, l)
  end.

(* ---- tokens as reported ------------------------------------------------------------ *)
Record token : Type := mkT {
  tpos : position;
  tkind : Z;
  tval : bytes;
  tstart : Z         (* ghost: byte offset at which tpos was captured *)
}.

Definition set_had_space (v : bool) (l : lexer) : lexer :=
  mkL (offset l) (ch l) (lpos l) (npos l) v (lastTok l).
Definition set_last_tok (t : Z) (l : lexer) : lexer :=
  mkL (offset l) (ch l) (lpos l) (npos l) (hadSpace l) t.

(* ---- the whitespace / line continuation loop at the head of scan() ---------------- *)
Inductive ws_out : Type :=
| WsIllegal (l : lexer)       (* return l.pos, ILLEGAL, "expected \n after \ line continuation" *)
| WsDone (l : lexer).

Fixpoint skip_ws (src : bytes) (fuel : nat) (l : lexer) : lres ws_out :=
  match fuel with
  | O => LFuel
  | S f =>
    let c := ch l in
    if (c =? 32) || (c =? 9) || (c =? 13) || (c =? 92) then
      let l := set_had_space true l in
      if c =? 92 then
        dol l1 <- next src l;
        dol l2 <- (if ch l1 =? 13 then next src l1 else LOk l1);
        if negb (ch l2 =? 10) then LOk (WsIllegal l2)
        else dol l3 <- next src l2; skip_ws src f l3
      else
        dol l1 <- next src l; skip_ws src f l1
    else LOk (WsDone l)
  end.

(* ---- parseString (with ch = l.ch, next = l.next) ---------------------------------- *)
Inductive str_out : Type :=
| StrErr (msg : bytes) (l : lexer)
| StrOk (rev_chars : bytes) (l : lexer).

(* for i := 0; i < 7; i++ { digit := hexDigit(ch()); if digit < 0 { break }; next(); r = r*16 + digit } *)
Fixpoint hex_loop (src : bytes) (n : nat) (r : Z) (l : lexer) : lres (Z * lexer) :=
  match n with
  | O => LOk (r, l)
  | S n' =>
    let d := hex_digit (ch l) in
    if d <? 0 then LOk (r, l)
    else dol l' <- next src l; hex_loop src n' (r * 16 + d) l'
  end.

(* for i := 0; i < 2 && ch() >= '0' && ch() <= '7'; i++ { c = c*8 + ch() - '0'; next() }   (c is a byte) *)
Fixpoint oct_loop (src : bytes) (n : nat) (c : Z) (l : lexer) : lres (Z * lexer) :=
  match n with
  | O => LOk (c, l)
  | S n' =>
    if (48 <=? ch l) && (ch l <=? 55)
    then dol l' <- next src l; oct_loop src n' ((c * 8 + ch l - 48) mod 256) l'
    else LOk (c, l)
  end.

(* utf8.ValidRune(rune(r)) for an int r: rune() keeps the low 32 bits as a signed number *)
Definition valid_rune_of_int (r : Z) : bool :=
  let r32 := let m := r mod 4294967296 in if m >=? 2147483648 then m - 4294967296 else m in
  ((0 <=? r32) && (r32 <? 55296)) || ((57343 <? r32) && (r32 <=? 1114111)).

Fixpoint parse_string (src : bytes) (fuel : nat) (quote : Z) (chars : bytes) (l : lexer) : lres str_out :=
  match fuel with
  | O => LFuel
  | S f =>
    let c := ch l in
    if (c =? quote) || (c =? 0) then LOk (StrOk chars l)
    else if (c =? 13) || (c =? 10) then LOk (StrErr ((* can't have newline in string *) [99; 97; 110; 39; 116; 32; 104; 97; 118; 101; 32; 110; 101; 119; 108; 105; 110; 101; 32; 105; 110; 32; 115; 116; 114; 105; 110; 103]) l)
    else if negb (c =? 92) then
      dol l1 <- next src l; parse_string src f quote (c :: chars) l1
    else
      dol l1 <- next src l;
      let e := ch l1 in
      if e =? 110 then dol l2 <- next src l1; parse_string src f quote (10 :: chars) l2
      else if e =? 116 then dol l2 <- next src l1; parse_string src f quote (9 :: chars) l2
      else if e =? 114 then dol l2 <- next src l1; parse_string src f quote (13 :: chars) l2
      else if e =? 97 then dol l2 <- next src l1; parse_string src f quote (7 :: chars) l2
      else if e =? 98 then dol l2 <- next src l1; parse_string src f quote (8 :: chars) l2
      else if e =? 102 then dol l2 <- next src l1; parse_string src f quote (12 :: chars) l2
      else if e =? 118 then dol l2 <- next src l1; parse_string src f quote (11 :: chars) l2
      else if e =? 120 then
        dol l2 <- next src l1;
        let d := hex_digit (ch l2) in
        if d <? 0 then LOk (StrErr ((* 1 or 2 hex digits expected *) [49; 32; 111; 114; 32; 50; 32; 104; 101; 120; 32; 100; 105; 103; 105; 116; 115; 32; 101; 120; 112; 101; 99; 116; 101; 100]) l2)
        else
          dol l3 <- next src l2;
          let d2 := hex_digit (ch l3) in
          if d2 >=? 0
          then dol l4 <- next src l3; parse_string src f quote ((d * 16 + d2) mod 256 :: chars) l4
          else parse_string src f quote (d :: chars) l3
      else if e =? 117 then
        dol l2 <- next src l1;
        let r := hex_digit (ch l2) in
        if r <? 0 then LOk (StrErr ((* 1-8 hex digits expected *) [49; 45; 56; 32; 104; 101; 120; 32; 100; 105; 103; 105; 116; 115; 32; 101; 120; 112; 101; 99; 116; 101; 100]) l2)
        else
          dol l3 <- next src l2;
          dol rl <- hex_loop src 7 r l3;
          let '(r', l4) := rl in
          if negb (valid_rune_of_int r') then LOk (StrErr ((* invalid Unicode character *) [105; 110; 118; 97; 108; 105; 100; 32; 85; 110; 105; 99; 111; 100; 101; 32; 99; 104; 97; 114; 97; 99; 116; 101; 114]) l4)
          else parse_string src f quote (rev (encode_rune r') ++ chars) l4
      else if (48 <=? e) && (e <=? 55) then
        dol l2 <- next src l1;
        dol cl <- oct_loop src 2 (e - 48) l2;
        let '(c', l3) := cl in
        parse_string src f quote (c' :: chars) l3
      else
        let c' := if e =? 0 then 92 else e in
        dol l2 <- next src l1; parse_string src f quote (c' :: chars) l2
  end.

(* ---- scan() ------------------------------------------------------------------------ *)
Definition tok_at (lc : lexer) (kind : Z) (val : bytes) (l : lexer) : token * lexer :=
  (mkT (lpos lc) kind val (Z.max 0 (offset lc - 1)), l).

(* the switch over the first character, everything except names, numbers and strings;
   l is the lexer after the l.next() that follows `ch := l.ch` *)
Definition scan_symbol (src : bytes) (c : Z) (l : lexer) : lres (Z * bytes * lexer) :=
  let simple (t : Z) := LOk (t, [], l) in
  let ret (r : lres (Z * lexer)) := dol tl <- r; LOk (fst tl, [], snd tl) in
  if c =? 36 then simple T_DOLLAR
  else if c =? 64 then simple T_AT
  else if c =? 123 then simple T_LBRACE
  else if c =? 125 then simple T_RBRACE
  else if c =? 61 then ret (choice src l 61 T_ASSIGN T_EQUALS)
  else if c =? 60 then ret (choice src l 61 T_LESS T_LTE)
  else if c =? 62 then
    if ch l =? 61 then dol l' <- next src l; LOk (T_GTE, [], l')
    else if ch l =? 62 then dol l' <- next src l; LOk (T_APPEND, [], l')
    else simple T_GREATER
  else if c =? 40 then simple T_LPAREN
  else if c =? 41 then simple T_RPAREN
  else if c =? 44 then simple T_COMMA
  else if c =? 59 then simple T_SEMICOLON
  else if c =? 43 then
    if ch l =? 43 then dol l' <- next src l; LOk (T_INCR, [], l')
    else if ch l =? 61 then dol l' <- next src l; LOk (T_ADD_ASSIGN, [], l')
    else simple T_ADD
  else if c =? 45 then
    if ch l =? 45 then dol l' <- next src l; LOk (T_DECR, [], l')
    else if ch l =? 61 then dol l' <- next src l; LOk (T_SUB_ASSIGN, [], l')
    else simple T_SUB
  else if c =? 42 then
    if ch l =? 42 then dol l' <- next src l; ret (choice src l' 61 T_POW T_POW_ASSIGN)
    else if ch l =? 61 then dol l' <- next src l; LOk (T_MUL_ASSIGN, [], l')
    else simple T_MUL
  else if c =? 47 then ret (choice src l 61 T_DIV T_DIV_ASSIGN)
  else if c =? 37 then ret (choice src l 61 T_MOD T_MOD_ASSIGN)
  else if c =? 91 then simple T_LBRACKET
  else if c =? 93 then simple T_RBRACKET
  else if c =? 10 then simple T_NEWLINE
  else if c =? 94 then ret (choice src l 61 T_POW T_POW_ASSIGN)
  else if c =? 33 then
    if ch l =? 61 then dol l' <- next src l; LOk (T_NOT_EQUALS, [], l')
    else if ch l =? 126 then dol l' <- next src l; LOk (T_NOT_MATCH, [], l')
    else simple T_NOT
  else if c =? 126 then simple T_MATCH
  else if c =? 63 then simple T_QUESTION
  else if c =? 58 then simple T_COLON
  else if c =? 124 then ret (choice src l 124 T_PIPE T_OR)
  else LOk (T_ILLEGAL, (* unexpected char *) [117; 110; 101; 120; 112; 101; 99; 116; 101; 100; 32; 99; 104; 97; 114], l).

(* the exponent part of a number: l.ch is 'e' or 'E' on entry *)
Definition scan_exponent (src : bytes) (fuel : nat) (l : lexer) : lres lexer :=
  dol l1 <- next src l;
  let got_sign := (ch l1 =? 43) || (ch l1 =? 45) in
  dol l2 <- (if got_sign then next src l1 else LOk l1);
  dol gl <- skip_digits src fuel false l2;
  let '(got_digit, l3) := gl in
  if negb got_digit then
    dol l4 <- (if got_sign then unread src l3 else LOk l3);
    unread src l4
  else LOk l3.

Definition scan (src : bytes) (fuel : nat) (l0 : lexer) : lres (token * lexer) :=
  let l := set_had_space false l0 in
  dol w <- skip_ws src fuel l;
  match w with
  | WsIllegal l =>
      LOk (tok_at l T_ILLEGAL ((* expected \n after \ line continuation *) [101; 120; 112; 101; 99; 116; 101; 100; 32; 92; 110; 32; 97; 102; 116; 101; 114; 32; 92; 32; 108; 105; 110; 101; 32; 99; 111; 110; 116; 105; 110; 117; 97; 116; 105; 111; 110]) l)
  | WsDone l =>
    dol l <- (if ch l =? 35
              then dol l1 <- next src l;
                   skip_while src fuel (fun c => negb (c =? 10) && negb (c =? 0)) l1
              else LOk l);
    if ch l =? 0 then LOk (tok_at l T_EOF [] l)
    else
      let lc := l in                         (* pos := l.pos *)
      let c := ch l in
      dol l <- next src l;
      if is_name_start c then
        let start := offset l - 2 in
        dol l <- skip_while src fuel (fun c => is_name_start c || is_digit c) l;
        dol name <- of_res (slice src start (offset l - 1));
        let t := keyword_token name in
        if t =? T_ILLEGAL then LOk (tok_at lc T_NAME name l)
        else LOk (tok_at lc t [] l)
      else if is_digit c || (c =? 46) then
        let start := offset l - 2 in
        dol gl <- (if negb (c =? 46)
                   then dol l1 <- skip_while src fuel is_digit l;
                        dol l2 <- (if ch l1 =? 46 then next src l1 else LOk l1);
                        LOk (true, l2)
                   else LOk (false, l));
        let '(got0, l) := gl in
        dol gl <- skip_digits src fuel got0 l;
        let '(got_digit, l) := gl in
        if negb got_digit then LOk (tok_at l T_ILLEGAL ((* expected digits *) [101; 120; 112; 101; 99; 116; 101; 100; 32; 100; 105; 103; 105; 116; 115]) l)
        else
          dol l <- (if (ch l =? 101) || (ch l =? 69) then scan_exponent src fuel l else LOk l);
          dol v <- of_res (slice src start (offset l - 1));
          LOk (tok_at lc T_NUMBER v l)
      else if (c =? 34) || (c =? 39) then
        dol s <- parse_string src fuel c [] l;
        match s with
        | StrErr msg l => LOk (tok_at l T_ILLEGAL msg l)
        | StrOk chars l =>
          if negb (ch l =? c)
          then LOk (tok_at l T_ILLEGAL ((* didn't find end quote in string *) [100; 105; 100; 110; 39; 116; 32; 102; 105; 110; 100; 32; 101; 110; 100; 32; 113; 117; 111; 116; 101; 32; 105; 110; 32; 115; 116; 114; 105; 110; 103]) l)
          else dol l <- next src l; LOk (tok_at lc T_STRING (rev chars) l)
        end
      else if c =? 38 then
        dol tl <- choice src l 38 T_ILLEGAL T_AND;
        let '(t, l) := tl in
        if t =? T_ILLEGAL
        then LOk (tok_at l T_ILLEGAL ((* unexpected char after '&' *) [117; 110; 101; 120; 112; 101; 99; 116; 101; 100; 32; 99; 104; 97; 114; 32; 97; 102; 116; 101; 114; 32; 39; 38; 39]) l)
        else LOk (tok_at lc t [] l)
      else
        dol r <- scan_symbol src c l;
        let '(t, v, l) := r in
        LOk (tok_at lc t v l)
  end.

(* func (l *Lexer) Scan() *)
Definition Scan (src : bytes) (fuel : nat) (l : lexer) : lres (token * lexer) :=
  dol tl <- scan src fuel l;
  LOk (fst tl, set_last_tok (tkind (fst tl)) (snd tl)).

(* ---- scanRegex() ------------------------------------------------------------------- *)
Inductive rx_out : Type :=
| RxErr (msg : bytes) (l : lexer)
| RxOk (rev_chars : bytes) (l : lexer).

Fixpoint regex_loop (src : bytes) (fuel : nat) (chars : bytes) (l : lexer) : lres rx_out :=
  match fuel with
  | O => LFuel
  | S f =>
    let c := ch l in
    if c =? 47 then LOk (RxOk chars l)
    else if c =? 0 then LOk (RxErr ((* didn't find end slash in regex *) [100; 105; 100; 110; 39; 116; 32; 102; 105; 110; 100; 32; 101; 110; 100; 32; 115; 108; 97; 115; 104; 32; 105; 110; 32; 114; 101; 103; 101; 120]) l)
    else if (c =? 13) || (c =? 10) then LOk (RxErr ((* can't have newline in regex *) [99; 97; 110; 39; 116; 32; 104; 97; 118; 101; 32; 110; 101; 119; 108; 105; 110; 101; 32; 105; 110; 32; 114; 101; 103; 101; 120]) l)
    else if c =? 92 then
      dol l1 <- next src l;
      let chars := if negb (ch l1 =? 47) then 92 :: chars else chars in
      dol l2 <- next src l1;
      regex_loop src f (ch l1 :: chars) l2
    else
      dol l1 <- next src l; regex_loop src f (c :: chars) l1
  end.

Definition scan_regex (src : bytes) (fuel : nat) (l0 : lexer) : lres (token * lexer) :=
  dol back <- (if lastTok l0 =? T_DIV then LOk 1
               else if lastTok l0 =? T_DIV_ASSIGN then LOk 2
               else LPanic);          (* panic("ScanRegex should only be called after DIV or DIV_ASSIGN token") *)
  let chars := if back =? 2 then [61] else [] in
  dol r <- regex_loop src fuel chars l0;
  match r with
  | RxErr msg l => LOk (tok_at l T_ILLEGAL msg l)
  | RxOk chars l =>
    dol l <- next src l;
    LOk (mkT (col_add (lpos l0) (- back)) T_REGEX (rev chars) (offset l0 - 1 - back), l)
  end.

Definition ScanRegex (src : bytes) (fuel : nat) (l : lexer) : lres (token * lexer) :=
  dol tl <- scan_regex src fuel l;
  LOk (fst tl, set_last_tok (tkind (fst tl)) (snd tl)).

(* ---- a client: Scan until EOF or ILLEGAL; after a DIV / DIV_ASSIGN token the next decision
   bit says whether the client (the parser's nextRegex) calls ScanRegex ------------------- *)
Definition is_final (t : token) : bool := (tkind t =? T_ILLEGAL) || (tkind t =? T_EOF).
Definition is_div (t : token) : bool := (tkind t =? T_DIV) || (tkind t =? T_DIV_ASSIGN).

(* what the client can observe after each token: HadSpace() and PeekByte() *)
Record obs : Type := mkO { otok : token; ohad : bool; opeek : Z }.
Definition observe (t : token) (l : lexer) : obs := mkO t (hadSpace l) (ch l).

Fixpoint scan_loop (src : bytes) (lf : nat) (fuel : nat) (ds : list bool) (l : lexer) : lres (list obs) :=
  match fuel with
  | O => LFuel
  | S f =>
    dol sl <- Scan src lf l;
    let '(t, l1) := sl in
    if is_final t then LOk [observe t l1]
    else
      let want_regex := match ds with d :: _ => is_div t && d | [] => false end in
      let ds' := if is_div t then tl ds else ds in
      if want_regex then
        dol rl <- ScanRegex src lf l1;
        let '(r, l2) := rl in
        if is_final r then LOk [observe t l1; observe r l2]
        else dol rest <- scan_loop src lf f ds' l2; LOk (observe t l1 :: observe r l2 :: rest)
      else
        dol rest <- scan_loop src lf f ds' l1; LOk (observe t l1 :: rest)
  end.

Definition lex_fuel (src : bytes) : nat := S (S (length src)).

Definition scan_all (src : bytes) (ds : list bool) : lres (list obs) :=
  dol l <- new_lexer src;
  scan_loop src (lex_fuel src) (lex_fuel src) ds l.

(* ---- the specification of positions ----------------------------------------------- *)
(* the bytes after the last LF of s *)
Definition line_tail (s : bytes) : bytes :=
  fold_left (fun acc c => if c =? 10 then [] else acc ++ [c]) s [].
Definition count_lf (s : bytes) : Z := zlen (filter (fun c => c =? 10) s).
Definition count_non_cr (s : bytes) : Z := zlen (filter (fun c => negb (c =? 13)) s).

(* line = 1 + number of LF before the offset;
   column = 1 + number of bytes other than CR between the last LF before the offset and the offset *)
Definition pos_of_offset (src : bytes) (off : Z) : position :=
  let pre := ztake off src in
  (1 + count_lf pre, 1 + count_non_cr (line_tail pre)).

(* ---- goawk.go showSourceLine ------------------------------------------------------- *)
(* bytes.Split(src, "\n") *)
Fixpoint split_lines_aux (s : bytes) (cur : bytes) : list bytes :=
  match s with
  | [] => [rev cur]
  | c :: t => if c =? 10 then rev cur :: split_lines_aux t [] else split_lines_aux t (c :: cur)
  end.
Definition split_lines (s : bytes) : list bytes := split_lines_aux s [].

(* lines[pos.Line-1], then srcLine[:pos.Column-1] (twice); the result is the line and that prefix *)
Definition show_source_line (src : bytes) (p : position) : res (bytes * bytes) :=
  do line <- index (split_lines src) (fst p - 1);
  do pre <- slice line 0 (snd p - 1);
  Ok (line, pre).

(* a position at which the CLI can show the source line: the line exists, the column is within
   the line or just after it *)
Definition valid_pos (src : bytes) (p : position) : Prop :=
  exists line, nth_error (split_lines src) (Z.to_nat (fst p - 1)) = Some line /\
               1 <= fst p /\ 1 <= snd p <= zlen line + 1.
