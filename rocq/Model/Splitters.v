(* Models of the record split functions of goawk (interp/io.go: newScanner, dropCR, dropLF,
   blankLineSplitter.scan, byteSplitter.scan, regexSplitter.scan), of bufio.ScanLines (the
   Scanner's default, used for RS = "\n"), and of the RT default that interp.nextLine writes
   before every Scan ("p.recordTerminator = p.recordSep").  They mirror the code of the
   current tree.  Slices and indexing are the checked [slice]/[index] of Lib/Base.v.

   A raw split function returns  Ok (advance, token, rt)  where token = None is Go's nil token
   and rt = Some t records the write "*s.terminator = t".   Definitions only. *)
From Verif Require Import Lib.Base Lib.Utf8 Lib.Regex Model.Scanner.

Definition raw : Type := (Z * option bytes * option bytes)%type.
Definition rawfn : Type := bytes -> bool -> res raw.

Definition more : res raw := Ok (0, None, None).          (* return 0, nil, nil *)

(* bytes.IndexByte: offset of the first c, or -1 *)
Fixpoint index_byte_from (c : Z) (d : bytes) (i : Z) : Z :=
  match d with
  | [] => -1
  | x :: d' => if x =? c then i else index_byte_from c d' (i + 1)
  end.
Definition index_byte (c : Z) (d : bytes) : Z := index_byte_from c d 0.

(* if len(data) > 0 && data[len(data)-1] == c { return data[:len(data)-1] }; return data *)
Definition drop_last (c : Z) (data : bytes) : res bytes :=
  if 0 <? zlen data then
    do x <- index data (zlen data - 1);
    if x =? c then slice data 0 (zlen data - 1) else Ok data
  else Ok data.
Definition drop_cr : bytes -> res bytes := drop_last 13.
Definition drop_lf : bytes -> res bytes := drop_last 10.

(* bufio.ScanLines *)
Definition scan_lines : rawfn := fun data atEOF =>
  if atEOF && (zlen data =? 0) then more else
  let i := index_byte 10 data in
  if 0 <=? i then
    do s <- slice data 0 i;
    do t <- drop_cr s;
    Ok (i + 1, Some t, None)
  else if atEOF then
    do t <- drop_cr data;
    Ok (zlen data, Some t, None)
  else more.

(* byteSplitter.scan *)
Definition byte_scan (sep : Z) : rawfn := fun data atEOF =>
  if atEOF && (zlen data =? 0) then more else
  let i := index_byte sep data in
  if 0 <=? i then
    do t <- slice data 0 i;
    Ok (i + 1, Some t, None)
  else if atEOF then Ok (zlen data, Some data, None)
  else more.

(* for i < len(data) && (data[i] == '\n' || data[i] == '\r') { i++ }  counted from the head of l *)
Fixpoint skip_nl (l : bytes) : Z :=
  match l with
  | c :: l' => if (c =? 10) || (c =? 13) then 1 + skip_nl l' else 0
  | [] => 0
  end.

(* the main loop of blankLineSplitter.scan over l = data[i:]: Some (end, i) at the first
   '\n' followed by '\n' or by "\r\n", with the newlines after it skipped *)
Fixpoint find_blank (l : bytes) (i : Z) : option (Z * Z) :=
  match l with
  | [] => None
  | c :: l' =>
    if c =? 10 then
      match l' with
      | c1 :: l2 =>
        if c1 =? 10 then Some (i, i + 2 + skip_nl l2)
        else match l2 with
             | c2 :: l3 => if (c1 =? 13) && (c2 =? 10) then Some (i, i + 3 + skip_nl l3)
                           else find_blank l' (i + 1)
             | [] => find_blank l' (i + 1)
             end
      | [] => find_blank l' (i + 1)
      end
    else find_blank l' (i + 1)
  end.

(* blankLineSplitter.scan *)
Definition blank_scan : rawfn := fun data atEOF =>
  if atEOF && (zlen data =? 0) then more else
  let i := skip_nl data in
  if zlen data <=? i then Ok (i, None, None) else      (* return i, nil, nil *)
  let start := i in
  match find_blank (zdrop start data) start with
  | Some (en, i') =>
      if (zlen data <=? i') && negb atEOF then more else   (* if i >= len(data) && !atEOF: request more data *)
      do rt <- slice data en i';
      do s <- slice data start en;
      do t <- drop_cr s;
      Ok (i', Some t, Some rt)
  | None =>
      if atEOF then
        do s <- slice data start (zlen data);
        do s1 <- drop_lf s;
        do tok <- drop_cr s1;
        do rt <- slice data (start + zlen tok) (zlen data);     (* data[start+len(token):] *)
        Ok (zlen data, Some tok, Some rt)
      else more
  end.

(* regexSplitter.scan over the regex oracle  find = s.re.FindIndex *)
Definition regex_scan (find : bytes -> option (Z * Z)) : rawfn := fun data atEOF =>
  if atEOF && (zlen data =? 0) then more else
  let final := if atEOF then Ok (zlen data, Some data, Some []) else more in
  match find data with
  | Some (s, e) =>
      if negb (s =? e) then
        do rt <- slice data s e;
        do t <- slice data 0 s;
        Ok (e, Some t, Some rt)
      else final
  | None => final
  end.

(* A delivered record: ($0, RT).  nextLine sets RT := RS before Scan; the split function
   overwrites it when it says so. *)
Definition record : Type := (bytes * bytes)%type.

Definition to_split (rs : bytes) (f : rawfn) : splitfn unit record := fun st data atEOF =>
  match f data atEOF with
  | Ok (adv, tok, rtw) =>
      SOk adv (option_map (fun t => (t, match rtw with Some r => r | None => rs end)) tok) st
  | _ => SPanic
  end.

(* the same split function observed without RT *)
Definition to_split_rec (f : rawfn) : splitfn unit bytes := fun st data atEOF =>
  match f data atEOF with
  | Ok (adv, tok, _) => SOk adv tok st
  | _ => SPanic
  end.

(* interp.newScanner's choice (CSV/TSV modes are property C08) *)
Definition new_scanner_raw (rs : bytes) (find : bytes -> option (Z * Z)) : rawfn :=
  if bytes_eqb rs [10] then scan_lines
  else match rs with
       | [] => blank_scan
       | [c] => byte_scan c
       | _ => regex_scan find
       end.

Definition goawk_split (rs : bytes) (find : bytes -> option (Z * Z)) : splitfn unit record :=
  to_split rs (new_scanner_raw rs find).

(* setSpecial(RS): for len(RS) <= 1 it recompiles recordSepRegex = QuoteMeta(RS) for a
   possibly active regexSplitter - except when RS is one byte that is not valid UTF-8
   (>= 0x80), which cannot be written as a regex: recordSepRegex is then left as it is *)
Definition rs_keeps_regex (rs : bytes) : bool :=
  match rs with
  | [c] => 128 <=? c
  | _ => false
  end.

(* records of standard input for a fixed RS; executable instance of the regex oracle *)
Definition records (last_eof : bool) (rs : bytes) (r : re) (chunks : list bytes)
  : list record * stop :=
  scan unit record (goawk_split rs (find r)) last_eof tt chunks.

(* RS assigned by the program while a file is being read by an active regexSplitter: the
   splitter dereferences p.recordSepRegex at every call (interp.go setSpecial V_RS recompiles
   it, also for RS of 0 or 1 bytes), and nextLine's RT default is the current RS.  State =
   number of records delivered so far; [find_at n] / [rs_at n] = regex / RS in force after n
   records (assignments happen in actions, i.e. between Scan calls). *)
Definition regex_split_sched (rs_at : nat -> bytes) (find_at : nat -> bytes -> option (Z * Z))
  : splitfn nat record := fun n data atEOF =>
  match regex_scan (find_at n) data atEOF with
  | Ok (adv, tok, rtw) =>
      SOk adv (option_map (fun t => (t, match rtw with Some r => r | None => rs_at n end)) tok)
          (match tok with Some _ => S n | None => n end)
  | _ => SPanic
  end.

(* RS = rs1 (a regex RS) until the action of record k assigns RS = rs2 *)
Definition records_sched (last_eof : bool) (rs1 : bytes) (r1 : re) (k : nat) (rs2 : bytes) (r2 : re)
  (chunks : list bytes) : list record * stop :=
  scan nat record
    (regex_split_sched (fun n => if Nat.ltb n k then rs1 else rs2)
                       (fun n => find (if Nat.ltb n k then r1 else if rs_keeps_regex rs2 then r1 else r2)))
    last_eof O chunks.
