(* C13: model of goawk's output streams.  Definitions only.
   Mirrors interp/io.go (getOutputStream, childWriter, writeOutput, printLine/printArgs/writeCSV,
   flushAll, flushStream, flushWriter, flushOutputAndError, printErrorf,
   closeAll, getInputScannerFile/Pipe), interp/iostream.go (outFileStream,
   outCmdStream, in*Stream, Close, waitExitCode), interp/vm.go (Print, Printf,
   BuiltinClose, BuiltinFflush, BuiltinFflushAll, BuiltinSystem, getline,
   Exit/ExitStatus) and interp/interp.go (executeAll: deferred closeAll, result).
   Outside /repo and modelled from their documented behaviour: bufio.Writer
   (WriteString, Write, Flush; sticky error), os/exec (the goroutine that
   copies a child's standard output into Config.Output when that is not an
   *os.File; Wait's error precedence), the kernel (a child consumes its
   standard input at once; a file is a byte sequence).
   Ghost fields (st_log, st_overlap) record what happened; they never
   influence the computed behaviour.  st_unmod marks histories whose outcome
   the model does not decide (timing between a child and the program). *)
From Verif Require Import Lib.Base.

Definition name := Z.

(* ---- finite maps keyed by name (at most one entry per key) ---- *)
Fixpoint alookup {A} (n : name) (l : list (name * A)) : option A :=
  match l with
  | [] => None
  | (k, v) :: l' => if k =? n then Some v else alookup n l'
  end.
Fixpoint aremove {A} (n : name) (l : list (name * A)) : list (name * A) :=
  match l with
  | [] => []
  | (k, v) :: l' => if k =? n then aremove n l' else (k, v) :: aremove n l'
  end.
Definition aset {A} (n : name) (v : A) (l : list (name * A)) : list (name * A) :=
  (n, v) :: aremove n l.
Definition amem {A} (n : name) (l : list (name * A)) : bool :=
  match alookup n l with Some _ => true | None => false end.

(* contents of a file; a file that does not exist reads as empty when appended to *)
Definition fs_get (fs : list (name * bytes)) (n : name) : bytes :=
  match alookup n fs with Some b => b | None => [] end.
Definition fs_append (fs : list (name * bytes)) (n : name) (b : bytes) :=
  aset n (fs_get fs n ++ b) fs.

(* write(2) on a descriptor without O_APPEND whose offset is off *)
Definition write_at (off : nat) (content data : bytes) : bytes :=
  firstn off content ++ repeat 0 (off - length content)%nat ++ data ++ skipn (off + length data)%nat content.

(* ---- child processes (what a shell command does; a parameter of the model) ---- *)
Inductive wstatus := Exited (e : Z) | Signaled (sg : Z) | CoreDumped (sg : Z) | WaitIOErr.

Record cmdspec := {
  c_sink : option name;  (* file the command appends to (created when it starts) *)
  c_append : bytes;      (* bytes it appends to c_sink when it starts *)
  c_stdout : bytes;      (* bytes it writes to its standard output when it starts *)
  c_echo : bool;         (* copies its standard input to its standard output (cat) *)
  c_drain : bool;        (* reads its standard input to EOF (else writing to it may hit EPIPE) *)
  c_closes : bool;       (* does not drain: closes its standard input first of all, before it creates c_sink
                            (exec 0<&-; : > marker; ...) -- once the marker exists a write to it gets EPIPE *)
  c_exit : wstatus       (* how it ends, after its standard input reaches EOF *)
}.                       (* if it drains, its standard input is appended to c_sink, if any *)

(* iostream.go waitExitCode, with os/exec Cmd.Wait: an error of the copying
   goroutine is reported only if the process itself exited with status 0 *)
Definition wait_result (w : wstatus) (copy_failed : bool) : Z * bool :=
  match w with
  | Exited e => if (e =? 0) && copy_failed then (-1, true) else (e, false)
  | Signaled s => (256 + s, false)
  | CoreDumped s => (512 + s, false)
  | WaitIOErr => (-1, true)
  end.

(* ---- Config.Output ---- *)
Inductive omode :=
| OsFile             (* an *os.File: unbuffered, children write to the descriptor themselves *)
| Unbuf              (* another io.Writer without Flush: unbuffered, children through a copying goroutine *)
| Buf (cap : nat).   (* a *bufio.Writer of that size (also the default, Output = nil) *)

Record env := {
  e_spec : name -> cmdspec;
  e_bad : name -> bool;       (* file names that cannot be opened (missing directory) *)
  e_mode : omode;
  e_fcap : nat                (* outputBufSize of file and command streams *)
}.

(* the writer underneath: accepts sk_limit bytes in total, then fails for ever *)
Record sink := { sk_data : bytes; sk_limit : option nat }.

Definition sink_write (k : sink) (p : bytes) : sink * nat * bool :=
  match sk_limit k with
  | None => ({| sk_data := sk_data k ++ p; sk_limit := None |}, length p, true)
  | Some L =>
      let room := (L - length (sk_data k))%nat in
      if (length p <=? room)%nat
      then ({| sk_data := sk_data k ++ p; sk_limit := Some L |}, length p, true)
      else ({| sk_data := sk_data k ++ firstn room p; sk_limit := Some L |}, room, false)
  end.

(* ---- bufio.Writer over a sink ---- *)
Record bw := { bw_buf : bytes; bw_err : bool }.

(* bufio.Writer.Flush *)
Definition bw_flush (w : bw) (k : sink) : bw * sink * bool :=
  if bw_err w then (w, k, false)
  else match bw_buf w with
       | [] => (w, k, true)
       | _ =>
           match sink_write k (bw_buf w) with
           | (k', n, true) => ({| bw_buf := []; bw_err := false |}, k', true)
           | (k', n, false) => ({| bw_buf := skipn n (bw_buf w); bw_err := true |}, k', false)
           end
       end.

(* the copy loop of WriteString, byte by byte: a byte that arrives
   at a full buffer first flushes it *)
Fixpoint bw_bytes (cap : nat) (w : bw) (k : sink) (p : bytes) : bw * sink * bool :=
  match p with
  | [] => (w, k, true)
  | b :: p' =>
      if (cap <=? length (bw_buf w))%nat then
        match bw_flush w k with
        | (w1, k1, true) => bw_bytes cap {| bw_buf := bw_buf w1 ++ [b]; bw_err := bw_err w1 |} k1 p'
        | (w1, k1, false) => (w1, k1, false)
        end
      else bw_bytes cap {| bw_buf := bw_buf w ++ [b]; bw_err := bw_err w |} k p'
  end.

(* bufio.Writer.WriteString: a writer in error state refuses even the empty string *)
Definition bw_write_string (cap : nat) (w : bw) (k : sink) (p : bytes) : bw * sink * bool :=
  if bw_err w then (w, k, false) else bw_bytes cap w k p.

(* bufio.Writer.Write, which is what os/exec's copying goroutine calls on a
   bufio.Writer Output for each chunk a child has written (interp/io.go
   childWriter hides ReadFrom): data that fits is buffered; otherwise the buffer
   is filled up and flushed, and what still does not fit an empty buffer is
   written straight to the underlying writer *)
Definition bw_direct (w : bw) (k : sink) (p : bytes) : bw * sink * bool :=
  match sink_write k p with
  | (k', _, true) => (w, k', true)
  | (k', _, false) => ({| bw_buf := bw_buf w; bw_err := true |}, k', false)
  end.
Definition bw_write (cap : nat) (w : bw) (k : sink) (p : bytes) : bw * sink * bool :=
  if bw_err w then (w, k, false)
  else
    let avail := (cap - length (bw_buf w))%nat in
    if (length p <=? avail)%nat then ({| bw_buf := bw_buf w ++ p; bw_err := false |}, k, true)
    else match bw_buf w with
         | [] => bw_direct w k p
         | _ =>
             match bw_flush {| bw_buf := bw_buf w ++ firstn avail p; bw_err := false |} k with
             | (w1, k1, true) =>
                 let p' := skipn avail p in
                 if (length p' <=? cap)%nat then ({| bw_buf := p'; bw_err := false |}, k1, true)
                 else bw_direct w1 k1 p'
             | (w1, k1, false) => (w1, k1, false)
             end
         end.

(* buffer of a file or command stream (a bufio.Writer of size cap whose sink
   -- a file, or a pipe to a child that reads everything -- never fails).
   Returns (bytes flushed out, new buffer).  Closed form of the same copy
   loop: the buffer is flushed only when a further byte arrives at a full
   buffer, so after an overflow the last 1..cap bytes stay buffered. *)
Definition buf_bytes (cap : nat) (buf p : bytes) : bytes * bytes :=
  let room := (cap - length buf)%nat in
  if (length p <=? room)%nat then ([], buf ++ p)
  else
    let q := skipn room p in
    let k := ((length q - 1) / cap * cap)%nat in
    (buf ++ firstn room p ++ firstn k q, skipn k q).

(* ---- streams ---- *)
Inductive okind := KFile | KCmd.
Record ostream := {
  os_kind : okind;
  os_off : option nat;  (* KFile opened with > : the descriptor's file offset (None: O_APPEND / pipe) *)
  os_buf : bytes;
  os_cgfail : bool;   (* KCmd: the goroutine copying the child's stdout has stopped with an error *)
  os_active : bool;   (* KCmd: the child has been given something to write to the shared stdout *)
  os_err : bool       (* KCmd: the stream's bufio.Writer has met a write error (EPIPE); sticky *)
}.
Record istream := { is_cmd : bool; is_rest : bytes }.

(* where a print goes: what getOutputStream returns ... *)
Inductive wtarget := TStdout | TStream (n : name).
(* ... and what that is at the moment of the write *)
Inductive wdest := WStdout | WFile (n : name) | WCmd (c : name).

(* what happened, in order of occurrence (newest first) *)
Inductive event :=
| EvOpen (n : name) (k : okind) (trunc : bool)   (* an output stream is created for n *)
| EvWrite (d : wdest) (b : bytes)                (* print/printf hands b to the destination's writer *)
| EvClose (n : name) (input : bool) (code : Z)   (* an open stream is closed (close(n), or closeAll), with the result *)
| EvStart (c : name) (pending : nat) (err : bool)(* a process starts; goawk's stdout buffer holds [pending] bytes *)
| EvChildAppend (t : name) (b : bytes)           (* a child appends b to file t *)
| EvChildOut (b : bytes).                        (* a child writes b to the shared standard output *)

Inductive obs := ORet (v : Z) | OLine (l : bytes).

Record state := {
  st_out : bw;                          (* buffer of Config.Output (Buf mode only) *)
  st_sink : sink;
  st_outs : list (name * ostream);      (* p.outputStreams *)
  st_ins : list (name * istream);       (* p.inputStreams (+ scanners) *)
  st_fs : list (name * bytes);
  st_log : list event;                  (* ghost *)
  st_obs : list obs;                    (* values the program saw (newest first) *)
  st_overlap : bool;                    (* ghost: goawk touched Output while a child's copying goroutine could too *)
  st_unmod : bool;                      (* the outcome depends on timing the model does not decide *)
  st_synced : list name                 (* files the program has waited for (AwaitFile) and seen to exist *)
}.

Definition init_state (fs : list (name * bytes)) (limit : option nat) : state :=
  {| st_out := {| bw_buf := []; bw_err := false |};
     st_sink := {| sk_data := []; sk_limit := limit |};
     st_outs := []; st_ins := []; st_fs := fs; st_log := []; st_obs := [];
     st_overlap := false; st_unmod := false; st_synced := [] |}.

Definition set_out (s : state) (w : bw) (k : sink) : state :=
  {| st_out := w; st_sink := k; st_outs := st_outs s; st_ins := st_ins s; st_fs := st_fs s;
     st_log := st_log s; st_obs := st_obs s; st_overlap := st_overlap s; st_unmod := st_unmod s; st_synced := st_synced s |}.
Definition set_outs (s : state) (o : list (name * ostream)) : state :=
  {| st_out := st_out s; st_sink := st_sink s; st_outs := o; st_ins := st_ins s; st_fs := st_fs s;
     st_log := st_log s; st_obs := st_obs s; st_overlap := st_overlap s; st_unmod := st_unmod s; st_synced := st_synced s |}.
Definition set_ins (s : state) (i : list (name * istream)) : state :=
  {| st_out := st_out s; st_sink := st_sink s; st_outs := st_outs s; st_ins := i; st_fs := st_fs s;
     st_log := st_log s; st_obs := st_obs s; st_overlap := st_overlap s; st_unmod := st_unmod s; st_synced := st_synced s |}.
Definition set_fs (s : state) (fs : list (name * bytes)) : state :=
  {| st_out := st_out s; st_sink := st_sink s; st_outs := st_outs s; st_ins := st_ins s; st_fs := fs;
     st_log := st_log s; st_obs := st_obs s; st_overlap := st_overlap s; st_unmod := st_unmod s; st_synced := st_synced s |}.
Definition add_log (s : state) (e : event) : state :=
  {| st_out := st_out s; st_sink := st_sink s; st_outs := st_outs s; st_ins := st_ins s; st_fs := st_fs s;
     st_log := e :: st_log s; st_obs := st_obs s; st_overlap := st_overlap s; st_unmod := st_unmod s; st_synced := st_synced s |}.
Definition add_obs (s : state) (o : obs) : state :=
  {| st_out := st_out s; st_sink := st_sink s; st_outs := st_outs s; st_ins := st_ins s; st_fs := st_fs s;
     st_log := st_log s; st_obs := o :: st_obs s; st_overlap := st_overlap s; st_unmod := st_unmod s; st_synced := st_synced s |}.
Definition set_overlap (s : state) : state :=
  {| st_out := st_out s; st_sink := st_sink s; st_outs := st_outs s; st_ins := st_ins s; st_fs := st_fs s;
     st_log := st_log s; st_obs := st_obs s; st_overlap := true; st_unmod := st_unmod s; st_synced := st_synced s |}.
Definition add_synced (s : state) (n : name) : state :=
  {| st_out := st_out s; st_sink := st_sink s; st_outs := st_outs s; st_ins := st_ins s; st_fs := st_fs s;
     st_log := st_log s; st_obs := st_obs s; st_overlap := st_overlap s; st_unmod := st_unmod s; st_synced := n :: st_synced s |}.
Definition set_unmod (s : state) : state :=
  {| st_out := st_out s; st_sink := st_sink s; st_outs := st_outs s; st_ins := st_ins s; st_fs := st_fs s;
     st_log := st_log s; st_obs := st_obs s; st_overlap := st_overlap s; st_unmod := true; st_synced := st_synced s |}.

(* ---- goawk's own accesses to p.output ---- *)

Definition is_osfile (m : omode) : bool := match m with OsFile => true | _ => false end.

(* a command stream whose child may be writing to the shared stdout right now *)
Definition any_active (o : list (name * ostream)) : bool :=
  existsb (fun e => os_active (snd e)) o.
(* the main goroutine is about to use p.output.  Ghost: st_overlap records
   that a child's copying goroutine was alive at that moment (two users of one
   io.Writer); if that child may actually be writing, the outcome is a matter
   of timing (st_unmod). *)
(* the main goroutine is about to use p.output.  While a print | cmd child
   that has been given something to write to the shared stdout is alive, the
   goroutine os/exec runs for it may call Output.Write at any moment: two users
   of one io.Writer (ghost st_overlap, unless Output is an *os.File, which the
   child writes to itself), and an order of the two writes that timing decides
   (st_unmod).  A child that writes nothing never makes that goroutine touch
   Output (childWriter). *)
Definition touch (E : env) (s : state) : state :=
  let s := if negb (is_osfile (e_mode E)) && any_active (st_outs s) then set_overlap s else s in
  if any_active (st_outs s) then set_unmod s else s.

(* p.output.(flusher).Flush(), when p.output has a Flush method *)
Definition flush_stdout (E : env) (s : state) : state * bool :=
  match e_mode E with
  | Buf _ =>
      let s := touch E s in
      match bw_flush (st_out s) (st_sink s) with (w, k, ok) => (set_out s w k, ok) end
  | _ => (s, true)
  end.

(* io.go flushOutputAndError (stderr is not modelled) *)
Definition flush_out_err (E : env) (s : state) : state := fst (flush_stdout E s).
(* io.go printErrorf: flushes p.output, then writes the message to stderr *)
Definition print_errorf (E : env) (s : state) : state := fst (flush_stdout E s).

(* the writeOutput calls of one print/printf on p.output, stopping at the first error *)
Fixpoint write_pieces_buf (cap : nat) (w : bw) (k : sink) (ps : list bytes) : bw * sink * bool :=
  match ps with
  | [] => (w, k, true)
  | p :: ps' =>
      match bw_write_string cap w k p with
      | (w1, k1, true) => write_pieces_buf cap w1 k1 ps'
      | r => r
      end
  end.
Fixpoint write_pieces_direct (k : sink) (ps : list bytes) : sink * bool :=
  match ps with
  | [] => (k, true)
  | p :: ps' =>
      match sink_write k p with
      | (k1, _, true) => write_pieces_direct k1 ps'
      | (k1, _, false) => (k1, false)
      end
  end.

Definition write_stdout (E : env) (s : state) (ps : list bytes) : state * bool :=
  let s := add_log (touch E s) (EvWrite WStdout (concat ps)) in
  match e_mode E with
  | Buf cap =>
      match write_pieces_buf cap (st_out s) (st_sink s) ps with (w, k, ok) => (set_out s w k, ok) end
  | _ =>
      match write_pieces_direct (st_sink s) ps with (k, ok) => (set_out s (st_out s) k, ok) end
  end.

(* io.go writeCSV on p.output: the encoded record of print a1, ..., an in CSV/TSV
   output mode.  Unless p.output is a *bufio.Writer of at least 4096 bytes (which
   encoding/csv then writes into directly, piece by piece), the record goes into
   the interpreter's scratch bufio.Writer (4096 bytes, Reset to this destination
   on entry), which hands it on with Write: a full scratch buffer when a further
   byte arrives, the rest in the final Flush before writeCSV returns. *)
Definition scratch_size : nat := Z.to_nat 4096.

Fixpoint chunks_of (fuel n : nat) (p : bytes) : list bytes :=
  match fuel with
  | O => [p]
  | S f => if (length p <=? n)%nat then [p] else firstn n p :: chunks_of f n (skipn n p)
  end.
Definition scratch_chunks (p : bytes) : list bytes := chunks_of (length p) scratch_size p.

(* the Write calls of the scratch writer on a bufio.Writer Output, stopping at the first error *)
Fixpoint write_chunks_buf (cap : nat) (w : bw) (k : sink) (cs : list bytes) : bw * sink * bool :=
  match cs with
  | [] => (w, k, true)
  | c :: cs' =>
      match bw_write cap w k c with
      | (w1, k1, true) => write_chunks_buf cap w1 k1 cs'
      | r => r
      end
  end.

Definition write_stdout_rec (E : env) (s : state) (rec : bytes) : state * bool :=
  match e_mode E with
  | Buf cap =>
      if (cap <? scratch_size)%nat then
        let s := add_log (touch E s) (EvWrite WStdout rec) in
        match write_chunks_buf cap (st_out s) (st_sink s) (scratch_chunks rec) with (w, k, ok) => (set_out s w k, ok) end
      else write_stdout E s [rec]
  | _ => write_stdout E s [rec]   (* a plain writer or file receives the same bytes in the same order *)
  end.

(* ---- child output arriving on the shared standard output ---- *)
(* returns the new state and whether the copy is still healthy *)
Definition child_out (E : env) (s : state) (cgfail : bool) (data : bytes) : state * bool :=
  match data with
  | [] => (s, negb cgfail)
  | _ =>
      let s := add_log s (EvChildOut data) in
      match e_mode E with
      | OsFile =>
          match sink_write (st_sink s) data with (k, _, _) => (set_out s (st_out s) k, true) end
      | Unbuf =>
          if cgfail then (s, false) else
          match sink_write (st_sink s) data with (k, _, ok) => (set_out s (st_out s) k, ok) end
      | Buf cap =>
          if cgfail then (set_unmod s, false) else
          (* another child is writing too: the order of the two is a matter of timing *)
          let s := if any_active (st_outs s) then set_unmod s else s in
          match bw_write cap (st_out s) (st_sink s) data with (w, k, ok) => (set_out s w k, ok) end
      end
  end.

(* the child's stdout reaches EOF: io.Copy returns; nothing is done to Output *)
Definition child_eof (E : env) (s : state) (cgfail : bool) : state * bool := (s, negb cgfail).

(* bytes goawk holds back in its own buffer of standard output *)
Definition stdout_pending (E : env) (s : state) : nat :=
  match e_mode E with Buf _ => length (bw_buf (st_out s)) | _ => 0%nat end.

(* a process is started with Stdout = p.output (system, print | cmd) or with
   Stdout = a pipe read by goawk (cmd | getline); returns the state and
   whether the copy of its stdout has already failed (never, at the start) *)
Definition start_proc (E : env) (s : state) (c : name) : state * bool :=
  let sp := e_spec E c in
  let s := add_log s (EvStart c (stdout_pending E s) (bw_err (st_out s))) in
  let s := match c_sink sp with
           | Some t => add_log (set_fs s (fs_append (st_fs s) t (c_append sp))) (EvChildAppend t (c_append sp))
           | None => s
           end in
  (s, false).

(* ---- file and command streams ---- *)

(* the file a command's standard input ends up in (none if it does not read it) *)
Definition cmd_target (E : env) (c : name) : option name :=
  if c_drain (e_spec E c) then c_sink (e_spec E c) else None.

Definition stream_target (E : env) (n : name) (o : ostream) : option name :=
  match os_kind o with KFile => Some n | KCmd => cmd_target E n end.

(* the program has waited for the marker of command c: c has closed its standard input *)
Definition is_synced (E : env) (s : state) (c : name) : bool :=
  match c_sink (e_spec E c) with
  | Some m => existsb (Z.eqb m) (st_synced s)
  | None => false
  end.

(* [data] leaves the stream's buffer: into the file, or into the child, which
   appends it to its sink and, if it echoes, writes it to the shared stdout *)
Definition deliver (E : env) (s : state) (n : name) (o : ostream) (data : bytes) : state * ostream :=
  match data with
  | [] => (s, o)
  | _ =>
      match os_kind o with
      | KFile =>
          match os_off o with
          | Some off =>
              (set_fs s (aset n (write_at off (fs_get (st_fs s) n) data) (st_fs s)),
               {| os_kind := KFile; os_off := Some (off + length data)%nat; os_buf := os_buf o;
                  os_cgfail := os_cgfail o; os_active := os_active o; os_err := os_err o |})
          | None => (set_fs s (fs_append (st_fs s) n data), o)
          end
      | KCmd =>
          if c_drain (e_spec E n) then
            let s := match c_sink (e_spec E n) with
                     | Some t => set_fs s (fs_append (st_fs s) t data)
                     | None => s
                     end in
            if c_echo (e_spec E n) then
              match child_out E s (os_cgfail o) data with
              | (s', ok) => (s', {| os_kind := KCmd; os_off := None; os_buf := os_buf o; os_cgfail := negb ok;
                                    os_active := true; os_err := os_err o |})
              end
            else (s, o)
          else
            (* the child does not read: the write into the pipe fails with EPIPE -- for certain
               only once the child is known to have closed its standard input *)
            (if is_synced E s n then s else set_unmod s,
             {| os_kind := KCmd; os_off := None; os_buf := os_buf o; os_cgfail := os_cgfail o;
                os_active := os_active o; os_err := true |})
      end
  end.

(* outFileStream/outCmdStream Flush *)
Definition flush_ostream (E : env) (s : state) (n : name) (o : ostream) : state * ostream :=
  match deliver E s n o (os_buf o) with
  | (s', o') => (s', {| os_kind := os_kind o'; os_off := os_off o'; os_buf := []; os_cgfail := os_cgfail o';
                        os_active := os_active o'; os_err := os_err o' |})
  end.

(* io.WriteString on the stream's bufio.Writer.  (A writer in error state takes nothing and
   reports its error -- see step; here the bytes stay in a buffer that can only be dropped.) *)
Definition write_ostream (E : env) (s : state) (n : name) (o : ostream) (p : bytes) : state * ostream :=
  match buf_bytes (e_fcap E) (os_buf o) p with
  | (flushed, buf') =>
      match deliver E s n o flushed with
      | (s', o') => (s', {| os_kind := os_kind o'; os_off := os_off o'; os_buf := buf'; os_cgfail := os_cgfail o';
                            os_active := os_active o'; os_err := os_err o' |})
      end
  end.

(* io.go flushWriter on a stream that is in p.outputStreams: Flush; an error is logged (printErrorf) *)
Definition flush_named (E : env) (s : state) (n : name) (o : ostream) : state :=
  match flush_ostream E s n o with
  | (s', o') =>
      let s2 := set_outs s' (aset n o' (st_outs s')) in
      if os_err o' then print_errorf E s2 else s2
  end.

(* did the Flush of stream n report an error? (the error of a bufio.Writer is sticky) *)
Definition stream_failed (s : state) (n : name) : bool :=
  match alookup n (st_outs s) with Some o => os_err o | None => false end.
Definition any_failed (o : list (name * ostream)) : bool := existsb (fun e => os_err (snd e)) o.

(* io.go flushAll: every output stream, then stdout (flushWriter logs a failure) *)
Fixpoint flush_streams (E : env) (s : state) (names : list name) : state :=
  match names with
  | [] => s
  | n :: ns =>
      match alookup n (st_outs s) with
      | Some o => flush_streams E (flush_named E s n o) ns
      | None => flush_streams E s ns
      end
  end.
Definition flush_all (E : env) (s : state) : state * bool :=
  let s := flush_streams E s (map fst (st_outs s)) in
  match flush_stdout E s with
  | (s', true) => (s', negb (any_failed (st_outs s')))
  | (s', false) => (print_errorf E s', false)
  end.

(* outFileStream.Close / outCmdStream.Close: (state, exit code, error?) *)
Definition close_ostream (E : env) (s : state) (n : name) (o : ostream) : state * Z * bool :=
  match flush_ostream E s n o with
  | (s1, o1) =>
      match os_kind o1 with
      | KFile => (s1, 0, false)
      | KCmd =>
          match child_eof E s1 (os_cgfail o1) with
          | (s2, ok) =>
              (* the exit status comes from Wait whatever Flush said; firstError(waitErr, flushErr, closeErr) *)
              match wait_result (c_exit (e_spec E n)) (negb ok) with (code, err) => (s2, code, err || os_err o1) end
          end
      end
  end.

(* io.go closeAll: input streams, output streams, then Flush of p.output; all errors dropped *)
Fixpoint close_streams (E : env) (s : state) (names : list name) : state :=
  match names with
  | [] => s
  | n :: ns =>
      match alookup n (st_outs s) with
      | Some o =>
          match close_ostream E (set_outs s (aremove n (st_outs s))) n o with
          | (s', code, _) => close_streams E (add_log s' (EvClose n false code)) ns
          end
      | None => close_streams E s ns
      end
  end.
Definition close_all (E : env) (s : state) : state :=
  let s := set_ins s [] in
  let s := close_streams E s (map fst (st_outs s)) in
  flush_out_err E s.

(* ---- operations of a program ---- *)
Inductive redir := RTrunc | RAppend | RPipe.
Inductive dest :=
| DStdout                        (* print ... *)
| DDash                          (* print ... > "-" *)
| DDevStdout                     (* print ... > "/dev/stdout" *)
| DRedir (r : redir) (n : name). (* print ... > n, >> n, | n *)

Inductive op :=
| Print (d : dest) (pieces : list bytes)  (* the strings one print/printf hands to its destination, in order:
                                             printf: the formatted string; print: a1 OFS ... an ORS; in CSV/TSV output mode
                                             print a1..an is ONE string, the encoded record -- io.go writeCSV writes it into
                                             a scratch bufio.Writer over the destination (or straight into a destination that
                                             is a *bufio.Writer of >= 4096 bytes) and flushes that before it returns, so the
                                             destination receives exactly that string; bare print and printf bypass writeCSV *)
| Close (n : name)
| Fflush (n : option name)                (* fflush(n); None = fflush() / fflush("") *)
| System (c : name)
| GetlineFile (n : name)                  (* getline line < n *)
| GetlineCmd (c : name)                   (* c | getline line *)
| GetlineStdin                            (* getline line   (stdin is empty) *)
| Exit (code : Z)
| RuntimeError                            (* any other failing statement, e.g. 1/0 *)
| AwaitFile (n : name)                    (* do r = (getline line < n) while (r < 0): wait until file n exists *)
| PrintRec (d : dest) (rec : bytes).      (* print a1, ..., an in CSV/TSV output mode: the encoded record, through writeCSV *)

Inductive outcome := Running | Halt (code : Z) | Fail.

Definition echo_capable (E : env) (c : name) : bool :=
  c_echo (e_spec E c) || negb (match c_stdout (e_spec E c) with [] => true | _ => false end).
Definition open_echo_cmd (E : env) (o : list (name * ostream)) : bool :=
  existsb (fun e => match os_kind (snd e) with KCmd => echo_capable E (fst e) | KFile => false end) o.

(* io.go getOutputStream *)
Definition get_output_stream (E : env) (s : state) (d : dest) : state * option wtarget :=
  match d with
  | DStdout | DDash => (s, Some TStdout)
  | DDevStdout => (flush_out_err E s, Some TStdout)
  | DRedir r n =>
      if amem n (st_ins s) then (s, None)                  (* can't write to reader stream *)
      else if amem n (st_outs s) then (s, Some (TStream n))
      else
        let s := flush_out_err E s in
        match r with
        | RTrunc | RAppend =>
            if e_bad E n then (s, None)                    (* output redirection error *)
            else
              let trunc := match r with RTrunc => true | _ => false end in
              let fs' := if trunc then aset n [] (st_fs s) else fs_append (st_fs s) n [] in
              let s := add_log (set_fs s fs') (EvOpen n KFile trunc) in
              (set_outs s (aset n {| os_kind := KFile; os_off := (if trunc then Some 0%nat else None); os_buf := []; os_cgfail := false; os_active := false; os_err := false |} (st_outs s)),
               Some (TStream n))
        | RPipe =>
            let s := if (echo_capable E n && open_echo_cmd E (st_outs s))
                        || (negb (c_drain (e_spec E n)) && negb (c_closes (e_spec E n)))
                        || (negb (c_drain (e_spec E n)) && c_closes (e_spec E n) &&
                            match c_sink (e_spec E n) with Some m => amem m (st_fs s) | None => true end)
                     then set_unmod s else s in
            let s := add_log s (EvOpen n KCmd false) in
            match start_proc E s n with
            | (s1, cg) =>
                match child_out E s1 cg (c_stdout (e_spec E n)) with
                | (s2, ok) =>
                    let act := negb (match c_stdout (e_spec E n) with [] => true | _ => false end) in
                    let s2 := if act && any_active (st_outs s2) then set_unmod s2 else s2 in
                    (set_outs s2 (aset n {| os_kind := KCmd; os_off := None; os_buf := []; os_cgfail := negb ok; os_active := act; os_err := false |} (st_outs s2)),
                     Some (TStream n))
                end
            end
        end
  end.

(* bufio.ScanLines on what is left of an input: (line, rest), or None at EOF *)
Fixpoint scan_line (acc rest : bytes) : bytes * bytes :=
  match rest with
  | [] => (acc, [])
  | b :: rest' => if b =? 10 then (acc, rest') else scan_line (acc ++ [b]) rest'
  end.
Definition drop_cr (l : bytes) : bytes :=
  match rev l with
  | 13 :: r => rev r
  | _ => l
  end.

Definition scan_stream (s : state) (n : name) (i : istream) : state :=
  match is_rest i with
  | [] => add_obs s (ORet 0)
  | _ =>
      match scan_line [] (is_rest i) with
      | (line, rest') =>
          add_obs (add_obs (set_ins s (aset n {| is_cmd := is_cmd i; is_rest := rest' |} (st_ins s))) (ORet 1))
                  (OLine (drop_cr line))
      end
  end.

(* a file some live command is (or may be) writing to: what a read returns is a
   matter of timing -- unless it is the marker of a command that writes nothing
   else to it and the program has waited for it *)
Definition sink_busy (E : env) (s : state) (n : name) : bool :=
  existsb (fun e => match os_kind (snd e) with
                    | KCmd => match c_sink (e_spec E (fst e)) with
                              | Some m => (m =? n) && (c_drain (e_spec E (fst e)) || negb (existsb (Z.eqb n) (st_synced s)))
                              | None => false
                              end
                    | KFile => false
                    end) (st_outs s).

(* vm.go getline, redirect LESS *)
Definition getline_file (E : env) (s : state) (n : name) : state * outcome :=
  let s := if sink_busy E s n then set_unmod s else s in
  if amem n (st_outs s) then (s, Fail)                 (* can't read from writer stream *)
  else match alookup n (st_ins s) with
       | Some i => (scan_stream s n i, Running)
       | None =>
           match alookup n (st_fs s) with
           | None => (add_obs s (ORet (-1)), Running)  (* fs.ErrNotExist *)
           | Some content =>
               let i := {| is_cmd := false; is_rest := content |} in
               (scan_stream (set_ins s (aset n i (st_ins s))) n i, Running)
           end
       end.

(* vm.go Print / Printf: getOutputStream, then the write; [wr] is the write on p.output *)
Definition step_print (E : env) (s : state) (d : dest) (ps : list bytes) (wr : state -> state * bool) : state * outcome :=
      match get_output_stream E s d with
      | (s1, None) => (s1, Fail)
      | (s1, Some TStdout) =>
          match wr s1 with
          | (s2, true) => (s2, Running)
          | (s2, false) => (s2, Fail)
          end
      | (s1, Some (TStream n)) =>
          match alookup n (st_outs s1) with
          | Some os =>
              let s1 := add_log s1 (EvWrite (match os_kind os with KFile => WFile n | KCmd => WCmd n end) (concat ps)) in
              match write_ostream E s1 n os (concat ps) with
              | (s2, os') => (set_outs s2 (aset n os' (st_outs s2)), if os_err os' then Fail else Running)
              end
          | None => (s1, Fail) (* unreachable: get_output_stream returned an open stream *)
          end
      end.

Definition step (E : env) (s : state) (o : op) : state * outcome :=
  match o with
  | Print d ps => step_print E s d ps (fun s1 => write_stdout E s1 ps)
  | Close n =>
      match alookup n (st_ins s) with
      | Some i =>
          let s := set_ins s (aremove n (st_ins s)) in
          let '(code, err) := if is_cmd i then wait_result (c_exit (e_spec E n)) false else (0, false) in
          let s := add_log s (EvClose n true code) in
          let s := if err then print_errorf E s else s in
          (add_obs s (ORet code), Running)
      | None =>
          match alookup n (st_outs s) with
          | Some os =>
              match close_ostream E (set_outs s (aremove n (st_outs s))) n os with
              | (s1, code, err) =>
                  let s1 := add_log s1 (EvClose n false code) in
                  let s1 := if err then print_errorf E s1 else s1 in
                  (add_obs s1 (ORet code), Running)
              end
          | None => (add_obs s (ORet (-1)), Running)
          end
      end
  | Fflush (Some n) =>
      match alookup n (st_outs s) with
      | Some os =>
          let s1 := flush_named E s n os in
          (add_obs s1 (ORet (if stream_failed s1 n then -1 else 0)), Running)
      | None => (add_obs (print_errorf E s) (ORet (-1)), Running)
      end
  | Fflush None =>
      match flush_all E s with
      | (s1, ok) => (add_obs s1 (ORet (if ok then 0 else -1)), Running)
      end
  | System c =>
      match flush_all E s with
      | (s1, _) =>
          match start_proc E s1 c with
          | (s2, cg) =>
              match child_out E s2 cg (c_stdout (e_spec E c)) with
              | (s3, ok) =>
                  match child_eof E s3 (negb ok) with
                  | (s4, ok') =>
                      match wait_result (c_exit (e_spec E c)) (negb ok') with
                      | (code, err) =>
                          let s5 := if err then print_errorf E s4 else s4 in
                          (add_obs s5 (ORet code), Running)
                      end
                  end
              end
          end
      end
  | GetlineFile n => getline_file E s n
  | GetlineCmd c =>
      if amem c (st_outs s) then (s, Fail)
      else match alookup c (st_ins s) with
           | Some i => (scan_stream s c i, Running)
           | None =>
               let s := flush_out_err E s in
               match start_proc E s c with
               | (s1, _) =>
                   let i := {| is_cmd := true; is_rest := c_stdout (e_spec E c) |} in
                   (scan_stream (set_ins s1 (aset c i (st_ins s1))) c i, Running)
               end
           end
  | GetlineStdin => (add_obs (flush_out_err E s) (ORet 0), Running)
  | Exit code => (s, Halt code)
  | RuntimeError => (s, Fail)
  | AwaitFile n =>
      if amem n (st_outs s) then (s, Fail)
      else if negb (amem n (st_ins s)) && negb (amem n (st_fs s)) then (set_unmod s, Running)  (* never returns *)
      else getline_file E (add_synced s n) n
  | PrintRec d rec => step_print E s d [rec] (fun s1 => write_stdout_rec E s1 rec)
  end.

Inductive result := RStatus (code : Z) | RError.

(* interp.go executeAll for a program that is one BEGIN block: run the
   statements until exit or an error, then the deferred closeAll *)
Fixpoint exec (E : env) (s : state) (ops : list op) : state * result :=
  match ops with
  | [] => (s, RStatus 0)
  | o :: ops' =>
      match step E s o with
      | (s', Running) => exec E s' ops'
      | (s', Halt c) => (s', RStatus c)
      | (s', Fail) => (s', RError)
      end
  end.

Definition run (E : env) (s : state) (ops : list op) : state * result :=
  match exec E s ops with (s', r) => (close_all E s', r) end.

(* newexecute.go Execute on a reused Interpreter: resetCore empties the stream
   tables (and scanners), setExecuteConfig installs the new Output; the file
   system is what the earlier runs left.  The ghost log and the observations
   start again. *)
Definition reset_core (s : state) (limit : option nat) : state :=
  {| st_out := {| bw_buf := []; bw_err := false |};
     st_sink := {| sk_data := []; sk_limit := limit |};
     st_outs := []; st_ins := []; st_fs := st_fs s; st_log := []; st_obs := [];
     st_overlap := false; st_unmod := st_unmod s; st_synced := [] |}.

Fixpoint run_many (E : env) (s : state) (limit : option nat) (progs : list (list op)) : list (state * result) :=
  match progs with
  | [] => []
  | ops :: rest =>
      match run E s ops with
      | (s', r) => (s', r) :: run_many E (reset_core s' limit) limit rest
      end
  end.
