(* C02: the decoder of Model/Decode.v inverts the encoder on the opcode and operand words,
   and its opcode table covers exactly the opcodes of the repository. *)
From Coq Require Import String ZifyBool.
From Verif Require Import Lib.Base Model.Ast Model.Instr Model.Compiler Model.Encode Model.Decode Gen.Opcodes.

Open Scope Z_scope.
Open Scope list_scope.

(* ---- the table is complete and unambiguous (finite check over Gen/Opcodes.v) ---- *)

Fixpoint zmem (x : Z) (l : list Z) : bool :=
  match l with [] => false | y :: t => (x =? y) || zmem x t end.
Fixpoint znodup (l : list Z) : bool :=
  match l with [] => true | x :: t => negb (zmem x t) && znodup t end.

(* every opcode name of internal/compiler/opcodes.go except the EndOpcode sentinel has an
   entry; entries are distinct and none is the "unknown name" number -1 *)
Definition op_tab_ok : bool :=
  forallb (fun n => zmem (opn n) op_numbers) (removelast opcode_names) &&
  (Nat.eqb (length op_tab) (length (removelast opcode_names))) &&
  znodup op_numbers && forallb (fun k => 0 <=? k) op_numbers &&
  forallb (fun kv => 0 <=? fst kv) redir_tab && forallb (fun kv => 0 <=? fst kv) aug_tab &&
  forallb (fun kv => 0 <=? fst kv) builtin_tab &&
  znodup (map fst redir_tab) && znodup (map fst aug_tab) && znodup (map fst builtin_tab) &&
  (Nat.eqb (length builtin_tab) (length builtinop_names)) && (Nat.eqb (length aug_tab) (length augop_names)).

Lemma op_tab_complete : op_tab_ok = true.
Proof. vm_compute. reflexivity. Qed.

(* ---- one instruction ---- *)

Lemma dec_pairs_enc : forall (arrs : list (scope * Z)) r,
  dec_pairs (length arrs) (flat_map (fun a => [scope_num (fst a); snd a]) arrs ++ r) = Some (arrs, r).
Proof.
  induction arrs as [|[sc i] arrs IH]; intros r; cbn [length dec_pairs flat_map app fst snd].
  - reflexivity.
  - rewrite IH. destruct sc; reflexivity.
Qed.

Lemma dec_instr_enc i rest : encodable i = true -> dec_instr (enc_raw_instr i ++ rest) = Some (i, rest).
Proof.
  intros He.
  destruct i; cbn [encodable] in He;
    try match goal with s : bytes |- _ => destruct s as [|k [|? ?]]; try discriminate He end;
    try (destruct sc; try discriminate He);
    try (destruct vsc; destruct asc);
    try match goal with a : arith |- _ => destruct a end;
    try match goal with c : cmp |- _ => destruct c end;
    try match goal with b : builtin |- _ => destruct b end;
    try match goal with b : bool |- _ => destruct b end;
    try match goal with r : redir |- _ => destruct r end;
    try reflexivity.
  (* CallUser *)
  unfold enc_raw_instr. cbn [enc_instr fst]. rewrite <- app_assoc.
  change (dec_instr (opn "CallUser" :: fi :: zlen arrs ::
                       flat_map (fun a => [scope_num (fst a); snd a]) arrs ++ rest) = Some (ICallUser fi arrs, rest)).
  unfold dec_instr. change (zassoc op_tab (opn "CallUser")) with (Some KCallUser).
  cbv beta iota. unfold zlen. destruct (Z.of_nat (length arrs) <? 0) eqn:E; [lia|].
  rewrite Nat2Z.id, dec_pairs_enc. reflexivity.
Qed.

(* ---- code ---- *)

Lemma enc_raw_instr_nonempty i : (1 <= length (enc_raw_instr i))%nat.
Proof.
  destruct i; cbn; try lia.
  all: try (destruct sc; cbn; lia).
Qed.

Lemma dec_go_enc : forall c fuel, (length (enc_raw c) <= fuel)%nat -> forallb encodable c = true ->
  dec_go fuel (enc_raw c) = Some c.
Proof.
  induction c as [|i c IH]; intros fuel Hl He.
  - destruct fuel; reflexivity.
  - cbn [forallb] in He. apply andb_true_iff in He as [Hi Hc].
    unfold enc_raw in *. cbn [flat_map] in *. rewrite app_length in Hl.
    pose proof (enc_raw_instr_nonempty i) as Hn.
    destruct fuel as [|fuel]; [lia|].
    cbn [dec_go]. destruct (enc_raw_instr i ++ flat_map enc_raw_instr c) as [|w ws] eqn:Ew.
    { apply (f_equal (@length Z)) in Ew. rewrite app_length in Ew. cbn [length] in Ew. lia. }
    rewrite <- Ew. rewrite (dec_instr_enc i _ Hi). rewrite IH; [reflexivity|lia|exact Hc].
Qed.

Theorem decode_enc_raw c : forallb encodable c = true -> decode (enc_raw c) = Some c.
Proof. intros He. unfold decode. apply dec_go_enc; [lia|exact He]. Qed.

(* ---- the words Model/Encode.v emits are the plain encoding of the code with every constant
        replaced by its table index ---- *)

Definition abs_instr (p : pools) (i : instr) : instr :=
  match i with
  | INum b => INum (fst (num_index p b))
  | IStr s => IStr [fst (str_index p s)]
  | IFieldByNameStr s => IFieldByNameStr [fst (str_index p s)]
  | IRegex s => IRegex [fst (regex_index p s)]
  | _ => i
  end.

Fixpoint abs_code (p : pools) (c : code) : code :=
  match c with
  | [] => []
  | i :: c' => abs_instr p i :: abs_code (snd (enc_instr p i)) c'
  end.

Lemma enc_instr_abs p i : fst (enc_instr p i) = enc_raw_instr (abs_instr p i).
Proof.
  destruct i; try reflexivity; cbn [enc_instr abs_instr enc_raw_instr const_idx].
  - destruct (num_index p bits); reflexivity.
  - destruct (str_index p s); reflexivity.
  - destruct (str_index p s); reflexivity.
  - destruct (regex_index p r); reflexivity.
Qed.

Lemma enc_code_abs : forall c p, fst (enc_code p c) = enc_raw (abs_code p c).
Proof.
  induction c as [|i c IH]; intros p; cbn [enc_code abs_code]; [reflexivity|].
  pose proof (enc_instr_abs p i) as Hi.
  destruct (enc_instr p i) as [w p1] eqn:Ei. cbn [fst snd] in *.
  specialize (IH p1). destruct (enc_code p1 c) as [ws p2]. cbn [fst] in *.
  unfold enc_raw in *. cbn [flat_map]. rewrite Hi, IH. reflexivity.
Qed.

(* scopes that have an opcode *)
Definition scopes_encodable (i : instr) : bool :=
  match i with
  | IArray sc _ | IIn sc _ | IAssignArray sc _ | IIncrArray sc _ _ | IAugArray sc _ _ =>
      match sc with SSpecial => false | _ => true end
  | _ => true
  end.

Lemma abs_encodable p i : scopes_encodable i = true -> encodable (abs_instr p i) = true.
Proof. destruct i; cbn; auto. Qed.

Lemma abs_code_encodable : forall c p, forallb scopes_encodable c = true -> forallb encodable (abs_code p c) = true.
Proof.
  induction c as [|i c IH]; intros p H; cbn [abs_code forallb] in *; [reflexivity|].
  apply andb_true_iff in H as [Hi Hc]. rewrite abs_encodable by exact Hi. cbn [andb]. apply IH. exact Hc.
Qed.

(* decode inverts Model/Encode.v: the words of a code list decode to that list with the
   constants replaced by their indexes *)
Theorem decode_enc_code p c :
  forallb scopes_encodable c = true -> decode (fst (enc_code p c)) = Some (abs_code p c).
Proof. intros H. rewrite enc_code_abs. apply decode_enc_raw. apply abs_code_encodable. exact H. Qed.
