(* C11: the theorems instantiated for the script machine (the extracted model that the
   correspondence check runs): scripts without ARGV/ARGC edits and without getline <"-". *)
From Verif Require Import Lib.Base Model.Input Proofs.Input Proofs.InputLift Proofs.InputHist Proofs.InputCtl Proofs.InputMain.

Definition src_ok (sr : src) : bool :=
  match sr with SFile f => negb (bytes_eqb f b_dash) | _ => true end.

Fixpoint clean_stmt (s : stmt) : bool :=
  match s with
  | SSetArgc _ | SSetArgv _ _ | SDelArgv _ => false
  | SGetline sr _ => src_ok sr
  | SWhileGet sr _ b => src_ok sr && forallb clean_stmt b
  | SWhileTest sr _ b => src_ok sr && forallb clean_stmt b
  | SIf _ a b => forallb clean_stmt a && forallb clean_stmt b
  | SRepeat _ b => forallb clean_stmt b
  | _ => true
  end.

Definition clean_block (b : list stmt) : bool := forallb clean_stmt b.

Definition clean_rule (r : srule) : bool :=
  (match sr_pat r with
   | SPNone => true
   | SPExpr q => clean_block (p_pre q)
   | SPRange q1 q2 => clean_block (p_pre q1) && clean_block (p_pre q2)
   end) &&
  (match sr_body r with Some b => clean_block b | None => true end).

Definition clean_prog (p : sprog) : bool :=
  clean_block (sp_begin p) && forallb clean_rule (sp_rules p) && clean_block (sp_end p) &&
  forallb (fun f => clean_block (snd f)) (sp_funcs p).

Lemma clean_app a b : clean_block (a ++ b) = clean_block a && clean_block b.
Proof. unfold clean_block. apply forallb_app. Qed.

Lemma src_ok_neutral sr tg : src_ok sr = true -> neutral (RGetline sr tg).
Proof. destruct sr; cbn; try tauto. intros H. apply negb_true_iff in H. exact H. Qed.

Lemma sstep_clean p : clean_prog p = true -> forall k s,
  clean_block k = true -> neutral (fst (sstep p k s)) /\ clean_block (snd (sstep p k s)) = true.
Proof.
  intros Hp k s Hk. destruct k as [|x k]; [cbn; tauto|].
  change (clean_block (x :: k)) with (clean_stmt x && clean_block k) in Hk.
  apply andb_true_iff in Hk as [Hx Hk].
  destruct x; cbn [sstep fst snd clean_stmt] in *; try discriminate; try (split; [exact I|assumption]);
    try (split; [exact I|reflexivity]).
  - split; [apply (src_ok_neutral sr tg Hx)|exact Hk].
  - apply andb_true_iff in Hx as [Ha Hb]. split; [exact I|].
    destruct (eval_cond c s); rewrite clean_app; apply andb_true_iff; split; assumption.
  - apply andb_true_iff in Hx as [Hs Hb]. split; [apply (src_ok_neutral sr tg Hs)|].
    change (clean_block (SWhileTest sr tg body :: k)) with (clean_stmt (SWhileTest sr tg body) && clean_block k).
    cbn [clean_stmt]. rewrite Hs, Hb, Hk. reflexivity.
  - apply andb_true_iff in Hx as [Hs Hb]. split; [exact I|].
    destruct (0 <? ret s); [|exact Hk].
    rewrite clean_app. pose proof Hb as Hb'. change (clean_block body = true) in Hb'. rewrite Hb'. cbn [andb]. change (clean_block (SWhileGet sr tg body :: k)) with (clean_stmt (SWhileGet sr tg body) && clean_block k).
    cbn [clean_stmt]. rewrite Hs, Hb, Hk. reflexivity.
  - split; [exact I|]. destruct (n <=? 0); [exact Hk|].
    rewrite clean_app. pose proof Hx as Hx'. change (clean_block body = true) in Hx'. rewrite Hx'. cbn [andb]. change (clean_block (SRepeat (n - 1) body :: k)) with (clean_stmt (SRepeat (n - 1) body) && clean_block k).
    cbn [clean_stmt]. rewrite Hx, Hk. reflexivity.
  - destruct (nth_error (sp_funcs p) f) as [[loc body]|] eqn:Hf; cbn [fst snd neutral]; [|split; [exact I|reflexivity]].
    split; [exact I|]. rewrite clean_app, Hk, andb_true_r.
    unfold clean_prog in Hp. apply andb_true_iff in Hp as [_ Hfs].
    rewrite forallb_forall in Hfs. apply (Hfs (loc, body)). eapply nth_error_In; exact Hf.
Qed.

Lemma senter_clean p : clean_prog p = true -> forall b k, clean_block k = true -> clean_block (senter p b k) = true.
Proof.
  intros Hp b k _. unfold clean_prog in Hp.
  apply andb_true_iff in Hp as [Hp Hfs]. apply andb_true_iff in Hp as [Hp He]. apply andb_true_iff in Hp as [Hb Hr].
  rewrite forallb_forall in Hr.
  destruct b as [| |i second|i]; cbn [senter]; try assumption.
  - destruct (nth_error (sp_rules p) i) as [r|] eqn:Hi; [|reflexivity].
    apply nth_error_In in Hi. apply Hr in Hi. unfold clean_rule in Hi. apply andb_true_iff in Hi as [Hpat _].
    destruct (sr_pat r) as [|q|q1 q2]; [reflexivity| |].
    + unfold pat_code. rewrite clean_app, Hpat. reflexivity.
    + apply andb_true_iff in Hpat as [H1 H2]. unfold pat_code. destruct second; rewrite clean_app, ?H1, ?H2; reflexivity.
  - destruct (nth_error (sp_rules p) i) as [r|] eqn:Hi; [|reflexivity].
    apply nth_error_In in Hi. apply Hr in Hi. unfold clean_rule in Hi. apply andb_true_iff in Hi as [_ Hbody].
    destruct (sr_body r); [exact Hbody|reflexivity].
Qed.

(* main_input_order for the scripts the correspondence check runs *)
Theorem script_main_input_order e p fuel args sin k' s' :
  clean_prog p = true ->
  script_exec e p fuel args sin = FOk k' s' \/ script_exec e p fuel args sin = FErr k' s' ->
  pev_of (hist s') ++ plan e s' = plan_ops e args false sin.
Proof.
  intros Hp H. unfold script_exec in H.
  assert (Hn : forall u s, clean_block u = true -> neutral (fst (sstep p u s)) /\ clean_block (snd (sstep p u s)) = true).
  { intros u s Hu. apply sstep_clean; assumption. }
  assert (He : forall b u, clean_block u = true -> clean_block (senter p b u) = true).
  { intros b u Hu. apply senter_clean; assumption. }
  exact (main_input_order (list stmt) (sstep p) (senter p) e (fun k => clean_block k = true) fuel _ _ [] _ args sin k' s'
           Hn He eq_refl H).
Qed.

Theorem script_counters e p fuel args sin k' s' :
  script_exec e p fuel args sin = FOk k' s' \/ script_exec e p fuel args sin = FErr k' s' ->
  obs_of s' = fold_left (obs_ev e) (hist s') (0, 0, [], 0, []).
Proof. intros H. unfold script_exec in H. eapply counters_of_history. exact H. Qed.
