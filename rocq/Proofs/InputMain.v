(* C11: the whole-run theorems in their final shape. *)
From Verif Require Import Lib.Base Model.Input Proofs.Input Proofs.InputLift Proofs.InputHist Proofs.InputCtl.

Definition recs_of (l : list pev) : list (bytes * record) :=
  flat_map (fun p => match p with PRec f r => [(f, r)] | _ => [] end) l.

(* the (FILENAME, record) pairs nextLine handed out, oldest first *)
Definition delivered (l : list ev) : list (bytes * record) :=
  flat_map (fun v => match v with EvRec f r => [(f, r)] | _ => [] end) l.

Definition no_skip (l : list ev) : Prop := forall f rs, ~ In (EvSkip f rs) l.

Lemma recs_of_app a b : recs_of (a ++ b) = recs_of a ++ recs_of b.
Proof. unfold recs_of. apply flat_map_app. Qed.

Lemma recs_of_pev_no_skip : forall l, no_skip l -> recs_of (pev_of l) = delivered l.
Proof.
  induction l as [|v l IH]; intros H; [reflexivity|].
  assert (Hl : no_skip l) by (intros f rs Hin; apply (H f rs); right; exact Hin).
  change (pev_of (v :: l)) with (pev_of1 v ++ pev_of l). rewrite recs_of_app, IH by exact Hl.
  destruct v; cbn; try reflexivity. exfalso. eapply H. left. reflexivity.
Qed.

Section Main.
  Variable U : Type.
  Variable step : U -> st -> req * U.
  Variable enter : blk -> U -> U.
  Variable e : env.
  Variable G : U -> Prop.

  (* main_input_order / assign_operands_timing: for a program that leaves ARGV, ARGC and the stdin
     file alone, at the end of any run (normal, exit, or error) the main-input events of the history,
     followed by what the current state would still deliver, are the stream specified by the operand list *)
  Theorem main_input_order fuel rules has_end u a0 args sin u' s' :
    (forall u s, G u -> neutral (fst (step u s)) /\ G (snd (step u s))) ->
    (forall b u, G u -> G (enter b u)) -> G u ->
    exec_all U step enter e fuel rules has_end u (init_st a0 args sin) = FOk u' s' \/
    exec_all U step enter e fuel rules has_end u (init_st a0 args sin) = FErr u' s' ->
    pev_of (hist s') ++ plan e s' = plan_ops e args false sin.
  Proof.
    intros Hn He HG H.
    pose proof (exec_all_advances U step enter e G Hn He fuel rules has_end u (init_st a0 args sin) HG) as HA.
    assert (HR : advances e (init_st a0 args sin) s').
    { destruct H as [H|H]; rewrite H in HA; apply HA. }
    destruct HR as (new & HL & HP). unfold hist. rewrite HL. cbn [init_st log]. rewrite app_nil_r.
    rewrite HP. apply plan_init.
  Qed.

  (* if the main loop runs to the end of the input, its main-input events are exactly the plan of the
     state it started from; without nextfile the records delivered are exactly the records of the plan *)
  Theorem main_loop_complete fuel n rules flags u s u' s' fl' :
    (forall u s, G u -> neutral (fst (step u s)) /\ G (snd (step u s))) ->
    (forall b u, G u -> G (enter b u)) -> G u ->
    main_loop U step enter e fuel n rules flags u s = LCont u' s' fl' ->
    exists new, log s' = new ++ log s /\ pev_of (rev new) = plan e s /\
                (no_skip new -> delivered (rev new) = recs_of (plan e s)).
  Proof.
    intros Hn He HG H.
    pose proof (main_loop_advances U step enter e G Hn He fuel n rules flags u s HG) as HA. rewrite H in HA.
    destruct HA as ((new & HL & HP) & _).
    apply main_loop_exhausts in H. rewrite H, app_nil_r in HP.
    exists new. split; [exact HL|]. split; [exact HP|].
    intros Hs. rewrite <- HP. symmetry. apply recs_of_pev_no_skip.
    intros f rs Hin. apply (Hs f rs). apply in_rev. exact Hin.
  Qed.

  (* counters: NR, FNR, FILENAME, the exit status and the variables at the end of any run of any
     program are the fold of the history *)
  Theorem counters_of_history fuel rules has_end u a0 args sin u' s' :
    exec_all U step enter e fuel rules has_end u (init_st a0 args sin) = FOk u' s' \/
    exec_all U step enter e fuel rules has_end u (init_st a0 args sin) = FErr u' s' ->
    obs_of s' = fold_left (obs_ev e) (hist s') (0, 0, [], 0, []).
  Proof.
    intros H.
    pose proof (exec_all_tracks U step enter e fuel rules has_end u (init_st a0 args sin)) as HA.
    assert (HR : tracks e (init_st a0 args sin) s').
    { destruct H as [H|H]; rewrite H in HA; apply HA. }
    destruct HR as (new & HL & HO). unfold hist. rewrite HL. cbn [init_st log]. rewrite app_nil_r. exact HO.
  Qed.

  (* NR = NR0 + number of main-input records taken, over any stretch of execution that does not assign NR *)
  Theorem nr_counts_records fuel u s o u' s' :
    run U step e fuel u s = ROk o u' s' ->
    exists new, log s' = new ++ log s /\
      (forallb (fun v => negb (writes_nr v)) new = true -> NR s' = NR s + count_recs new).
  Proof. intros H. apply (run_tracks U step e) in H. apply tracks_nr_count in H. exact H. Qed.

  (* exit stops the block at once: nothing of the program runs after the exit statement *)
  Lemma run_exit_stops fuel u s n u' :
    step u s = (RDone (OExit n), u') ->
    exists s', run U step e (S fuel) u s = ROk (OExit n) u' s' /\
               status s' = match n with Some k => k | None => status s end /\ out s' = out s /\ NR s' = NR s.
  Proof.
    intros H. cbn [run]. rewrite H. destruct n as [k|]; eexists; (split; [reflexivity|]); sst; repeat split; reflexivity.
  Qed.
End Main.

(* FNR counts the records since the last file switch *)
Definition writes_fnr (v : ev) : bool :=
  match v with
  | EvSetFNR _ | EvSetFile _ => true
  | EvAssign n _ => negb (bytes_eqb n b_NR) && bytes_eqb n b_FNR
  | _ => false
  end.

Lemma fnr_fold_count : forall l x,
  forallb (fun v => negb (writes_fnr v)) l = true -> fold_left fnr_ev l x = x + count_recs l.
Proof.
  unfold count_recs. induction l as [|v l IH]; intros x H; cbn [fold_left filter].
  - rewrite zlen_nil. lia.
  - cbn [forallb] in H. apply andb_true_iff in H as [Hv Hl]. rewrite IH by exact Hl.
    destruct v; cbn [fnr_ev is_rec writes_fnr] in *; rewrite ?zlen_cons; try lia; try discriminate.
    destruct (bytes_eqb name b_NR); [lia|]. destruct (bytes_eqb name b_FNR); [discriminate|lia].
Qed.

Lemma fnr_since_file_switch l1 name l2 x :
  forallb (fun v => negb (writes_fnr v)) l2 = true ->
  fold_left fnr_ev (l1 ++ EvSetFile name :: l2) x = count_recs l2.
Proof.
  intros H. rewrite fold_left_app. cbn [fold_left fnr_ev]. rewrite fnr_fold_count by exact H. lia.
Qed.

(* ---------- the operand walk specification, equation by equation ---------- *)

Lemma plan_ops_end e sin : plan_ops e [] false sin = PFile b_dash :: map (PRec b_dash) sin /\ plan_ops e [] true sin = [].
Proof. split; reflexivity. Qed.

Lemma plan_ops_empty e ops hd sin : plan_ops e ([] :: ops) hd sin = plan_ops e ops hd sin.
Proof. cbn [plan_ops parse_assign]. destruct (noargvars e); reflexivity. Qed.

Lemma plan_ops_assign e name ops hd sin v raw val :
  noargvars e = false -> parse_assign name = Some (v, raw) -> operand_value raw = Some val -> assign_ok v val = true ->
  plan_ops e (name :: ops) hd sin = PAssign v val :: plan_ops e ops hd sin.
Proof. intros H1 H2 H3 H4. cbn [plan_ops]. rewrite H1, H2, H3, H4. reflexivity. Qed.

Lemma plan_ops_dash e ops hd sin :
  plan_ops e (b_dash :: ops) hd sin = PFile b_dash :: map (PRec b_dash) sin ++ plan_ops e ops true [].
Proof. cbn [plan_ops]. destruct (noargvars e); reflexivity. Qed.

Lemma plan_ops_file e name ops hd sin recs :
  (if noargvars e then None else parse_assign name) = None -> name <> [] -> bytes_eqb name b_dash = false ->
  blookup (fs e) name = Some recs ->
  plan_ops e (name :: ops) hd sin = PFile name :: map (PRec name) recs ++ plan_ops e ops true sin.
Proof.
  intros H1 H2 H3 H4. cbn [plan_ops]. rewrite H1. destruct name; [contradiction|]. rewrite H3, H4. reflexivity.
Qed.

Lemma plan_ops_nofile e name ops hd sin :
  (if noargvars e then None else parse_assign name) = None -> name <> [] -> bytes_eqb name b_dash = false ->
  blookup (fs e) name = None ->
  plan_ops e (name :: ops) hd sin = PBad name :: plan_ops e ops hd sin.
Proof.
  intros H1 H2 H3 H4. cbn [plan_ops]. rewrite H1. destruct name; [contradiction|]. rewrite H3, H4. reflexivity.
Qed.

(* stdin iff no file operand: if every operand is empty or a (modelled) assignment, the stream is
   the assignments in order followed by standard input *)
Definition skipped_operand (e : env) (op : bytes) : Prop :=
  op = [] \/
  exists v raw val, noargvars e = false /\ parse_assign op = Some (v, raw) /\ operand_value raw = Some val /\ assign_ok v val = true.

Definition is_assign (p : pev) : Prop := match p with PAssign _ _ => True | _ => False end.

Lemma plan_ops_no_file_operand e : forall ops sin,
  Forall (skipped_operand e) ops ->
  exists assigns, Forall is_assign assigns /\
    plan_ops e ops false sin = assigns ++ PFile b_dash :: map (PRec b_dash) sin.
Proof.
  induction ops as [|op ops IH]; intros sin H.
  - exists []. split; [constructor|reflexivity].
  - inversion H as [|x l Hop Hops]; subst. destruct (IH sin Hops) as (assigns & HA & HP).
    destruct Hop as [->|(v & raw & val & H1 & H2 & H3 & H4)].
    + exists assigns. split; [exact HA|]. rewrite plan_ops_empty. exact HP.
    + exists (PAssign v val :: assigns). split; [constructor; [exact I|exact HA]|].
      rewrite (plan_ops_assign e op ops false sin v raw val H1 H2 H3 H4), HP. reflexivity.
Qed.
