(* C08: what csv.Writer.Write produces for a row is read back by csvSplitter.scan as that
   row (fields and $0), for every valid separator. *)
From Verif Require Import Lib.Base Lib.Utf8 Model.Csv Proofs.CsvBase Proofs.CsvFuel.
From Coq Require Import ZifyBool.

(* the first line of a stream (with its newline if it has one) and what follows *)
Definition fl (X : bytes) : bytes * bytes :=
  match cut_nl X with Some (l, d) => (l, d) | None => (X, []) end.
Definition fl1 X := fst (fl X).
Definition fl2 X := snd (fl X).

Lemma fl_nl X : fl (10 :: X) = ([10], X).
Proof. reflexivity. Qed.

Lemma fl_cons x X : x <> 10 -> fl (x :: X) = (x :: fl1 X, fl2 X).
Proof.
  intros H. unfold fl1, fl2, fl. rewrite cut_nl_cons by assumption.
  destruct (cut_nl X) as [[l d]|]; reflexivity.
Qed.

Lemma fl_app u X : nob 10 u -> fl (u ++ X) = (u ++ fl1 X, fl2 X).
Proof.
  intros H. unfold fl1, fl2, fl. rewrite cut_nl_app by assumption.
  destruct (cut_nl X) as [[l d]|]; reflexivity.
Qed.

Lemma fl1_cons x X : x <> 10 -> fl1 (x :: X) = x :: fl1 X.
Proof. intros H. unfold fl1 at 1. rewrite fl_cons by assumption. reflexivity. Qed.
Lemma fl2_cons x X : x <> 10 -> fl2 (x :: X) = fl2 X.
Proof. intros H. unfold fl2 at 1. rewrite fl_cons by assumption. reflexivity. Qed.
Lemma fl1_app u X : nob 10 u -> fl1 (u ++ X) = u ++ fl1 X.
Proof. intros H. unfold fl1 at 1. rewrite fl_app by assumption. reflexivity. Qed.
Lemma fl2_app u X : nob 10 u -> fl2 (u ++ X) = fl2 X.
Proof. intros H. unfold fl2 at 1. rewrite fl_app by assumption. reflexivity. Qed.

Lemma fl_join X : fl1 X ++ fl2 X = X.
Proof.
  unfold fl1, fl2, fl. destruct (cut_nl X) as [[l d]|] eqn:E; cbn [fst snd].
  - destruct (cut_nl_some_inv _ _ _ E) as (u & _ & _ & ->). reflexivity.
  - apply app_nil_r.
Qed.

Lemma fl1_nonempty X : X <> [] -> fl1 X <> [].
Proof.
  intros H. unfold fl1, fl. destruct (cut_nl X) as [[l d]|] eqn:E; cbn [fst]; [|exact H].
  destruct (cut_nl_some_inv _ _ _ E) as (u & -> & _ & _). destruct u; discriminate.
Qed.

(* ---- what "the writer did not quote this field" implies -------------------- *)

Lemma existsb_false {A} (p : A -> bool) l : existsb p l = false -> Forall (fun x => p x = false) l.
Proof.
  induction l as [|x l IH]; intros H; [constructor|]. cbn [existsb] in H.
  apply orb_false_iff in H as [H1 H2]. constructor; auto.
Qed.

Lemma has_sub_single b f : nob b f -> has_sub [b] f = false.
Proof.
  induction f as [|x f IH]; intros H; [reflexivity|]. apply nob_cons in H as [Hx Hf].
  rewrite has_sub_cons, IH by assumption. cbn [prefix_of]. destruct (Z.eqb_spec b x); [congruence|reflexivity].
Qed.

Lemma special_false sep f : Forall (fun x => is_special sep x = false) f ->
  nob 10 f /\ nob 13 f /\ nob 34 f /\ nob sep f.
Proof.
  unfold nob. intros H. repeat split; eapply Forall_impl; try exact H; cbv beta;
    unfold is_special; intros a Ha; lia.
Qed.

Lemma unq_facts sep f : valid_sep sep -> field_needs_quotes sep f = false ->
  nob 10 f /\ nob 13 f /\ nob 34 f /\ (forall T, tstart_ok T -> no_occ (encode_rune sep) f T).
Proof.
  intros Hv H. destruct f as [|x f'].
  { split; [|split; [|split]]; try apply nob_nil. intros; exact I. }
  unfold field_needs_quotes in H. set (f := x :: f') in *.
  destruct (bytes_eqb f [92; 46]); [discriminate|].
  destruct (Z.ltb_spec sep 128) as [Hlt|Hge].
  - apply orb_false_iff in H as [H _]. apply existsb_false, special_false in H as (H10 & H13 & H34 & Hs).
    split; [|split; [|split]]; try assumption. intros T HT.
    assert (He : encode_rune sep = [sep]).
    { apply valid_sep_iff in Hv. unfold encode_rune.
      replace ((sep <? 0) || (1114111 <? sep) || ((55296 <=? sep) && (sep <=? 57343))) with false by lia.
      replace (sep <? 128) with true by lia. reflexivity. }
    rewrite He. apply no_occ_of_has_sub; [reflexivity | apply has_sub_single; exact Hs | exact HT].
  - apply orb_false_iff in H as [H _]. apply orb_false_iff in H as [Hsub H].
    apply existsb_false, special_false in H as (H10 & H13 & H34 & _).
    split; [|split; [|split]]; try assumption. intros T HT.
    destruct (enc_shape sep Hv) as (b0 & cs & He & _ & Hcs & _). rewrite He in *.
    apply no_occ_of_has_sub; assumption.
Qed.

Section RoundTrip.
Variable c : csv_cfg.
Variable e : bool.                       (* atEOF of the call *)
Hypothesis Hsep : valid_sep (c_sep c).

Let sepb := sep_bytes c.

(* what follows the written row in the data handed to the splitter: its newline and any
   further data, or nothing at all when the call is made at EOF (rebuilt $0) *)
Variable T : bytes.
Hypothesis HT : (exists rest, T = 10 :: rest) \/ (T = [] /\ e = true).

Lemma rl_stream u : nob 13 u ->
  read_line (u ++ T) e = Some (fl1 (u ++ T), fl2 (u ++ T), 0).
Proof.
  intros Hu. unfold read_line, fl1, fl2, fl.
  destruct (cut_nl (u ++ T)) as [[l d]|] eqn:E; [reflexivity|].
  destruct HT as [[rest ->] | [-> ->]].
  - apply cut_nl_none_inv in E. apply nob_app in E as [_ E]. apply nob_cons in E as [E _]. congruence.
  - rewrite app_nil_r in *. rewrite last_is_nob by assumption. reflexivity.
Qed.

Lemma tstart_T : tstart_ok T.
Proof. destruct HT as [[rest ->] | [-> _]]; cbn; reflexivity. Qed.

(* ---- inside a quoted field ------------------------------------------------ *)

Lemma ztake_succ_cons {A} k (x : A) l : 0 <= k -> ztake (1 + k) (x :: l) = x :: ztake k l.
Proof.
  intros H. unfold ztake. replace (Z.to_nat (1 + k)) with (S (Z.to_nat k)) by lia. reflexivity.
Qed.

(* a plain byte in front of a non-empty line is simply copied *)
Lemma pq_plain n x line data adv cur done cr : x <> 34 -> x <> 13 -> line <> [] ->
  parse_quoted c e n (x :: line) data adv cur done cr =
  parse_quoted c e n line data (adv + 1) (cur ++ [x]) done cr.
Proof.
  intros H34 H13 Hne. destruct n as [|n]; [reflexivity|]. rewrite !parse_quoted_S.
  cbn [cut_byte]. destruct (Z.eqb_spec x 34) as [|_]; [contradiction|].
  destruct (cut_byte 34 line) as [[pre line1]|] eqn:E.
  - cbv zeta. rewrite <- !app_assoc. cbn [app].
    replace (adv + zlen (x :: pre) + 1) with (adv + 1 + zlen pre + 1) by (rewrite zlen_cons; lia).
    reflexivity.
  - destruct line as [|y line]; [congruence|]. cbv zeta.
    assert (Hnl : (len_newline (x :: y :: line) =? 2) = (len_newline (y :: line) =? 2)).
    { destruct line as [|z line].
      - cbn. destruct (y =? 10); [|reflexivity]. destruct (Z.eqb_spec x 13) as [|_]; [contradiction|reflexivity].
      - rewrite len_newline_cons; [reflexivity|]. zl. pose proof (zlen_nonneg line). lia. }
    rewrite Hnl.
    replace (adv + zlen (x :: y :: line)) with (adv + 1 + zlen (y :: line)) by (rewrite (zlen_cons x); lia).
    destruct (len_newline (y :: line) =? 2) eqn:E2.
    + pose proof (len_newline_range (y :: line)) as Hr.
      replace (zlen (x :: y :: line) - 2) with (1 + (zlen (y :: line) - 2)) by (rewrite (zlen_cons x); lia).
      rewrite ztake_succ_cons by lia. rewrite <- !app_assoc. reflexivity.
    + rewrite <- !app_assoc. reflexivity.
Qed.

Definition esc := flat_map (esc_byte false).

Lemma esc_cons x f : esc (x :: f) = esc_byte false x ++ esc f.
Proof. reflexivity. Qed.

Lemma esc_byte_other x : x <> 34 -> x <> 13 -> x <> 10 -> esc_byte false x = [x].
Proof.
  intros H1 H2 H3. unfold esc_byte. destruct (Z.eqb_spec x 34); [contradiction|].
  destruct (Z.eqb_spec x 13); [contradiction|]. destruct (Z.eqb_spec x 10); [contradiction|]. reflexivity.
Qed.

Lemma nob13_esc f : nob 13 f -> nob 13 (esc f).
Proof.
  induction f as [|x f IH]; intros H; [apply nob_nil|]. apply nob_cons in H as [Hx Hf].
  rewrite esc_cons. apply nob_app. split; [|auto]. unfold esc_byte.
  destruct (x =? 34); [repeat constructor; lia|].
  destruct (Z.eqb_spec x 13) as [|_]; [contradiction|].
  destruct (x =? 10) eqn:E10; repeat constructor; lia.
Qed.

Lemma next_rune_ascii x s : 0 <= x < 128 -> next_rune (x :: s) = x.
Proof. intros H. unfold next_rune. cbn [decode_rune]. replace (x <? 128) with true by lia. reflexivity. Qed.

(* reading the escaped content of a field [f] amounts to having accumulated [f] *)
Lemma pq_content done cr R : R <> PFuel -> forall f, nob 13 f -> forall V cur adv, nob 13 V ->
  (exists n, parse_quoted c e n (fl1 (34 :: V ++ T)) (fl2 (34 :: V ++ T))
                          (adv + zlen (esc f)) (cur ++ f) done cr = R) ->
  exists n, parse_quoted c e n (fl1 (esc f ++ 34 :: V ++ T)) (fl2 (esc f ++ 34 :: V ++ T))
                         adv cur done cr = R.
Proof.
  intros HR. induction f as [|x f IH]; intros Hf V cur adv HV Hk.
  - cbn [esc flat_map app] in *. rewrite zlen_nil, Z.add_0_r, app_nil_r in Hk. exact Hk.
  - apply nob_cons in Hf as [Hx Hf].
    destruct (Z.eqb_spec x 34) as [->|H34].
    + (* a quote was written doubled *)
      change (esc (34 :: f)) with ([34; 34] ++ esc f) in *.
      destruct (IH Hf V (cur ++ [34]) (adv + 2) HV) as [n Hn].
      { destruct Hk as [n Hn]. exists n. rewrite <- Hn.
        rewrite <- !app_assoc. cbn [app]. f_equal. zl. lia. }
      exists (S n). cbn [app]. rewrite fl1_cons, fl2_cons by lia. rewrite fl1_cons, fl2_cons by lia.
      rewrite parse_quoted_S. cbn [cut_byte]. rewrite Z.eqb_refl. cbv zeta.
      rewrite next_rune_ascii by lia. rewrite Z.eqb_refl. rewrite zdrop_1_cons. rewrite app_nil_r.
      rewrite <- Hn. f_equal. zl. lia.
    + destruct (Z.eqb_spec x 10) as [->|H10].
      * (* a line break inside the quotes *)
        change (esc (10 :: f)) with ([10] ++ esc f) in *.
        destruct (IH Hf V (cur ++ [10]) (adv + 1) HV) as [n Hn].
        { destruct Hk as [n Hn]. exists n. rewrite <- Hn.
          rewrite <- !app_assoc. cbn [app]. f_equal. zl. lia. }
        exists (S n). cbn [app]. unfold fl1, fl2. rewrite fl_nl. cbn [fst snd].
        rewrite parse_quoted_S. change (cut_byte 34 [10]) with (@None (bytes * bytes)). cbv zeta.
        change (len_newline [10] =? 2) with false. cbv iota.
        replace (esc f ++ 34 :: V ++ T) with ((esc f ++ 34 :: V) ++ T) by (rewrite <- app_assoc; reflexivity).
        rewrite rl_stream.
        2:{ apply nob_app. split; [apply nob13_esc; exact Hf|]. apply nob_cons. split; [lia | exact HV]. }
        rewrite <- app_assoc. cbn [app]. rewrite <- Hn. f_equal. zl. lia.
      * (* any other byte *)
        rewrite esc_cons, esc_byte_other in * by assumption.
        destruct (IH Hf V (cur ++ [x]) (adv + 1) HV) as [n Hn].
        { destruct Hk as [n Hn]. exists n. rewrite <- Hn.
          rewrite <- !app_assoc. cbn [app]. f_equal. zl. lia. }
        exists n. cbn [app]. rewrite fl1_cons, fl2_cons by assumption.
        rewrite pq_plain; try assumption.
        apply fl1_nonempty. destruct (esc f); discriminate.
Qed.

(* ---- facts about the separator and about what ends the row ---------------- *)

Lemma sep_shape : exists b0 cs, sepb = b0 :: cs /\ is_cont b0 = false /\ forallb is_cont cs = true /\
  b0 <> 10 /\ b0 <> 13 /\ b0 <> 34.
Proof. exact (enc_shape _ Hsep). Qed.

Lemma nob_sepb b : b < 128 -> b <> c_sep c -> nob b sepb.
Proof.
  intros Hb Hne. unfold sepb, sep_bytes. pose proof Hsep as Hv. apply valid_sep_iff in Hv.
  unfold encode_rune.
  replace ((c_sep c <? 0) || (1114111 <? c_sep c) || ((55296 <=? c_sep c) && (c_sep c <=? 57343))) with false by lia.
  repeat match goal with |- context [if ?x <? ?y then _ else _] => destruct (Z.ltb_spec x y) end;
    unfold nob; repeat (constructor; [Z.div_mod_to_equations; lia|]); constructor.
Qed.

Lemma sep_len_eq : sep_len c = zlen sepb.
Proof. apply rune_len_enc. exact Hsep. Qed.

Lemma next_rune_sepb X : next_rune (sepb ++ X) = c_sep c.
Proof. apply decode_encode. exact Hsep. Qed.

Lemma tstart_sepb X : tstart_ok (sepb ++ X).
Proof. destruct sep_shape as (b0 & cs & -> & H & _). exact H. Qed.

Lemma starts_quote_sepb X : starts_quote (sepb ++ X) = false.
Proof. destruct sep_shape as (b0 & cs & -> & _ & _ & _ & _ & H). cbn. lia. Qed.

Lemma sep_ne : c_sep c <> 10 /\ c_sep c <> 13 /\ c_sep c <> 34 /\ c_sep c <> 65533 /\ c_sep c <> 0.
Proof. pose proof Hsep as Hv. apply valid_sep_iff in Hv. lia. Qed.

Lemma tl_cases : (fl1 T = [10] /\ exists rest, T = 10 :: rest) \/ (fl1 T = [] /\ T = [] /\ e = true).
Proof. destruct HT as [[rest ->] | [-> ->]]; [left | right]; eauto. Qed.

Lemma starts_quote_app f X : nob 34 f -> starts_quote X = false -> starts_quote (f ++ X) = false.
Proof.
  destruct f as [|x f]; intros Hf HX; [exact HX|]. apply nob_cons in Hf as [Hx _]. cbn. lia.
Qed.

(* ---- one field ------------------------------------------------------------- *)

Lemma pf_unq_more f V adv done cr R : field_needs_quotes (c_sep c) f = false -> R <> PFuel ->
  (exists n, parse_field c e n (fl1 (V ++ T)) (fl2 (V ++ T)) (adv + zlen f + zlen sepb) (done ++ [f]) cr = R) ->
  exists n, parse_field c e n (fl1 (f ++ sepb ++ V ++ T)) (fl2 (f ++ sepb ++ V ++ T)) adv done cr = R.
Proof.
  intros Hq HR [n Hn]. destruct (unq_facts _ _ Hsep Hq) as (H10 & H13 & H34 & Hocc).
  destruct sep_ne as (S10 & S13 & S34 & _).
  exists (S n). rewrite fl1_app, fl2_app by assumption.
  rewrite fl1_app, fl2_app by (apply nob_sepb; lia).
  rewrite parse_field_S. rewrite starts_quote_app by (auto using starts_quote_sepb).
  fold sepb. rewrite cut_sub_found by (apply Hocc, tstart_sepb).
  rewrite sep_len_eq. exact Hn.
Qed.

Lemma cut_sub_tl f : (forall X, tstart_ok X -> no_occ sepb f X) -> cut_sub sepb (f ++ fl1 T) = None.
Proof.
  intros Hocc. destruct sep_shape as (b0 & cs & Hs & _ & _ & B10 & _).
  destruct tl_cases as [[-> _] | [-> _]].
  - apply cut_sub_none; [apply Hocc; reflexivity|].
    rewrite Hs. apply cut_sub_short.
    + cbn [prefix_of]. destruct (Z.eqb_spec b0 10); [contradiction | reflexivity].
    + intros x t Ht. injection Ht as _ <-. reflexivity.
  - apply cut_sub_none; [apply Hocc; exact I|]. rewrite Hs. reflexivity.
Qed.

Lemma pf_unq_last f adv done cr : field_needs_quotes (c_sep c) f = false ->
  exists n, parse_field c e n (fl1 (f ++ T)) (fl2 (f ++ T)) adv done cr =
            PDone (adv + zlen f + zlen (fl1 T)) (done ++ [f]) cr.
Proof.
  intros Hq. destruct (unq_facts _ _ Hsep Hq) as (H10 & H13 & H34 & Hocc).
  exists 1%nat. rewrite fl1_app, fl2_app by assumption. rewrite parse_field_S.
  rewrite starts_quote_app; [|assumption|destruct tl_cases as [[-> _] | [-> _]]; reflexivity].
  fold sepb. rewrite cut_sub_tl by exact Hocc.
  f_equal; [zl; lia|]. f_equal. f_equal.
  destruct tl_cases as [[-> _] | [-> _]].
  - rewrite len_newline_lf by assumption. apply ztake_snoc.
  - rewrite app_nil_r. rewrite len_newline_no_lf by assumption. rewrite Z.sub_0_r. apply ztake_all. lia.
Qed.

Lemma fl_q_open X : fl1 (34 :: X) = 34 :: fl1 X /\ fl2 (34 :: X) = fl2 X.
Proof. split; [apply fl1_cons | apply fl2_cons]; lia. Qed.

Lemma pf_q_more f V adv done cr R : nob 13 f -> nob 13 V -> R <> PFuel ->
  (exists n, parse_field c e n (fl1 (V ++ T)) (fl2 (V ++ T)) (adv + (zlen (esc f) + 2) + zlen sepb) (done ++ [f]) cr = R) ->
  exists n, parse_field c e n (fl1 (34 :: esc f ++ 34 :: sepb ++ V ++ T))
                        (fl2 (34 :: esc f ++ 34 :: sepb ++ V ++ T)) adv done cr = R.
Proof.
  intros Hf HV HR [n Hn]. destruct sep_ne as (S10 & S13 & S34 & _).
  assert (HV' : nob 13 (sepb ++ V)) by (apply nob_app; split; [apply nob_sepb; lia | exact HV]).
  destruct (pq_content done cr R HR f Hf (sepb ++ V) [] (adv + 1) HV') as [m Hm].
  { exists (S n). rewrite <- app_assoc. destruct (fl_q_open (sepb ++ V ++ T)) as [-> ->].
    rewrite fl1_app, fl2_app by (apply nob_sepb; lia).
    rewrite parse_quoted_S. cbn [cut_byte]. rewrite Z.eqb_refl. cbv zeta.
    rewrite next_rune_sepb. destruct (Z.eqb_spec (c_sep c) 34); [contradiction|].
    rewrite Z.eqb_refl. rewrite sep_len_eq, zdrop_app_len. rewrite app_nil_r. cbn [app].
    rewrite <- Hn. f_equal. zl. lia. }
  exists (S m). destruct (fl_q_open (esc f ++ 34 :: sepb ++ V ++ T)) as [-> ->].
  rewrite parse_field_S. cbn [starts_quote]. rewrite Z.eqb_refl. rewrite zdrop_1_cons.
  rewrite <- app_assoc in Hm. exact Hm.
Qed.

Lemma pf_q_last f adv done cr : nob 13 f ->
  exists n, parse_field c e n (fl1 (34 :: esc f ++ 34 :: T)) (fl2 (34 :: esc f ++ 34 :: T)) adv done cr =
            PDone (adv + (zlen (esc f) + 2) + zlen (fl1 T)) (done ++ [f]) cr.
Proof.
  intros Hf. destruct sep_ne as (S10 & S13 & S34 & S65 & _).
  set (R := PDone (adv + (zlen (esc f) + 2) + zlen (fl1 T)) (done ++ [f]) cr).
  destruct (pq_content done cr R ltac:(discriminate) f Hf [] [] (adv + 1) (nob_nil 13)) as [m Hm].
  { exists 1%nat. cbn [app]. destruct (fl_q_open T) as [-> ->].
    rewrite parse_quoted_S. cbn [cut_byte]. rewrite Z.eqb_refl. cbv zeta.
    assert (Hrn : (next_rune (fl1 T) =? 34) = false /\ (next_rune (fl1 T) =? c_sep c) = false /\
                  (len_newline (fl1 T) =? zlen (fl1 T)) = true).
    { destruct tl_cases as [[-> _] | [-> _]].
      - rewrite next_rune_ascii by lia. repeat split; try lia; reflexivity.
      - unfold next_rune. cbn [decode_rune fst]. unfold rune_error. repeat split; try lia; reflexivity. }
    destruct Hrn as (-> & -> & ->). unfold R. rewrite app_nil_r. f_equal. zl. lia. }
  exists (S m). destruct (fl_q_open (esc f ++ 34 :: T)) as [-> ->].
  rewrite parse_field_S. cbn [starts_quote]. rewrite Z.eqb_refl. rewrite zdrop_1_cons.
  cbn [app] in Hm. exact Hm.
Qed.

(* ---- a whole row ------------------------------------------------------------ *)

Definition encs (fs : list bytes) : bytes := join_enc (c_sep c) false fs.

Lemma enc_field_unfold f :
  enc_field (c_sep c) false f = if field_needs_quotes (c_sep c) f then 34 :: esc f ++ [34] else f.
Proof. reflexivity. Qed.

Lemma encs_cons2 f g fs : encs (f :: g :: fs) = enc_field (c_sep c) false f ++ sepb ++ encs (g :: fs).
Proof. reflexivity. Qed.

Lemma nob13_enc f : nob 13 f -> nob 13 (enc_field (c_sep c) false f).
Proof.
  intros H. rewrite enc_field_unfold. destruct (field_needs_quotes (c_sep c) f); [|exact H].
  apply nob_cons. split; [lia|]. apply nob_app. split; [apply nob13_esc; exact H|].
  apply nob_cons. split; [lia | apply nob_nil].
Qed.

Lemma nob13_encs fs : Forall (nob 13) fs -> nob 13 (encs fs).
Proof.
  induction fs as [|f fs IH]; intros H; [apply nob_nil|]. inversion H as [|? ? Hf Hfs]; subst.
  destruct fs as [|g fs]; [apply nob13_enc; exact Hf|]. rewrite encs_cons2.
  destruct sep_ne as (_ & S13 & _).
  apply nob_app. split; [apply nob13_enc; exact Hf|]. apply nob_app. split; [apply nob_sepb; lia | auto].
Qed.

Lemma pf_fields : forall fs, fs <> [] -> Forall (nob 13) fs -> forall adv done cr,
  exists n, parse_field c e n (fl1 (encs fs ++ T)) (fl2 (encs fs ++ T)) adv done cr =
            PDone (adv + zlen (encs fs) + zlen (fl1 T)) (done ++ fs) cr.
Proof.
  induction fs as [|f fs IH]; [congruence|]. intros _ Hcr adv done cr.
  inversion Hcr as [|? ? Hf Hfs]; subst. destruct fs as [|g fs].
  - unfold encs. cbn [join_enc]. rewrite enc_field_unfold.
    destruct (field_needs_quotes (c_sep c) f) eqn:Q.
    + cbn [app]. rewrite <- app_assoc. cbn [app].
      destruct (pf_q_last f adv done cr Hf) as [n Hn]. exists n. rewrite Hn. f_equal. zl. lia.
    + apply pf_unq_last. exact Q.
  - rewrite encs_cons2. rewrite enc_field_unfold.
    assert (Hne : g :: fs <> []) by discriminate.
    destruct (field_needs_quotes (c_sep c) f) eqn:Q.
    + destruct (IH Hne Hfs (adv + (zlen (esc f) + 2) + zlen sepb) (done ++ [f]) cr) as [n Hn].
      match type of Hn with _ = ?R => assert (HR : R <> PFuel) by discriminate end.
      destruct (pf_q_more f (encs (g :: fs)) adv done cr _ Hf (nob13_encs _ Hfs) HR
                  (ex_intro _ n Hn)) as [m Hm].
      exists m. cbn [app]. rewrite <- !app_assoc. cbn [app]. rewrite Hm. f_equal; [zl; lia|].
      rewrite <- app_assoc. reflexivity.
    + destruct (IH Hne Hfs (adv + zlen f + zlen sepb) (done ++ [f]) cr) as [n Hn].
      match type of Hn with _ = ?R => assert (HR : R <> PFuel) by discriminate end.
      destruct (pf_unq_more f (encs (g :: fs)) adv done cr _ Q HR (ex_intro _ n Hn)) as [m Hm].
      exists m. rewrite <- !app_assoc. rewrite Hm. f_equal; [zl; lia|].
      rewrite <- app_assoc. reflexivity.
Qed.

(* ---- the call of scan ------------------------------------------------------- *)

Lemma pf_at_fuel n0 F line data adv done cr R :
  parse_field c e n0 line data adv done cr = R -> R <> PFuel ->
  (length line + length data < F)%nat -> parse_field c e F line data adv done cr = R.
Proof.
  intros H HR Hm.
  assert (E1 : parse_field c e (Nat.max n0 F) line data adv done cr = R)
    by (eapply parse_field_mono; [exact H | exact HR | lia]).
  destruct (parse_field c e F line data adv done cr) eqn:EF.
  - assert (E2 : parse_field c e (Nat.max n0 F) line data adv done cr = PNeed)
      by (eapply parse_field_mono; [exact EF | discriminate | lia]). congruence.
  - match type of EF with _ = ?r =>
      assert (E2 : parse_field c e (Nat.max n0 F) line data adv done cr = r)
        by (eapply parse_field_mono; [exact EF | discriminate | lia]) end. congruence.
  - exfalso. eapply (proj1 (parse_enough c e F)); [exact Hm | exact EF].
Qed.

(* the written row starts with a byte that is neither LF nor CR *)
Lemma encs_head fs : fs <> [] -> fs <> [[]] -> Forall (nob 13) fs ->
  exists x r, encs fs = x :: r /\ x <> 10 /\ x <> 13.
Proof.
  intros Hne Hne1 Hcr. destruct fs as [|f fs]; [congruence|]. inversion Hcr as [|? ? Hf _]; subst.
  assert (Hq : forall X, field_needs_quotes (c_sep c) f = true ->
               exists x r, enc_field (c_sep c) false f ++ X = x :: r /\ x <> 10 /\ x <> 13).
  { intros X Q. rewrite enc_field_unfold, Q. cbn [app]. eexists _, _. split; [reflexivity|lia]. }
  assert (Hu : forall y f', f = y :: f' -> field_needs_quotes (c_sep c) f = false -> forall X,
               exists x r, enc_field (c_sep c) false f ++ X = x :: r /\ x <> 10 /\ x <> 13).
  { intros y f' -> Q X. rewrite enc_field_unfold, Q. cbn [app].
    destruct (unq_facts _ _ Hsep Q) as (H10 & H13 & _). apply nob_cons in H10 as [? _]. apply nob_cons in H13 as [? _].
    eexists _, _. split; [reflexivity|auto]. }
  destruct fs as [|g fs].
  - unfold encs. cbn [join_enc]. rewrite <- (app_nil_r (enc_field _ _ f)).
    destruct (field_needs_quotes (c_sep c) f) eqn:Q; [apply Hq; reflexivity|].
    destruct f as [|y f']; [congruence|]. eapply Hu; reflexivity.
  - rewrite encs_cons2. destruct (field_needs_quotes (c_sep c) f) eqn:Q; [apply Hq; reflexivity|].
    destruct f as [|y f']; [|eapply Hu; reflexivity].
    rewrite enc_field_unfold, Q. cbn [app].
    destruct sep_shape as (b0 & cs & -> & _ & _ & B10 & B13 & _). cbn [app].
    eexists _, _. split; [reflexivity|auto].
Qed.

Lemma last_is_app b u v : v <> [] -> last_is b (u ++ v) = last_is b v.
Proof.
  intros Hv. induction u as [|x u IH]; [reflexivity|]. cbn [app last_is].
  destruct (u ++ v) eqn:E; [|exact IH]. destruct u; [cbn in E; congruence | discriminate].
Qed.

Lemma last_is_encs fs : last_is 10 (encs fs) = false.
Proof.
  destruct sep_ne as (S10 & _).
  assert (Henc : forall f, last_is 10 (enc_field (c_sep c) false f) = false).
  { intros f. rewrite enc_field_unfold. destruct (field_needs_quotes (c_sep c) f) eqn:Q.
    - replace (34 :: esc f ++ [34]) with ((34 :: esc f) ++ [34]) by reflexivity. rewrite last_is_snoc. reflexivity.
    - apply last_is_nob. apply (unq_facts _ _ Hsep Q). }
  induction fs as [|f fs IH]; [reflexivity|]. destruct fs as [|g fs]; [apply Henc|].
  rewrite encs_cons2. destruct (encs (g :: fs)) eqn:E.
  - rewrite app_nil_r. rewrite last_is_app; [apply last_is_nob, nob_sepb; lia|].
    destruct sep_shape as (b0 & cs & -> & _). discriminate.
  - rewrite app_assoc. rewrite last_is_app by discriminate. exact IH.
Qed.

Lemma len_newline_last u : last_is 10 u = false -> len_newline u = 0.
Proof.
  induction u as [|x u IH]; intros H; [reflexivity|]. destruct u as [|y [|z u]].
  - cbn in *. rewrite H. reflexivity.
  - cbn in *. rewrite H. reflexivity.
  - rewrite len_newline_cons by (zl; pose proof (zlen_nonneg u); lia). apply IH. exact H.
Qed.

Lemma len_newline_head x l : x <> 10 -> x <> 13 -> len_newline (x :: l) < zlen (x :: l).
Proof.
  intros H10 H13. destruct l as [|y [|z l]].
  - cbn. destruct (Z.eqb_spec x 10); [contradiction | lia].
  - cbn. destruct (y =? 10); [destruct (Z.eqb_spec x 13); [contradiction|]|]; lia.
  - rewrite len_newline_cons by (zl; pose proof (zlen_nonneg l); lia).
    pose proof (len_newline_range (y :: z :: l)). rewrite (zlen_cons x). lia.
Qed.

Lemma slice_cap_prefix (w more : bytes) nz : 0 <= nz -> slice_cap (w ++ more) nz 0 (zlen w) = Ok w.
Proof.
  intros Hnz. unfold slice_cap. pose proof (zlen_nonneg w). pose proof (zlen_nonneg more).
  replace ((0 <=? 0) && (0 <=? zlen w) && (zlen w <=? zlen (w ++ more) + nz)) with true by (zl; lia).
  replace (Z.to_nat (zlen w - zlen (w ++ more))) with 0%nat by (zl; lia).
  cbn [repeat]. rewrite app_nil_r, zdrop_0, Z.sub_0_r. rewrite ztake_app_len. reflexivity.
Qed.

(* A row text [W] that parse_field reads as the fields [fs] (followed by its newline and
   anything else, or standing alone at EOF without the newline) is one record with exactly
   those fields, and $0 is [W]. *)
Lemma scan_written_text W fs s stale nz :
  c_comment c = 0 -> c_header c = false -> 0 <= nz ->
  (exists x r, W = x :: r /\ x <> 10 /\ x <> 13) -> nob 13 W -> last_is 10 W = false ->
  (forall adv done cr, exists n,
     parse_field c e n (fl1 (W ++ T)) (fl2 (W ++ T)) adv done cr =
     PDone (adv + zlen W + zlen (fl1 T)) (done ++ fs) cr) ->
  (st_noBOM s = true \/ prefix_of bom (W ++ T) = false) ->
  scan c s (W ++ T) stale nz e =
    (mkSt true (st_row s + 1), ORecord (zlen W + zlen (fl1 T)) W fs).
Proof.
  intros Hcom Hhdr Hnz (x & r & Hx & X10 & X13) H13 Hlast Hpf Hbom.
  unfold scan.
  replace (negb (st_noBOM s) && prefix_of bom (W ++ T)) with false
    by (destruct Hbom as [-> | ->]; [reflexivity | rewrite andb_false_r; reflexivity]).
  cbv iota.
  assert (Hdata : zlen (W ++ T) =? 0 = false).
  { rewrite Hx. cbn [app]. pose proof (zlen_pos_cons x (r ++ T)). lia. }
  rewrite Hdata, andb_false_r.
  (* first loop: the first line is neither a comment nor blank *)
  rewrite skip_lines_S. rewrite rl_stream by exact H13. cbv zeta.
  assert (Hl : fl1 (W ++ T) = x :: fl1 (r ++ T)) by (rewrite Hx; cbn [app]; apply fl1_cons; exact X10).
  assert (Hz : zlen (fl1 (W ++ T)) =? 0 = false)
    by (rewrite Hl; pose proof (zlen_pos_cons x (fl1 (r ++ T))); lia).
  rewrite Hz. rewrite Hcom. cbn [Z.eqb negb andb].
  assert (Hb : zlen (fl1 (W ++ T)) =? len_newline (fl1 (W ++ T)) = false)
    by (rewrite Hl; pose proof (len_newline_head x (fl1 (r ++ T)) X10 X13); lia).
  rewrite Hb.
  (* the fields *)
  destruct (Hpf (0 + 0) [] false) as [n Hn].
  erewrite pf_at_fuel; [|exact Hn|discriminate|].
  2:{ rewrite <- app_length, fl_join. lia. }
  rewrite Hhdr, andb_false_r. cbn [app].
  (* $0 *)
  assert (HTsplit : T = fl1 T ++ fl2 T) by (symmetry; apply fl_join).
  replace ((W ++ T) ++ stale) with ((W ++ fl1 T) ++ (fl2 T ++ stale))
    by (rewrite HTsplit at 3; rewrite <- !app_assoc; reflexivity).
  replace (0 + 0 + zlen W + zlen (fl1 T)) with (zlen (W ++ fl1 T)) by (zl; lia).
  rewrite slice_cap_prefix by exact Hnz.
  f_equal. f_equal; [zl; lia|].
  destruct tl_cases as [[-> _] | [-> _]].
  - rewrite len_newline_lf by exact H13. apply ztake_snoc.
  - rewrite app_nil_r. rewrite len_newline_last by exact Hlast. rewrite Z.sub_0_r.
    apply ztake_all. lia.
Qed.

(* the text interp.writeCSV produces for a row (without the newline) *)
Definition rtext (fs : list bytes) : bytes := row_text (c_sep c) false fs.

Lemma rtext_encs fs : fs <> [[]] -> rtext fs = encs fs.
Proof.
  intros H. unfold rtext, row_text. destruct fs as [|[|x f] [|g fs]]; try reflexivity. congruence.
Qed.

Lemma nob13_rtext fs : Forall (nob 13) fs -> nob 13 (rtext fs).
Proof.
  intros H. destruct (list_eq_dec (list_eq_dec Z.eq_dec) fs [[]]) as [-> | Hne1].
  - repeat constructor; lia.
  - rewrite rtext_encs by exact Hne1. apply nob13_encs. exact H.
Qed.

(* What writeCSV produced for the row [fs] is read as one record with exactly the fields
   [fs], and $0 is the written text. *)
Lemma scan_written_row fs s stale nz :
  c_comment c = 0 -> c_header c = false -> 0 <= nz ->
  fs <> [] -> Forall (nob 13) fs ->
  (st_noBOM s = true \/ prefix_of bom (rtext fs ++ T) = false) ->
  scan c s (rtext fs ++ T) stale nz e =
    (mkSt true (st_row s + 1), ORecord (zlen (rtext fs) + zlen (fl1 T)) (rtext fs) fs).
Proof.
  intros Hcom Hhdr Hnz Hne Hcr Hbom.
  destruct (list_eq_dec (list_eq_dec Z.eq_dec) fs [[]]) as [-> | Hne1].
  - (* a single empty field: written as two quotes *)
    change (rtext [[]]) with [34; 34] in *.
    apply scan_written_text; auto.
    + exists 34, [34]. repeat split; lia.
    + repeat constructor; lia.
    + intros adv done cr. destruct (pf_q_last [] adv done cr (nob_nil 13)) as [n Hn].
      exists n. cbn [esc flat_map app] in Hn. cbn [app]. rewrite Hn. f_equal.
  - rewrite rtext_encs in * by exact Hne1.
    apply scan_written_text; auto.
    + apply encs_head; assumption.
    + apply nob13_encs; assumption.
    + apply last_is_encs.
    + intros adv done cr. apply pf_fields; assumption.
Qed.

End RoundTrip.

(* ------------------------------------------------------------------------- *)
(* Whole files.  [read_all]: the reader run over a complete input (every call sees all the
   remaining data and atEOF = true); Proofs/CsvChunks.v shows that any delivery of the same
   bytes in pieces yields the same records. *)

Definition row_ok (fs : list bytes) : Prop := fs <> [] /\ Forall (nob 13) fs.

Lemma join_fields_text sep fs : valid_sep sep -> Forall (nob 13) fs ->
  join_fields sep false fs = row_text sep false fs.
Proof.
  intros Hv Hcr. unfold join_fields, write_record.
  pose proof (nob13_rtext (mkCfg sep 0 false) true Hv [] (or_intror (conj eq_refl eq_refl)) fs Hcr) as H13.
  unfold rtext in H13. cbn [c_sep] in H13.
  rewrite len_newline_lf by exact H13. apply ztake_snoc.
Qed.

Lemma write_csv_cons sep crlf fs rows :
  write_csv sep crlf (fs :: rows) = write_record sep crlf fs ++ write_csv sep crlf rows.
Proof. reflexivity. Qed.

Lemma read_all_written c : valid_sep (c_sep c) -> c_comment c = 0 -> c_header c = false ->
  forall rows, Forall row_ok rows -> forall fuel s,
  (length (write_csv (c_sep c) false rows) < fuel)%nat ->
  (st_noBOM s = true \/ prefix_of bom (write_csv (c_sep c) false rows) = false) ->
  read_all fuel c s (write_csv (c_sep c) false rows) =
  map (fun fs => ERecord (join_fields (c_sep c) false fs) fs) rows.
Proof.
  intros Hv Hcom Hhdr. induction rows as [|fs rows IH]; intros Hok fuel s Hfuel Hbom.
  - destruct fuel as [|fuel]; [reflexivity|]. cbn [write_csv flat_map map read_all].
    unfold scan. cbn [prefix_of bom]. rewrite andb_false_r. reflexivity.
  - inversion Hok as [|? ? (Hne & Hcr) Hok']; subst.
    destruct fuel as [|fuel]; [lia|]. rewrite write_csv_cons in *. cbn [map read_all].
    unfold write_record. rewrite <- !app_assoc. cbn [app].
    change (row_text (c_sep c) false fs) with (rtext c fs).
    rewrite (scan_written_row c true Hv (10 :: write_csv (c_sep c) false rows)
               ltac:(left; eauto) fs s [] 0 Hcom Hhdr ltac:(lia) Hne Hcr).
    2:{ destruct Hbom as [Hb | Hb]; [left; exact Hb | right].
        unfold write_record in Hb. rewrite <- app_assoc in Hb. exact Hb. }
    cbv beta iota.
    unfold rtext. rewrite join_fields_text by assumption. f_equal.
    replace (zlen (row_text (c_sep c) false fs) + zlen (fl1 (10 :: write_csv (c_sep c) false rows)))
      with (zlen (row_text (c_sep c) false fs ++ [10])) by (unfold fl1; rewrite fl_nl; cbn [fst]; zl; lia).
    replace (row_text (c_sep c) false fs ++ 10 :: write_csv (c_sep c) false rows)
      with ((row_text (c_sep c) false fs ++ [10]) ++ write_csv (c_sep c) false rows)
      by (rewrite <- app_assoc; reflexivity).
    rewrite zdrop_app_len. apply IH; [exact Hok' | | left; reflexivity].
    unfold write_record in Hfuel. rewrite !app_length in Hfuel. cbn [length] in Hfuel. lia.
Qed.

(* print in CSV/TSV output mode, then read the bytes in CSV/TSV input mode with the same
   separator: the same rows come back, and $0 of each is the text that was written *)
Theorem roundtrip_file c rows :
  valid_sep (c_sep c) -> c_comment c = 0 -> c_header c = false -> Forall row_ok rows ->
  prefix_of bom (write_csv (c_sep c) false rows) = false ->
  read_file c (write_csv (c_sep c) false rows) =
  map (fun fs => ERecord (join_fields (c_sep c) false fs) fs) rows.
Proof.
  intros Hv Hcom Hhdr Hok Hbom. unfold read_file. apply read_all_written; auto.
Qed.

(* $0 rebuilt by joinFields (no newline), parsed again by ensureFields at EOF *)
Theorem roundtrip_rebuilt c s fs stale nz :
  valid_sep (c_sep c) -> c_comment c = 0 -> c_header c = false -> 0 <= nz -> row_ok fs ->
  (st_noBOM s = true \/ prefix_of bom (join_fields (c_sep c) false fs) = false) ->
  scan c s (join_fields (c_sep c) false fs) stale nz true =
    (mkSt true (st_row s + 1),
     ORecord (zlen (join_fields (c_sep c) false fs)) (join_fields (c_sep c) false fs) fs).
Proof.
  intros Hv Hcom Hhdr Hnz (Hne & Hcr) Hbom. rewrite join_fields_text in * by assumption.
  pose proof (scan_written_row c true Hv [] ltac:(right; split; reflexivity) fs s stale nz
                Hcom Hhdr Hnz Hne Hcr) as H.
  unfold rtext in H. rewrite app_nil_r in H. rewrite H by exact Hbom.
  f_equal. f_equal. unfold fl1. cbn. lia.
Qed.
