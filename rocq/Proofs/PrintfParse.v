(* C09: parseFmtTypes is total; the run-time errors; sprintf never panics and
   the modelled fmt.Sprintf never runs out of fuel. *)
From Verif Require Import Lib.Base Lib.Dyadic Lib.Utf8 Model.Printf
  Proofs.PrintfSpec Proofs.PrintfBase Proofs.PrintfDir.

(* ---- totality ---- *)
Lemma pft_total s : forall m,
  match pft m s with
  | Ok (g, ts) => length g = length s
  | Err e => e = err_expected \/ exists c, e = err_invalid c
  | Panic | Unmod => False
  end.
Proof.
  induction s as [|c t IH]; intros m.
  - destruct m; cbn [pft]; auto.
  - assert (Hco : forall c' tys r,
              match r with Ok (g, ts) => length g = length t | Err e => e = err_expected \/ exists c, e = err_invalid c | _ => False end ->
              match cons_out c' tys r with Ok (g, ts) => length g = length (c :: t) | Err e => e = err_expected \/ exists c, e = err_invalid c | _ => False end).
    { intros c' tys r H. destruct r as [[g ts]|e| |]; cbn [cons_out]; try exact H. cbn [length]. f_equal. exact H. }
    destruct m; cbn [pft].
    + destruct (c =? 37); apply Hco; apply IH.
    + destruct (c =? 37); [apply Hco; apply IH|].
      destruct (is_fmtch c); [apply Hco; apply IH|].
      destruct (verb_info c) as [[c' t']|]; [apply Hco; apply IH | right; exists c; reflexivity].
    + destruct (is_fmtch c); [apply Hco; apply IH|].
      destruct (verb_info c) as [[c' t']|]; [apply Hco; apply IH | right; exists c; reflexivity].
Qed.

Theorem fmt_parse_total s :
  (exists e, parse_fmt_types s = Err e /\ (e = err_expected \/ exists c, e = err_invalid c)) \/
  (exists g ts, parse_fmt_types s = Ok (g, ts) /\ length g = length s).
Proof.
  unfold parse_fmt_types. pose proof (pft_total s PLit) as H.
  destruct (pft PLit s) as [[g ts]|e| |]; try contradiction.
  - right. exists g, ts. auto.
  - left. exists e. auto.
Qed.

(* sprintf takes exactly one AWK argument per type *)
Lemma conv_args_length chars ffmt ts : forall args i gs,
  conv_args chars ffmt ts args i = Ok gs -> length gs = length ts.
Proof.
  induction ts as [|t r IH]; intros args i gs H; cbn [conv_args] in H.
  - injection H as <-. reflexivity.
  - destruct (index args i) as [a| | |]; cbn [rbind] in H; try discriminate.
    destruct (conv_arg chars ffmt t a) as [g| | |]; cbn [rbind] in H; try discriminate.
    destruct (conv_args chars ffmt r args (i + 1)) as [gs'| | |] eqn:E; cbn [rbind] in H; try discriminate.
    injection H as <-. cbn [length]. f_equal. exact (IH _ _ _ E).
Qed.

(* ---- run-time errors ---- *)
Theorem too_few_args_error chars ffmt s g ts args :
  parse_fmt_types s = Ok (g, ts) -> zlen args < zlen ts ->
  sprintf chars ffmt s args = Err (err_args (zlen args) (zlen ts)).
Proof.
  intros H L. unfold sprintf. rewrite H.
  replace (zlen ts >? zlen args) with true by (symmetry; rewrite Z.gtb_ltb; apply Z.ltb_lt; exact L). reflexivity.
Qed.

(* parsing is compositional after a complete prefix *)
Lemma pft_app a : forall m b ga ta, pft m a = Ok (ga, ta) ->
  pft m (a ++ b) = match pft PLit b with Ok (gb, tb) => Ok (ga ++ gb, ta ++ tb) | e => e end.
Proof.
  induction a as [|c t IH]; intros m b ga ta H.
  - destruct m; cbn [pft] in H; try discriminate. injection H as <- <-. cbn [app].
    destruct (pft PLit b) as [[gb tb]| | |]; reflexivity.
  - assert (Hco : forall m' c' tys, cons_out c' tys (pft m' t) = Ok (ga, ta) ->
        cons_out c' tys (pft m' (t ++ b)) = match pft PLit b with Ok (gb, tb) => Ok (ga ++ gb, ta ++ tb) | e => e end).
    { intros m' c' tys Hc. destruct (pft m' t) as [[g0 t0]| | |] eqn:E; cbn [cons_out] in Hc; try discriminate.
      injection Hc as <- <-. rewrite (IH m' b g0 t0 E). destruct (pft PLit b) as [[gb tb]| | |]; cbn [cons_out]; try reflexivity.
      rewrite <- app_assoc. reflexivity. }
    destruct m; cbn [pft app] in H |- *.
    + destruct (c =? 37); apply Hco; exact H.
    + destruct (c =? 37); [apply Hco; exact H|].
      destruct (is_fmtch c); [apply Hco; exact H|].
      destruct (verb_info c) as [[c' t']|]; [apply Hco; exact H | discriminate].
    + destruct (is_fmtch c); [apply Hco; exact H|].
      destruct (verb_info c) as [[c' t']|]; [apply Hco; exact H | discriminate].
Qed.

Lemma pft_run_invalid run : forall c rest, forallb is_fmtch run = true -> verb_info c = None -> is_fmtch c = false ->
  pft PFlags (run ++ c :: rest) = Err (err_invalid c).
Proof.
  induction run as [|x r IH]; intros c rest H Hv Hc.
  - cbn [app pft]. rewrite Hc, Hv. reflexivity.
  - cbn [forallb] in H. apply andb_true_iff in H as [Hx Hr]. cbn [app pft]. rewrite Hx.
    rewrite (IH c rest Hr Hv Hc). reflexivity.
Qed.

Lemma pft_run_incomplete run : forallb is_fmtch run = true -> pft PFlags run = Err err_expected.
Proof.
  induction run as [|x r IH]; intros H; [reflexivity|].
  cbn [forallb] in H. apply andb_true_iff in H as [Hx Hr]. cbn [pft]. rewrite Hx, (IH Hr). reflexivity.
Qed.

(* an unknown conversion character, after any well-formed prefix: a run-time error *)
Theorem unknown_verb_error chars ffmt pre gp tp run c rest args :
  parse_fmt_types pre = Ok (gp, tp) -> forallb is_fmtch run = true ->
  verb_info c = None -> is_fmtch c = false -> (run = [] -> c <> 37) ->
  sprintf chars ffmt (pre ++ 37 :: run ++ c :: rest) args = Err (s_fmterr ++ err_invalid c).
Proof.
  intros Hp Hrun Hv Hc H37. unfold sprintf, parse_fmt_types in *. rewrite (pft_app pre PLit _ gp tp Hp).
  cbn [pft]. change (37 =? 37) with true. cbv iota.
  assert (E : pft PPct (run ++ c :: rest) = Err (err_invalid c)).
  { destruct run as [|x r].
    - cbn [app pft]. replace (c =? 37) with false by (symmetry; apply Z.eqb_neq; apply H37; reflexivity).
      rewrite Hc, Hv. reflexivity.
    - pose proof Hrun as Hall. cbn [forallb] in Hrun. apply andb_true_iff in Hrun as [Hx Hr]. cbn [app pft].
      assert (x =? 37 = false) as ->.
      { destruct (x =? 37) eqn:E; [|reflexivity]. apply Z.eqb_eq in E. subst x. discriminate. }
      rewrite Hx. rewrite (pft_run_invalid r c rest Hr Hv Hc). reflexivity. }
  rewrite E. reflexivity.
Qed.

(* a format that ends inside a conversion specification: a run-time error *)
Theorem incomplete_spec_error chars ffmt pre gp tp run args :
  parse_fmt_types pre = Ok (gp, tp) -> forallb is_fmtch run = true ->
  sprintf chars ffmt (pre ++ 37 :: run) args = Err (s_fmterr ++ err_expected).
Proof.
  intros Hp Hrun. unfold sprintf, parse_fmt_types in *. rewrite (pft_app pre PLit _ gp tp Hp).
  cbn [pft]. change (37 =? 37) with true. cbv iota.
  assert (E : pft PPct run = Err err_expected).
  { destruct run as [|x r]; [reflexivity|].
    pose proof Hrun as Hall. cbn [forallb] in Hrun. apply andb_true_iff in Hrun as [Hx Hr]. cbn [pft].
    assert (x =? 37 = false) as ->.
    { destruct (x =? 37) eqn:E; [|reflexivity]. apply Z.eqb_eq in E. subst x. discriminate. }
    rewrite Hx, (pft_run_incomplete r Hr). reflexivity. }
  rewrite E. reflexivity.
Qed.

(* ---- the modelled fmt.Sprintf: no panic, fuel suffices ---- *)
Lemma print_arg_ok f a verb : (exists o, print_arg f a verb = Ok o) \/ print_arg f a verb = Unmod.
Proof. destruct a; cbn [print_arg]; eauto. Qed.

Lemma go_flags_len s : forall f, (length (snd (go_flags s f)) <= length s)%nat.
Proof.
  induction s as [|c t IH]; intros f; cbn [go_flags]; [cbn; lia|].
  repeat match goal with |- context [if ?b then _ else _] => destruct b end;
    try (etransitivity; [apply IH|cbn [length]; lia]); cbn [snd length]; lia.
Qed.

Lemma parsenum_len s : forall n b, (length (snd (parsenum s n b)) <= length s)%nat.
Proof.
  induction s as [|c t IH]; intros n b; cbn [parsenum]; [cbn; lia|].
  destruct (is_digit c); [|cbn; lia]. destruct (too_large n); [cbn; lia|].
  etransitivity; [apply IH|cbn [length]; lia].
Qed.

Definition not_bad {A} (r : res A) : Prop := match r with Panic | Err _ => False | _ => True end.

Lemma go_directive_shape s args :
  match go_directive s args with
  | Ok (_, rest, _, _) => (length rest <= length s)%nat
  | Unmod => True
  | Err _ | Panic => False
  end.
Proof.
  unfold go_directive. pose proof (go_flags_len s f0) as H1. destruct (go_flags s f0) as [f s1]. cbn [snd] in H1.
  destruct (starts_bracket s1); [exact I|].
  assert (H2 : (length (snd (fst (go_width f s1 args))) <= length s1)%nat).
  { destruct s1 as [|c t]; [cbn; lia|].
    destruct (Z.eq_dec c 42) as [->|N].
    - rewrite go_width_star. destruct (int_from_arg args) as [[n o] a']. cbn [fst snd length]. lia.
    - rewrite go_width_other by exact N. pose proof (parsenum_len (c :: t) 0 false) as P.
      destruct (parsenum (c :: t) 0 false) as [[num ok] r]. cbn [fst snd] in *. exact P. }
  destruct (go_width f s1 args) as [[[out1 f2] s2] args2]. cbn [fst snd] in H2.
  assert (H3 : match go_prec f2 s2 args2 with Ok (_, _, s3, _) => (length s3 <= length s2)%nat | Unmod => True | _ => False end).
  { destruct s2 as [|c t]; [cbn; lia|]. destruct (Z.eq_dec c 46) as [->|N].
    - destruct t as [|c1 t1]; [cbn; lia|]. destruct (Z.eq_dec c1 42) as [->|N42].
      + rewrite go_prec_star. destruct (int_from_arg args2) as [[n o] a']. destruct (n <? 0); cbn [length]; lia.
      + destruct (Z.eq_dec c1 91) as [->|N91]; [exact I|].
        rewrite go_prec_lit by assumption. pose proof (parsenum_len (c1 :: t1) 0 false) as P.
        destruct (parsenum (c1 :: t1) 0 false) as [[num ok] r]. cbn [snd] in P. cbn [length] in *. lia.
    - rewrite go_prec_none by exact N. lia. }
  destruct (go_prec f2 s2 args2) as [[[[out2 f3] s3] args3]| | |]; try contradiction; [|exact I].
  unfold go_verb. destruct (starts_bracket s3); [exact I|]. destruct s3 as [|verb rest]; [cbn; lia|].
  destruct (128 <=? verb); [exact I|]. destruct (verb =? 37); [cbn [length] in *; lia|].
  destruct args3 as [|a args']; [cbn [length] in *; lia|].
  destruct (print_arg_ok f3 a verb) as [[o ->]| ->]; [cbn [length] in *; lia | exact I].
Qed.

Lemma go_extra_ok args : not_bad (go_extra args).
Proof.
  assert (H : forall l, not_bad (extra_items l)).
  { induction l as [|a r IH]; cbn [extra_items]; [exact I|].
    destruct (print_arg_ok f0 a 118) as [[o ->]| ->]; [|exact I].
    destruct (extra_items r); try contradiction; exact I. }
  unfold go_extra. destruct args as [|a r]; [exact I|]. specialize (H (a :: r)).
  destruct (extra_items (a :: r)); try contradiction; exact I.
Qed.

Lemma span_lit_len s : (length (snd (span_lit s)) <= length s)%nat.
Proof.
  induction s as [|c t IH]; cbn [span_lit]; [cbn; lia|]. destruct (c =? 37); [cbn; lia|].
  destruct (span_lit t) as [l r]. cbn [snd length] in *. lia.
Qed.

Lemma go_printf_ok fuel : forall s args, (length s < fuel)%nat -> not_bad (go_printf fuel s args).
Proof.
  induction fuel as [|k IH]; intros s args Hf; [lia|]. cbn [go_printf].
  pose proof (span_lit_len s) as HL. destruct (span_lit s) as [lit r]. cbn [snd] in HL.
  destruct r as [|c r1].
  - pose proof (go_extra_ok args) as E. destruct (go_extra args); try contradiction; exact I.
  - pose proof (go_directive_shape r1 args) as D.
    destruct (go_directive r1 args) as [[[[out rest] args'] stop]| | |]; try contradiction; [|exact I].
    destruct stop.
    + pose proof (go_extra_ok args') as E. destruct (go_extra args'); try contradiction; exact I.
    + assert (Hk : (length rest < k)%nat) by (cbn [length] in HL; lia).
      specialize (IH rest args' Hk). destruct (go_printf k rest args'); try contradiction; exact I.
Qed.

(* fmt.Sprintf as modelled returns a string or declines (float text): never a
   panic, never out of fuel *)
Theorem go_sprintf_total s args : (exists o, go_sprintf s args = Ok o) \/ go_sprintf s args = Unmod.
Proof.
  unfold go_sprintf. pose proof (go_printf_ok (S (length s)) s args ltac:(lia)) as H.
  destruct (go_printf (S (length s)) s args); try contradiction; eauto.
Qed.

(* ---- sprintf never panics ---- *)
Lemma decode_rune_width s : s <> [] -> 1 <= snd (decode_rune s) <= zlen s.
Proof.
  destruct s as [|b0 t]; [congruence|]. intros _. rewrite zlen_cons. pose proof (zlen_nonneg t) as Ht.
  cbn [decode_rune].
  destruct (b0 <? 128); [cbn [snd]; lia|].
  destruct (in_rng 194 223 b0).
  { destruct t as [|b1 t1]; [cbn [snd]; lia|]. rewrite zlen_cons in *. pose proof (zlen_nonneg t1).
    destruct (is_cont b1); cbn [snd]; lia. }
  destruct (in_rng 224 239 b0).
  { destruct t as [|b1 [|b2 t2]]; try (cbn [snd]; lia). rewrite !zlen_cons in *. pose proof (zlen_nonneg t2).
    destruct (in_rng _ _ b1 && is_cont b2); cbn [snd]; lia. }
  destruct (in_rng 240 244 b0).
  { destruct t as [|b1 [|b2 [|b3 t3]]]; try (cbn [snd]; lia). rewrite !zlen_cons in *. pose proof (zlen_nonneg t3).
    destruct (in_rng _ _ b1 && is_cont b2 && is_cont b3); cbn [snd]; lia. }
  cbn [snd]. lia.
Qed.

Definition no_panic {A} (r : res A) : Prop := match r with Panic => False | _ => True end.

Lemma conv_arg_no_panic chars ffmt t a : (forall x, no_panic (ffmt x)) -> no_panic (conv_arg chars ffmt t a).
Proof.
  intros Hf.
  assert (Hs : no_panic (v_str ffmt a)).
  { destruct a; cbn [v_str]; try exact I. unfold num_str. destruct x as [|[]|m e]; try exact I.
    destruct (feq _ _); [exact I | apply Hf]. }
  destruct t; cbn [conv_arg]; try exact I.
  - destruct (v_str ffmt a); try contradiction; exact I.
  - unfold conv_c. destruct (v_is_true_str a) as [n isstr]. destruct isstr.
    + destruct (v_str ffmt a) as [s| | |]; cbn [rbind]; try contradiction; try exact I.
      destruct s as [|b0 t0]; [exact I|]. destruct chars; [|exact I].
      pose proof (decode_rune_width (b0 :: t0) ltac:(discriminate)) as W.
      unfold slice. replace (0 <=? 0) with true by reflexivity.
      replace (0 <=? snd (decode_rune (b0 :: t0))) with true by (symmetry; apply Z.leb_le; lia).
      replace (snd (decode_rune (b0 :: t0)) <=? zlen (b0 :: t0)) with true by (symmetry; apply Z.leb_le; lia).
      exact I.
    + destruct chars; exact I.
Qed.

Lemma conv_args_no_panic chars ffmt ts : forall args i, (forall x, no_panic (ffmt x)) ->
  0 <= i -> i + zlen ts <= zlen args -> no_panic (conv_args chars ffmt ts args i).
Proof.
  induction ts as [|t r IH]; intros args i Hf Hi Hl; cbn [conv_args]; [exact I|].
  rewrite zlen_cons in Hl. pose proof (zlen_nonneg r).
  assert (E : exists a, index args i = Ok a).
  { unfold index. replace (0 <=? i) with true by (symmetry; apply Z.leb_le; lia).
    replace (i <? zlen args) with true by (symmetry; apply Z.ltb_lt; lia). cbn [andb].
    destruct (nth_error args (Z.to_nat i)) eqn:N; [eauto|].
    apply nth_error_None in N. unfold zlen in *. lia. }
  destruct E as [a ->]. cbn [rbind].
  pose proof (conv_arg_no_panic chars ffmt t a Hf) as P.
  destruct (conv_arg chars ffmt t a); cbn [rbind]; try contradiction; try exact I.
  specialize (IH args (i + 1) Hf ltac:(lia) ltac:(lia)).
  destruct (conv_args chars ffmt r args (i + 1)); cbn [rbind]; try contradiction; exact I.
Qed.

Theorem sprintf_no_panic chars ffmt format args :
  (forall x, no_panic (ffmt x)) -> no_panic (sprintf chars ffmt format args).
Proof.
  intros Hf. unfold sprintf. pose proof (pft_total format PLit) as T. unfold parse_fmt_types.
  destruct (pft PLit format) as [[g ts]|e| |]; try contradiction; [|exact I].
  destruct (zlen ts >? zlen args) eqn:E; [exact I|].
  rewrite Z.gtb_ltb in E. apply Z.ltb_ge in E.
  pose proof (conv_args_no_panic chars ffmt ts args 0 Hf ltac:(lia) ltac:(lia)) as P.
  destruct (conv_args chars ffmt ts args 0) as [gs| | |]; cbn [rbind]; try contradiction; try exact I.
  destruct (go_sprintf_total g gs) as [[o ->]| ->]; exact I.
Qed.

(* and its only errors are the two format errors *)
Theorem sprintf_errors chars ffmt format args e :
  (forall x, not_bad (ffmt x)) -> sprintf chars ffmt format args = Err e ->
  (exists c, e = s_fmterr ++ err_invalid c) \/ e = s_fmterr ++ err_expected \/
  exists got want, got < want /\ e = err_args got want.
Proof.
  intros Hf. unfold sprintf. pose proof (pft_total format PLit) as T. unfold parse_fmt_types.
  destruct (pft PLit format) as [[g ts]|e0| |]; try contradiction.
  - destruct (zlen ts >? zlen args) eqn:E.
    + intros [= <-]. right. right. exists (zlen args), (zlen ts). split; [|reflexivity].
      rewrite Z.gtb_ltb in E. apply Z.ltb_lt in E. exact E.
    + intros H. exfalso.
      assert (C : forall ts args i gs', conv_args chars ffmt ts args i <> Err gs').
      { clear - Hf. induction ts as [|t r IH]; intros args i gs' H; cbn [conv_args] in H; [discriminate|].
        destruct (index args i) as [a| | |] eqn:EI; cbn [rbind] in H; try discriminate.
        - assert (CA : forall m, conv_arg chars ffmt t a <> Err m).
          { intros m Hm. assert (Hs : forall m', v_str ffmt a <> Err m').
            { intros m' Hm'. destruct a; cbn [v_str] in Hm'; try discriminate. unfold num_str in Hm'.
              destruct x as [|[]|mm ee]; try discriminate. destruct (feq _ _); [discriminate|].
              specialize (Hf (FFin mm ee)). rewrite Hm' in Hf. exact Hf. }
            destruct t; cbn [conv_arg] in Hm; try discriminate.
            - destruct (v_str ffmt a) eqn:ES; cbn [rbind] in Hm; try discriminate. exact (Hs _ eq_refl).
            - unfold conv_c in Hm. destruct (v_is_true_str a) as [n isstr]. destruct isstr.
              + destruct (v_str ffmt a) as [s| | |] eqn:ES; cbn [rbind] in Hm; try discriminate; [|exact (Hs _ eq_refl)].
                destruct s as [|b0 t0]; [discriminate|]. destruct chars; [|discriminate].
                unfold slice in Hm. destruct (_ && _ && _); discriminate.
              + destruct chars; discriminate. }
          destruct (conv_arg chars ffmt t a) as [g0| | |] eqn:EC; cbn [rbind] in H; try discriminate; [|exact (CA _ eq_refl)].
          destruct (conv_args chars ffmt r args (i + 1)) eqn:ER; cbn [rbind] in H; try discriminate.
          exact (IH _ _ _ ER).
        - unfold index in EI. destruct (_ && _); [destruct (nth_error _ _)|]; discriminate. }
      destruct (conv_args chars ffmt ts args 0) as [gs| | |] eqn:EC; cbn [rbind] in H; try discriminate.
      * destruct (go_sprintf_total g gs) as [[o Ho]| Ho]; rewrite Ho in H; discriminate.
      * exact (C _ _ _ _ EC).
  - intros [= <-]. destruct T as [->|[c ->]]; [right; left; reflexivity | left; exists c; reflexivity].
Qed.
