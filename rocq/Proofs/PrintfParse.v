(* C09: parseFmtTypes is total; the run-time errors; sprintf never panics and
   the modelled fmt.Sprintf never runs out of fuel. *)
From Verif Require Import Lib.Base Lib.Dyadic Lib.Utf8 Model.Printf
  Proofs.PrintfSpec Proofs.PrintfBase Proofs.PrintfDir Proofs.PrintfScan.

(* ---- what parseFmtTypes guarantees about the recorded '*' precisions ----
   each TyP has its offset, the offsets point at two bytes inside the format, they
   increase by at least 2, and a TyP is always followed by the type of its conversion *)
Fixpoint stars_ok (ts : list ty) (st : list Z) (lo len : Z) : Prop :=
  match ts with
  | [] => st = []
  | TyP :: ts' =>
      match st with
      | [] => False
      | off :: st' => lo <= off /\ off + 2 <= len /\ ts' <> [] /\ stars_ok ts' st' (off + 2) len
      end
  | _ :: ts' => stars_ok ts' st lo len
  end.

Lemma stars_ok_weaken ts : forall st lo lo' len, stars_ok ts st lo len -> lo' <= lo -> stars_ok ts st lo' len.
Proof.
  induction ts as [|t r IH]; intros st lo lo' len H L; [exact H|].
  destruct t; cbn [stars_ok] in *; try (eapply IH; eassumption).
  destruct st as [|off st']; [exact H|]. destruct H as (A & B & C & D). repeat split; try assumption. lia.
Qed.

Definition lo_of (m : pmode) (pos : Z) : Z := match m with PDot => pos - 1 | _ => pos end.

Definition pft_post (m : pmode) (pos : Z) (r : res pres) : Prop :=
  match r with
  | Ok (g, ts, st) => stars_ok ts st (lo_of m pos) (pos + zlen g) /\ (m = PPrecDone -> ts <> [])
  | Err e => e = err_expected \/ exists c, e = err_invalid c
  | Panic | Unmod => False
  end.

Lemma verb_info_not_p c c' t' : verb_info c = Some (c', t') -> t' <> TyP.
Proof.
  unfold verb_info. intros H.
  repeat match type of H with (if ?b then _ else _) = _ => destruct b end; try discriminate;
    injection H as _ <-; discriminate.
Qed.

Lemma post_cons m m' pos c tys r : pft_post m' (pos + 1) r -> m <> PPrecDone ->
  (tys = [] \/ tys = [TyD]) -> pft_post m pos (cons_out c tys [] r).
Proof.
  intros H Hm Ht. destruct r as [[[g ts] st]|e| |]; cbn [cons_out pft_post] in *; try exact H.
  destruct H as [H _]. split; [|intros E; contradiction].
  rewrite zlen_cons. replace (pos + (1 + zlen g)) with (pos + 1 + zlen g) by lia.
  assert (S : stars_ok ts st (lo_of m pos) (pos + 1 + zlen g)).
  { eapply stars_ok_weaken; [exact H|]. destruct m, m'; cbn [lo_of]; lia. }
  destruct Ht as [->| ->]; exact S.
Qed.

Lemma post_verb m pos c c' t' k (l : bytes) r : verb_info c = Some (c', t') -> pft_post PLit (pos + k) r ->
  zlen l = k -> 0 <= k ->
  pft_post m pos (match r with Ok (o, ts, st) => Ok (l ++ o, t' :: ts, st) | e => e end).
Proof.
  intros Hv H Hl Hk. destruct r as [[[g ts] st]|e| |]; cbn [pft_post] in *; try exact H.
  destruct H as [H _]. split; [|intros _; discriminate].
  pose proof (verb_info_not_p _ _ _ Hv) as Np.
  rewrite zlen_app, Hl. replace (pos + (k + zlen g)) with (pos + k + zlen g) by lia.
  assert (S : stars_ok ts st (lo_of m pos) (pos + k + zlen g)).
  { eapply stars_ok_weaken; [exact H|]. cbn [lo_of]. destruct m; cbn [lo_of]; lia. }
  destruct t'; try exact S. congruence.
Qed.

Lemma pft_inv s : forall m pos, pft_post m pos (pft m pos s).
Proof.
  induction s as [|c t IH]; intros m pos.
  - destruct m; cbn [pft pft_post stars_ok]; auto. split; [reflexivity | discriminate].
  - assert (V : pft_post m pos
      match verb_info c with
      | Some (c', t') =>
          if ((c' =? 103) || (c' =? 71)) && negb (has_prec m)
          then cons_out 46 [] [] (cons_out 54 [] [] (cons_out c' [t'] [] (pft PLit (pos + 3) t)))
          else cons_out c' [t'] [] (pft PLit (pos + 1) t)
      | None => Err (err_invalid c)
      end).
    { destruct (verb_info c) as [[c' t']|] eqn:Hv; [|cbn [pft_post]; right; exists c; reflexivity].
      destruct (((c' =? 103) || (c' =? 71)) && negb (has_prec m)).
      - pose proof (post_verb m pos c c' t' 3 [46; 54; c'] (pft PLit (pos + 3) t) Hv (IH PLit (pos + 3)) eq_refl ltac:(lia)) as P.
        destruct (pft PLit (pos + 3) t) as [[[g ts] st]|e| |]; exact P.
      - pose proof (post_verb m pos c c' t' 1 [c'] (pft PLit (pos + 1) t) Hv (IH PLit (pos + 1)) eq_refl ltac:(lia)) as P.
        destruct (pft PLit (pos + 1) t) as [[[g ts] st]|e| |]; exact P. }
    assert (N : forall m', m <> PPrecDone -> pft_post m pos (cons_out c [] [] (pft m' (pos + 1) t))).
    { intros m' Hm. apply (post_cons m m'); [apply IH | exact Hm | left; reflexivity]. }
    destruct m; cbn [pft].
    + destruct (c =? 37); apply N; discriminate.
    + destruct (c =? 37); [apply N; discriminate|]. destruct (is_flagch c); [apply N; discriminate|].
      destruct (c =? 42); [apply (post_cons PPct PWidthDone); [apply IH | discriminate | right; reflexivity]|].
      destruct (is_digit c); [apply N; discriminate|]. destruct (c =? 46); [apply N; discriminate|]. exact V.
    + destruct (is_flagch c); [apply N; discriminate|].
      destruct (c =? 42); [apply (post_cons PFlags PWidthDone); [apply IH | discriminate | right; reflexivity]|].
      destruct (is_digit c); [apply N; discriminate|]. destruct (c =? 46); [apply N; discriminate|]. exact V.
    + destruct (is_digit c); [apply N; discriminate|]. destruct (c =? 46); [apply N; discriminate|]. exact V.
    + destruct (c =? 46); [apply N; discriminate|]. exact V.
    + destruct (c =? 42).
      * pose proof (IH PPrecDone (pos + 1)) as P.
        destruct (pft PPrecDone (pos + 1) t) as [[[g ts] st]|e| |]; cbn [cons_out pft_post] in *; try exact P.
        destruct P as [P Q]. split; [|intros E; discriminate E].
        cbn [app stars_ok lo_of]. rewrite zlen_cons. pose proof (zlen_nonneg g).
        repeat split; try lia; [exact (Q eq_refl)|].
        replace (pos - 1 + 2) with (pos + 1) by lia. replace (pos + (1 + zlen g)) with (pos + 1 + zlen g) by lia. exact P.
      * destruct (is_digit c); [apply N; discriminate|]. exact V.
    + destruct (is_digit c); [apply N; discriminate|]. exact V.
    + exact V.
Qed.

(* parseFmtTypes is total: one of two format errors, or a translated format with consistent bookkeeping *)
Theorem fmt_parse_total s :
  (exists e, parse_fmt_types s = Err e /\ (e = err_expected \/ exists c, e = err_invalid c)) \/
  (exists g ts st, parse_fmt_types s = Ok (g, ts, st) /\ stars_ok ts st 0 (zlen g)).
Proof.
  unfold parse_fmt_types. pose proof (pft_inv s PLit 0) as H.
  destruct (pft PLit 0 s) as [[[g ts] st]|e| |]; cbn [pft_post lo_of] in H; try contradiction.
  - right. exists g, ts, st. split; [reflexivity|]. rewrite Z.add_0_l in H. exact (proj1 H).
  - left. exists e. auto.
Qed.

(* ---- run-time errors ---- *)
Theorem too_few_args_error chars ffmt s g ts st args :
  parse_fmt_types s = Ok (g, ts, st) -> zlen args < zlen ts ->
  sprintf chars ffmt s args = Err (err_args (zlen args) (zlen ts)).
Proof.
  intros H L. unfold sprintf. rewrite H.
  replace (zlen ts >? zlen args) with true by (symmetry; rewrite Z.gtb_ltb; apply Z.ltb_lt; exact L). reflexivity.
Qed.

(* parsing is compositional after a complete prefix *)
Lemma pft_app a : forall m pos b ga ta sa, pft m pos a = Ok (ga, ta, sa) ->
  pft m pos (a ++ b) = prepend ga ta sa (pft PLit (pos + zlen ga) b).
Proof.
  induction a as [|c t IH]; intros m pos b ga ta sa H.
  - destruct m; cbn [pft] in H; try discriminate. injection H as <- <- <-. cbn [app].
    rewrite zlen_nil, Z.add_0_r, prepend_nil. reflexivity.
  - assert (Hco : forall m' pos' (l : bytes) tys sts, pos' = pos + zlen l ->
              prepend l tys sts (pft m' pos' t) = Ok (ga, ta, sa) ->
              prepend l tys sts (pft m' pos' (t ++ b)) = prepend ga ta sa (pft PLit (pos + zlen ga) b)).
    { intros m' pos' l tys sts Hp Hc. destruct (pft m' pos' t) as [[[g0 t0] s0]| | |] eqn:E; cbn [prepend] in Hc; try discriminate.
      injection Hc as <- <- <-. rewrite (IH m' _ b g0 t0 s0 E). rewrite prepend_prepend.
      f_equal. f_equal. rewrite zlen_app. lia. }
    cbn [app pft] in H |- *.
    repeat match goal with
           | Hx : context [if ?b then _ else _] |- _ => destruct b
           | Hx : context [match verb_info c with Some _ => _ | None => _ end] |- _ => destruct (verb_info c) as [[c' t']|]
           | Hx : context [match m with PLit => _ | _ => _ end] |- _ => destruct m
           end; try discriminate;
    rewrite ?cons_out_prepend, ?prepend_prepend in *;
    (eapply Hco; [ | eassumption ]); unfold zlen; cbn [length app]; lia.
Qed.

(* the byte after a specification prefix is no conversion character: a run-time error,
   after any accepted prefix of the format.  [is_verb_pos] says that the byte cannot
   continue the specification (it is not a further flag / digit / '*' / '.' where one
   may stand): this covers the unknown conversions as well as flags, '*' and '.' that
   come after the width or the precision (%5-d, %.3.2f, %*5d, %5*d) *)
Theorem unknown_verb_error chars ffmt pre gp tp sp fl w p c rest args :
  parse_fmt_types pre = Ok (gp, tp, sp) ->
  forallb is_flag fl = true -> wf_w w = true -> wf_p p = true ->
  verb_info c = None -> is_verb_pos (mode_wp w p) c = true ->
  (fl = [] -> w = WNone -> p = PrNone -> (c =? 37) = false) ->
  sprintf chars ffmt (pre ++ 37 :: spec_text fl w p ++ c :: rest) args = Err (s_fmterr ++ err_invalid c).
Proof.
  intros Hp Hfl Hw Hpp Hv Hpos H37. unfold sprintf, parse_fmt_types in *. rewrite (pft_app pre PLit 0 _ gp tp sp Hp).
  cbn [pft]. change (37 =? 37) with true. cbv iota. rewrite cons_out_prepend.
  rewrite pft_pct_flags by (apply spec_head; assumption).
  rewrite (pft_spec _ _ _ _ _ Hfl Hw Hpp). rewrite (pft_at_verb _ _ _ _ Hpos). rewrite Hv. reflexivity.
Qed.

(* a format ending inside a conversion specification: a run-time error *)
Theorem incomplete_spec_error chars ffmt pre gp tp sp fl w p args :
  parse_fmt_types pre = Ok (gp, tp, sp) ->
  forallb is_flag fl = true -> wf_w w = true -> wf_p p = true ->
  sprintf chars ffmt (pre ++ 37 :: spec_text fl w p) args = Err (s_fmterr ++ err_expected).
Proof.
  intros Hp Hfl Hw Hpp. unfold sprintf, parse_fmt_types in *. rewrite (pft_app pre PLit 0 _ gp tp sp Hp).
  cbn [pft]. change (37 =? 37) with true. cbv iota. rewrite cons_out_prepend.
  assert (E : pft PPct (0 + zlen gp + 1) (spec_text fl w p) = Err err_expected).
  { rewrite <- (app_nil_r (spec_text fl w p)).
    rewrite pft_pct_flags.
    - rewrite (pft_spec _ _ _ _ _ Hfl Hw Hpp). destruct (mode_wp w p) eqn:EM; try reflexivity.
      destruct p as [|[|? ?]|]; try discriminate; destruct w; discriminate.
    - unfold spec_text. destruct fl as [|f t].
      + cbn [app]. destruct w as [|ds|]; cbn [render_w app].
        * destruct p; cbn [render_p app]; try reflexivity; exact I.
        * destruct ds as [|c0 t0]; [discriminate|]. cbn [wf_w] in Hw.
          apply andb_true_iff in Hw as [Hw _]. apply andb_true_iff in Hw as [Hc0 _]. cbn [app]. apply (is_dig_facts c0 Hc0).
        * reflexivity.
      + cbn [app forallb] in *. apply andb_true_iff in Hfl as [Hf _]. unfold is_flag in Hf.
        repeat (apply orb_true_iff in Hf as [Hf|Hf]); apply Z.eqb_eq in Hf; subst f; reflexivity. }
  rewrite E. reflexivity.
Qed.

(* ---- the modelled fmt.Sprintf: no panic, fuel suffices ---- *)
Lemma print_arg_ok f a verb : (exists o, print_arg f a verb = Ok o) \/ print_arg f a verb = Unmod.
Proof.
  destruct a; cbn [print_arg]; eauto.
  repeat match goal with |- context [if ?b then _ else _] => destruct b end; eauto.
Qed.

Lemma go_flags_len s : forall f, (length (snd (go_flags s f)) <= length s)%nat.
Proof.
  induction s as [|c t IH]; intros f; cbn [go_flags]; [cbn; lia|].
  repeat match goal with |- context [if ?b then _ else _] => destruct b end;
    try (etransitivity; [apply IH|cbn [length]; lia]); cbn [snd length]; lia.
Qed.

Lemma parsenum_len s : forall n b, (length (snd (parsenum s n b)) <= length s)%nat.
Proof.
  induction s as [|c t IH]; intros n b; cbn [parsenum]; [cbn; lia|].
  destruct (is_digit c); [|cbn; lia]. destruct (too_large n); [cbn; lia|].
  etransitivity; [apply IH|cbn [length]; lia].
Qed.

Definition not_bad {A} (r : res A) : Prop := match r with Panic | Err _ => False | _ => True end.

Lemma go_directive_shape s args :
  match go_directive s args with
  | Ok (_, rest, _, _) => (length rest <= length s)%nat
  | Unmod => True
  | Err _ | Panic => False
  end.
Proof.
  unfold go_directive. pose proof (go_flags_len s f0) as H1. destruct (go_flags s f0) as [f s1]. cbn [snd] in H1.
  destruct (starts_bracket s1); [exact I|].
  assert (H2 : (length (snd (fst (go_width f s1 args))) <= length s1)%nat).
  { destruct s1 as [|c t]; [cbn; lia|].
    destruct (Z.eq_dec c 42) as [->|N].
    - rewrite go_width_star. destruct (int_from_arg args) as [[n o] a']. cbn [fst snd length]. lia.
    - rewrite go_width_other by exact N. pose proof (parsenum_len (c :: t) 0 false) as P.
      destruct (parsenum (c :: t) 0 false) as [[num ok] r]. cbn [fst snd] in *. exact P. }
  destruct (go_width f s1 args) as [[[out1 f2] s2] args2]. cbn [fst snd] in H2.
  assert (H3 : match go_prec f2 s2 args2 with Ok (_, _, s3, _) => (length s3 <= length s2)%nat | Unmod => True | _ => False end).
  { destruct s2 as [|c t]; [cbn; lia|]. destruct (Z.eq_dec c 46) as [->|N].
    - destruct t as [|c1 t1]; [cbn; lia|]. destruct (Z.eq_dec c1 42) as [->|N42].
      + rewrite go_prec_star. destruct (int_from_arg args2) as [[n o] a']. destruct (n <? 0); cbn [length]; lia.
      + destruct (Z.eq_dec c1 91) as [->|N91]; [exact I|].
        rewrite go_prec_lit by assumption. pose proof (parsenum_len (c1 :: t1) 0 false) as P.
        destruct (parsenum (c1 :: t1) 0 false) as [[num ok] r]. cbn [snd] in P. cbn [length] in *. lia.
    - rewrite go_prec_none by exact N. lia. }
  destruct (go_prec f2 s2 args2) as [[[[out2 f3] s3] args3]| | |]; try contradiction; [|exact I].
  unfold go_verb. destruct (starts_bracket s3); [exact I|]. destruct s3 as [|verb rest]; [cbn; lia|].
  destruct (128 <=? verb); [exact I|]. destruct (verb =? 37); [cbn [length] in *; lia|].
  destruct args3 as [|a args']; [cbn [length] in *; lia|].
  destruct (print_arg_ok f3 a verb) as [[o ->]| ->]; [cbn [length] in *; lia | exact I].
Qed.

Lemma go_extra_ok args : not_bad (go_extra args).
Proof.
  assert (H : forall l, not_bad (extra_items l)).
  { induction l as [|a r IH]; cbn [extra_items]; [exact I|].
    destruct (print_arg_ok f0 a 118) as [[o ->]| ->]; [|exact I].
    destruct (extra_items r); try contradiction; exact I. }
  unfold go_extra. destruct args as [|a r]; [exact I|]. specialize (H (a :: r)).
  destruct (extra_items (a :: r)); try contradiction; exact I.
Qed.

Lemma span_lit_len s : (length (snd (span_lit s)) <= length s)%nat.
Proof.
  induction s as [|c t IH]; cbn [span_lit]; [cbn; lia|]. destruct (c =? 37); [cbn; lia|].
  destruct (span_lit t) as [l r]. cbn [snd length] in *. lia.
Qed.

Lemma go_printf_ok fuel : forall s args, (length s < fuel)%nat -> not_bad (go_printf fuel s args).
Proof.
  induction fuel as [|k IH]; intros s args Hf; [lia|]. cbn [go_printf].
  pose proof (span_lit_len s) as HL. destruct (span_lit s) as [lit r]. cbn [snd] in HL.
  destruct r as [|c r1].
  - pose proof (go_extra_ok args) as E. destruct (go_extra args); try contradiction; exact I.
  - pose proof (go_directive_shape r1 args) as D.
    destruct (go_directive r1 args) as [[[[out rest] args'] stop]| | |]; try contradiction; [|exact I].
    destruct stop.
    + pose proof (go_extra_ok args') as E. destruct (go_extra args'); try contradiction; exact I.
    + assert (Hk : (length rest < k)%nat) by (cbn [length] in HL; lia).
      specialize (IH rest args' Hk). destruct (go_printf k rest args'); try contradiction; exact I.
Qed.

(* fmt.Sprintf as modelled returns a string or declines (float text): never a
   panic, never out of fuel *)
Theorem go_sprintf_total s args : (exists o, go_sprintf s args = Ok o) \/ go_sprintf s args = Unmod.
Proof.
  unfold go_sprintf. pose proof (go_printf_ok (S (length s)) s args ltac:(lia)) as H.
  destruct (go_printf (S (length s)) s args); try contradiction; eauto.
Qed.

(* ---- sprintf never panics ---- *)
Lemma decode_rune_width s : s <> [] -> 1 <= snd (decode_rune s) <= zlen s.
Proof.
  destruct s as [|b0 t]; [congruence|]. intros _. rewrite zlen_cons. pose proof (zlen_nonneg t) as Ht.
  cbn [decode_rune].
  destruct (b0 <? 128); [cbn [snd]; lia|].
  destruct (in_rng 194 223 b0).
  { destruct t as [|b1 t1]; [cbn [snd]; lia|]. rewrite zlen_cons in *. pose proof (zlen_nonneg t1).
    destruct (is_cont b1); cbn [snd]; lia. }
  destruct (in_rng 224 239 b0).
  { destruct t as [|b1 [|b2 t2]]; try (cbn [snd]; lia). rewrite !zlen_cons in *. pose proof (zlen_nonneg t2).
    destruct (in_rng _ _ b1 && is_cont b2); cbn [snd]; lia. }
  destruct (in_rng 240 244 b0).
  { destruct t as [|b1 [|b2 [|b3 t3]]]; try (cbn [snd]; lia). rewrite !zlen_cons in *. pose proof (zlen_nonneg t3).
    destruct (in_rng _ _ b1 && is_cont b2 && is_cont b3); cbn [snd]; lia. }
  cbn [snd]. lia.
Qed.

Definition no_panic {A} (r : res A) : Prop := match r with Panic => False | _ => True end.

Lemma conv_arg_no_panic chars ffmt t a : (forall x, no_panic (ffmt x)) -> no_panic (conv_arg chars ffmt t a).
Proof.
  intros Hf.
  assert (Hs : no_panic (v_str ffmt a)).
  { destruct a; cbn [v_str]; try exact I. unfold num_str. destruct x as [|[]|m e]; try exact I.
    destruct (feq _ _); [exact I | apply Hf]. }
  destruct t; cbn [conv_arg]; try exact I.
  - destruct (v_str ffmt a); try contradiction; exact I.
  - unfold conv_c. destruct (v_is_true_str a) as [n isstr]. destruct isstr.
    + destruct (v_str ffmt a) as [s| | |]; cbn [rbind]; try contradiction; try exact I.
      destruct s as [|b0 t0]; [exact I|]. destruct chars; [|exact I].
      pose proof (decode_rune_width (b0 :: t0) ltac:(discriminate)) as W.
      unfold slice. replace (0 <=? 0) with true by reflexivity.
      replace (0 <=? snd (decode_rune (b0 :: t0))) with true by (symmetry; apply Z.leb_le; lia).
      replace (snd (decode_rune (b0 :: t0)) <=? zlen (b0 :: t0)) with true by (symmetry; apply Z.leb_le; lia).
      exact I.
    + destruct chars; exact I.
Qed.

Lemma slice_ok {A} (s : list A) lo hi : 0 <= lo -> lo <= hi -> hi <= zlen s ->
  exists r, slice s lo hi = Ok r /\ zlen r = hi - lo.
Proof.
  intros A0 A1 A2. unfold slice.
  replace (0 <=? lo) with true by (symmetry; apply Z.leb_le; lia).
  replace (lo <=? hi) with true by (symmetry; apply Z.leb_le; lia).
  replace (hi <=? zlen s) with true by (symmetry; apply Z.leb_le; lia). cbn [andb].
  eexists. split; [reflexivity|]. rewrite zlen_ztake; [lia|]. rewrite zlen_zdrop by lia. lia.
Qed.

Lemma cons_arg_no_panic g r : no_panic r -> no_panic (cons_arg g r).
Proof. destruct r as [[fm gs]| | |]; intros H; exact H. Qed.

(* the conversion loop never panics on what parseFmtTypes produces *)
Lemma conv_args_no_panic chars ffmt ts : forall args i fm st rm lo len, (forall x, no_panic (ffmt x)) ->
  0 <= i -> i + zlen ts <= zlen args ->
  stars_ok ts st lo len -> 0 <= rm <= lo -> zlen fm = len - rm ->
  no_panic (conv_args chars ffmt ts args i fm st rm).
Proof.
  induction ts as [|t r IH]; intros args i fm st rm lo len Hf Hi Hl Hs Hrm Hfm; cbn [conv_args]; [exact I|].
  rewrite zlen_cons in Hl. pose proof (zlen_nonneg r).
  assert (E : exists a, index args i = Ok a).
  { unfold index. replace (0 <=? i) with true by (symmetry; apply Z.leb_le; lia).
    replace (i <? zlen args) with true by (symmetry; apply Z.ltb_lt; lia). cbn [andb].
    destruct (nth_error args (Z.to_nat i)) eqn:N; [eauto|].
    apply nth_error_None in N. unfold zlen in *. lia. }
  destruct E as [a ->]. cbn [rbind].
  assert (Other : t <> TyP -> stars_ok r st lo len ->
            no_panic (do g <- conv_arg chars ffmt t a; cons_arg g (conv_args chars ffmt r args (i + 1) fm st rm))).
  { intros _ Hs'. pose proof (conv_arg_no_panic chars ffmt t a Hf) as P.
    destruct (conv_arg chars ffmt t a); cbn [rbind]; try contradiction; try exact I.
    apply cons_arg_no_panic. apply (IH args (i + 1) fm st rm lo len Hf); try assumption; lia. }
  destruct t; try (apply Other; [discriminate | exact Hs]).
  cbn [stars_ok] in Hs. destruct st as [|off st']; [contradiction|]. destruct Hs as (A & B & C & D).
  destruct (f2i64 (v_num a) <? 0).
  - destruct r as [|t2 r2]; [congruence|].
    assert (Hslice : no_panic (do f1 <- slice fm 0 (off - rm); do f2 <- slice fm (off - rm + 2) (zlen fm);
                               conv_args chars ffmt (t2 :: r2) args (i + 1) (f1 ++ f2) st' (rm + 2))).
    { destruct (slice_ok fm 0 (off - rm) ltac:(lia) ltac:(lia) ltac:(lia)) as (f1 & -> & L1).
      destruct (slice_ok fm (off - rm + 2) (zlen fm) ltac:(lia) ltac:(lia) ltac:(lia)) as (f2 & -> & L2).
      cbn [rbind]. apply (IH args (i + 1) (f1 ++ f2) st' (rm + 2) (off + 2) len Hf); try assumption; try lia.
      rewrite zlen_app. lia. }
    destruct t2; try exact Hslice.
    apply cons_arg_no_panic. apply (IH args (i + 1) fm st' rm (off + 2) len Hf); try assumption; lia.
  - apply cons_arg_no_panic. apply (IH args (i + 1) fm st' rm (off + 2) len Hf); try assumption; lia.
Qed.

Theorem sprintf_no_panic chars ffmt format args :
  (forall x, no_panic (ffmt x)) -> no_panic (sprintf chars ffmt format args).
Proof.
  intros Hf. unfold sprintf. pose proof (pft_inv format PLit 0) as T. unfold parse_fmt_types.
  destruct (pft PLit 0 format) as [[[g ts] st]|e| |]; cbn [pft_post lo_of] in T; try contradiction; [|exact I].
  destruct T as [T _]. rewrite Z.add_0_l in T.
  destruct (zlen ts >? zlen args) eqn:E; [exact I|].
  rewrite Z.gtb_ltb in E. apply Z.ltb_ge in E.
  pose proof (conv_args_no_panic chars ffmt ts args 0 g st 0 0 (zlen g) Hf ltac:(lia) ltac:(lia) T ltac:(lia) ltac:(lia)) as P.
  destruct (conv_args chars ffmt ts args 0 g st 0) as [[fm gs]| | |]; cbn [rbind]; try contradiction; try exact I.
  cbn [fst snd]. destruct (go_sprintf_total fm gs) as [[o ->]| ->]; exact I.
Qed.

(* and its only errors are the format errors *)
Lemma conv_arg_no_err chars ffmt t a m : (forall x, not_bad (ffmt x)) -> conv_arg chars ffmt t a <> Err m.
Proof.
  intros Hf Hm.
  assert (Hs : forall m', v_str ffmt a <> Err m').
  { intros m' Hm'. destruct a; cbn [v_str] in Hm'; try discriminate. unfold num_str in Hm'.
    destruct x as [|[]|mm ee]; try discriminate. destruct (feq _ _); [discriminate|].
    specialize (Hf (FFin mm ee)). rewrite Hm' in Hf. exact Hf. }
  destruct t; cbn [conv_arg] in Hm; try discriminate.
  - destruct (v_str ffmt a) eqn:ES; cbn [rbind] in Hm; try discriminate. exact (Hs _ eq_refl).
  - unfold conv_c in Hm. destruct (v_is_true_str a) as [n isstr]. destruct isstr.
    + destruct (v_str ffmt a) as [s| | |] eqn:ES; cbn [rbind] in Hm; try discriminate; [|exact (Hs _ eq_refl)].
      destruct s as [|b0 t0]; [discriminate|]. destruct chars; [|discriminate].
      unfold slice in Hm. destruct (_ && _ && _); discriminate.
    + destruct chars; discriminate.
Qed.

Lemma cons_arg_err g r m : cons_arg g r = Err m -> r = Err m.
Proof. destruct r as [[fm gs]| | |]; cbn [cons_arg]; intros H; try discriminate; exact H. Qed.

Lemma conv_args_no_err chars ffmt ts : forall args i fm st rm m, (forall x, not_bad (ffmt x)) ->
  conv_args chars ffmt ts args i fm st rm <> Err m.
Proof.
  induction ts as [|t r IH]; intros args i fm st rm m Hf H; cbn [conv_args] in H; [discriminate|].
  destruct (index args i) as [a| | |] eqn:EI; cbn [rbind] in H; try discriminate.
  2:{ unfold index in EI. destruct (_ && _); [destruct (nth_error _ _)|]; discriminate. }
  assert (Other : (do g <- conv_arg chars ffmt t a; cons_arg g (conv_args chars ffmt r args (i + 1) fm st rm)) <> Err m).
  { intros H'. destruct (conv_arg chars ffmt t a) as [g| | |] eqn:EC; cbn [rbind] in H'; try discriminate.
    - apply cons_arg_err in H'. exact (IH _ _ _ _ _ _ Hf H').
    - exact (conv_arg_no_err chars ffmt t a _ Hf EC). }
  destruct t; try (exact (Other H)).
  destruct st as [|off st']; [discriminate|].
  destruct (f2i64 (v_num a) <? 0).
  - destruct r as [|t2 r2]; [discriminate|].
    assert (S : (do f1 <- slice fm 0 (off - rm); do f2 <- slice fm (off - rm + 2) (zlen fm);
                 conv_args chars ffmt (t2 :: r2) args (i + 1) (f1 ++ f2) st' (rm + 2)) <> Err m).
    { intros H'. unfold slice in H'. destruct (_ && _ && _); cbn [rbind] in H'; [|discriminate].
      destruct (_ && _ && _); cbn [rbind] in H'; [|discriminate]. exact (IH _ _ _ _ _ _ Hf H'). }
    destruct t2; try exact (S H). apply cons_arg_err in H. exact (IH _ _ _ _ _ _ Hf H).
  - apply cons_arg_err in H. exact (IH _ _ _ _ _ _ Hf H).
Qed.

Theorem sprintf_errors chars ffmt format args e :
  (forall x, not_bad (ffmt x)) -> sprintf chars ffmt format args = Err e ->
  (exists c, e = s_fmterr ++ err_invalid c) \/ e = s_fmterr ++ err_expected \/
  exists got want, got < want /\ e = err_args got want.
Proof.
  intros Hf. unfold sprintf. pose proof (pft_inv format PLit 0) as T. unfold parse_fmt_types.
  destruct (pft PLit 0 format) as [[[g ts] st]|e0| |]; cbn [pft_post] in T; try contradiction.
  - destruct (zlen ts >? zlen args) eqn:E.
    + intros [= <-]. right. right. exists (zlen args), (zlen ts). split; [|reflexivity].
      rewrite Z.gtb_ltb in E. apply Z.ltb_lt in E. exact E.
    + intros H. exfalso.
      destruct (conv_args chars ffmt ts args 0 g st 0) as [[fm gs]| | |] eqn:EC; cbn [rbind] in H; try discriminate.
      * cbn [fst snd] in H. destruct (go_sprintf_total fm gs) as [[o Ho]| Ho]; rewrite Ho in H; discriminate.
      * exact (conv_args_no_err chars ffmt ts args 0 g st 0 _ Hf EC).
  - intros [= <-]. destruct T as [->|[c ->]]; [right; left; reflexivity | left; exists c; reflexivity].
Qed.
