(* C17: callNative on a function that checkNativeFunc accepted: which Go arguments it
   builds, that no "unexpected type" arm / index / reflect.Call panic is reached, and
   how results and errors come back. *)
From Verif Require Import Lib.Base Lib.Dyadic Model.Native
  Proofs.NativeCheck Proofs.NativeConv.

(* ---- list helpers ---- *)
Lemma nindex_nth {A} (l : list A) i d : 0 <= i < zlen l -> nindex l i = NOk (nth (Z.to_nat i) l d).
Proof.
  intros H. unfold nindex.
  destruct (0 <=? i) eqn:E1; [|apply Z.leb_gt in E1; lia].
  destruct (i <? zlen l) eqn:E2; [|apply Z.ltb_ge in E2; lia].
  cbn [andb]. rewrite (nth_error_nth' l d); [reflexivity|]. unfold zlen in H. lia.
Qed.

Lemma skipn_nth_cons {A} (l : list A) k d : (k < length l)%nat -> skipn k l = nth k l d :: skipn (S k) l.
Proof.
  revert k. induction l as [|x l IH]; intros k H; cbn [length] in H; [lia|].
  destruct k as [|k]; [reflexivity|]. cbn [skipn nth]. apply IH. lia.
Qed.

Lemma nth_firstn_lt {A} (l : list A) d : forall n k, (k < n)%nat -> nth k (firstn n l) d = nth k l d.
Proof.
  induction l as [|x l IH]; intros n k H; [rewrite firstn_nil; reflexivity|].
  destruct n as [|n]; [lia|]. destruct k as [|k]; [reflexivity|]. cbn [firstn nth]. apply IH. lia.
Qed.

Lemma nth_skipn_add {A} (l : list A) d : forall n k, nth k (skipn n l) d = nth (n + k) l d.
Proof.
  induction l as [|x l IH]; intros n k; [rewrite skipn_nil; destruct k, n; reflexivity|].
  destruct n as [|n]; [reflexivity|]. cbn [skipn]. rewrite IH. reflexivity.
Qed.

Lemma nth_In_forallb (f : ty -> bool) l k d : forallb f l = true -> (k < length l)%nat -> f (nth k l d) = true.
Proof. intros F H. rewrite forallb_forall in F. apply F. apply nth_In. exact H. Qed.

Lemma assignable_refl t : assignable t t = true.
Proof. unfold assignable. rewrite ty_eqb_refl. reflexivity. Qed.

Section Prims.
  Variable parse_float : bytes -> option fnum.
  Variable parse_prefix : bytes -> fnum.
  Variable fmt_float : fnum -> bytes.

  Notation conv := (conv parse_float parse_prefix fmt_float).
  Notation to_native := (to_native parse_float parse_prefix fmt_float).
  Notation build_args := (build_args parse_float parse_prefix fmt_float).
  Notation call_native := (call_native parse_float parse_prefix fmt_float).

  (* ---- the specification of the argument list ---- *)
  (* the type that the i-th Go argument is converted to: parameter i, or the element type
     of the variadic parameter from its position on *)
  Definition param_ty (s : sig) (i : Z) : ty :=
    let n := zlen (params s) in
    if variadic s && (n - 1 <=? i) then nth (Z.to_nat (n - 1)) (eff_params s) TOther
    else nth (Z.to_nat i) (eff_params s) TOther.

  (* minIn *)
  Definition min_in (s : sig) : Z := zlen (params s) - (if variadic s then 1 else 0).

  Fixpoint spec_args (s : sig) (i : Z) (args : list value) : list gval :=
    match args with
    | [] => []
    | a :: rest => conv a (param_ty s i) :: spec_args s (i + 1) rest
    end.

  Definition spec_zeros (s : sig) (k : Z) : list gval :=
    map zero_value (firstn (Z.to_nat (min_in s - k)) (skipn (Z.to_nat k) (params s))).

  (* every AWK argument converted to its parameter's type, then zero values up to minIn *)
  Definition spec_values (s : sig) (args : list value) : list gval :=
    spec_args s 0 args ++ spec_zeros s (zlen args).

  Lemma spec_args_len s : forall args i, zlen (spec_args s i args) = zlen args.
  Proof. induction args as [|a r IH]; intros i; cbn [spec_args]; [reflexivity|]. rewrite !zlen_cons, IH. reflexivity. Qed.

  Lemma spec_zeros_len s k : 0 <= k -> zlen (spec_zeros s k) = Z.max 0 (min_in s - k).
  Proof.
    intros Hk. unfold spec_zeros, zlen, min_in. rewrite map_length, firstn_length, skipn_length.
    pose proof (zlen_nonneg (params s)) as Hn. unfold zlen in *. destruct (variadic s); lia.
  Qed.

  Theorem spec_values_len s args : zlen (spec_values s args) = Z.max (zlen args) (min_in s).
  Proof.
    unfold spec_values. rewrite zlen_app, spec_args_len, spec_zeros_len by apply zlen_nonneg. lia.
  Qed.

  (* ---- params versus eff_params ---- *)
  Lemma eff_nth_fixed s i : wf_sig s -> 0 <= i < min_in s ->
    nth (Z.to_nat i) (params s) TOther = nth (Z.to_nat i) (eff_params s) TOther.
  Proof.
    intros W H. unfold eff_params, min_in in *. destruct (variadic s) eqn:V; [|reflexivity].
    destruct (W V) as (front & e & d & E). rewrite E in *. rewrite eff_var_snoc.
    rewrite zlen_app in H. change (zlen [TSlice e d]) with 1 in H.
    rewrite !app_nth1; [reflexivity| |]; unfold zlen in H; lia.
  Qed.

  Lemma param_ty_fixed s i : wf_sig s -> 0 <= i < min_in s -> param_ty s i = nth (Z.to_nat i) (params s) TOther.
  Proof.
    intros W H. unfold param_ty. rewrite (eff_nth_fixed s i W H). unfold min_in in H.
    destruct (variadic s); cbn [andb]; [|reflexivity].
    destruct (zlen (params s) - 1 <=? i) eqn:E; [apply Z.leb_le in E; lia|reflexivity].
  Qed.

  Lemma param_ty_valid s i : wf_sig s -> forallb valid_native_type (eff_params s) = true ->
    0 <= i -> (variadic s = false -> i < zlen (params s)) -> (variadic s = true -> 1 <= zlen (params s)) ->
    valid_native_type (param_ty s i) = true.
  Proof.
    intros W A Hi Hnv Hv. unfold param_ty. pose proof (eff_params_len s W) as L. unfold zlen in *.
    destruct (variadic s) eqn:V; cbn [andb].
    - specialize (Hv eq_refl).
      destruct (Z.of_nat (length (params s)) - 1 <=? i) eqn:E; [apply Z.leb_le in E|apply Z.leb_gt in E];
        apply nth_In_forallb; try exact A; lia.
    - specialize (Hnv eq_refl). apply nth_In_forallb; [exact A|lia].
  Qed.

  Lemma wf_variadic_nonempty s : wf_sig s -> variadic s = true -> 1 <= zlen (params s).
  Proof.
    intros W V. destruct (W V) as (front & e & d & ->). rewrite zlen_app.
    pose proof (zlen_nonneg front). change (zlen [TSlice e d]) with 1. lia.
  Qed.

  (* the variadic type callNative computes: f.in[len(f.in)-1].Elem() *)
  Lemma variadic_type_ok s : wf_sig s -> variadic s = true ->
    (ndo l <- nindex (params s) (zlen (params s) - 1); elem l) =
    NOk (nth (Z.to_nat (zlen (params s) - 1)) (eff_params s) TOther).
  Proof.
    intros W V. unfold eff_params. rewrite V. destruct (W V) as (front & e & d & ->).
    rewrite eff_var_snoc, zlen_app. change (zlen [TSlice e d]) with 1.
    pose proof (zlen_nonneg front) as Hf.
    rewrite (nindex_nth _ _ TOther) by (rewrite zlen_app; change (zlen [TSlice e d]) with 1; lia).
    replace (Z.to_nat (zlen front + 1 - 1)) with (length front) by (unfold zlen; lia).
    rewrite !app_nth2 by lia. rewrite Nat.sub_diag. reflexivity.
  Qed.

  (* the argType selection of the loop (functions.go:33-39) *)
  Lemma arg_type_ok s vt i : wf_sig s ->
    (variadic s = true -> vt = nth (Z.to_nat (zlen (params s) - 1)) (eff_params s) TOther) ->
    0 <= i -> (variadic s = false -> i < zlen (params s)) ->
    (if negb (variadic s) || (i <? zlen (params s) - 1) then nindex (params s) i else NOk vt) = NOk (param_ty s i).
  Proof.
    intros W Hvt Hi Hnv. unfold param_ty. destruct (variadic s) eqn:V; cbn [negb orb andb].
    - destruct (i <? zlen (params s) - 1) eqn:E; [apply Z.ltb_lt in E|apply Z.ltb_ge in E].
      + destruct (zlen (params s) - 1 <=? i) eqn:E2; [apply Z.leb_le in E2; lia|].
        rewrite (nindex_nth _ _ TOther) by lia. f_equal. apply eff_nth_fixed; [exact W|].
        unfold min_in. rewrite V. lia.
      + destruct (zlen (params s) - 1 <=? i) eqn:E2; [|apply Z.leb_gt in E2; lia].
        rewrite (Hvt eq_refl). reflexivity.
    - specialize (Hnv eq_refl). rewrite (nindex_nth _ _ TOther) by lia.
      unfold eff_params. rewrite V. reflexivity.
  Qed.

  Lemma build_args_spec s vt : wf_sig s -> forallb valid_native_type (eff_params s) = true ->
    (variadic s = true -> vt = nth (Z.to_nat (zlen (params s) - 1)) (eff_params s) TOther) ->
    forall args i, 0 <= i -> (variadic s = false -> i + zlen args <= zlen (params s)) ->
    build_args s vt i args = NOk (spec_args s i args).
  Proof.
    intros W A Hvt. induction args as [|a rest IH]; intros i Hi Hnv; [reflexivity|].
    cbn [Native.build_args spec_args]. rewrite zlen_cons in Hnv. pose proof (zlen_nonneg rest) as Hr.
    rewrite (arg_type_ok s vt i W Hvt Hi) by (intros V; specialize (Hnv V); lia).
    cbn [nbind].
    assert (Hv : valid_native_type (param_ty s i) = true).
    { apply param_ty_valid; try assumption; [intros V; specialize (Hnv V); lia|apply wf_variadic_nonempty; exact W]. }
    pose proof (to_native_conv parse_float parse_prefix fmt_float a (param_ty s i) Hv) as Hc.
    destruct (to_native a (param_ty s i)) as [v0|k]; cbn [nbind] in Hc |- *; [|discriminate].
    rewrite Hc. cbn [nbind]. rewrite IH; [reflexivity|lia|intros V; specialize (Hnv V); lia].
  Qed.
  Lemma zero_fill_spec s : forall count i, 0 <= i -> (count <> 0%nat -> i + Z.of_nat count <= zlen (params s)) ->
    zero_fill s i count = NOk (map zero_value (firstn count (skipn (Z.to_nat i) (params s)))).
  Proof.
    induction count as [|c IH]; intros i Hi H; [reflexivity|]. specialize (H ltac:(discriminate)).
    cbn [zero_fill]. rewrite (nindex_nth _ _ TOther) by lia. cbn [nbind].
    rewrite IH by lia. cbn [nbind].
    rewrite (skipn_nth_cons (params s) (Z.to_nat i) TOther) by (unfold zlen in H; lia).
    cbn [firstn map]. replace (Z.to_nat (i + 1)) with (S (Z.to_nat i)) by lia. reflexivity.
  Qed.

  (* ---- reflect.Value.Call's checks on that list ---- *)
  Lemma call_target_ok s i : wf_sig s -> 0 <= i -> (variadic s = false -> i < zlen (params s)) ->
    call_target s i = NOk (param_ty s i).
  Proof.
    intros W Hi Hnv. unfold call_target, param_ty. destruct (variadic s) eqn:V; cbn [andb].
    - destruct (zlen (params s) - 1 <=? i) eqn:E; [apply Z.leb_le in E|apply Z.leb_gt in E].
      + apply variadic_type_ok; assumption.
      + rewrite (nindex_nth _ _ TOther) by lia. f_equal. apply eff_nth_fixed; [exact W|].
        unfold min_in. rewrite V. lia.
    - specialize (Hnv eq_refl). rewrite (nindex_nth _ _ TOther) by lia. unfold eff_params. rewrite V. reflexivity.
  Qed.

  Fixpoint all_assignable (s : sig) (i : Z) (vals : list gval) : Prop :=
    match vals with
    | [] => True
    | v :: rest => assignable (gty v) (param_ty s i) = true /\ all_assignable s (i + 1) rest
    end.

  Lemma all_assignable_app s : forall l1 l2 i,
    all_assignable s i l1 -> all_assignable s (i + zlen l1) l2 -> all_assignable s i (l1 ++ l2).
  Proof.
    induction l1 as [|v l1 IH]; intros l2 i H1 H2; cbn [app].
    - rewrite zlen_nil, Z.add_0_r in H2. exact H2.
    - cbn [all_assignable] in *. destruct H1 as [Ha H1]. split; [exact Ha|].
      apply IH; [exact H1|]. rewrite zlen_cons in H2. replace (i + 1 + zlen l1) with (i + (1 + zlen l1)) by lia. exact H2.
  Qed.

  Lemma check_assign_ok s : wf_sig s -> forall vals i, 0 <= i ->
    (variadic s = false -> i + zlen vals <= zlen (params s)) ->
    all_assignable s i vals -> check_assign s i vals = NOk tt.
  Proof.
    intros W. induction vals as [|v rest IH]; intros i Hi Hnv Ha; [reflexivity|].
    cbn [check_assign all_assignable] in *. rewrite zlen_cons in Hnv. pose proof (zlen_nonneg rest).
    rewrite (call_target_ok s i W Hi) by (intros V; specialize (Hnv V); lia).
    cbn [nbind]. destruct Ha as [Ha Hr]. rewrite Ha. apply IH; [lia|intros V; specialize (Hnv V); lia|exact Hr].
  Qed.

  (* a value that is not assignable makes Call panic *)
  Lemma check_assign_first_bad s v rest : wf_sig s -> (variadic s = false -> 0 < zlen (params s)) ->
    assignable (gty v) (param_ty s 0) = false -> check_assign s 0 (v :: rest) = NPanic PkCallAssign.
  Proof.
    intros W Hnv Hb. cbn [check_assign]. rewrite (call_target_ok s 0 W) by (try lia; exact Hnv).
    cbn [nbind]. rewrite Hb. reflexivity.
  Qed.

  Lemma spec_args_assignable s : wf_sig s -> forallb valid_native_type (eff_params s) = true ->
    forall args i, 0 <= i ->
    (variadic s = false -> i + zlen args <= zlen (params s)) -> all_assignable s i (spec_args s i args).
  Proof.
    intros W A. induction args as [|a rest IH]; intros i Hi Hnv; [exact I|].
    cbn [spec_args all_assignable]. rewrite zlen_cons in Hnv. pose proof (zlen_nonneg rest).
    split.
    - rewrite gty_conv; [apply assignable_refl|].
      apply param_ty_valid; try assumption; [intros V; specialize (Hnv V); lia|apply wf_variadic_nonempty; exact W].
    - apply IH; [lia|intros V; specialize (Hnv V); lia].
  Qed.

  Lemma zeros_assignable s : wf_sig s -> forall count i, 0 <= i -> i + Z.of_nat count <= min_in s ->
    all_assignable s i (map zero_value (firstn count (skipn (Z.to_nat i) (params s)))).
  Proof.
    intros W. induction count as [|c IH]; intros i Hi H; [exact I|].
    assert (Hn : min_in s <= zlen (params s)) by (unfold min_in; destruct (variadic s); lia).
    rewrite (skipn_nth_cons (params s) (Z.to_nat i) TOther) by (unfold zlen in Hn; lia).
    cbn [firstn map all_assignable]. split.
    - cbn [zero_value gty]. rewrite param_ty_fixed by (try exact W; lia). apply assignable_refl.
    - replace (S (Z.to_nat i)) with (Z.to_nat (i + 1)) by lia. apply IH; lia.
  Qed.

  (* ---- the tail of callNative: Call, then the result / error dispatch ---- *)
  Definition finish (f : nfunc) (values : list gval) : nres call_result :=
    ndo outs <- reflect_call f values;
    match outs with
    | [] => NOk (CValue VNull values)
    | [o] => ndo r <- from_native o; NOk (CValue r values)
    | [o; e] =>
        match gdat e with
        | DErrNil => ndo r <- from_native o; NOk (CValue r values)
        | DErr id => NOk (CError id values)
        | _ => NPanic PkIsNil
        end
    | _ => NPanic PkNumOut
    end.

  (* valid_sig, part 1: for a function checkNativeFunc accepts, callNative reaches none of the
     "unexpected argument" arms and no index panic, and hands reflect.Call exactly spec_values *)
  Theorem call_native_builds tbl idx s body args :
    nindex tbl idx = NOk (s, body) -> wf_sig s -> forallb valid_native_type (eff_params s) = true ->
    (variadic s = true \/ zlen args <= zlen (params s)) ->
    call_native tbl idx args = finish (s, body) (spec_values s args).
  Proof.
    intros Hf W A Har. unfold Native.call_native, nfunc in *. rewrite Hf. cbn [nbind fst].
    set (vt := nth (Z.to_nat (zlen (params s) - 1)) (eff_params s) TOther).
    assert (Hvt : (if variadic s then ndo l <- nindex (params s) (zlen (params s) - 1); elem l else NOk TOther)
                  = NOk (if variadic s then vt else TOther)).
    { destruct (variadic s) eqn:V; [apply variadic_type_ok; assumption|reflexivity]. }
    rewrite Hvt. cbn [nbind].
    rewrite (build_args_spec s _ W A) ; try lia.
    - cbn [nbind].
      assert (Hz : zero_fill s (zlen args) (Z.to_nat ((if variadic s then zlen (params s) - 1 else zlen (params s)) - zlen args))
                   = NOk (spec_zeros s (zlen args))).
      { rewrite zero_fill_spec; [unfold spec_zeros, min_in; destruct (variadic s); do 4 f_equal; lia|apply zlen_nonneg|].
        pose proof (zlen_nonneg args). pose proof (zlen_nonneg (params s)). intros Hc. destruct (variadic s); lia. }
      rewrite Hz. cbn [nbind]. reflexivity.
    - intros V. rewrite V. reflexivity.
    - intros V. destruct Har as [Hv|Hle]; [congruence|lia].
  Qed.

  (* part 2: reflect.Call accepts the list (every value has its parameter's own type) *)
  Theorem reflect_call_accepts s body args :
    wf_sig s -> forallb valid_native_type (eff_params s) = true ->
    (variadic s = true \/ zlen args <= zlen (params s)) ->
    reflect_call (s, body) (spec_values s args) = NOk (body (spec_values s args)).
  Proof.
    intros W A Har. unfold reflect_call.
    pose proof (spec_values_len s args) as L. pose proof (zlen_nonneg args) as Ha.
    assert (Hcount : (if variadic s then zlen (spec_values s args) <? zlen (params s) - 1
                      else negb (zlen (spec_values s args) =? zlen (params s))) = false).
    { rewrite L. unfold min_in. destruct (variadic s) eqn:V.
      - apply Z.ltb_ge. lia.
      - destruct Har as [Hv|Hle]; [discriminate|]. apply negb_false_iff, Z.eqb_eq. lia. }
    rewrite Hcount.
    rewrite (check_assign_ok s W); [reflexivity|lia| |].
    - intros V. rewrite L. unfold min_in. rewrite V. destruct Har as [Hv|Hle]; [congruence|lia].
    - unfold spec_values. apply all_assignable_app.
      + apply spec_args_assignable; try assumption; [lia|]. intros V. destruct Har as [Hv|Hle]; [congruence|lia].
      + rewrite spec_args_len, Z.add_0_l. unfold spec_zeros.
        destruct (Z_le_gt_dec (min_in s) (zlen args)) as [Hle|Hgt].
        * replace (Z.to_nat (min_in s - zlen args)) with 0%nat by lia. exact I.
        * apply zeros_assignable; [exact W|lia|lia].
  Qed.

  (* ---- the function's own results (Go's typing of the body) ---- *)
  Definition body_ok (s : sig) (body : list gval -> list gval) : Prop :=
    forall vals, Forall2 (fun t o => gty o = t /\ data_fits t (gdat o)) (results s) (body vals).

  (* the value/err dispatch, given what the body returns *)
  Inductive returns (s : sig) (outs : list gval) (values : list gval) : call_result -> Prop :=
  | ret_none : outs = [] -> returns s outs values (CValue VNull values)
  | ret_one o v : outs = [o] -> from_native o = NOk v -> returns s outs values (CValue v values)
  | ret_two_ok o e v : outs = [o; e] -> gdat e = DErrNil -> from_native o = NOk v -> returns s outs values (CValue v values)
  | ret_two_err o e id : outs = [o; e] -> gdat e = DErr id -> returns s outs values (CError id values).

  Theorem finish_ok s body args :
    wf_sig s -> acceptable_sig s = true -> body_ok s body ->
    (variadic s = true \/ zlen args <= zlen (params s)) ->
    exists r, finish (s, body) (spec_values s args) = NOk r /\
              returns s (body (spec_values s args)) (spec_values s args) r.
  Proof.
    intros W A B Har. unfold acceptable_sig in A. apply andb_true_iff in A as [A R].
    unfold finish. rewrite (reflect_call_accepts s body args W A Har). cbn [nbind].
    specialize (B (spec_values s args)).
    destruct (results s) as [|r [|e [|x rs]]]; cbn [results_ok] in R; try discriminate.
    - inversion B. eexists; split; [reflexivity|]. apply ret_none. reflexivity.
    - inversion B as [|? o ? tl [Ht Hd] Htl]; subst. inversion Htl; subst.
      destruct (from_native_ok o R Hd) as (v & Hv). rewrite Hv. cbn [nbind].
      eexists; split; [reflexivity|]. eapply ret_one; [reflexivity|exact Hv].
    - apply andb_true_iff in R as [R RE]. apply ty_eqb_eq in RE. subst e.
      inversion B as [|? o ? tl [Ht Hd] Htl]; subst. inversion Htl as [|? oe ? tl2 [Hte Hde] Htl2]; subst. inversion Htl2; subst.
      destruct (from_native_ok o R Hd) as (v & Hv).
      cbn [data_fits] in Hde. destruct Hde as [Hn|[id Hid]].
      + rewrite Hn, Hv. cbn [nbind]. eexists; split; [reflexivity|]. eapply ret_two_ok; [reflexivity|exact Hn|exact Hv].
      + rewrite Hid. eexists; split; [reflexivity|]. eapply ret_two_err; [reflexivity|exact Hid].
  Qed.

  (* valid_sig_no_panic: for every function checkNativeFunc accepts (user-defined types of the
     documented kinds included) and every permitted argument count, the call does not panic, the
     function receives exactly spec_values, and the outcome is the converted result or the
     function's own error *)
  Theorem valid_sig_no_panic tbl idx s body args :
    nindex tbl idx = NOk (s, body) -> wf_sig s -> acceptable_sig s = true -> body_ok s body ->
    (variadic s = true \/ zlen args <= zlen (params s)) ->
    exists r, call_native tbl idx args = NOk r /\
              returns s (body (spec_values s args)) (spec_values s args) r.
  Proof.
    intros Hf W A B Har.
    rewrite (call_native_builds tbl idx s body args Hf W); try assumption.
    - apply finish_ok; assumption.
    - unfold acceptable_sig in A. apply andb_true_iff in A as [A _]. exact A.
  Qed.

  (* what spec_values is, position by position *)
  Theorem spec_values_nth s args i :
    wf_sig s -> 0 <= i < Z.max (zlen args) (min_in s) ->
    nth (Z.to_nat i) (spec_values s args) (zero_value TOther) =
    if i <? zlen args then conv (nth (Z.to_nat i) args VNull) (param_ty s i)
    else zero_value (param_ty s i).
  Proof.
    intros W Hi. unfold spec_values.
    assert (G : forall args k j, 0 <= j < zlen args ->
              nth (Z.to_nat j) (spec_args s k args) (zero_value TOther) = conv (nth (Z.to_nat j) args VNull) (param_ty s (k + j))).
    { clear. induction args as [|a r IH]; intros k j Hj; [unfold zlen in Hj; cbn in Hj; lia|].
      rewrite zlen_cons in Hj. cbn [spec_args]. destruct (Z.eq_dec j 0) as [->|Hne].
      - cbn. rewrite Z.add_0_r. reflexivity.
      - replace (Z.to_nat j) with (S (Z.to_nat (j - 1))) by lia. cbn [nth].
        rewrite IH by lia. do 2 f_equal. lia. }
    destruct (i <? zlen args) eqn:E; [apply Z.ltb_lt in E|apply Z.ltb_ge in E].
    - rewrite app_nth1 by (pose proof (spec_args_len s args 0); unfold zlen in *; lia).
      rewrite G by lia. reflexivity.
    - pose proof (spec_args_len s args 0) as L. pose proof (zlen_nonneg args) as Ha.
      rewrite app_nth2 by (unfold zlen in *; lia).
      replace (Z.to_nat i - length (spec_args s 0 args))%nat with (Z.to_nat (i - zlen args)) by (unfold zlen in *; lia).
      unfold spec_zeros.
      assert (Hn : min_in s <= zlen (params s)) by (unfold min_in; destruct (variadic s); lia).
      rewrite (map_nth zero_value _ TOther). f_equal.
      rewrite nth_firstn_lt by lia. rewrite nth_skipn_add.
      rewrite param_ty_fixed by (try exact W; lia). f_equal. lia.
  Qed.
End Prims.
