(* C20 — Go's parenthesize as a tree transformation.
   [gp e] = e with a grouping node inserted exactly where Expr.String() writes the parentheses of
   parenthesize(child, parent).  Facts, for ALL trees:
     toks_pe     : the tokens of the printed pieces are C04's verbatim writing [flat] of [gp e];
     strip_gp    : gp only adds grouping nodes;
     gp_idem / pe_gp : printing [gp e] again gives the same pieces (hence the same text). *)
From Verif Require Import Lib.Base Gen.Prec Model.ExprAst Model.ExprParser Model.Printer
  Proofs.ExprParserMono Proofs.ExprParserRel Proofs.PrecSpec Proofs.ExprParserPrinted.

Definition gpar (parent c gc : expr) : expr := if needs_paren c parent then EGroup gc else gc.

Fixpoint gp (e : expr) : expr :=
  let par (c : expr) := gpar e c (gp c) in
  match e with
  | ENum _ | EStr _ | EStrRegex _ | ERegex _ | EVar _ => e
  | EField i => EField (par i)
  | ENamedField i => ENamedField (par i)
  | EIndex a idx => EIndex a (map gp idx)
  | EIn [x] a => EIn [par x] a
  | EIn idx a => EIn (map gp idx) a
  | EUnary op v => EUnary op (par v)
  | EBinary op l r => EBinary op (par l) (par r)
  | ECond c t f => ECond (par c) (par t) (par f)
  | EAssign l r => EAssign (par l) (par r)
  | EAugAssign op l r => EAugAssign op (par l) (par r)
  | EIncr op pre x => EIncr op pre (par x)
  | ECall f args => ECall f (map gp args)
  | EUserCall n args => EUserCall n (map gp args)
  | EMulti es => EMulti (map gp es)
  | EGetline c t f =>
      EGetline (match c with Some x => Some (par x) | None => None end)
               (match t with Some x => Some (gp x) | None => None end)
               (match f with Some x => Some (par x) | None => None end)
  | EGroup x => EGroup (gp x)
  end.

(* the model's token spellings are C04's *)
Lemma un_tok_eq op : un_tok op = unop_tok op. Proof. destruct op; reflexivity. Qed.
Lemma inc_tk_eq op : inc_tk op = inc_tok op. Proof. destruct op; reflexivity. Qed.
Lemma bin_tok_eq op : bin_tok op = binop_tok op. Proof. destruct op; reflexivity. Qed.
Lemma aug_tk_eq op : aug_tk op = aug_tok op. Proof. destruct op; reflexivity. Qed.

(* ---- toks ---- *)
Lemma toks_app a b : toks (a ++ b) = toks a ++ toks b.
Proof. induction a as [|[t|] a IH]; cbn [toks app]; [reflexivity | rewrite IH; reflexivity | exact IH]. Qed.

Lemma toks_map_PT l : toks (map PT l) = l.
Proof. induction l as [|t l IH]; cbn [toks map]; [reflexivity | rewrite IH; reflexivity]. Qed.

(* ---- gprec depends on the head of the tree only ---- *)
Lemma gprec_gp e : gprec (gp e) = gprec e.
Proof.
  destruct e; try reflexivity.
  - destruct idx as [|x [|y r]]; reflexivity.
Qed.

Lemma gprec_gpar_parent (e e' c : expr) : gprec e = gprec e' -> needs_paren c e = needs_paren c e'.
Proof. unfold needs_paren. intros ->. reflexivity. Qed.

(* nothing is below a grouping node: 16 is the largest precedence *)
Lemma gprec_le16 e : gprec e <= 16.
Proof.
  destruct e; cbn [gprec]; try (vm_compute; discriminate).
  - destruct op; vm_compute; discriminate.
  - destruct pre; vm_compute; discriminate.
Qed.

Lemma group_never_paren x e : needs_paren (EGroup x) e = false.
Proof.
  unfold needs_paren. cbn [gprec]. pose proof (gprec_le16 e) as H.
  unfold paren_cmp, prec_GroupingExpr, precGrouping. apply Z.ltb_ge. exact H.
Qed.

(* ---- unfolding pe node by node ---- *)
Definition ppar (parent c : expr) : list piece :=
  if needs_paren c parent then lpar :: pe c ++ [rpar] else pe c.

Lemma pe_field i : pe (EField i) = PT TDollar :: ppar (EField i) i. Proof. reflexivity. Qed.
Lemma pe_namedfield i : pe (ENamedField i) = PT TAt :: ppar (ENamedField i) i. Proof. reflexivity. Qed.
Lemma pe_index a idx : pe (EIndex a idx) = PT (TName a) :: PT TLBracket :: pjoin pe idx ++ [PT TRBracket].
Proof. reflexivity. Qed.
Lemma pe_in1 x a : pe (EIn [x] a) = ppar (EIn [x] a) x ++ [PSp; PT TIn; PSp; PT (TName a)]. Proof. reflexivity. Qed.
Lemma pe_unary op v :
  pe (EUnary op v) =
  PT (un_tok op) :: (if sign_clash op (ch1 (render (ppar (EUnary op v) v))) then [PSp] else []) ++ ppar (EUnary op v) v.
Proof. reflexivity. Qed.

Lemma toks_opt_space (b : bool) ps : toks ((if b then [PSp] else []) ++ ps) = toks ps.
Proof. destruct b; reflexivity. Qed.
Lemma pe_binary op l r :
  pe (EBinary op l r) =
  ppar (EBinary op l r) l ++ (match op with BConcat => [PSp] | _ => PSp :: map PT (bin_tok op) ++ [PSp] end)
  ++ ppar (EBinary op l r) r.
Proof. reflexivity. Qed.
Lemma pe_cond c t f :
  pe (ECond c t f) = ppar (ECond c t f) c ++ [PSp; PT TQuestion; PSp] ++ ppar (ECond c t f) t
                     ++ [PSp; PT TColon; PSp] ++ ppar (ECond c t f) f.
Proof. reflexivity. Qed.
Lemma pe_assign l r : pe (EAssign l r) = ppar (EAssign l r) l ++ [PSp; PT TAssign; PSp] ++ ppar (EAssign l r) r.
Proof. reflexivity. Qed.
Lemma pe_augassign op l r :
  pe (EAugAssign op l r) = ppar (EAugAssign op l r) l ++ [PSp; PT (aug_tk op); PSp] ++ ppar (EAugAssign op l r) r.
Proof. reflexivity. Qed.
Lemma pe_incr_pre op x : pe (EIncr op true x) = PT (inc_tk op) :: ppar (EIncr op true x) x. Proof. reflexivity. Qed.
Lemma pe_incr_post op x : pe (EIncr op false x) = ppar (EIncr op false x) x ++ [PT (inc_tk op)]. Proof. reflexivity. Qed.
Lemma pe_getline c t f :
  pe (EGetline c t f) =
  (match c with Some x => ppar (EGetline c t f) x ++ [PSp; PT TPipe] | None => [] end)
  ++ PT TGetline
  :: (match t with Some x => PSp :: pe x | None => [] end)
  ++ (match f with Some y => PSp :: PT TLess :: ppar (EGetline c t f) y | None => [] end).
Proof. reflexivity. Qed.
Lemma pe_group x : pe (EGroup x) = lpar :: pe x ++ [rpar]. Proof. reflexivity. Qed.

(* ---- the tokens of the printed pieces are the verbatim writing of gp e ---- *)
Lemma toks_pjoin (f : expr -> list piece) (g : expr -> expr) es :
  Forall (fun x => toks (f x) = flat (g x)) es -> toks (pjoin f es) = commas flat (map g es).
Proof.
  induction es as [|x r IH]; intros HF; [reflexivity|].
  inversion HF as [|? ? Hx Hr]; subst.
  destruct r as [|y r'].
  - cbn [pjoin commas map]. exact Hx.
  - change (pjoin f (x :: y :: r')) with (f x ++ PT TComma :: PSp :: pjoin f (y :: r')).
    change (commas flat (map g (x :: y :: r'))) with (flat (g x) ++ TComma :: commas flat (map g (y :: r'))).
    rewrite toks_app. cbn [toks]. rewrite Hx, (IH Hr). reflexivity.
Qed.

Lemma toks_ppar parent parent' c :
  toks (pe c) = flat (gp c) -> gprec parent = gprec parent' ->
  toks (ppar parent c) = flat (gpar parent' c (gp c)).
Proof.
  intros H Hp. unfold ppar, gpar. rewrite (gprec_gpar_parent parent parent' c Hp).
  destruct (needs_paren c parent').
  - cbn [flat]. unfold lpar, rpar. cbn [toks]. rewrite toks_app. cbn [toks]. rewrite H. reflexivity.
  - exact H.
Qed.

Theorem toks_pe : forall e, toks (pe e) = flat (gp e).
Proof.
  induction e using expr_ind'; try reflexivity.
  - (* field *) rewrite pe_field. cbn [toks gp flat]. rewrite (toks_ppar _ (EField e) _ IHe eq_refl). reflexivity.
  - rewrite pe_namedfield. cbn [toks gp flat]. rewrite (toks_ppar _ (ENamedField e) _ IHe eq_refl). reflexivity.
  - (* index *) rewrite pe_index. cbn [toks gp flat]. rewrite toks_app. cbn [toks].
    rewrite (toks_pjoin pe gp idx H). reflexivity.
  - (* in *)
    destruct idx as [|x [|y r]].
    + reflexivity.
    + inversion H as [|? ? Hx _]; subst. rewrite pe_in1. rewrite toks_app. cbn [toks gp flat].
      rewrite (toks_ppar _ (EIn [x] a) _ Hx eq_refl). reflexivity.
    + change (pe (EIn (x :: y :: r) a)) with (lpar :: pjoin pe (x :: y :: r) ++ [rpar; PSp; PT TIn; PSp; PT (TName a)]).
      change (gp (EIn (x :: y :: r) a)) with (EIn (map gp (x :: y :: r)) a).
      unfold lpar, rpar. cbn [toks]. rewrite toks_app. cbn [toks]. rewrite (toks_pjoin pe gp _ H).
      cbn [map flat]. reflexivity.
  - (* unary *) rewrite pe_unary. cbn [toks gp flat]. rewrite toks_opt_space, (toks_ppar _ (EUnary op e) _ IHe eq_refl), un_tok_eq. reflexivity.
  - (* binary *) rewrite pe_binary. rewrite !toks_app. cbn [gp flat].
    rewrite (toks_ppar _ (EBinary op e1 e2) _ IHe1 eq_refl), (toks_ppar _ (EBinary op e1 e2) _ IHe2 eq_refl).
    destruct op; reflexivity.
  - (* cond *) rewrite pe_cond. rewrite !toks_app. cbn [gp flat toks].
    rewrite (toks_ppar _ (ECond e1 e2 e3) _ IHe1 eq_refl), (toks_ppar _ (ECond e1 e2 e3) _ IHe2 eq_refl),
      (toks_ppar _ (ECond e1 e2 e3) _ IHe3 eq_refl). reflexivity.
  - rewrite pe_assign. rewrite !toks_app. cbn [gp flat toks].
    rewrite (toks_ppar _ (EAssign e1 e2) _ IHe1 eq_refl), (toks_ppar _ (EAssign e1 e2) _ IHe2 eq_refl). reflexivity.
  - rewrite pe_augassign. rewrite !toks_app. cbn [gp flat toks].
    rewrite (toks_ppar _ (EAugAssign op e1 e2) _ IHe1 eq_refl), (toks_ppar _ (EAugAssign op e1 e2) _ IHe2 eq_refl), aug_tk_eq.
    reflexivity.
  - (* incr *) destruct pre.
    + rewrite pe_incr_pre. cbn [toks gp flat]. rewrite (toks_ppar _ (EIncr op true e) _ IHe eq_refl), inc_tk_eq. reflexivity.
    + rewrite pe_incr_post. rewrite toks_app. cbn [toks gp flat].
      rewrite (toks_ppar _ (EIncr op false e) _ IHe eq_refl), inc_tk_eq. reflexivity.
  - (* call *) change (pe (ECall f args)) with (PT (TFunc f) :: PT (TLParen false) :: pjoin pe args ++ [rpar]).
    cbn [toks gp flat]. rewrite toks_app. unfold rpar. cbn [toks]. rewrite (toks_pjoin pe gp _ H). reflexivity.
  - change (pe (EUserCall n args)) with (PT (TName n) :: PT (TLParen false) :: pjoin pe args ++ [rpar]).
    cbn [toks gp flat]. rewrite toks_app. unfold rpar. cbn [toks]. rewrite (toks_pjoin pe gp _ H). reflexivity.
  - change (pe (EMulti es)) with (lpar :: pjoin pe es ++ [rpar]).
    unfold lpar, rpar. cbn [toks gp flat]. rewrite toks_app. cbn [toks]. rewrite (toks_pjoin pe gp _ H). reflexivity.
  - (* getline *)
    rewrite pe_getline. rewrite toks_app. cbn [toks]. rewrite toks_app. cbn [gp flat].
    f_equal; [|f_equal; f_equal].
    + destruct c as [x|]; [|reflexivity]. cbn in H. rewrite toks_app. cbn [toks].
      rewrite (toks_ppar _ (EGetline (Some x) t f) _ H eq_refl). reflexivity.
    + destruct t as [x|]; [|reflexivity]. cbn in H0. cbn [toks flat_opt]. exact H0.
    + destruct f as [y|]; [|reflexivity]. cbn in H1. cbn [toks].
      rewrite (toks_ppar _ (EGetline c t (Some y)) _ H1 eq_refl). reflexivity.
  - (* group *) rewrite pe_group. unfold lpar, rpar. cbn [toks gp flat]. rewrite toks_app. cbn [toks]. rewrite IHe. reflexivity.
Qed.

(* ---- gp only adds grouping nodes ---- *)
Lemma strip_gpar parent c gc : strip (gpar parent c gc) = strip gc.
Proof. unfold gpar. destruct (needs_paren c parent); reflexivity. Qed.

Lemma map_strip_gp es : Forall (fun x => strip (gp x) = strip x) es -> map strip (map gp es) = map strip es.
Proof. induction 1 as [|x r Hx _ IH]; cbn [map]; [reflexivity | rewrite Hx, IH; reflexivity]. Qed.

Theorem strip_gp : forall e, strip (gp e) = strip e.
Proof.
  induction e using expr_ind'; try reflexivity; cbn [gp strip]; rewrite ?strip_gpar;
    try (rewrite ?IHe, ?IHe1, ?IHe2, ?IHe3; reflexivity);
    try (rewrite (map_strip_gp _ H); reflexivity).
  - destruct idx as [|x [|y r]].
    + reflexivity.
    + inversion H as [|? ? Hx _]; subst. cbn [strip map]. rewrite strip_gpar, Hx. reflexivity.
    + cbn [strip]. rewrite (map_strip_gp _ H). reflexivity.
  - destruct c as [x|], t as [y|], f as [z|]; cbn in H, H0, H1; cbn [option_map]; rewrite ?strip_gpar;
      rewrite ?H, ?H0, ?H1; reflexivity.
Qed.

(* ---- printing gp e gives the pieces of e: String() is idempotent on what the parser returns ---- *)
Lemma ppar_gpar parent parent' c :
  pe (gp c) = pe c -> gprec parent' = gprec parent ->
  ppar parent' (gpar parent c (gp c)) = ppar parent c.
Proof.
  intros H Hp. unfold gpar, ppar at 2. destruct (needs_paren c parent) eqn:E.
  - unfold ppar. rewrite group_never_paren. rewrite pe_group, H. reflexivity.
  - unfold ppar. unfold needs_paren in *. rewrite gprec_gp, Hp, E. exact H.
Qed.

Lemma pjoin_gp es : Forall (fun x => pe (gp x) = pe x) es -> pjoin pe (map gp es) = pjoin pe es.
Proof.
  induction 1 as [|x r Hx Hr IH]; [reflexivity|].
  destruct r as [|y r'].
  - cbn [map pjoin]. exact Hx.
  - change (pjoin pe (map gp (x :: y :: r'))) with (pe (gp x) ++ PT TComma :: PSp :: pjoin pe (map gp (y :: r'))).
    change (pjoin pe (x :: y :: r')) with (pe x ++ PT TComma :: PSp :: pjoin pe (y :: r')).
    rewrite Hx, IH. reflexivity.
Qed.

Ltac rew_ppar :=
  repeat match goal with
  | |- context [ppar ?p' (gpar ?p ?c (gp ?c))] =>
      rewrite (ppar_gpar p p' c) by (first [assumption | reflexivity])
  end.

Theorem pe_gp : forall e, pe (gp e) = pe e.
Proof.
  induction e using expr_ind'; try reflexivity.
  - cbn [gp]. rewrite !pe_field. rew_ppar. reflexivity.
  - cbn [gp]. rewrite !pe_namedfield. rew_ppar. reflexivity.
  - cbn [gp]. rewrite !pe_index. rewrite (pjoin_gp _ H). reflexivity.
  - destruct idx as [|x [|y r]].
    + reflexivity.
    + inversion H as [|? ? Hx _]; subst. cbn [gp]. rewrite !pe_in1. rew_ppar. reflexivity.
    + change (gp (EIn (x :: y :: r) a)) with (EIn (map gp (x :: y :: r)) a).
      change (pe (EIn (x :: y :: r) a)) with (lpar :: pjoin pe (x :: y :: r) ++ [rpar; PSp; PT TIn; PSp; PT (TName a)]).
      cbn [map].
      change (pe (EIn (gp x :: gp y :: map gp r) a))
        with (lpar :: pjoin pe (map gp (x :: y :: r)) ++ [rpar; PSp; PT TIn; PSp; PT (TName a)]).
      rewrite (pjoin_gp _ H). reflexivity.
  - cbn [gp]. rewrite !pe_unary. rew_ppar. reflexivity.
  - cbn [gp]. rewrite !pe_binary. rew_ppar. reflexivity.
  - cbn [gp]. rewrite !pe_cond. rew_ppar. reflexivity.
  - cbn [gp]. rewrite !pe_assign. rew_ppar. reflexivity.
  - cbn [gp]. rewrite !pe_augassign. rew_ppar. reflexivity.
  - destruct pre; cbn [gp].
    + rewrite !pe_incr_pre. rew_ppar. reflexivity.
    + rewrite !pe_incr_post. rew_ppar. reflexivity.
  - cbn [gp]. change (pe (ECall f (map gp args))) with (PT (TFunc f) :: PT (TLParen false) :: pjoin pe (map gp args) ++ [rpar]).
    rewrite (pjoin_gp _ H). reflexivity.
  - cbn [gp]. change (pe (EUserCall n (map gp args))) with (PT (TName n) :: PT (TLParen false) :: pjoin pe (map gp args) ++ [rpar]).
    rewrite (pjoin_gp _ H). reflexivity.
  - cbn [gp]. change (pe (EMulti (map gp es))) with (lpar :: pjoin pe (map gp es) ++ [rpar]).
    rewrite (pjoin_gp _ H). reflexivity.
  - destruct c as [x|], t as [y|], f as [z|]; cbn in H, H0, H1; cbn [gp]; rewrite !pe_getline; rew_ppar;
      rewrite ?H0; reflexivity.
  - cbn [gp]. rewrite !pe_group, IHe. reflexivity.
Qed.

Corollary gp_idem_text e : render (pe (gp e)) = render (pe e).
Proof. rewrite pe_gp. reflexivity. Qed.
