(* C03 proofs, part 5: goawk.go showSourceLine never slices out of range for the position of
   any offset 0..len of the source. *)
From Verif Require Import Lib.Base Lib.Utf8 Model.Lexer Proofs.LexerPos.
From Coq Require Import ZifyBool.
Open Scope Z_scope.

Definition lt_step (acc : bytes) (c : Z) : bytes := if c =? 10 then [] else acc ++ [c].

(* the bytes of s before its first LF *)
Fixpoint takeline (s : bytes) : bytes :=
  match s with
  | [] => []
  | c :: t => if c =? 10 then [] else c :: takeline t
  end.

Lemma split_head suf : forall cur, exists rest,
  split_lines_aux suf cur = (rev cur ++ takeline suf) :: rest.
Proof.
  induction suf as [|c t IH]; intros cur; cbn [split_lines_aux takeline].
  - exists []. rewrite app_nil_r. reflexivity.
  - destruct (c =? 10).
    + eexists. rewrite app_nil_r. reflexivity.
    + destruct (IH (c :: cur)) as (rest & E). exists rest. rewrite E. cbn [rev].
      rewrite <- app_assoc. reflexivity.
Qed.

Lemma count_lf_cons c p : count_lf (c :: p) = (if c =? 10 then 1 else 0) + count_lf p.
Proof.
  unfold count_lf. cbn [filter]. destruct (c =? 10); [rewrite zlen_cons|]; lia.
Qed.

Lemma count_lf_nonneg p : 0 <= count_lf p.
Proof. unfold count_lf. apply zlen_nonneg. Qed.

Lemma split_nth pre : forall suf cur,
  nth_error (split_lines_aux (pre ++ suf) cur) (Z.to_nat (count_lf pre))
  = Some (fold_left lt_step pre (rev cur) ++ takeline suf).
Proof.
  induction pre as [|c p IH]; intros suf cur.
  - cbn [app fold_left]. destruct (split_head suf cur) as (rest & ->). reflexivity.
  - cbn [app split_lines_aux fold_left]. rewrite count_lf_cons. unfold lt_step at 2.
    pose proof (count_lf_nonneg p) as Hp.
    destruct (c =? 10) eqn:E.
    + replace (Z.to_nat (1 + count_lf p)) with (S (Z.to_nat (count_lf p))) by lia.
      cbn [nth_error]. rewrite IH. reflexivity.
    + replace (0 + count_lf p) with (count_lf p) by lia. rewrite IH. cbn [rev]. reflexivity.
Qed.

Lemma line_tail_fold s : line_tail s = fold_left lt_step s [].
Proof. reflexivity. Qed.

Lemma filter_len_le {A} (f : A -> bool) s : (length (filter f s) <= length s)%nat.
Proof. induction s as [|a s IH]; cbn [filter length]; [lia|]. destruct (f a); cbn [length]; lia. Qed.

Lemma count_non_cr_le s : 0 <= count_non_cr s <= zlen s.
Proof.
  unfold count_non_cr. split; [apply zlen_nonneg|].
  unfold zlen. pose proof (filter_len_le (fun c => negb (c =? 13)) s). lia.
Qed.

Theorem show_source_line_ok src k :
  0 <= k <= zlen src ->
  exists line, show_source_line src (pos_of_offset src k)
               = Ok (line, ztake (snd (pos_of_offset src k) - 1) line) /\
               valid_pos src (pos_of_offset src k).
Proof.
  intros Hk. set (pre := ztake k src). set (suf := zdrop k src).
  assert (Esrc : src = pre ++ suf) by (symmetry; apply firstn_skipn).
  pose proof (split_nth pre suf []) as Hn. cbn [rev] in Hn. rewrite <- Esrc in Hn.
  fold (split_lines src) in Hn. rewrite <- line_tail_fold in Hn.
  set (line := line_tail pre ++ takeline suf) in *.
  exists line.
  assert (Hfst : fst (pos_of_offset src k) - 1 = count_lf pre) by (unfold pos_of_offset; cbn [fst]; fold pre; lia).
  assert (Hsnd : snd (pos_of_offset src k) - 1 = count_non_cr (line_tail pre)) by (unfold pos_of_offset; cbn [snd]; fold pre; lia).
  pose proof (count_lf_nonneg pre) as H0.
  pose proof (count_non_cr_le (line_tail pre)) as Hc.
  assert (Hlen : zlen (line_tail pre) <= zlen line) by (unfold line; rewrite zlen_app; pose proof (zlen_nonneg (takeline suf)); lia).
  split.
  - unfold show_source_line. rewrite Hfst.
    assert (Hi : index (split_lines src) (count_lf pre) = Ok line).
    { unfold index. assert (Hlt : (Z.to_nat (count_lf pre) < length (split_lines src))%nat).
      { apply nth_error_Some. rewrite Hn. discriminate. }
      unfold zlen. replace ((0 <=? count_lf pre) && (count_lf pre <? Z.of_nat (length (split_lines src)))) with true by lia.
      rewrite Hn. reflexivity. }
    rewrite Hi. cbn [rbind]. unfold slice.
    replace ((0 <=? 0) && (0 <=? snd (pos_of_offset src k) - 1) && (snd (pos_of_offset src k) - 1 <=? zlen line)) with true by lia.
    cbn [rbind]. rewrite zdrop_0. replace (snd (pos_of_offset src k) - 1 - 0) with (snd (pos_of_offset src k) - 1) by lia.
    reflexivity.
  - unfold valid_pos. exists line. rewrite Hfst. split; [exact Hn|]. lia.
Qed.
