(* C06, part 5: reads are invisible for ever.  Two states that differ only in whether the
   lazy split has happened yet are indistinguishable by every later script: everything the
   split consults (FS, its regex, RS, the input mode) is saved when the record is set. *)
From Verif Require Import Lib.Base Lib.Dyadic Lib.Utf8 Lib.Regex Gen.Consts Model.Fields.

Ltac proj := cbn [line line_true fields fields_true have nf fs fs_re saved_fs saved_re saved_rs saved_inmode ofs rs inmode outmode].

Section Obs.
Variable rx : Type.
Variable all_matches : rx -> bytes -> list (Z * Z).

Local Notation state := (state rx).
Local Notation op := (op rx).
Local Notation ensure := (ensure_fields rx all_matches).
Local Notation exec := (exec_op rx all_matches).

(* everything except the split result *)
Definition core (s : state) :=
  (line rx s, line_true rx s, fs rx s, fs_re rx s, saved_fs rx s, saved_re rx s, ofs rx s, rs rx s, inmode rx s, outmode rx s,
   saved_rs rx s, saved_inmode rx s).

(* same record, same settings, same result of (having) split it *)
Definition same (s s' : state) : Prop := core s = core s' /\ ensure s = ensure s'.

Lemma same_refl s : same s s.
Proof. split; reflexivity. Qed.

Lemma core_inj s s' :
  core s = core s' ->
  line rx s = line rx s' /\ line_true rx s = line_true rx s' /\ fs rx s = fs rx s' /\ fs_re rx s = fs_re rx s' /\
  saved_fs rx s = saved_fs rx s' /\ saved_re rx s = saved_re rx s' /\ ofs rx s = ofs rx s' /\ rs rx s = rs rx s' /\
  inmode rx s = inmode rx s' /\ outmode rx s = outmode rx s' /\
  saved_rs rx s = saved_rs rx s' /\ saved_inmode rx s = saved_inmode rx s'.
Proof. unfold core. intros H. injection H. intros. repeat split; assumption. Qed.

Lemma ensure_core s s1 : ensure s = Ok s1 -> core s1 = core s.
Proof.
  unfold ensure_fields. destruct (have rx s).
  - intros H; injection H as <-. reflexivity.
  - destruct (split_record rx all_matches _ _ _ _ _); cbn [rbind]; try discriminate.
    intros H; injection H as <-. reflexivity.
Qed.

Lemma ensure_have s s1 : ensure s = Ok s1 -> have rx s1 = true.
Proof.
  unfold ensure_fields. destruct (have rx s) eqn:E.
  - intros H; injection H as <-. exact E.
  - destruct (split_record rx all_matches _ _ _ _ _); cbn [rbind]; try discriminate.
    intros H; injection H as <-. reflexivity.
Qed.

Lemma ensure_idem s s1 : ensure s = Ok s1 -> ensure s1 = Ok s1.
Proof. intros H. unfold ensure_fields. rewrite (ensure_have _ _ H). reflexivity. Qed.

(* forcing the split gives a state of the same class *)
Lemma same_ensure s s1 : ensure s = Ok s1 -> same s1 s.
Proof. intros H. split; [exact (ensure_core _ _ H)|]. rewrite H. exact (ensure_idem _ _ H). Qed.

(* a state whose split is done is determined by its core and its split result *)
Lemma state_eta (s : state) :
  s = mkState rx (line rx s) (line_true rx s) (fields rx s) (fields_true rx s) (have rx s) (nf rx s)
        (fs rx s) (fs_re rx s) (saved_fs rx s) (saved_re rx s) (saved_rs rx s) (saved_inmode rx s)
        (ofs rx s) (rs rx s) (inmode rx s) (outmode rx s).
Proof. destruct s. reflexivity. Qed.

(* a change of settings that the split does not consult commutes with the split *)
Definition retune (f : bytes) (fre : option rx) (o r : bytes) (im m : mode) (s : state) : state :=
  mkState rx (line rx s) (line_true rx s) (fields rx s) (fields_true rx s) (have rx s) (nf rx s)
          f fre (saved_fs rx s) (saved_re rx s) (saved_rs rx s) (saved_inmode rx s) o r im m.

Lemma ensure_retune f fre o r im m s :
  ensure (retune f fre o r im m s) = do s1 <- ensure s; Ok (retune f fre o r im m s1).
Proof.
  unfold ensure_fields, retune. proj. destruct (have rx s) eqn:Eh.
  - cbn [rbind]. rewrite Eh. reflexivity.
  - destruct (split_record rx all_matches _ _ _ _ _); reflexivity.
Qed.

Lemma same_retune f fre o r im m s s' : same s s' -> same (retune f fre o r im m s) (retune f fre o r im m s').
Proof.
  intros [Hc He]. apply core_inj in Hc as (H1 & H2 & H3 & H4 & H5 & H6 & H7 & H8 & H9 & H10 & H11 & H12).
  split.
  - unfold core, retune. proj. congruence.
  - rewrite !ensure_retune, He. reflexivity.
Qed.

Lemma same_set_line s s' t b : same s s' -> same (set_line rx s t b) (set_line rx s' t b).
Proof.
  intros [Hc _]. apply core_inj in Hc as (H1 & H2 & H3 & H4 & H5 & H6 & H7 & H8 & H9 & H10 & H11 & H12).
  split.
  - unfold core, set_line. proj. congruence.
  - unfold ensure_fields, set_line. proj. rewrite H3, H4, H7, H8, H9, H10. reflexivity.
Qed.

(* results of one operation from two states of the same class *)
Definition same_res (r r' : res (state * out)) : Prop :=
  match r, r' with
  | Ok (t, w), Ok (t', w') => same t t' /\ w = w'
  | Err m, Err m' => m = m'
  | Panic, Panic => True
  | Unmod, Unmod => True
  | _, _ => False
  end.

Lemma same_res_refl r : same_res r r.
Proof. destruct r as [[t w]| | |]; cbn; auto using same_refl. Qed.

Lemma set_field_same s s' k t :
  same s s' ->
  match set_field rx all_matches s k t, set_field rx all_matches s' k t with
  | Ok a, Ok b => same a b
  | Err m, Err m' => m = m'
  | Panic, Panic => True
  | Unmod, Unmod => True
  | _, _ => False
  end.
Proof.
  intros Hs. unfold set_field. destruct (k =? 0).
  - apply same_set_line. exact Hs.
  - destruct (k >? maxFieldIndex); [reflexivity|].
    destruct Hs as [_ He]. rewrite He.
    destruct (ensure s') as [s1| | |]; cbn [rbind]; auto.
    match goal with |- match ?x with _ => _ end => destruct x; auto using same_refl end.
Qed.

Lemma get_field_same s s' k :
  same s s' ->
  match get_field rx all_matches s k, get_field rx all_matches s' k with
  | Ok (a, f, t), Ok (b, f', t') => same a b /\ f = f' /\ t = t'
  | Err m, Err m' => m = m'
  | Panic, Panic => True
  | Unmod, Unmod => True
  | _, _ => False
  end.
Proof.
  intros Hs. unfold get_field. destruct (k =? 0).
  - destruct Hs as [Hc He]. pose proof (core_inj _ _ Hc) as (H1 & H2 & _).
    split; [split; assumption|]. split; assumption.
  - destruct Hs as [_ He]. rewrite He.
    destruct (ensure s') as [s1| | |]; cbn [rbind]; auto.
    match goal with |- match ?x with _ => _ end => destruct x as [[[a f] t]| | |]; auto using same_refl end.
Qed.

Lemma eval_idx_same s s' i :
  same s s' ->
  match eval_idx rx all_matches s i, eval_idx rx all_matches s' i with
  | Ok (a, k), Ok (b, k') => same a b /\ k = k'
  | Err m, Err m' => m = m'
  | Panic, Panic => True
  | Unmod, Unmod => True
  | _, _ => False
  end.
Proof.
  intros Hs. destruct i as [x|neg d]; cbn [eval_idx].
  - split; [exact Hs|reflexivity].
  - destruct Hs as [_ He]. rewrite He.
    destruct (ensure s') as [s1| | |]; cbn [rbind]; auto.
    destruct (vnum (nf rx s1)); auto. destruct (representable _); auto using same_refl.
Qed.

Theorem exec_same s s' o :
  same s s' -> same_res (exec s o) (exec s' o).
Proof.
  intros Hs.
  destruct o as [t|i|i|i t|i t|t|i f| |v|f|fsv r|ov|r|m|m| ]; cbn [exec_op].
  - (* ReadRecord *) cbn [same_res]. split; [apply same_set_line; exact Hs|reflexivity].
  - (* GetField *)
    pose proof (eval_idx_same s s' i Hs) as Hi.
    destruct (eval_idx rx all_matches s i) as [[a k]| | |], (eval_idx rx all_matches s' i) as [[b k']| | |];
      cbn [rbind same_res]; try contradiction; auto.
    destruct Hi as [Hab <-].
    pose proof (get_field_same a b k Hab) as Hg.
    destruct (get_field rx all_matches a k) as [[[a1 f1] t1]| | |], (get_field rx all_matches b k) as [[[b1 f2] t2]| | |];
      cbn [rbind same_res]; try contradiction; auto.
    destruct Hg as (H1 & -> & _). split; [exact H1|reflexivity].
  - (* TypeOf *)
    pose proof (eval_idx_same s s' i Hs) as Hi.
    destruct (eval_idx rx all_matches s i) as [[a k]| | |], (eval_idx rx all_matches s' i) as [[b k']| | |];
      cbn [rbind same_res]; try contradiction; auto.
    destruct Hi as [Hab <-].
    pose proof (get_field_same a b k Hab) as Hg.
    destruct (get_field rx all_matches a k) as [[[a1 f1] t1]| | |], (get_field rx all_matches b k) as [[[b1 f2] t2]| | |];
      cbn [rbind same_res]; try contradiction; auto.
    destruct Hg as (H1 & -> & ->). split; [exact H1|reflexivity].
  - (* SetField *)
    pose proof (eval_idx_same s s' i Hs) as Hi.
    destruct (eval_idx rx all_matches s i) as [[a k]| | |], (eval_idx rx all_matches s' i) as [[b k']| | |];
      cbn [rbind same_res]; try contradiction; auto.
    destruct Hi as [Hab <-].
    pose proof (set_field_same a b k t Hab) as Hg.
    destruct (set_field rx all_matches a k t), (set_field rx all_matches b k t);
      cbn [rbind same_res]; try contradiction; auto.
  - (* GetlineField *)
    pose proof (eval_idx_same s s' i Hs) as Hi.
    destruct (eval_idx rx all_matches s i) as [[a k]| | |], (eval_idx rx all_matches s' i) as [[b k']| | |];
      cbn [rbind same_res]; try contradiction; auto.
    destruct Hi as [Hab <-].
    pose proof (set_field_same a b k t Hab) as Hg.
    destruct (set_field rx all_matches a k t), (set_field rx all_matches b k t);
      cbn [rbind same_res]; try contradiction; auto.
  - (* GetlineVar *) cbn [same_res]. split; [exact Hs|reflexivity].
  - (* ModField *)
    pose proof (eval_idx_same s s' i Hs) as Hi.
    destruct (eval_idx rx all_matches s i) as [[a k]| | |], (eval_idx rx all_matches s' i) as [[b k']| | |];
      cbn [rbind same_res]; try contradiction; auto.
    destruct Hi as [Hab <-].
    pose proof (get_field_same a b k Hab) as Hg.
    destruct (get_field rx all_matches a k) as [[[a1 f1] t1]| | |], (get_field rx all_matches b k) as [[[b1 f2] t2]| | |];
      cbn [rbind same_res]; try contradiction; auto.
    destruct Hg as (H1 & -> & _).
    destruct (f f2) as [[t|]| | |]; cbn [rbind same_res]; auto.
    pose proof (set_field_same a1 b1 k t H1) as Hg2.
    destruct (set_field rx all_matches a1 k t), (set_field rx all_matches b1 k t);
      cbn [rbind same_res]; try contradiction; auto.
  - (* GetNF *) destruct Hs as [_ He]. rewrite He. apply same_res_refl.
  - (* SetNF *) unfold set_nf. destruct Hs as [_ He]. rewrite He. apply same_res_refl.
  - (* ModNF *) destruct Hs as [_ He]. rewrite He. apply same_res_refl.
  - (* SetFS *)
    destruct Hs as [Hc He]. pose proof (core_inj _ _ Hc) as (H1 & H2 & H3 & H4 & H5 & H6 & H7 & H8 & H9 & H10 & H11 & H12).
    unfold set_fs. destruct (rune_count fsv >? 1).
    + destruct r as [re|]; cbn [rbind same_res]; [|reflexivity].
      split; [|reflexivity].
      change (same (retune fsv (Some re) (ofs rx s) (rs rx s) (inmode rx s) (outmode rx s) s)
                   (retune fsv (Some re) (ofs rx s') (rs rx s') (inmode rx s') (outmode rx s') s')).
      rewrite H7, H8, H9, H10. apply same_retune. split; assumption.
    + cbn [rbind same_res]. split; [|reflexivity].
      change (same (retune fsv (fs_re rx s) (ofs rx s) (rs rx s) (inmode rx s) (outmode rx s) s)
                   (retune fsv (fs_re rx s') (ofs rx s') (rs rx s') (inmode rx s') (outmode rx s') s')).
      rewrite H4, H7, H8, H9, H10. apply same_retune. split; assumption.
  - (* SetOFS *)
    destruct Hs as [Hc He]. pose proof (core_inj _ _ Hc) as (H1 & H2 & H3 & H4 & H5 & H6 & H7 & H8 & H9 & H10 & H11 & H12).
    cbn [same_res]. split; [|reflexivity].
    change (same (retune (fs rx s) (fs_re rx s) ov (rs rx s) (inmode rx s) (outmode rx s) s)
                 (retune (fs rx s') (fs_re rx s') ov (rs rx s') (inmode rx s') (outmode rx s') s')).
    rewrite H3, H4, H8, H9, H10. apply same_retune. split; assumption.
  - (* SetRS *)
    destruct Hs as [Hc He]. pose proof (core_inj _ _ Hc) as (H1 & H2 & H3 & H4 & H5 & H6 & H7 & H8 & H9 & H10 & H11 & H12).
    cbn [same_res]. split; [|reflexivity].
    change (same (retune (fs rx s) (fs_re rx s) (ofs rx s) r (inmode rx s) (outmode rx s) s)
                 (retune (fs rx s') (fs_re rx s') (ofs rx s') r (inmode rx s') (outmode rx s') s')).
    rewrite H3, H4, H7, H9, H10. apply same_retune. split; assumption.
  - (* SetInMode *)
    destruct Hs as [Hc He]. pose proof (core_inj _ _ Hc) as (H1 & H2 & H3 & H4 & H5 & H6 & H7 & H8 & H9 & H10 & H11 & H12).
    cbn [same_res]. split; [|reflexivity].
    change (same (retune (fs rx s) (fs_re rx s) (ofs rx s) (rs rx s) m (outmode rx s) s)
                 (retune (fs rx s') (fs_re rx s') (ofs rx s') (rs rx s') m (outmode rx s') s')).
    rewrite H3, H4, H7, H8, H10. apply same_retune. split; assumption.
  - (* SetOutMode *)
    destruct Hs as [Hc He]. pose proof (core_inj _ _ Hc) as (H1 & H2 & H3 & H4 & H5 & H6 & H7 & H8 & H9 & H10 & H11 & H12).
    cbn [same_res]. split; [|reflexivity].
    change (same (retune (fs rx s) (fs_re rx s) (ofs rx s) (rs rx s) (inmode rx s) m s)
                 (retune (fs rx s') (fs_re rx s') (ofs rx s') (rs rx s') (inmode rx s') m s')).
    rewrite H3, H4, H7, H8, H9. apply same_retune. split; assumption.
  - (* ViewAll *) destruct Hs as [_ He]. rewrite He. apply same_res_refl.
Qed.

(* whole scripts: same outputs, same way of ending *)
Definition same_end (r r' : res state) : Prop :=
  match r, r' with
  | Ok t, Ok t' => same t t'
  | Err m, Err m' => m = m'
  | Panic, Panic => True
  | Unmod, Unmod => True
  | _, _ => False
  end.

Theorem trace_same ops : forall s s',
  same s s' ->
  fst (trace rx all_matches ops s) = fst (trace rx all_matches ops s') /\
  same_end (snd (trace rx all_matches ops s)) (snd (trace rx all_matches ops s')).
Proof.
  induction ops as [|o ops IH]; intros s s' Hs; cbn [trace].
  - cbn [fst snd same_end]. split; [reflexivity|exact Hs].
  - pose proof (exec_same s s' o Hs) as He.
    destruct (exec s o) as [[t w]| | |], (exec s' o) as [[t' w']| | |]; cbn [same_res] in He; try contradiction.
    + destruct He as [Ht <-]. destruct (IH t t' Ht) as [H1 H2].
      destruct (trace rx all_matches ops t) as [ws r], (trace rx all_matches ops t') as [ws' r'].
      cbn [fst snd] in *. split; [f_equal; exact H1|exact H2].
    + cbn [fst snd same_end]. split; [reflexivity|exact He].
    + cbn [fst snd same_end]. auto.
    + cbn [fst snd same_end]. auto.
Qed.

(* the reads *)
Definition is_read_op (o : op) : bool :=
  match o with GetField _ _ | TypeOf _ _ | GetNF _ | ViewAll _ => true | _ => false end.

Lemma read_same s o s' w : is_read_op o = true -> exec s o = Ok (s', w) -> same s' s.
Proof.
  intros Hr H. destruct o as [t|i|i|i t|i t|t|i f| |v|f|fsv r|ov|r|m|m| ]; try discriminate Hr; cbn [exec_op] in H.
  - assert (forall a k, eval_idx rx all_matches s i = Ok (a, k) -> same a s) as Hidx.
    { intros a k E. destruct i as [x|neg d]; cbn [eval_idx] in E.
      - injection E as <- _. apply same_refl.
      - destruct (ensure s) as [s1| | |] eqn:He; cbn [rbind] in E; try discriminate.
        destruct (vnum (nf rx s1)); try discriminate. destruct (representable _); [|discriminate].
        injection E as <- _. exact (same_ensure _ _ He). }
    destruct (eval_idx rx all_matches s i) as [[a k]| | |] eqn:E0; cbn [rbind] in H; try discriminate.
    pose proof (Hidx a k eq_refl) as Ha.
    destruct (get_field rx all_matches a k) as [[[a1 f1] t1]| | |] eqn:E1; cbn [rbind] in H; try discriminate.
    injection H as <- _.
    assert (same a1 a) as H1.
    { unfold get_field in E1. destruct (k =? 0).
      - injection E1 as <- _ _. apply same_refl.
      - destruct (ensure a) as [a2| | |] eqn:He; cbn [rbind] in E1; try discriminate.
        pose proof (same_ensure _ _ He) as Hsame.
        repeat match type of E1 with
               | (if ?c then _ else _) = _ => destruct c
               | rbind ?r _ = _ => destruct r; cbn [rbind] in E1; try discriminate
               end; injection E1 as <- _ _; exact Hsame. }
    destruct H1 as [C1 E1']. destruct Ha as [C2 E2]. split; congruence.
  - assert (forall a k, eval_idx rx all_matches s i = Ok (a, k) -> same a s) as Hidx.
    { intros a k E. destruct i as [x|neg d]; cbn [eval_idx] in E.
      - injection E as <- _. apply same_refl.
      - destruct (ensure s) as [s1| | |] eqn:He; cbn [rbind] in E; try discriminate.
        destruct (vnum (nf rx s1)); try discriminate. destruct (representable _); [|discriminate].
        injection E as <- _. exact (same_ensure _ _ He). }
    destruct (eval_idx rx all_matches s i) as [[a k]| | |] eqn:E0; cbn [rbind] in H; try discriminate.
    pose proof (Hidx a k eq_refl) as Ha.
    destruct (get_field rx all_matches a k) as [[[a1 f1] t1]| | |] eqn:E1; cbn [rbind] in H; try discriminate.
    injection H as <- _.
    assert (same a1 a) as H1.
    { unfold get_field in E1. destruct (k =? 0).
      - injection E1 as <- _ _. apply same_refl.
      - destruct (ensure a) as [a2| | |] eqn:He; cbn [rbind] in E1; try discriminate.
        pose proof (same_ensure _ _ He) as Hsame.
        repeat match type of E1 with
               | (if ?c then _ else _) = _ => destruct c
               | rbind ?r _ = _ => destruct r; cbn [rbind] in E1; try discriminate
               end; injection E1 as <- _ _; exact Hsame. }
    destruct H1 as [C1 E1']. destruct Ha as [C2 E2]. split; congruence.
  - destruct (ensure s) as [s1| | |] eqn:He; cbn [rbind] in H; try discriminate.
    injection H as <- _. exact (same_ensure _ _ He).
  - destruct (ensure s) as [s1| | |] eqn:He; cbn [rbind] in H; try discriminate.
    injection H as <- _. exact (same_ensure _ _ He).
Qed.

(* A read can be deleted from (or inserted into) ANY script without changing anything the rest
   of the script outputs or how it ends. *)
Theorem reads_invisible s o s' w ops :
  is_read_op o = true -> exec s o = Ok (s', w) ->
  fst (trace rx all_matches ops s') = fst (trace rx all_matches ops s) /\
  same_end (snd (trace rx all_matches ops s')) (snd (trace rx all_matches ops s)).
Proof.
  intros Hr He. apply trace_same. exact (read_same _ _ _ _ Hr He).
Qed.

End Obs.

(* FS := f for a one-character f (no regex involved) *)
Definition set_fs_plain (rx : Type) (f : bytes) (s : state rx) : state rx :=
  retune rx f (fs_re rx s) (ofs rx s) (rs rx s) (inmode rx s) (outmode rx s) s.

(* the former witness of F-C06-5 on the repaired model: $0 = "a,b<NL>c" under FS=","; then
   [x = $1;] RS = ""; NF -- the same answer with and without the read *)
Example reads_invisible_rs_example :
  let am := fun (_ : unit) (_ : bytes) => @nil (Z * Z) in
  let s0 := set_line unit (set_fs_plain unit [44] (init unit)) [97; 44; 98; 10; 99] true in
  forall s1 w1, exec_op unit am s0 (GetField unit (IConst (FFin 1 0))) = Ok (s1, w1) ->
  fst (trace unit am [SetRS unit []; GetNF unit] s1) = fst (trace unit am [SetRS unit []; GetNF unit] s0).
Proof.
  intros am s0 s1 w1 H.
  exact (proj1 (reads_invisible unit am s0 (GetField unit (IConst (FFin 1 0))) s1 w1 _ eq_refl H)).
Qed.
