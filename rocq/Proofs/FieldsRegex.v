(* C06, part 4: the executable regex engine (Lib/Regex.v) satisfies the one hypothesis the
   C06 theorems make about FindAllStringIndex: matches come in order and inside the text.
   So every theorem of Proofs/FieldsInv.v and Proofs/FieldsSpec.v holds for the executable
   model that the correspondence check runs. *)
From Verif Require Import Lib.Base Lib.Utf8 Lib.Regex Model.Fields Proofs.FieldsSplit.

Lemma decode_width_pos s : s <> [] -> 1 <= snd (decode_rune s).
Proof. intros H. pose proof (decode_rune_width_pos s H). lia. Qed.

(* the chunks of [runes] concatenate back to the string *)
Lemma runes_fuel_concat fuel : forall s, (length s <= fuel)%nat -> concat (runes_fuel fuel s) = s.
Proof.
  induction fuel as [|f IH]; intros s Hl.
  - destruct s; [reflexivity|cbn [length] in Hl; lia].
  - cbn [runes_fuel]. destruct s as [|b t] eqn:Es; [reflexivity|].
    rewrite <- Es in *. assert (s <> []) as Hne by (rewrite Es; discriminate).
    pose proof (decode_width_pos s Hne) as Hw.
    cbn [concat]. rewrite IH.
    + unfold ztake, zdrop. apply firstn_skipn.
    + unfold zdrop. rewrite skipn_length.
      assert (length s <> 0)%nat by (rewrite Es; cbn [length]; lia). lia.
Qed.

Lemma runes_concat s : concat (runes s) = s.
Proof. apply runes_fuel_concat. lia. Qed.

Lemma zlen_concat_cons (c : bytes) cs : zlen (concat (c :: cs)) = zlen c + zlen (concat cs).
Proof. cbn [concat]. apply zlen_app. Qed.

(* longest: a new result lies between the start offset and the end of the chunks *)
Lemma longest_bounds r : forall cs st off best e,
  longest r st cs off best = Some e ->
  best = Some e \/ (off <= e <= off + zlen (concat cs)).
Proof.
  intros cs; revert r; induction cs as [|c cs IH]; intros r st off best e H.
  - cbn [longest] in H. destruct (nullable st (is_nil []) r).
    + injection H as <-. right. cbn [concat]. rewrite zlen_nil. lia.
    + left. exact H.
  - cbn [longest] in H.
    set (best' := if nullable st (is_nil (c :: cs)) r then Some off else best) in *.
    pose proof (zlen_nonneg c) as Hc. pose proof (zlen_nonneg (concat cs)) as Hcs.
    assert (best' = Some e -> best = Some e \/ off <= e <= off + zlen (concat (c :: cs))) as Hb.
    { unfold best'. destruct (nullable st (is_nil (c :: cs)) r).
      - intros Hx; injection Hx as <-. right. rewrite zlen_concat_cons. lia.
      - intros Hx. left. exact Hx. }
    destruct (is_none (deriv st (rune_of c) r)).
    + apply Hb. exact H.
    + destruct (IH _ _ _ _ _ H) as [Hl|Hr].
      * apply Hb. exact Hl.
      * right. rewrite zlen_concat_cons. lia.
Qed.

Lemma search_bounds r : forall cs off a b,
  search r cs off = Some (a, b) -> off <= a /\ a <= b /\ b <= off + zlen (concat cs).
Proof.
  intros cs; induction cs as [|c cs IH]; intros off a b H.
  - cbn [search] in H. destruct (longest r (off =? 0) [] off None) as [e|] eqn:El; [|discriminate].
    injection H as <- <-. destruct (longest_bounds _ _ _ _ _ _ El) as [Hx|Hx]; [discriminate|].
    cbn [concat] in *. rewrite zlen_nil in *. lia.
  - cbn [search] in H. destruct (longest r (off =? 0) (c :: cs) off None) as [e|] eqn:El.
    + injection H as <- <-. destruct (longest_bounds _ _ _ _ _ _ El) as [Hx|Hx]; [discriminate|]. lia.
    + apply IH in H. rewrite zlen_concat_cons. pose proof (zlen_nonneg c). lia.
Qed.

Lemma find_from_bounds r s pos a b :
  0 <= pos <= zlen s -> find_from r s pos = Some (a, b) -> pos <= a /\ a <= b /\ b <= zlen s.
Proof.
  intros Hp H. unfold find_from in H. apply search_bounds in H.
  rewrite runes_concat, zlen_zdrop in H by lia. lia.
Qed.

Lemma matches_sorted_weaken lo lo' hi ms : lo' <= lo -> matches_sorted lo hi ms -> matches_sorted lo' hi ms.
Proof. destruct ms as [|[a b] ms]; cbn [matches_sorted]; [auto|]. intros; intuition lia. Qed.

Lemma all_matches_fuel_sorted fuel r s : forall pos pe,
  0 <= pos -> matches_sorted pos (zlen s) (all_matches_fuel fuel r s pos pe).
Proof.
  induction fuel as [|f IH]; intros pos pe Hp; cbn [all_matches_fuel]; [exact I|].
  destruct (pos >? zlen s) eqn:Eg; [exact I|].
  assert (pos <= zlen s) as Hle by (destruct (Z.gtb_spec pos (zlen s)); [discriminate|lia]).
  destruct (find_from r s pos) as [[a b]|] eqn:Ef; [|exact I].
  destruct (find_from_bounds r s pos a b ltac:(lia) Ef) as (H1 & H2 & H3).
  set (pos' := if b =? pos
               then (if snd (decode_rune (zdrop pos s)) >? 0 then pos + snd (decode_rune (zdrop pos s)) else zlen s + 1)
               else b).
  assert (b <= pos') as Hb.
  { unfold pos'. destruct (b =? pos) eqn:E; [|lia]. apply Z.eqb_eq in E.
    destruct (snd (decode_rune (zdrop pos s)) >? 0) eqn:Ew; [|lia].
    destruct (Z.gtb_spec (snd (decode_rune (zdrop pos s))) 0); [lia|discriminate]. }
  pose proof (IH pos' b ltac:(lia)) as Hrest.
  destruct (negb ((b =? pos) && (a =? pe))).
  - cbn [matches_sorted]. repeat split; try lia.
    exact (matches_sorted_weaken _ _ _ _ Hb Hrest).
  - apply (matches_sorted_weaken pos'); [lia|exact Hrest].
Qed.

Theorem all_matches_sorted r s : matches_sorted 0 (zlen s) (Regex.all_matches r s).
Proof. unfold Regex.all_matches. apply all_matches_fuel_sorted. lia. Qed.
