(* C17: the conversion table AWK value -> Go value (toNative) and back (fromNative). *)
From Verif Require Import Lib.Base Lib.Dyadic Model.Native Proofs.NativeCheck.

(* ---- integer kinds: in-range numbers are truncated toward zero ---- *)
Definition int_range (w : width) (t : Z) : Prop := - 2 ^ (wbits w - 1) <= t < 2 ^ (wbits w - 1).
Definition uint_range (w : width) (t : Z) : Prop := 0 <= t < 2 ^ (wbits w).

Lemma wrap_s_8 z : -128 <= z < 128 -> wrap_s 8 z = z.
Proof.
  intros H. unfold wrap_s. change (2 ^ 8) with 256. change (2 ^ (8 - 1)) with 128.
  destruct (z mod 256 <? 128) eqn:E; [apply Z.ltb_lt in E|apply Z.ltb_ge in E];
    Z.div_mod_to_equations; lia.
Qed.

Lemma wrap_s_16 z : -32768 <= z < 32768 -> wrap_s 16 z = z.
Proof.
  intros H. unfold wrap_s. change (2 ^ 16) with 65536. change (2 ^ (16 - 1)) with 32768.
  destruct (z mod 65536 <? 32768) eqn:E; [apply Z.ltb_lt in E|apply Z.ltb_ge in E];
    Z.div_mod_to_equations; lia.
Qed.

Lemma f2i32_in_range m e : - two31 <= ftrunc m e < two31 -> f2i32 (FFin m e) = ftrunc m e.
Proof.
  intros H. unfold f2i32, in_i32.
  destruct (- two31 <=? ftrunc m e) eqn:E1; [|apply Z.leb_gt in E1; lia].
  destruct (ftrunc m e <? two31) eqn:E2; [|apply Z.ltb_ge in E2; lia]. reflexivity.
Qed.

Lemma f2i64_in_range m e : - two63 <= ftrunc m e < two63 -> f2i64 (FFin m e) = ftrunc m e.
Proof.
  intros H. unfold f2i64, in_i64.
  destruct (- two63 <=? ftrunc m e) eqn:E1; [|apply Z.leb_gt in E1; lia].
  destruct (ftrunc m e <? two63) eqn:E2; [|apply Z.ltb_ge in E2; lia]. reflexivity.
Qed.

Theorem to_int_in_range w m e : int_range w (ftrunc m e) -> to_int w (FFin m e) = ftrunc m e.
Proof.
  unfold int_range. destruct w; cbn [wbits to_int].
  - change (2 ^ (8 - 1)) with 128. intros H.
    rewrite f2i32_in_range by (unfold two31; lia). apply wrap_s_8. exact H.
  - change (2 ^ (16 - 1)) with 32768. intros H.
    rewrite f2i32_in_range by (unfold two31; lia). apply wrap_s_16. exact H.
  - change (2 ^ (32 - 1)) with two31. apply f2i32_in_range.
  - change (2 ^ (64 - 1)) with two63. apply f2i64_in_range.
  - change (2 ^ (64 - 1)) with two63. apply f2i64_in_range.
Qed.

(* unsigned kinds: every number whose truncation fits the kind arrives truncated *)
Theorem to_uint_in_range w m e : uint_range w (ftrunc m e) -> to_uint w (FFin m e) = ftrunc m e.
Proof.
  unfold uint_range. intros H.
  assert (Small : ftrunc m e < two63 -> wrap_u (wbits w) (f2i64 (FFin m e)) = ftrunc m e).
  { intros H63. unfold wrap_u. rewrite f2i64_in_range by (unfold two63 in *; lia). apply Z.mod_small. exact H. }
  assert (Big : forall w', wbits w' = 64 -> wbits w = 64 -> to_uint64 (FFin m e) = ftrunc m e).
  { intros w' _ Hw. rewrite Hw in H. change (2 ^ 64) with two64 in H. unfold to_uint64.
    destruct (two63 <=? ftrunc m e) eqn:E1; [apply Z.leb_le in E1|apply Z.leb_gt in E1].
    - destruct (ftrunc m e <? two64) eqn:E2; [reflexivity|apply Z.ltb_ge in E2; lia].
    - cbn [andb]. unfold wrap_u. rewrite f2i64_in_range by (unfold two63 in *; lia).
      apply Z.mod_small. change (2 ^ 64) with two64. lia. }
  destruct w; cbn [to_uint]; try (apply Small; cbn [wbits] in H; unfold two63; lia).
  - apply (Big W64); reflexivity.
  - apply (Big WP); reflexivity.
Qed.

(* ... and what a uint64/uint parameter receives for the numbers outside its range (unchanged by
   the repair of F-C17-6): negative numbers in the int64 range wrap modulo 2^64; below -2^63, from
   2^64 on, and for NaN and the infinities the amd64 int64 conversion gives -2^63, i.e. 2^63 *)
Theorem to_uint64_out_of_range :
  (forall m e, - two63 <= ftrunc m e < 0 -> to_uint64 (FFin m e) = ftrunc m e + two64) /\
  (forall m e, ftrunc m e < - two63 \/ two64 <= ftrunc m e -> to_uint64 (FFin m e) = two63) /\
  to_uint64 FNaN = two63 /\ (forall s, to_uint64 (FInf s) = two63).
Proof.
  repeat split; try reflexivity.
  - intros m e H. unfold to_uint64.
    destruct (two63 <=? ftrunc m e) eqn:E1; [apply Z.leb_le in E1; unfold two63 in *; lia|]. cbn [andb].
    unfold wrap_u. rewrite f2i64_in_range by (unfold two63 in *; lia). change (2 ^ 64) with two64.
    unfold two64, two63 in *. Z.div_mod_to_equations. lia.
  - intros m e H. unfold to_uint64, f2i64, in_i64.
    destruct (two63 <=? ftrunc m e) eqn:E1; [apply Z.leb_le in E1|apply Z.leb_gt in E1].
    + destruct (ftrunc m e <? two64) eqn:E2; [apply Z.ltb_lt in E2; unfold two63, two64 in *; lia|]. cbn [andb].
      destruct (ftrunc m e <? two63) eqn:E3; [apply Z.ltb_lt in E3; lia|]. rewrite andb_false_r. reflexivity.
    + cbn [andb]. destruct (- two63 <=? ftrunc m e) eqn:E3; [apply Z.leb_le in E3; unfold two63, two64 in *; lia|].
      reflexivity.
Qed.

(* ---- rounding: float32(x) and int64/uint64 -> float64 ---- *)
Lemma fround_exact prec emin emax m e :
  m <> 0 -> e + (Z.log2 (Z.abs m) + 1) - prec <= e -> emin <= e -> e + (Z.log2 (Z.abs m) + 1) <= emax ->
  fround prec emin emax m e = FFin m e.
Proof.
  intros Hm H1 H2 H3. unfold fround.
  destruct (m =? 0) eqn:E0; [apply Z.eqb_eq in E0; congruence|].
  destruct (Z.max (e + (Z.log2 (Z.abs m) + 1) - prec) emin <=? e) eqn:E1; [|apply Z.leb_gt in E1; lia].
  destruct (e + (Z.log2 (Z.abs m) + 1) <=? emax) eqn:E2; [reflexivity|apply Z.leb_gt in E2; lia].
Qed.

(* a number that is a float32 (24-bit mantissa, exponent in range) passes unchanged *)
Theorem to_f32_exact m e :
  m <> 0 -> Z.log2 (Z.abs m) + 1 <= 24 -> -149 <= e -> e + (Z.log2 (Z.abs m) + 1) <= 128 ->
  to_f32 (FFin m e) = FFin m e.
Proof. intros. cbn [to_f32]. apply fround_exact; lia. Qed.

Lemma to_f32_zero e : to_f32 (FFin 0 e) = FFin 0 0.
Proof. reflexivity. Qed.

(* integers below 2^53 in magnitude convert to float64 exactly *)
Theorem z_to_f64_exact z : Z.abs z < two53 -> z_to_f64 z = FFin z 0.
Proof.
  intros H. unfold z_to_f64. destruct (Z.eq_dec z 0) as [->|Hz]; [reflexivity|].
  apply fround_exact; try lia.
  - assert (Z.log2 (Z.abs z) < 53) by (apply Z.log2_lt_pow2; [lia|exact H]). lia.
  - assert (Z.log2 (Z.abs z) < 53) by (apply Z.log2_lt_pow2; [lia|exact H]). lia.
Qed.

(* the rounding step is to nearest, ties to even: for a = q*2^s + r the chosen q' is
   within half a unit, and exactly half only if q' is even *)
Theorem fround_step_nearest a s :
  0 <= a -> 1 <= s ->
  let q := a / 2 ^ s in let r := a mod 2 ^ s in let half := 2 ^ (s - 1) in
  let q' := if (half <? r) || ((r =? half) && Z.odd q) then q + 1 else q in
  Z.abs (a - q' * 2 ^ s) <= half /\ (Z.abs (a - q' * 2 ^ s) = half -> Z.odd q' = false).
Proof.
  intros Ha Hs q r half q'.
  assert (P : 2 ^ s = 2 * half) by (unfold half; rewrite <- Z.pow_succ_r by lia; f_equal; lia).
  assert (Hh : 0 < half) by (unfold half; apply Z.pow_pos_nonneg; lia).
  assert (D : a = q * 2 ^ s + r) by (unfold q, r; rewrite Z.mul_comm; apply Z.div_mod; lia).
  assert (R : 0 <= r < 2 ^ s) by (unfold r; apply Z.mod_pos_bound; lia).
  unfold q'. destruct (half <? r) eqn:E1; [apply Z.ltb_lt in E1|apply Z.ltb_ge in E1]; cbn [orb].
  - split; [nia|]. intros Habs. exfalso. nia.
  - destruct (r =? half) eqn:E2; [apply Z.eqb_eq in E2|apply Z.eqb_neq in E2]; cbn [andb].
    + destruct (Z.odd q) eqn:O.
      * split; [nia|]. intros _. rewrite Z.add_1_r, Z.odd_succ, <- Z.negb_odd, O. reflexivity.
      * split; [nia|]. intros _. exact O.
    + split; [nia|]. intros Habs. exfalso. nia.
Qed.

(* ---- type identity ---- *)
Lemma width_eqb_refl w : width_eqb w w = true.
Proof. destruct w; reflexivity. Qed.

Lemma ty_eqb_refl t : ty_eqb t t = true.
Proof.
  induction t; cbn [ty_eqb]; rewrite ?width_eqb_refl, ?Bool.eqb_reflx, ?IHt; reflexivity.
Qed.

Lemma ty_eqb_eq a : forall b, ty_eqb a b = true -> a = b.
Proof.
  induction a; intros b; destruct b; cbn [ty_eqb]; intros H; try discriminate; try reflexivity;
    repeat match goal with
           | H : _ && _ = true |- _ => apply andb_true_iff in H as [? ?]
           | H : Bool.eqb _ _ = true |- _ => apply Bool.eqb_prop in H; subst
           | H : width_eqb ?x ?y = true |- _ => destruct x, y; try discriminate; clear H
           end; try reflexivity.
  f_equal. apply IHa. assumption.
Qed.

(* ---- the AWK-side views ---- *)
Section Prims.
  Variable parse_float : bytes -> option fnum.
  Variable parse_prefix : bytes -> fnum.
  Variable fmt_float : fnum -> bytes.

  Notation to_native := (to_native parse_float parse_prefix fmt_float).
  Notation v_boolean := (v_boolean parse_float).
  Notation v_num := (v_num parse_prefix).
  Notation v_str := (v_str fmt_float).

  (* the value callNative builds for a parameter of a documented kind (toNative, then the
     conversion to the parameter's own type), as a total function *)
  Definition conv (v : value) (t : ty) : gval :=
    match kind_of t with
    | KBool => GV t (DBool (v_boolean v))
    | KInt w => GV t (DInt (to_int w (v_num v)))
    | KUint w => GV t (DUint (to_uint w (v_num v)))
    | KFloat32 => GV t (DFloat (to_f32 (v_num v)))
    | KFloat64 => GV t (DFloat (v_num v))
    | KString => GV t (DStr (v_str v))
    | KSlice => GV t (DBytes (v_str v))
    | KOther => GV TOther DOpaque
    end.

  (* toNative + Convert never panic on a documented kind, user-defined types included *)
  Lemma to_native_conv v t : valid_native_type t = true ->
    (ndo v0 <- to_native v t; convert_arg v0 t) = NOk (conv v t).
  Proof.
    destruct t as [d|w d|w d|d|d|d|e d| |]; cbn [valid_native_type kind_of]; intros H; try discriminate;
      unfold Native.to_native, conv; cbn [kind_of elem nbind];
      try (destruct d; try destruct w; reflexivity).
    rewrite H. cbn [nbind]. unfold convert_arg. cbn [gty]. rewrite ty_eqb_refl. reflexivity.
  Qed.

  (* toNative reaches one of its "unexpected" arms exactly on undocumented types *)
  Lemma to_native_panics_iff v t :
    (exists k, to_native v t = NPanic k) <-> valid_native_type t = false.
  Proof.
    destruct t as [d|w d|w d|d|d|d|e d| |]; cbn [valid_native_type kind_of];
      unfold Native.to_native; cbn [kind_of elem nbind];
      try (split; [intros [k H]; discriminate|discriminate]);
      try (split; [reflexivity|intros _; eexists; reflexivity]).
    destruct (is_uint8_kind (kind_of e)); split; try discriminate; try reflexivity.
    - intros [k H]. discriminate.
    - intros _. eexists; reflexivity.
  Qed.

  (* the documented table, kind by kind *)
  Theorem conv_bool v t : kind_of t = KBool -> conv v t = GV t (DBool (v_boolean v)).
  Proof. intros K. unfold conv. rewrite K. reflexivity. Qed.

  Theorem conv_int v t w m e :
    kind_of t = KInt w -> v_num v = FFin m e -> int_range w (ftrunc m e) ->
    conv v t = GV t (DInt (ftrunc m e)).
  Proof. intros K N R. unfold conv. rewrite K, N, (to_int_in_range w m e R). reflexivity. Qed.

  Theorem conv_uint v t w m e :
    kind_of t = KUint w -> v_num v = FFin m e -> uint_range w (ftrunc m e) ->
    conv v t = GV t (DUint (ftrunc m e)).
  Proof. intros K N R. unfold conv. rewrite K, N, (to_uint_in_range w m e R). reflexivity. Qed.

  Theorem conv_f64 v t : kind_of t = KFloat64 -> conv v t = GV t (DFloat (v_num v)).
  Proof. intros K. unfold conv. rewrite K. reflexivity. Qed.

  Theorem conv_f32 v t : kind_of t = KFloat32 -> conv v t = GV t (DFloat (to_f32 (v_num v))).
  Proof. intros K. unfold conv. rewrite K. reflexivity. Qed.

  Theorem conv_string v t : kind_of t = KString -> conv v t = GV t (DStr (v_str v)).
  Proof. intros K. unfold conv. rewrite K. reflexivity. Qed.

  Theorem conv_bytes v t : kind_of t = KSlice -> conv v t = GV t (DBytes (v_str v)).
  Proof. intros K. unfold conv. rewrite K. reflexivity. Qed.

  (* the string form: strings as they are, unset = "", integers in decimal *)
  Theorem v_str_table :
    (forall s, v_str (VStr s) = s) /\ (forall s, v_str (VNumStr s) = s) /\ v_str VNull = [] /\
    (forall z, - two63 <= z < two63 -> v_str (VNum (FFin z 0)) = z_to_dec z) /\
    v_str (VNum FNaN) = [110;97;110] /\ v_str (VNum (FInf false)) = [105;110;102] /\
    v_str (VNum (FInf true)) = [45;105;110;102].
  Proof.
    repeat split; try reflexivity.
    intros z Hz. cbn [Native.v_str num_str].
    assert (T : ftrunc z 0 = z) by (unfold ftrunc; cbn; lia).
    assert (E : f2i64 (FFin z 0) = z) by (rewrite f2i64_in_range; rewrite T; [reflexivity|exact Hz]).
    rewrite E. unfold feq, fin_cmp. rewrite Z.min_id, Z.sub_diag, Z.compare_refl. reflexivity.
  Qed.

  (* the truth value *)
  Theorem v_boolean_table :
    v_boolean VNull = false /\ (forall s, v_boolean (VStr s) = negb (bytes_eqb s [])) /\
    (forall x, v_boolean (VNum x) = negb (is_zero x)) /\
    (forall s f, parse_float s = Some f -> v_boolean (VNumStr s) = negb (is_zero f)) /\
    (forall s, parse_float s = None -> v_boolean (VNumStr s) = negb (bytes_eqb s [])).
  Proof.
    repeat split; try reflexivity.
    - intros s f H. cbn [Native.v_boolean]. rewrite H. reflexivity.
    - intros s H. cbn [Native.v_boolean]. rewrite H. reflexivity.
  Qed.

  (* the built value has the parameter's own type *)
  Lemma gty_conv v t : valid_native_type t = true -> gty (conv v t) = t.
  Proof.
    unfold conv. destruct t; cbn [valid_native_type kind_of]; intros H; try discriminate; reflexivity.
  Qed.

  Lemma kind_conv v t : valid_native_type t = true -> kind_of (gty (conv v t)) = kind_of t.
  Proof. intros H. rewrite gty_conv by exact H. reflexivity. Qed.
End Prims.

(* ---- reflect.Zero ---- *)
Theorem zero_value_table :
  (forall d, zero_value (TBool d) = GV (TBool d) (DBool false)) /\
  (forall w d, zero_value (TInt w d) = GV (TInt w d) (DInt 0)) /\
  (forall w d, zero_value (TUint w d) = GV (TUint w d) (DUint 0)) /\
  (forall d, zero_value (TFloat32 d) = GV (TFloat32 d) (DFloat (FFin 0 0))) /\
  (forall d, zero_value (TFloat64 d) = GV (TFloat64 d) (DFloat (FFin 0 0))) /\
  (forall d, zero_value (TString d) = GV (TString d) (DStr [])) /\
  (forall e d, zero_value (TSlice e d) = GV (TSlice e d) DNilSlice).
Proof. repeat split. Qed.

(* ---- fromNative: the inverse table ---- *)
(* Go's typing: the data of a reflect.Value fits its type *)
Definition data_fits (t : ty) (d : gdata) : Prop :=
  match t with
  | TBool _ => exists b, d = DBool b
  | TInt _ _ => exists z, d = DInt z
  | TUint _ _ => exists z, d = DUint z
  | TFloat32 _ | TFloat64 _ => exists x, d = DFloat x
  | TString _ => exists s, d = DStr s
  | TSlice _ _ => d = DNilSlice \/ exists s, d = DBytes s
  | TError => d = DErrNil \/ exists id, d = DErr id
  | TOther => True
  end.

Theorem from_native_table :
  (forall d b, from_native (GV (TBool d) (DBool b)) = NOk (VNum (FFin (if b then 1 else 0) 0))) /\
  (forall w d z, from_native (GV (TInt w d) (DInt z)) = NOk (VNum (z_to_f64 z))) /\
  (forall w d z, from_native (GV (TUint w d) (DUint z)) = NOk (VNum (z_to_f64 z))) /\
  (forall d x, from_native (GV (TFloat32 d) (DFloat x)) = NOk (VNum x)) /\
  (forall d x, from_native (GV (TFloat64 d) (DFloat x)) = NOk (VNum x)) /\
  (forall d s, from_native (GV (TString d) (DStr s)) = NOk (VStr s)) /\
  (forall e d s, kind_of e = KUint W8 -> from_native (GV (TSlice e d) (DBytes s)) = NOk (VStr s)) /\
  (forall e d, kind_of e = KUint W8 -> from_native (GV (TSlice e d) DNilSlice) = NOk (VStr [])).
Proof.
  repeat split; intros e d; intros; unfold from_native; cbn [gty gdat kind_of];
    match goal with H : kind_of e = _ |- _ => rewrite H end; reflexivity.
Qed.

(* fromNative takes every result type that checkNativeFunc accepts (user-defined ones included) *)
Theorem from_native_ok o :
  valid_native_type (gty o) = true -> data_fits (gty o) (gdat o) -> exists v, from_native o = NOk v.
Proof.
  destruct o as [t d]. cbn [gty gdat].
  destruct t; cbn [valid_native_type kind_of data_fits]; intros S F; try discriminate.
  - destruct F as [b ->]. eexists; reflexivity.
  - destruct F as [z ->]. eexists; reflexivity.
  - destruct F as [z ->]. eexists; reflexivity.
  - destruct F as [x ->]. eexists; reflexivity.
  - destruct F as [x ->]. eexists; reflexivity.
  - destruct F as [s ->]. eexists; reflexivity.
  - unfold from_native. cbn [gty gdat kind_of]. rewrite S.
    destruct F as [->|[s ->]]; eexists; reflexivity.
Qed.

(* round trips: a value sent to Go and returned unchanged comes back as the same AWK value *)
Section RoundTrip.
  Variable parse_float : bytes -> option fnum.
  Variable parse_prefix : bytes -> fnum.
  Variable fmt_float : fnum -> bytes.

  Theorem round_trip_int w d z :
    int_range w z -> Z.abs z < two53 ->
    from_native (conv parse_float parse_prefix fmt_float (VNum (FFin z 0)) (TInt w d)) = NOk (VNum (FFin z 0)).
  Proof.
    intros R B. assert (T : ftrunc z 0 = z) by (unfold ftrunc; cbn; lia).
    rewrite (conv_int parse_float parse_prefix fmt_float (VNum (FFin z 0)) (TInt w d) w z 0 eq_refl eq_refl) by (rewrite T; exact R).
    rewrite T. unfold from_native. cbn [gty gdat kind_of]. rewrite (z_to_f64_exact z B). reflexivity.
  Qed.

  Theorem round_trip_uint w d z :
    uint_range w z -> z < two53 ->
    from_native (conv parse_float parse_prefix fmt_float (VNum (FFin z 0)) (TUint w d)) = NOk (VNum (FFin z 0)).
  Proof.
    intros R B. assert (T : ftrunc z 0 = z) by (unfold ftrunc; cbn; lia).
    unfold uint_range in R.
    rewrite (conv_uint parse_float parse_prefix fmt_float (VNum (FFin z 0)) (TUint w d) w z 0 eq_refl eq_refl)
      by (rewrite T; exact R).
    rewrite T. unfold from_native. cbn [gty gdat kind_of].
    rewrite (z_to_f64_exact z) by (rewrite Z.abs_eq; lia). reflexivity.
  Qed.

  Theorem round_trip_string d s :
    from_native (conv parse_float parse_prefix fmt_float (VStr s) (TString d)) = NOk (VStr s).
  Proof. reflexivity. Qed.

  Theorem round_trip_bytes e d s : kind_of e = KUint W8 ->
    from_native (conv parse_float parse_prefix fmt_float (VStr s) (TSlice e d)) = NOk (VStr s).
  Proof. intros H. unfold conv, from_native. cbn [kind_of gty gdat]. rewrite H. reflexivity. Qed.

  Theorem round_trip_f64 d x :
    from_native (conv parse_float parse_prefix fmt_float (VNum x) (TFloat64 d)) = NOk (VNum x).
  Proof. reflexivity. Qed.

  Theorem round_trip_bool d v :
    from_native (conv parse_float parse_prefix fmt_float v (TBool d)) =
    NOk (VNum (FFin (if Native.v_boolean parse_float v then 1 else 0) 0)).
  Proof. reflexivity. Qed.
End RoundTrip.
