(* C04 — a fuel-free (big-step, relational) view of the parser model, derived from the
   executable functions by fuel monotonicity: "Parses l pc pend ts R" = for some (hence every
   larger) fuel, p_lv returns POk R. *)
From Verif Require Import Lib.Base Model.ExprAst Model.ExprParser Proofs.ExprParserMono.
Local Open Scope nat_scope.

Definition Parses (l : lvl) (pc : bool) (pend : option expr) (ts : list tok) (R : expr * list tok) : Prop :=
  exists n, p_lv n l pc pend ts = POk R.
Definition Afters (l : lvl) (pc : bool) (e : expr) (ts : list tok) (R : expr * list tok) : Prop :=
  exists n, after n l pc e ts = POk R.
Definition Prim (ts : list tok) (R : expr * list tok) : Prop :=
  exists n, primary n None ts = POk R.
Definition OptLv (ts : list tok) (R : option expr * list tok) : Prop :=
  exists n, opt_lvalue n ts = POk R.
Definition ExprList (pc first : bool) (ts : list tok) (R : list expr * list tok) : Prop :=
  exists n, exprlist n pc first ts = POk R.
Definition UArgs (first : bool) (ts : list tok) (R : list expr * list tok) : Prop :=
  exists n, ucall_args n first ts = POk R.
Definition RegexStr (l : lvl) (pc : bool) (ts : list tok) (R : expr * list tok) : Prop :=
  exists n, regex_str n l pc ts = POk R.
Definition Builtin (f : bfn) (ts : list tok) (R : expr * list tok) : Prop :=
  exists n, builtin n f ts = POk R.

Lemma le_res_ok {A} (a b : pres A) r : le_res a b -> a = POk r -> b = POk r.
Proof. intros [-> | ->]; [discriminate | auto]. Qed.

Section Mono.
Variables (n m : nat).
Hypothesis Hnm : (n <= m)%nat.
Lemma p_lv_mono l pc pend ts r : p_lv n l pc pend ts = POk r -> p_lv m l pc pend ts = POk r.
Proof. apply le_res_ok. apply (mono n m Hnm). Qed.
Lemma after_mono l pc e ts r : after n l pc e ts = POk r -> after m l pc e ts = POk r.
Proof. apply le_res_ok. apply (mono n m Hnm). Qed.
Lemma regex_str_mono l pc ts r : regex_str n l pc ts = POk r -> regex_str m l pc ts = POk r.
Proof. apply le_res_ok. apply (mono n m Hnm). Qed.
Lemma primary_mono pend ts r : primary n pend ts = POk r -> primary m pend ts = POk r.
Proof. apply le_res_ok. apply (mono n m Hnm). Qed.
Lemma opt_lvalue_mono ts r : opt_lvalue n ts = POk r -> opt_lvalue m ts = POk r.
Proof. apply le_res_ok. apply (mono n m Hnm). Qed.
Lemma exprlist_mono pc first ts r : exprlist n pc first ts = POk r -> exprlist m pc first ts = POk r.
Proof. apply le_res_ok. apply (mono n m Hnm). Qed.
Lemma ucall_args_mono first ts r : ucall_args n first ts = POk r -> ucall_args m first ts = POk r.
Proof. apply le_res_ok. apply (mono n m Hnm). Qed.
Lemma builtin_mono f ts r : builtin n f ts = POk r -> builtin m f ts = POk r.
Proof. apply le_res_ok. apply (mono n m Hnm). Qed.
End Mono.

(* two or three fuels at once *)
Ltac fuel2 n1 n2 := exists (S (Nat.max n1 n2)).
Ltac up H := first
  [ eapply p_lv_mono in H | eapply after_mono in H | eapply primary_mono in H | eapply regex_str_mono in H
  | eapply opt_lvalue_mono in H | eapply exprlist_mono in H | eapply ucall_args_mono in H | eapply builtin_mono in H ].

(* p_lv l = p_lv (higher l) ; after l *)
Lemma parses_step l pc ts e ts' R :
  l <> LPrimary ->
  Parses (higher pc l) pc None ts (e, ts') -> Afters l pc e ts' R -> Parses l pc None ts R.
Proof.
  intros Hl [n1 H1] [n2 H2]. fuel2 n1 n2.
  eapply p_lv_mono with (m := Nat.max n1 n2) in H1; [|lia].
  eapply after_mono with (m := Nat.max n1 n2) in H2; [|lia].
  destruct l; try congruence; cbn [p_lv higher] in *; rewrite H1; cbn [pbind]; exact H2.
Qed.

Lemma parses_prim pc ts R : Prim ts R -> Parses LPrimary pc None ts R.
Proof. intros [n H]. exists (S n). exact H. Qed.

Lemma prim_of_parses pc ts R : Parses LPrimary pc None ts R -> Prim ts R.
Proof. intros [[|n] H]; [discriminate|]. exists n. exact H. Qed.

(* ---- after: no continuation ---- *)

Definition rk (l : lvl) : nat :=
  match l with
  | LExpr => 0 | LGetline => 1 | LCond => 2 | LOr => 3 | LAnd => 4 | LIn => 5 | LMatch => 6
  | LCompare => 7 | LConcat => 8 | LAdd => 9 | LMul => 10 | LPow => 11 | LPostIncr => 12 | LPrimary => 13
  end.

(* 1 + the highest level (rank) whose suffix code consumes the token when it follows a complete
   operand; 0 if no level does.  In the print tower `>` is not a comparison and getline() is not called. *)
Definition tok_cont (pc : bool) (t : tok) : nat :=
  match t with
  | TAssign | TAddAssign | TDivAssign | TModAssign | TMulAssign | TPowAssign | TSubAssign => 1
  | TPipe => if pc then 0 else 2
  | TQuestion => 3
  | TOr => 4
  | TAnd => 5
  | TIn => 6
  | TMatch | TNotMatch => 7
  | TEquals | TNotEquals | TLess | TLte | TGte => 8
  | TGreater => if pc then 0 else 8
  | TDollar | TAt | TNot | TName _ | TNumber _ | TString _ | TLParen true | TFunc _ => 9
  | TAdd | TSub => 10
  | TMul | TDiv | TMod => 11
  | TPow => 12
  | TIncr | TDecr => 13
  | TLParen false | TLBracket => 14
  | _ => 0
  end.

Definition hd_tok (ts : list tok) : tok := match ts with t :: _ => t | [] => TSemicolon end.

Lemma tok_cont_true_le t : (tok_cont true t <= tok_cont false t)%nat.
Proof. destruct t; cbn; try lia; try (destruct sp; lia); destruct pc; lia. Qed.

Lemma afters_stop l pc e ts :
  (tok_cont pc (hd_tok ts) <= rk l)%nat -> (l = LGetline -> pc = false) ->
  Afters l pc e ts (e, ts).
Proof.
  intros H Hg. exists 1%nat.
  destruct l; cbn [after]; try reflexivity;
    try (destruct ts as [|t r]; [reflexivity|];
         destruct t; cbn [hd_tok tok_cont rk] in H; try lia; try reflexivity;
         try (destruct sp; cbn in H; try lia; reflexivity);
         try (destruct pc; cbn in H |- *; try lia; try reflexivity)).
  all: try (specialize (Hg eq_refl); discriminate).
Qed.

(* ---- after: the continuing cases ---- *)

Lemma aft_loop_or pc e r rgt ts' R :
  Parses LAnd pc None (skip_nl r) (rgt, ts') -> Afters LOr pc (EBinary BOr e rgt) ts' R ->
  Afters LOr pc e (TOr :: r) R.
Proof.
  intros [n1 H1] [n2 H2]. fuel2 n1 n2.
  eapply p_lv_mono with (m := Nat.max n1 n2) in H1; [|lia].
  eapply after_mono with (m := Nat.max n1 n2) in H2; [|lia].
  cbn [after]. rewrite H1. cbn [pbind]. exact H2.
Qed.

Lemma aft_loop_and pc e r rgt ts' R :
  Parses LIn pc None (skip_nl r) (rgt, ts') -> Afters LAnd pc (EBinary BAnd e rgt) ts' R ->
  Afters LAnd pc e (TAnd :: r) R.
Proof.
  intros [n1 H1] [n2 H2]. fuel2 n1 n2.
  eapply p_lv_mono with (m := Nat.max n1 n2) in H1; [|lia].
  eapply after_mono with (m := Nat.max n1 n2) in H2; [|lia].
  cbn [after]. rewrite H1. cbn [pbind]. exact H2.
Qed.

Lemma aft_loop_concat pc e t r rgt ts' R :
  concat_start t = true ->
  Parses LAdd pc None (t :: r) (rgt, ts') -> Afters LConcat pc (EBinary BConcat e rgt) ts' R ->
  Afters LConcat pc e (t :: r) R.
Proof.
  intros Hs [n1 H1] [n2 H2]. fuel2 n1 n2.
  eapply p_lv_mono with (m := Nat.max n1 n2) in H1; [|lia].
  eapply after_mono with (m := Nat.max n1 n2) in H2; [|lia].
  cbn [after]. rewrite Hs, H1. cbn [pbind]. exact H2.
Qed.

Lemma aft_loop_add pc e t op r rgt ts' R :
  add_op t = Some op ->
  Parses LMul pc None r (rgt, ts') -> Afters LAdd pc (EBinary op e rgt) ts' R ->
  Afters LAdd pc e (t :: r) R.
Proof.
  intros Hs [n1 H1] [n2 H2]. fuel2 n1 n2.
  eapply p_lv_mono with (m := Nat.max n1 n2) in H1; [|lia].
  eapply after_mono with (m := Nat.max n1 n2) in H2; [|lia].
  cbn [after]. rewrite Hs, H1. cbn [pbind]. exact H2.
Qed.

Lemma aft_loop_mul pc e t op r rgt ts' R :
  mul_op t = Some op ->
  Parses LPow pc None r (rgt, ts') -> Afters LMul pc (EBinary op e rgt) ts' R ->
  Afters LMul pc e (t :: r) R.
Proof.
  intros Hs [n1 H1] [n2 H2]. fuel2 n1 n2.
  eapply p_lv_mono with (m := Nat.max n1 n2) in H1; [|lia].
  eapply after_mono with (m := Nat.max n1 n2) in H2; [|lia].
  cbn [after]. rewrite Hs, H1. cbn [pbind]. exact H2.
Qed.

Lemma aft_loop_in pc e a r R :
  Afters LIn pc (EIn [e] a) r R -> Afters LIn pc e (TIn :: TName a :: r) R.
Proof. intros [n H]. exists (S n). cbn [after]. exact H. Qed.

Lemma aft_pow pc e r rgt ts' :
  Parses LPow pc None r (rgt, ts') -> Afters LPow pc e (TPow :: r) (EBinary BPow e rgt, ts').
Proof. intros [n H]. exists (S n). cbn [after]. rewrite H. reflexivity. Qed.

Lemma aft_cmp pc e t op r rgt ts' :
  cmp_op pc t = Some op ->
  Parses LConcat pc None r (rgt, ts') -> Afters LCompare pc e (t :: r) (EBinary op e rgt, ts').
Proof. intros Hc [n H]. exists (S n). cbn [after]. rewrite Hc, H. reflexivity. Qed.

Lemma aft_match pc e r rgt ts' :
  RegexStr LCompare pc r (rgt, ts') -> Afters LMatch pc e (TMatch :: r) (EBinary BMatch e rgt, ts').
Proof. intros [n H]. exists (S n). cbn [after]. rewrite H. reflexivity. Qed.

Lemma aft_notmatch pc e r rgt ts' :
  RegexStr LCompare pc r (rgt, ts') -> Afters LMatch pc e (TNotMatch :: r) (EBinary BNotMatch e rgt, ts').
Proof. intros [n H]. exists (S n). cbn [after]. rewrite H. reflexivity. Qed.

Lemma regex_str_lit l pc s r : RegexStr l pc (TRegex s :: r) (EStrRegex s, r).
Proof. exists 1%nat. reflexivity. Qed.

Lemma regex_str_expr l pc ts R :
  (match ts with TRegex _ :: _ | TDiv :: _ | TDivAssign :: _ => False | _ => True end) ->
  Parses l pc None ts R -> RegexStr l pc ts R.
Proof.
  intros Hh [n H]. exists (S n). cbn [regex_str].
  destruct ts as [|t r]; [exact H|]. destruct t; try exact H; contradiction.
Qed.

Lemma aft_cond pc e r t ts1 f ts2 :
  Parses LExpr pc None (skip_nl r) (t, TColon :: ts1) ->
  Parses LExpr pc None (skip_nl ts1) (f, ts2) ->
  Afters LCond pc e (TQuestion :: r) (ECond e t f, ts2).
Proof.
  intros [n1 H1] [n2 H2]. fuel2 n1 n2.
  eapply p_lv_mono with (m := Nat.max n1 n2) in H1; [|lia].
  eapply p_lv_mono with (m := Nat.max n1 n2) in H2; [|lia].
  cbn [after]. rewrite H1. cbn [pbind]. rewrite H2. reflexivity.
Qed.

Lemma aft_assign pc e t op r rgt ts' :
  assign_op t = Some op -> is_lvalue e = true ->
  Parses LExpr pc None r (rgt, ts') ->
  Afters LExpr pc e (t :: r) (make_assign e op rgt, ts').
Proof.
  intros Ha Hl [n H]. exists (S n). cbn [after]. rewrite Ha.
  assert (Hn : is_named_field e = false) by (destruct e; cbn in Hl |- *; congruence).
  rewrite Hn, H. cbn [pbind]. rewrite Hl. reflexivity.
Qed.

Lemma aft_postincr pc e op t r :
  (t = TIncr /\ op = IIncr \/ t = TDecr /\ op = IDecr) -> is_lvalue e = true ->
  Afters LPostIncr pc e (t :: r) (EIncr op false e, r).
Proof. intros [[-> ->] | [-> ->]] Hl; exists 1%nat; cbn [after]; rewrite Hl; reflexivity. Qed.

(* ---- primary ---- *)

Lemma prim_num s r : Prim (TNumber s :: r) (ENum s, r).
Proof. exists 1%nat. reflexivity. Qed.
Lemma prim_str s r : Prim (TString s :: r) (EStr s, r).
Proof. exists 1%nat. reflexivity. Qed.
Lemma prim_regex s r : Prim (TRegex s :: r) (ERegex s, r).
Proof. exists 1%nat. reflexivity. Qed.

Lemma prim_var s r :
  (tok_cont false (hd_tok r) <= 13)%nat -> Prim (TName s :: r) (EVar s, r).
Proof.
  intros H. exists 1%nat. cbn [primary].
  destruct r as [|t r']; [reflexivity|]. destruct t; try reflexivity; cbn in H; try lia.
  destruct sp; cbn in H; try lia; reflexivity.
Qed.

Definition unop_tok (op : unop) : tok := match op with UNot => TNot | UPlus => TAdd | UMinus => TSub end.

Lemma prim_unary op r v r' :
  Parses LPow false None r (v, r') -> Prim (unop_tok op :: r) (EUnary op v, r').
Proof. intros [n H]. exists (S n). destruct op; cbn [primary unop_tok]; rewrite H; reflexivity. Qed.

Lemma prim_field r i r' :
  Prim r (i, r') -> (tok_cont false (hd_tok r') <= 12)%nat -> Prim (TDollar :: r) (EField i, r').
Proof.
  intros [n H] Hc. exists (S n). cbn [primary]. rewrite H. cbn [pbind].
  destruct r' as [|t r'']; [reflexivity|]. destruct t; try reflexivity; cbn in Hc; lia.
Qed.

Definition inc_tok (op : incop) : tok := match op with IIncr => TIncr | IDecr => TDecr end.

Lemma prim_field_postincr op r i r' :
  Prim r (i, inc_tok op :: r') -> Prim (TDollar :: r) (EIncr op false (EField i), r').
Proof. intros [n H]. exists (S n). cbn [primary]. rewrite H. destruct op; reflexivity. Qed.

Lemma prim_preincr op r x r' :
  OptLv r (Some x, r') -> Prim (inc_tok op :: r) (EIncr op true x, r').
Proof. intros [n H]. exists (S n). destruct op; cbn [primary inc_tok]; rewrite H; reflexivity. Qed.

Lemma prim_group sp r e r' :
  ExprList false true r ([e], TRParen :: r') -> Prim (TLParen sp :: r) (EGroup e, r').
Proof. intros [n H]. exists (S n). cbn [primary]. rewrite H. reflexivity. Qed.

Lemma prim_multi_in sp r e1 e2 es a r' :
  ExprList false true r (e1 :: e2 :: es, TRParen :: TIn :: TName a :: r') ->
  Prim (TLParen sp :: r) (EIn (e1 :: e2 :: es) a, r').
Proof. intros [n H]. exists (S n). cbn [primary]. rewrite H. reflexivity. Qed.

Lemma prim_index s r e es r' :
  ExprList false true r (e :: es, TRBracket :: r') ->
  Prim (TName s :: TLBracket :: r) (EIndex s (e :: es), r').
Proof. intros [n H]. exists (S n). cbn [primary]. rewrite H. reflexivity. Qed.

Lemma prim_ucall s r args r' :
  UArgs true r (args, TRParen :: r') ->
  Prim (TName s :: TLParen false :: r) (EUserCall s args, r').
Proof. intros [n H]. exists (S n). cbn [primary]. rewrite H. reflexivity. Qed.

Lemma prim_builtin f r R : Builtin f r R -> Prim (TFunc f :: r) R.
Proof. intros [n H]. exists (S n). exact H. Qed.

(* ---- optionalLValue ---- *)

Lemma optlv_var s r :
  (tok_cont false (hd_tok r) <= 13)%nat -> OptLv (TName s :: r) (Some (EVar s), r).
Proof.
  intros H. exists 1%nat. cbn [opt_lvalue].
  destruct r as [|t r']; [reflexivity|]. destruct t; try reflexivity; cbn in H; try lia.
  destruct sp; cbn in H; try lia; reflexivity.
Qed.

Lemma optlv_index s r e es r' :
  ExprList false true r (e :: es, TRBracket :: r') ->
  OptLv (TName s :: TLBracket :: r) (Some (EIndex s (e :: es)), r').
Proof. intros [n H]. exists (S n). cbn [opt_lvalue]. rewrite H. reflexivity. Qed.

Lemma optlv_field r i r' :
  Prim r (i, r') -> OptLv (TDollar :: r) (Some (EField i), r').
Proof. intros [n H]. exists (S n). cbn [opt_lvalue]. rewrite H. reflexivity. Qed.

(* ---- exprList / userCall arguments ---- *)

Lemma exprlist_nil pc first ts : exprlist_stop ts = true -> ExprList pc first ts ([], ts).
Proof. intros H. exists 1%nat. cbn [exprlist]. rewrite H. reflexivity. Qed.

Lemma exprlist_first pc ts e ts2 es ts3 :
  exprlist_stop ts = false ->
  Parses LExpr pc None ts (e, ts2) -> ExprList pc false ts2 (es, ts3) ->
  ExprList pc true ts (e :: es, ts3).
Proof.
  intros Hs [n1 H1] [n2 H2]. fuel2 n1 n2.
  eapply p_lv_mono with (m := Nat.max n1 n2) in H1; [|lia].
  eapply exprlist_mono with (m := Nat.max n1 n2) in H2; [|lia].
  cbn [exprlist]. rewrite Hs. cbn [pbind]. rewrite H1. cbn [pbind]. rewrite H2. reflexivity.
Qed.

Lemma exprlist_next pc ts e ts2 es ts3 :
  Parses LExpr pc None (skip_nl ts) (e, ts2) -> ExprList pc false ts2 (es, ts3) ->
  ExprList pc false (TComma :: ts) (e :: es, ts3).
Proof.
  intros [n1 H1] [n2 H2]. fuel2 n1 n2.
  eapply p_lv_mono with (m := Nat.max n1 n2) in H1; [|lia].
  eapply exprlist_mono with (m := Nat.max n1 n2) in H2; [|lia].
  cbn [exprlist exprlist_stop comma_nl pbind]. rewrite H1. cbn [pbind]. rewrite H2. reflexivity.
Qed.

Lemma uargs_nil first r : UArgs first (TRParen :: r) ([], TRParen :: r).
Proof. exists 1%nat. reflexivity. Qed.

Lemma uargs_first ts e ts2 es ts3 :
  (match ts with TNewline :: _ | TRParen :: _ => False | _ => True end) ->
  Parses LExpr false None ts (e, ts2) -> UArgs false ts2 (es, ts3) ->
  UArgs true ts (e :: es, ts3).
Proof.
  intros Hs [n1 H1] [n2 H2]. fuel2 n1 n2.
  eapply p_lv_mono with (m := Nat.max n1 n2) in H1; [|lia].
  eapply ucall_args_mono with (m := Nat.max n1 n2) in H2; [|lia].
  cbn [ucall_args].
  destruct ts as [|t r]; [|destruct t; try contradiction];
    cbn [pbind]; rewrite H1; cbn [pbind]; rewrite H2; reflexivity.
Qed.

Lemma uargs_next ts e ts2 es ts3 :
  Parses LExpr false None (skip_nl ts) (e, ts2) -> UArgs false ts2 (es, ts3) ->
  UArgs false (TComma :: ts) (e :: es, ts3).
Proof.
  intros [n1 H1] [n2 H2]. fuel2 n1 n2.
  eapply p_lv_mono with (m := Nat.max n1 n2) in H1; [|lia].
  eapply ucall_args_mono with (m := Nat.max n1 n2) in H2; [|lia].
  cbn [ucall_args comma_nl pbind]. rewrite H1. cbn [pbind]. rewrite H2. reflexivity.
Qed.

(* ---- resuming a level function after one of its (transitive) higher() calls returned ---- *)

Definition lower (pc : bool) (l : lvl) : option lvl :=
  match l with
  | LExpr => None
  | LGetline => if pc then None else Some LExpr
  | LCond => Some (if pc then LExpr else LGetline)
  | LOr => Some LCond | LAnd => Some LOr | LIn => Some LAnd | LMatch => Some LIn | LCompare => Some LMatch
  | LConcat => Some LCompare | LAdd => Some LConcat | LMul => Some LAdd | LPow => Some LMul
  | LPostIncr => Some LPow | LPrimary => Some LPostIncr
  end.

Lemma lower_higher pc l l' : lower pc l = Some l' -> higher pc l' = l /\ l' <> LPrimary /\ rk l' < rk l.
Proof. destruct l, pc; cbn; intros H; inversion H; subst; cbn; repeat split; try congruence; lia. Qed.

(* PF pc k l e ts R: inside the call of level k, the nested call of level l has returned (e, ts);
   running the remaining suffix code of the levels below l down to k yields R *)
Inductive PF (pc : bool) (k : lvl) : lvl -> expr -> list tok -> expr * list tok -> Prop :=
| PF_done e ts : PF pc k k e ts (e, ts)
| PF_step l l' e ts e1 ts1 R :
    lower pc l = Some l' -> Afters l' pc e ts (e1, ts1) -> PF pc k l' e1 ts1 R -> PF pc k l e ts R.

Lemma parses_via pc k l ts0 e ts R :
  Parses l pc None ts0 (e, ts) -> PF pc k l e ts R -> Parses k pc None ts0 R.
Proof.
  intros HP HF. induction HF as [|l l' e ts e1 ts1 R Hl HA HF IH]; [exact HP|].
  apply IH. destruct (lower_higher _ _ _ Hl) as (Hh & Hp & _).
  eapply parses_step; [exact Hp| rewrite Hh; exact HP | exact HA].
Qed.

Lemma pf_rank pc k l e ts R : PF pc k l e ts R -> rk k <= rk l.
Proof.
  induction 1 as [|l l' e ts e1 ts1 R Hl HA HF IH]; [lia|].
  destruct (lower_higher _ _ _ Hl) as (_ & _ & Hr). lia.
Qed.

Lemma pf_inv pc k l e ts R :
  PF pc k l e ts R -> rk k < rk l ->
  exists l' e1 ts1, lower pc l = Some l' /\ Afters l' pc e ts (e1, ts1) /\ PF pc k l' e1 ts1 R.
Proof. intros H Hr. inversion H; subst; [lia|]. eauto 8. Qed.

Lemma pf_same pc k e ts R : PF pc k k e ts R -> R = (e, ts).
Proof.
  intros H. inversion H; subst; [reflexivity|].
  match goal with H1 : lower _ _ = Some ?l', H2 : PF _ _ ?l' _ _ _ |- _ =>
    apply pf_rank in H2; apply lower_higher in H1; lia end.
Qed.

(* skipping levels whose suffix code does nothing on this token *)
Inductive reach (pc : bool) : lvl -> lvl -> Prop :=
| reach_refl l : reach pc l l
| reach_step l l' l'' : lower pc l = Some l' -> reach pc l' l'' -> reach pc l l''.

Lemma reach_rank pc l0 l1 : reach pc l0 l1 -> rk l1 <= rk l0.
Proof.
  induction 1 as [|l l' l'' Hl _ IH]; [lia|].
  destruct (lower_higher _ _ _ Hl) as (_ & _ & Hr). lia.
Qed.

Lemma reach_of_rank pc l0 l1 :
  rk l1 <= rk l0 -> (pc = true -> l0 <> LGetline /\ l1 <> LGetline) -> reach pc l0 l1.
Proof.
  intros Hr Hp.
  destruct pc; [destruct (Hp eq_refl) as [H0 H1]|];
    destruct l0, l1; cbn in Hr; try lia; try congruence;
    repeat first [apply reach_refl | eapply reach_step; [reflexivity|]].
Qed.

Lemma pf_skip pc k l0 l1 e ts R :
  reach pc l0 l1 -> tok_cont pc (hd_tok ts) <= rk l1 ->
  PF pc k l1 e ts R -> PF pc k l0 e ts R.
Proof.
  induction 1 as [|l l' l'' Hl Hre IH]; intros Hc HF; [exact HF|].
  eapply PF_step; [exact Hl| |apply IH; assumption].
  apply afters_stop.
  - apply reach_rank in Hre. lia.
  - intros ->. destruct l, pc; cbn in Hl; congruence.
Qed.

(* all levels from l0 down to k stop *)
Lemma pf_stops pc k l0 e ts :
  reach pc l0 k -> tok_cont pc (hd_tok ts) <= rk k -> PF pc k l0 e ts (e, ts).
Proof. intros Hr Hc. eapply pf_skip; eauto. apply PF_done. Qed.
