(* C08: every row print hands to interp.writeCSV reaches its destination completely and in
   order: for every kind of destination (unbuffered, a *bufio.Writer of at least 4096 bytes,
   a stream that embeds a bufio.Writer, any stack of them) the bytes at the sink after the end
   of the run are what was there before followed by the row texts of the rows printed. *)
From Verif Require Import Lib.Base Lib.Utf8 Model.Csv Proofs.CsvBase.

Lemma ztake_zdrop {A} n (l : list A) : ztake n l ++ zdrop n l = l.
Proof. unfold ztake, zdrop. apply firstn_skipn. Qed.

(* nothing written is lost or reordered by a stack of bufio.Writers *)
Lemma d_total_write : forall d p, d_total (d_write d p) = d_total d ++ p.
Proof.
  induction d as [got | size buf under IH]; intros p; cbn [d_write d_total]; [reflexivity|].
  destruct (zlen p <=? size - zlen buf).
  { cbn [d_total]. rewrite app_assoc. reflexivity. }
  destruct (Z.eqb_spec (zlen buf) 0) as [E|E].
  { apply zlen_0_nil in E. subst buf. cbn [d_total]. rewrite IH, !app_nil_r. reflexivity. }
  destruct (zlen (zdrop (size - zlen buf) p) <=? size); cbn [d_total]; rewrite IH.
  - rewrite <- !app_assoc. rewrite ztake_zdrop. reflexivity.
  - rewrite app_nil_r, <- app_assoc. reflexivity.
Qed.

Lemma d_depth_write : forall d p, d_depth (d_write d p) = d_depth d.
Proof.
  induction d as [got | size buf under IH]; intros p; cbn [d_write d_depth]; [reflexivity|].
  destruct (zlen p <=? size - zlen buf); [reflexivity|].
  destruct (zlen buf =? 0); [cbn [d_depth]; rewrite IH; reflexivity|].
  destruct (zlen (zdrop (size - zlen buf) p) <=? size); cbn [d_depth]; rewrite IH; reflexivity.
Qed.

Lemma d_write_buf size buf under p : exists buf' under',
  d_write (DBuf size buf under) p = DBuf size buf' under'.
Proof.
  cbn [d_write]. destruct (zlen p <=? size - zlen buf); [eauto|].
  destruct (zlen buf =? 0); [eauto|].
  destruct (zlen (zdrop (size - zlen buf) p) <=? size); eauto.
Qed.

(* closing delivers everything *)
Lemma delivered_close_f : forall n d, d_depth d = n -> delivered (d_close_f n d) = d_total d.
Proof.
  induction n as [|n IH]; intros d Hd; destruct d as [got | size buf under]; try discriminate; try reflexivity.
  cbn [d_close_f delivered d_total]. cbn [d_depth] in Hd. injection Hd as Hd.
  rewrite IH by (rewrite d_depth_write; exact Hd). apply d_total_write.
Qed.

Theorem delivered_close d : delivered (d_close d) = d_total d.
Proof. apply delivered_close_f. reflexivity. Qed.

(* the destinations for which csv.NewWriter does what writeCSV's comment expects: not a
   *bufio.Writer (then writeCSV wraps and flushes itself), or one of at least 4096 bytes *)
Definition out_ok (o : out) : Prop :=
  o_bufio o = true -> exists size buf under, o_d o = DBuf size buf under /\ csv_buf_size <= size.

Lemma write_csv_to_ok sep crlf o fs : out_ok o ->
  exists o', write_csv_to sep crlf o fs = Ok o' /\ out_ok o' /\
    d_total (o_d o') = d_total (o_d o) ++ write_record sep crlf fs.
Proof.
  intros Hok. unfold write_csv_to, out_ok in *. destruct o as [b d]. cbn [o_bufio o_d] in *. destruct b.
  - destruct (Hok eq_refl) as (size & buf & under & -> & Hs).
    replace (csv_buf_size <=? size) with true by lia.
    destruct (d_write_buf size buf under (write_record sep crlf fs)) as (buf' & under' & E).
    eexists. split; [reflexivity|]. split.
    + unfold out_ok. intros _. cbn [o_d]. rewrite E. eauto.
    + cbn [o_d]. apply d_total_write.
  - destruct (d_write_buf csv_buf_size [] d (write_record sep crlf fs)) as (buf' & under' & E).
    pose proof (d_total_write (DBuf csv_buf_size [] d) (write_record sep crlf fs)) as Ht.
    rewrite E in *. cbn [d_flush]. eexists. split; [reflexivity|]. split; [unfold out_ok; intros X; discriminate|].
    cbn [o_d d_total] in *. rewrite d_total_write, Ht, app_nil_r. reflexivity.
Qed.

Lemma write_rows_to_ok sep crlf : forall rows o, out_ok o ->
  exists o', write_rows_to sep crlf o rows = Ok o' /\ out_ok o' /\
    d_total (o_d o') = d_total (o_d o) ++ write_csv sep crlf rows.
Proof.
  induction rows as [|fs rows IH]; intros o Hok.
  - exists o. cbn. rewrite app_nil_r. auto.
  - destruct (write_csv_to_ok sep crlf o fs Hok) as (o1 & E1 & Hok1 & T1).
    destruct (IH o1 Hok1) as (o2 & E2 & Hok2 & T2).
    exists o2. cbn [write_rows_to]. rewrite E1. cbn [rbind]. split; [exact E2|]. split; [exact Hok2|].
    rewrite T2, T1. cbn [write_csv flat_map]. rewrite <- app_assoc. reflexivity.
Qed.

(* after the run, the destination holds what it held (or had buffered) before, followed by the
   text of every row printed to it, complete and in order *)
Theorem emit_rows_complete sep crlf o rows : out_ok o ->
  emit_rows sep crlf o rows = Ok (d_total (o_d o) ++ write_csv sep crlf rows).
Proof.
  intros Hok. unfold emit_rows. destruct (write_rows_to_ok sep crlf rows o Hok) as (o' & E & _ & T).
  rewrite E. cbn [rbind]. rewrite delivered_close, T. reflexivity.
Qed.
