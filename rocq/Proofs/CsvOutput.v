(* C08: every row print hands to interp.writeCSV reaches its destination completely and in
   order: for every kind of destination (unbuffered, a *bufio.Writer of any size, a stream
   that embeds a bufio.Writer, any stack of them) the bytes at the sink after the end
   of the run are what was there before followed by the row texts of the rows printed. *)
From Verif Require Import Lib.Base Lib.Utf8 Model.Csv Proofs.CsvBase.

Lemma ztake_zdrop {A} n (l : list A) : ztake n l ++ zdrop n l = l.
Proof. unfold ztake, zdrop. apply firstn_skipn. Qed.

(* nothing written is lost or reordered by a stack of bufio.Writers *)
Lemma d_total_write : forall d p, d_total (d_write d p) = d_total d ++ p.
Proof.
  induction d as [got | size buf under IH]; intros p; cbn [d_write d_total]; [reflexivity|].
  destruct (zlen p <=? size - zlen buf).
  { cbn [d_total]. rewrite app_assoc. reflexivity. }
  destruct (Z.eqb_spec (zlen buf) 0) as [E|E].
  { apply zlen_0_nil in E. subst buf. cbn [d_total]. rewrite IH, !app_nil_r. reflexivity. }
  destruct (zlen (zdrop (size - zlen buf) p) <=? size); cbn [d_total]; rewrite IH.
  - rewrite <- !app_assoc. rewrite ztake_zdrop. reflexivity.
  - rewrite app_nil_r, <- app_assoc. reflexivity.
Qed.

Lemma d_depth_write : forall d p, d_depth (d_write d p) = d_depth d.
Proof.
  induction d as [got | size buf under IH]; intros p; cbn [d_write d_depth]; [reflexivity|].
  destruct (zlen p <=? size - zlen buf); [reflexivity|].
  destruct (zlen buf =? 0); [cbn [d_depth]; rewrite IH; reflexivity|].
  destruct (zlen (zdrop (size - zlen buf) p) <=? size); cbn [d_depth]; rewrite IH; reflexivity.
Qed.

Lemma d_write_buf size buf under p : exists buf' under',
  d_write (DBuf size buf under) p = DBuf size buf' under'.
Proof.
  cbn [d_write]. destruct (zlen p <=? size - zlen buf); [eauto|].
  destruct (zlen buf =? 0); [eauto|].
  destruct (zlen (zdrop (size - zlen buf) p) <=? size); eauto.
Qed.

(* closing delivers everything *)
Lemma delivered_close_f : forall n d, d_depth d = n -> delivered (d_close_f n d) = d_total d.
Proof.
  induction n as [|n IH]; intros d Hd; destruct d as [got | size buf under]; try discriminate; try reflexivity.
  cbn [d_close_f delivered d_total]. cbn [d_depth] in Hd. injection Hd as Hd.
  rewrite IH by (rewrite d_depth_write; exact Hd). apply d_total_write.
Qed.

Theorem delivered_close d : delivered (d_close d) = d_total d.
Proof. apply delivered_close_f. reflexivity. Qed.

Lemma wrap_write_total d row : d_total (wrap_write d row) = d_total d ++ row.
Proof.
  unfold wrap_write.
  destruct (d_write_buf csv_buf_size [] d row) as (buf' & under' & E).
  pose proof (d_total_write (DBuf csv_buf_size [] d) row) as Ht. rewrite E in *.
  cbn [d_flush d_total] in *. rewrite d_total_write, Ht, app_nil_r. reflexivity.
Qed.

(* one row: whatever the destination, the row is appended to what was written before *)
Lemma write_csv_to_total sep crlf o fs :
  d_total (o_d (write_csv_to sep crlf o fs)) = d_total (o_d o) ++ write_record sep crlf fs.
Proof.
  unfold write_csv_to. destruct (direct o); cbn [o_d]; [apply d_total_write | apply wrap_write_total].
Qed.

Lemma write_rows_to_total sep crlf : forall rows o,
  d_total (o_d (write_rows_to sep crlf o rows)) = d_total (o_d o) ++ write_csv sep crlf rows.
Proof.
  unfold write_rows_to. induction rows as [|fs rows IH]; intros o; cbn [fold_left write_csv flat_map].
  - rewrite app_nil_r. reflexivity.
  - rewrite IH, write_csv_to_total, <- app_assoc. reflexivity.
Qed.

(* after the run, EVERY destination holds what it held (or had buffered) before, followed by
   the text of every row printed to it, complete and in order *)
Theorem emit_rows_complete sep crlf o rows :
  emit_rows sep crlf o rows = d_total (o_d o) ++ write_csv sep crlf rows.
Proof. unfold emit_rows. rewrite delivered_close. apply write_rows_to_total. Qed.
