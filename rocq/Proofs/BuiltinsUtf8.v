(* C10, character mode (-c): substr / index / length / match count runes, never cut a valid
   UTF-8 sequence, and agree with byte mode on ASCII text.
   First part: facts about Lib/Utf8 ([runes] = the chunks Go's `for range s` visits). *)
From Verif Require Import Lib.Base Lib.Dyadic Lib.Utf8 Lib.Regex Model.Builtins Model.BuiltinsRegex Proofs.BuiltinsBytes.

(* ---- small list facts over Z-indexed take/drop --------------------------- *)
Lemma ztake_0 {A} (l : list A) : ztake 0 l = [].
Proof. reflexivity. Qed.

Lemma ztake_cons {A} n (x : A) l : 0 < n -> ztake n (x :: l) = x :: ztake (n - 1) l.
Proof.
  intros H. unfold ztake. replace (Z.to_nat n) with (S (Z.to_nat (n - 1))) by lia. reflexivity.
Qed.

Lemma zdrop_cons {A} n (x : A) l : 0 < n -> zdrop n (x :: l) = zdrop (n - 1) l.
Proof.
  intros H. unfold zdrop. replace (Z.to_nat n) with (S (Z.to_nat (n - 1))) by lia. reflexivity.
Qed.

Lemma ztake_zdrop {A} n (l : list A) : ztake n l ++ zdrop n l = l.
Proof. unfold ztake, zdrop. apply firstn_skipn. Qed.

Lemma zlen_concat_app (a b : list bytes) : zlen (concat (a ++ b)) = zlen (concat a) + zlen (concat b).
Proof. rewrite concat_app. apply zlen_app. Qed.

Lemma ztake_app_exact {A} (a b : list A) : ztake (zlen a) (a ++ b) = a.
Proof.
  unfold ztake, zlen. rewrite Nat2Z.id. rewrite firstn_app, Nat.sub_diag, firstn_all. cbn. apply app_nil_r.
Qed.

Lemma zdrop_app_exact {A} (a b : list A) : zdrop (zlen a) (a ++ b) = b.
Proof.
  unfold zdrop, zlen. rewrite Nat2Z.id. rewrite skipn_app, Nat.sub_diag, skipn_all. reflexivity.
Qed.

(* ---- decode_rune --------------------------------------------------------- *)
(* (as in Proofs/PrintfParse.v) *)
Lemma decode_rune_width s : s <> [] -> 1 <= snd (decode_rune s) <= zlen s.
Proof.
  destruct s as [|b0 t]; [congruence|]. intros _. rewrite zlen_cons. pose proof (zlen_nonneg t) as Ht.
  cbn [decode_rune].
  destruct (b0 <? 128); [cbn [snd]; lia|].
  destruct (in_rng 194 223 b0).
  { destruct t as [|b1 t1]; [cbn [snd]; lia|]. rewrite zlen_cons in *. pose proof (zlen_nonneg t1).
    destruct (is_cont b1); cbn [snd]; lia. }
  destruct (in_rng 224 239 b0).
  { destruct t as [|b1 [|b2 t2]]; try (cbn [snd]; lia). rewrite !zlen_cons in *. pose proof (zlen_nonneg t2).
    destruct (in_rng _ _ b1 && is_cont b2); cbn [snd]; lia. }
  destruct (in_rng 240 244 b0).
  { destruct t as [|b1 [|b2 [|b3 t3]]]; try (cbn [snd]; lia). rewrite !zlen_cons in *. pose proof (zlen_nonneg t3).
    destruct (in_rng _ _ b1 && is_cont b2 && is_cont b3); cbn [snd]; lia. }
  cbn [snd]. lia.
Qed.

(* decoding looks at no byte beyond the width it reports: a prefix that contains the whole
   first chunk decodes the same way *)
Lemma decode_rune_prefix p q :
  p <> [] -> snd (decode_rune (p ++ q)) <= zlen p -> decode_rune (p ++ q) = decode_rune p.
Proof.
  destruct p as [|b0 p']; [congruence|]. intros _.
  cbn [app decode_rune].
  destruct (b0 <? 128); [reflexivity|].
  destruct (in_rng 194 223 b0).
  { destruct p' as [|b1 p1]; cbn [app]; [|reflexivity].
    destruct q as [|c1 q1]; [reflexivity|].
    destruct (is_cont c1); cbn [snd]; [|reflexivity].
    rewrite zlen_cons, zlen_nil. lia. }
  destruct (in_rng 224 239 b0).
  { destruct p' as [|b1 [|b2 p2]]; cbn [app]; [| |reflexivity].
    - destruct q as [|c1 [|c2 q2]]; try reflexivity.
      destruct (in_rng _ _ c1 && is_cont c2); cbn [snd]; [|reflexivity].
      rewrite zlen_cons, zlen_nil. lia.
    - destruct q as [|c2 q2]; try reflexivity.
      destruct (in_rng _ _ b1 && is_cont c2); cbn [snd]; [|reflexivity].
      rewrite !zlen_cons, zlen_nil. lia. }
  destruct (in_rng 240 244 b0).
  { destruct p' as [|b1 [|b2 [|b3 p3]]]; cbn [app]; [| | |reflexivity].
    - destruct q as [|c1 [|c2 [|c3 q3]]]; try reflexivity.
      destruct (in_rng _ _ c1 && is_cont c2 && is_cont c3); cbn [snd]; [|reflexivity].
      rewrite zlen_cons, zlen_nil. lia.
    - destruct q as [|c2 [|c3 q3]]; try reflexivity.
      destruct (in_rng _ _ b1 && is_cont c2 && is_cont c3); cbn [snd]; [|reflexivity].
      rewrite !zlen_cons, zlen_nil. lia.
    - destruct q as [|c3 q3]; try reflexivity.
      destruct (in_rng _ _ b1 && is_cont b2 && is_cont c3); cbn [snd]; [|reflexivity].
      rewrite !zlen_cons, zlen_nil. lia. }
  reflexivity.
Qed.

(* ---- runes ---------------------------------------------------------------- *)
Lemma length_zdrop_lt (s : bytes) w : s <> [] -> 1 <= w -> (length (zdrop w s) < length s)%nat.
Proof.
  intros Hne Hw. unfold zdrop. rewrite skipn_length.
  destruct s; [congruence|]. cbn [length]. lia.
Qed.

Lemma runes_fuel_irrel : forall f1 f2 s, (length s <= f1)%nat -> (length s <= f2)%nat ->
  runes_fuel f1 s = runes_fuel f2 s.
Proof.
  induction f1 as [|f1 IH]; intros f2 s H1 H2.
  - destruct s; [|cbn [length] in H1; lia]. destruct f2; reflexivity.
  - destruct f2 as [|f2].
    + destruct s; [reflexivity|cbn [length] in H2; lia].
    + cbn [runes_fuel]. destruct s as [|b t] eqn:Es; [reflexivity|]. rewrite <- Es in *.
      assert (Hne : s <> []) by (rewrite Es; discriminate).
      pose proof (decode_rune_width s Hne) as Hw.
      pose proof (length_zdrop_lt s (snd (decode_rune s)) Hne ltac:(lia)).
      f_equal. apply IH; lia.
Qed.

Lemma runes_nil : runes [] = [].
Proof. reflexivity. Qed.

Lemma runes_cons s : s <> [] ->
  runes s = ztake (snd (decode_rune s)) s :: runes (zdrop (snd (decode_rune s)) s).
Proof.
  intros Hne. destruct s as [|b t]; [congruence|].
  pose proof (decode_rune_width (b :: t) Hne) as Hw.
  pose proof (length_zdrop_lt (b :: t) (snd (decode_rune (b :: t))) Hne ltac:(lia)) as Hl.
  unfold runes at 1. cbn [length runes_fuel]. f_equal.
  unfold runes. apply runes_fuel_irrel; [|lia]. cbn [length] in Hl. lia.
Qed.

(* induction over the chunks of a string *)
Lemma runes_ind (P : bytes -> Prop) :
  P [] ->
  (forall s, s <> [] -> P (zdrop (snd (decode_rune s)) s) -> P s) ->
  forall s, P s.
Proof.
  intros H0 Hstep s.
  assert (forall n s, (length s <= n)%nat -> P s) as Hall.
  { induction n as [|n IH]; intros s0 Hl.
    - destruct s0; [exact H0|cbn [length] in Hl; lia].
    - destruct s0 as [|b t] eqn:Es; [exact H0|]. rewrite <- Es in *.
      assert (Hne : s0 <> []) by (rewrite Es; discriminate).
      apply Hstep; [exact Hne|]. apply IH.
      pose proof (decode_rune_width s0 Hne).
      pose proof (length_zdrop_lt s0 (snd (decode_rune s0)) Hne ltac:(lia)). lia. }
  apply (Hall (length s)). lia.
Qed.

Lemma runes_concat s : concat (runes s) = s.
Proof.
  induction s as [|s Hne IH] using runes_ind; [reflexivity|].
  rewrite (runes_cons s Hne). cbn [concat]. rewrite IH. apply ztake_zdrop.
Qed.

Lemma runes_nonempty_chunks s : Forall (fun c => c <> []) (runes s).
Proof.
  induction s as [|s Hne IH] using runes_ind; [constructor|].
  rewrite (runes_cons s Hne). constructor; [|exact IH].
  pose proof (decode_rune_width s Hne) as Hw. intros Hc.
  assert (zlen (ztake (snd (decode_rune s)) s) = snd (decode_rune s)) as Hz by (apply zlen_ztake; lia).
  rewrite Hc, zlen_nil in Hz. lia.
Qed.

(* the chunks after the first k are the chunks of the rest of the string *)
Lemma runes_skipn k : forall s, runes (concat (skipn k (runes s))) = skipn k (runes s).
Proof.
  induction k as [|k IH]; intros s.
  - cbn [skipn]. rewrite runes_concat. reflexivity.
  - destruct s as [|b t] eqn:Es; [reflexivity|]. rewrite <- Es.
    assert (Hne : s <> []) by (rewrite Es; discriminate).
    rewrite (runes_cons s Hne). cbn [skipn]. apply IH.
Qed.

(* the first k chunks are the chunks of the prefix they form *)
Lemma runes_firstn k : forall s, runes (concat (firstn k (runes s))) = firstn k (runes s).
Proof.
  induction k as [|k IH]; intros s; [reflexivity|].
  destruct s as [|b t] eqn:Es; [reflexivity|]. rewrite <- Es.
  assert (Hne : s <> []) by (rewrite Es; discriminate).
  rewrite (runes_cons s Hne). cbn [firstn concat].
  set (w := snd (decode_rune s)). set (c := ztake w s). set (s' := zdrop w s).
  set (p := concat (firstn k (runes s'))).
  pose proof (decode_rune_width s Hne) as Hw. fold w in Hw.
  assert (Hzc : zlen c = w) by (apply zlen_ztake; lia).
  assert (Hcne : c <> []) by (intros Hc; rewrite Hc, zlen_nil in Hzc; lia).
  (* s = c ++ p ++ q *)
  assert (Hs : s = (c ++ p) ++ concat (skipn k (runes s'))).
  { rewrite <- app_assoc. unfold p. rewrite <- concat_app, firstn_skipn, runes_concat.
    unfold c, s'. symmetry. apply ztake_zdrop. }
  assert (Hdec : decode_rune (c ++ p) = decode_rune s).
  { transitivity (decode_rune ((c ++ p) ++ concat (skipn k (runes s')))); [|rewrite <- Hs; reflexivity].
    symmetry. apply decode_rune_prefix.
    - destruct c; [congruence|discriminate].
    - rewrite <- Hs. fold w. rewrite zlen_app. pose proof (zlen_nonneg p). lia. }
  assert (Hne2 : c ++ p <> []) by (destruct c; [congruence|discriminate]).
  rewrite (runes_cons (c ++ p) Hne2). rewrite Hdec. fold w. rewrite <- Hzc.
  rewrite ztake_app_exact, zdrop_app_exact. f_equal. unfold p. apply IH.
Qed.

(* ---- chunk lists: offsets, sub-lists -------------------------------------- *)
Lemma concat_ztake_zdrop (cs : list bytes) k : concat cs = concat (ztake k cs) ++ concat (zdrop k cs).
Proof. rewrite <- concat_app, ztake_zdrop. reflexivity. Qed.

Lemma zdrop_concat_chunks (cs : list bytes) k :
  zdrop (zlen (concat (ztake k cs))) (concat cs) = concat (zdrop k cs).
Proof. rewrite (concat_ztake_zdrop cs k) at 1. apply zdrop_app_exact. Qed.

Lemma ztake_concat_chunks (cs : list bytes) k :
  ztake (zlen (concat (ztake k cs))) (concat cs) = concat (ztake k cs).
Proof. rewrite (concat_ztake_zdrop cs k) at 1. apply ztake_app_exact. Qed.

Lemma zlen_concat_ztake_le (cs : list bytes) k : 0 <= zlen (concat (ztake k cs)) <= zlen (concat cs).
Proof.
  rewrite (concat_ztake_zdrop cs k) at 1. rewrite zlen_app.
  pose proof (zlen_nonneg (concat (ztake k cs))). pose proof (zlen_nonneg (concat (zdrop k cs))). lia.
Qed.

Lemma zlen_chunks_le (cs : list bytes) : Forall (fun c => c <> []) cs -> zlen cs <= zlen (concat cs).
Proof.
  induction 1 as [|c cs Hc _ IH]; [rewrite !zlen_nil; cbn; lia|].
  cbn [concat]. rewrite zlen_app, zlen_cons.
  destruct c; [congruence|]. rewrite zlen_cons. pose proof (zlen_nonneg c). lia.
Qed.

Lemma rune_count_le s : 0 <= rune_count s <= zlen s.
Proof.
  unfold rune_count. split; [apply zlen_nonneg|].
  rewrite <- (runes_concat s) at 2. apply zlen_chunks_le, runes_nonempty_chunks.
Qed.

Lemma runes_zdrop_chunks s k : runes (concat (zdrop k (runes s))) = zdrop k (runes s).
Proof. apply runes_skipn. Qed.

Lemma runes_ztake_zdrop_chunks s n k :
  runes (concat (ztake n (zdrop k (runes s)))) = ztake n (zdrop k (runes s)).
Proof.
  rewrite <- (runes_zdrop_chunks s k) at 2. rewrite <- (runes_zdrop_chunks s k) at 1.
  apply runes_firstn.
Qed.

(* ---- the counting loop of substrChars / substrLengthChars ------------------ *)
(* `for start = range s { chars++; if chars > bound { break } }` over chunks cs laid out from
   offset off: it stops at chunk number j = max 1 (bound - c0 + 1) (1-based) if there is one *)
Lemma count_loop_spec : forall cs off c0 st bound j,
  j = Z.max 1 (bound - c0 + 1) ->
  (j <= zlen cs ->
     count_loop (chunk_starts cs off) c0 st bound = (c0 + j, off + zlen (concat (ztake (j - 1) cs)))) /\
  (zlen cs < j ->
     fst (count_loop (chunk_starts cs off) c0 st bound) = c0 + zlen cs /\
     (cs = [] -> snd (count_loop (chunk_starts cs off) c0 st bound) = st)).
Proof.
  induction cs as [|c cs IH]; intros off c0 st bound j Hj.
  - cbn [chunk_starts count_loop fst snd]. rewrite zlen_nil. split; [lia|]. intros _. split; [lia|reflexivity].
  - cbn [chunk_starts count_loop]. rewrite zlen_cons.
    destruct (c0 + 1 >? bound) eqn:E; [apply Z.gtb_lt in E|rewrite Z.gtb_ltb in E; apply Z.ltb_ge in E].
    + assert (j = 1) as -> by lia. split.
      * intros _. rewrite ztake_0. cbn [concat]. rewrite zlen_nil. f_equal; lia.
      * pose proof (zlen_nonneg cs). lia.
    + destruct (IH (off + zlen c) (c0 + 1) off bound (j - 1) ltac:(lia)) as [IH1 IH2]. split.
      * intros Hle. rewrite IH1 by lia. rewrite (ztake_cons (j - 1)) by lia. cbn [concat].
        rewrite zlen_app. f_equal; lia.
      * intros Hlt. destruct (IH2 ltac:(lia)) as [Hf _]. split; [rewrite Hf; lia|discriminate].
Qed.

(* the start offset both functions compute *)
Definition chars_start (s : bytes) (pos : Z) : Z :=
  let '(chars, start) := count_loop (range_starts s) 1 0 pos in
  if pos >=? chars then zlen s else start.

Lemma chars_start_spec s pos :
  0 <= chars_start s pos <= zlen s /\
  zdrop (chars_start s pos) s = concat (zdrop (Z.max 1 pos - 1) (runes s)).
Proof.
  unfold chars_start, range_starts.
  destruct (count_loop_spec (runes s) 0 1 0 pos (Z.max 1 pos) ltac:(lia)) as [H1 H2].
  pose proof (zlen_nonneg s) as Hl.
  destruct (Z.le_gt_cases (Z.max 1 pos) (zlen (runes s))) as [Hle|Hgt].
  - rewrite (H1 Hle).
    destruct (pos >=? 1 + Z.max 1 pos) eqn:E; [rewrite Z.geb_leb in E; apply Z.leb_le in E; lia|].
    pose proof (zlen_concat_ztake_le (runes s) (Z.max 1 pos - 1)) as Hb. rewrite runes_concat in Hb.
    split; [lia|]. rewrite Z.add_0_l.
    rewrite <- (runes_concat s) at 2. apply zdrop_concat_chunks.
  - destruct (H2 ltac:(lia)) as [Hf Hs]. destruct (count_loop (chunk_starts (runes s) 0) 1 0 pos) as [chars start].
    cbn [fst snd] in *. subst chars.
    destruct (pos >=? 1 + zlen (runes s)) eqn:E; [rewrite Z.geb_leb in E; apply Z.leb_le in E|rewrite Z.geb_leb in E; apply Z.leb_gt in E].
    + split; [lia|]. rewrite zdrop_all by lia. rewrite zdrop_all by lia. reflexivity.
    + pose proof (zlen_nonneg (runes s)).
      assert (runes s = []) as Hr by (destruct (runes s); [reflexivity|rewrite zlen_cons in *; pose proof (zlen_nonneg l); lia]).
      rewrite (Hs Hr). assert (s = []) as -> by (rewrite <- (runes_concat s), Hr; reflexivity).
      split; [unfold zlen; cbn [length]; lia|]. rewrite runes_nil. unfold zdrop. rewrite !skipn_nil. reflexivity.
Qed.

(* substr(s, m) in character mode, on the converted position *)
Theorem substr_chars_pos_spec s pos :
  substr_chars_pos s pos = Ok (concat (zdrop (Z.max 1 pos - 1) (runes s))).
Proof.
  assert (substr_chars_pos s pos = slice s (chars_start s pos) (zlen s)) as ->.
  { unfold substr_chars_pos, chars_start. destruct (count_loop (range_starts s) 1 0 pos). reflexivity. }
  destruct (chars_start_spec s pos) as [Hb Hd].
  rewrite slice_to_end by lia. rewrite Hd. reflexivity.
Qed.

(* substr(s, m, n) in character mode, on the converted position and length *)
Theorem substr_len_chars_pl_spec s pos len :
  substr_len_chars_pl s pos len =
  Ok (concat (ztake (Z.max 0 len) (zdrop (Z.max 1 pos - 1) (runes s)))).
Proof.
  set (cs2 := zdrop (Z.max 1 pos - 1) (runes s)).
  destruct (chars_start_spec s pos) as [Hb Hd]. fold cs2 in Hd.
  set (start := chars_start s pos) in *.
  assert (substr_len_chars_pl s pos len =
          (do rest <- slice s start (zlen s);
           let '(chars2, e) := count_loop (range_starts rest) 0 0 len in
           let e := if len >=? chars2 then zlen s else e + start in
           slice s start e)) as ->.
  { unfold substr_len_chars_pl, start, chars_start. destruct (count_loop (range_starts s) 1 0 pos). reflexivity. }
  rewrite slice_to_end by lia. cbn [rbind]. rewrite Hd.
  assert (Hr : runes (concat cs2) = cs2) by apply runes_zdrop_chunks.
  unfold range_starts. rewrite Hr.
  assert (Hrest : zlen (concat cs2) = zlen s - start) by (rewrite <- Hd; apply zlen_zdrop; lia).
  destruct (count_loop_spec cs2 0 0 0 len (Z.max 1 (len + 1)) ltac:(lia)) as [H1 H2].
  destruct (Z.le_gt_cases (Z.max 1 (len + 1)) (zlen cs2)) as [Hle|Hgt].
  - rewrite (H1 Hle).
    destruct (len >=? 0 + Z.max 1 (len + 1)) eqn:E; [rewrite Z.geb_leb in E; apply Z.leb_le in E; lia|].
    replace (Z.max 1 (len + 1) - 1) with (Z.max 0 len) by lia.
    pose proof (zlen_concat_ztake_le cs2 (Z.max 0 len)) as Hb2.
    set (e := zlen (concat (ztake (Z.max 0 len) cs2))) in *.
    rewrite slice_ok by lia. replace (0 + e + start - start) with e by lia.
    rewrite Hd. unfold e. rewrite ztake_concat_chunks. reflexivity.
  - destruct (H2 ltac:(lia)) as [Hf Hs]. destruct (count_loop (chunk_starts cs2 0) 0 0 len) as [chars2 e].
    cbn [fst snd] in *. subst chars2.
    destruct (len >=? 0 + zlen cs2) eqn:E; [rewrite Z.geb_leb in E; apply Z.leb_le in E|rewrite Z.geb_leb in E; apply Z.leb_gt in E].
    + rewrite slice_to_end by lia. rewrite Hd. rewrite ztake_all by lia. reflexivity.
    + pose proof (zlen_nonneg cs2).
      assert (cs2 = []) as Hc by (destruct cs2; [reflexivity|rewrite zlen_cons in *; pose proof (zlen_nonneg cs2); lia]).
      rewrite (Hs Hc). rewrite slice_ok by lia. replace (0 + start - start) with 0 by lia.
      rewrite Hc. unfold ztake. rewrite firstn_nil. reflexivity.
Qed.

(* ---- character mode never cuts a valid UTF-8 sequence ---------------------- *)
Lemma forallb_firstn {A} (f : A -> bool) n l : forallb f l = true -> forallb f (firstn n l) = true.
Proof.
  intros H. rewrite <- (firstn_skipn n l), forallb_app in H. apply andb_true_iff in H. tauto.
Qed.

Lemma forallb_skipn {A} (f : A -> bool) n l : forallb f l = true -> forallb f (skipn n l) = true.
Proof.
  intros H. rewrite <- (firstn_skipn n l), forallb_app in H. apply andb_true_iff in H. tauto.
Qed.

Lemma valid_utf8_sub s n k :
  valid_utf8 s = true -> valid_utf8 (concat (ztake n (zdrop k (runes s)))) = true.
Proof.
  unfold valid_utf8. intros H. rewrite runes_ztake_zdrop_chunks.
  apply forallb_firstn, forallb_skipn, H.
Qed.

Lemma valid_utf8_suffix s k : valid_utf8 s = true -> valid_utf8 (concat (zdrop k (runes s))) = true.
Proof.
  unfold valid_utf8. intros H. rewrite runes_zdrop_chunks. apply forallb_skipn, H.
Qed.

Theorem substr_chars_safe s x :
  valid_utf8 s = true -> exists r, substr_chars s x = Ok r /\ valid_utf8 r = true.
Proof.
  intros H. unfold substr_chars. rewrite substr_chars_pos_spec. eexists; split; [reflexivity|].
  apply valid_utf8_suffix, H.
Qed.

Theorem substr_len_chars_safe s x y :
  valid_utf8 s = true -> exists r, substr_len_chars s x y = Ok r /\ valid_utf8 r = true.
Proof.
  intros H. unfold substr_len_chars. rewrite substr_len_chars_pl_spec. eexists; split; [reflexivity|].
  apply valid_utf8_sub, H.
Qed.

(* ---- the double arguments: same clamping as byte mode, over the list of runes -- *)
Lemma drop_float_to_int {A} (l : list A) x t :
  zlen l < maxint -> etrunc x = Some t -> zdrop (Z.max 1 (float_to_int x) - 1) l = spec_drop l t.
Proof.
  unfold maxint. intros Hl Ht. pose proof two63_pos as H63. pose proof (zlen_nonneg l).
  destruct x as [|[|]|m e]; cbn [etrunc] in Ht; try discriminate; injection Ht as <-; cbn [spec_drop].
  - cbn [float_to_int]. unfold minint. rewrite Z.max_l by lia. reflexivity.
  - cbn [float_to_int]. unfold maxint. apply zdrop_all. lia.
  - rewrite float_to_int_fin. unfold maxint, minint. cbn zeta.
    destruct (Z.le_gt_cases two63 (ftrunc m e)) as [Hb|Hb].
    + rewrite !zdrop_all by lia. reflexivity.
    + f_equal. lia.
Qed.

Lemma take_float_to_int {A} (l : list A) y t :
  zlen l < maxint -> etrunc y = Some t -> ztake (Z.max 0 (float_to_int y)) l = spec_take l t.
Proof.
  unfold maxint. intros Hl Ht. pose proof two63_pos as H63. pose proof (zlen_nonneg l).
  destruct y as [|[|]|m e]; cbn [etrunc] in Ht; try discriminate; injection Ht as <-; cbn [spec_take].
  - cbn [float_to_int]. unfold minint. rewrite Z.max_l by lia. reflexivity.
  - cbn [float_to_int]. unfold maxint. apply ztake_all. lia.
  - rewrite float_to_int_fin. unfold maxint, minint. cbn zeta.
    destruct (Z.le_gt_cases two63 (ftrunc m e)) as [Hb|Hb].
    + rewrite !ztake_all by lia. reflexivity.
    + f_equal. lia.
Qed.

Lemma zlen_runes_lt s : go_len s -> zlen (runes s) < maxint.
Proof. unfold go_len. pose proof (rune_count_le s). unfold rune_count in *. lia. Qed.

Lemma zlen_zdrop_le {A} n (l : list A) : zlen (zdrop n l) <= zlen l.
Proof. unfold zlen, zdrop. rewrite skipn_length. lia. Qed.

(* positions and lengths count runes: the runes from max(1,trunc m) on, the next trunc n *)
Theorem substr_chars_spec s x tx :
  go_len s -> etrunc x = Some tx -> substr_chars s x = Ok (concat (spec_drop (runes s) tx)).
Proof.
  intros Hl Hx. unfold substr_chars. rewrite substr_chars_pos_spec.
  rewrite (drop_float_to_int (runes s) x tx (zlen_runes_lt s Hl) Hx). reflexivity.
Qed.

Theorem substr_len_chars_spec s x y tx ty :
  go_len s -> etrunc x = Some tx -> etrunc y = Some ty ->
  substr_len_chars s x y = Ok (concat (spec_take (spec_drop (runes s) tx) ty)).
Proof.
  intros Hl Hx Hy. unfold substr_len_chars. rewrite substr_len_chars_pl_spec.
  rewrite (drop_float_to_int (runes s) x tx (zlen_runes_lt s Hl) Hx).
  rewrite (take_float_to_int (spec_drop (runes s) tx) y ty); [reflexivity| |exact Hy].
  pose proof (zlen_runes_lt s Hl). 
  destruct tx; cbn [spec_drop]; [lia|pose proof (zlen_zdrop_le (Z.max 1 z - 1) (runes s)); lia|reflexivity].
Qed.

(* ---- byte mode, stated on the converted integers (all doubles, NaN included) --- *)
Lemma substr_bytes_Z s x : substr_bytes s x = Ok (zdrop (Z.max 1 (float_to_int x) - 1) s).
Proof.
  pose proof (zlen_nonneg s) as Hl. unfold substr_bytes.
  pose proof (substr_bytes_pos s (float_to_int x)) as Hp. cbn zeta in Hp.
  set (pos := if (if float_to_int x >? zlen s then zlen s + 1 else float_to_int x) <? 1 then 1
              else (if float_to_int x >? zlen s then zlen s + 1 else float_to_int x)) in *.
  destruct Hp as [Hr Hd].
  replace (pos - 1 + (zlen s - pos + 1)) with (zlen s) by lia.
  rewrite slice_to_end by lia. rewrite Hd. reflexivity.
Qed.

Lemma substr_len_bytes_Z s x y :
  substr_len_bytes s x y = Ok (ztake (Z.max 0 (float_to_int y)) (zdrop (Z.max 1 (float_to_int x) - 1) s)).
Proof.
  pose proof (zlen_nonneg s) as Hl. unfold substr_len_bytes.
  pose proof (substr_bytes_pos s (float_to_int x)) as Hp. cbn zeta in Hp.
  set (pos := if (if float_to_int x >? zlen s then zlen s + 1 else float_to_int x) <? 1 then 1
              else (if float_to_int x >? zlen s then zlen s + 1 else float_to_int x)) in *.
  destruct Hp as [Hr Hd].
  set (ly := float_to_int y).
  set (l1 := if ly <? 0 then 0 else ly).
  set (l2 := if l1 >? zlen s - pos + 1 then zlen s - pos + 1 else l1).
  assert (Hl1 : l1 = Z.max 0 ly).
  { unfold l1. destruct (ly <? 0) eqn:E; [apply Z.ltb_lt in E|apply Z.ltb_ge in E]; lia. }
  assert (Hl2 : l2 = Z.min l1 (zlen s - pos + 1)).
  { unfold l2. destruct (l1 >? zlen s - pos + 1) eqn:E;
      [apply Z.gtb_lt in E|rewrite Z.gtb_ltb in E; apply Z.ltb_ge in E]; lia. }
  rewrite slice_ok by lia.
  replace (pos - 1 + l2 - (pos - 1)) with l2 by lia.
  assert (Hzd : zlen (zdrop (pos - 1) s) = zlen s - pos + 1) by (rewrite zlen_zdrop by lia; lia).
  rewrite Hl2, <- Hzd, ztake_min, Hl1, Hd. reflexivity.
Qed.

(* ---- on ASCII text byte mode and character mode agree ----------------------- *)
Lemma runes_ascii s : is_ascii s = true -> runes s = map (fun b => [b]) s.
Proof.
  induction s as [|b t IH]; intros Ha; [reflexivity|].
  cbn [is_ascii forallb] in Ha. apply andb_true_iff in Ha as [Hb Ht].
  rewrite runes_cons by discriminate. cbn [decode_rune]. rewrite Hb. cbn [snd map].
  change (ztake 1 (b :: t)) with [b]. change (zdrop 1 (b :: t)) with t.
  f_equal. apply IH, Ht.
Qed.

Lemma concat_map_sing (l : bytes) : concat (map (fun b => [b]) l) = l.
Proof. induction l as [|b t IH]; cbn [map concat app]; [reflexivity|rewrite IH; reflexivity]. Qed.

Lemma rune_count_ascii s : is_ascii s = true -> rune_count s = zlen s.
Proof. intros H. unfold rune_count. rewrite (runes_ascii s H). unfold zlen. rewrite map_length. reflexivity. Qed.

Theorem ascii_substr s x : is_ascii s = true -> substr_chars s x = substr_bytes s x.
Proof.
  intros H. unfold substr_chars. rewrite substr_chars_pos_spec, substr_bytes_Z, (runes_ascii s H).
  unfold zdrop. rewrite skipn_map, concat_map_sing. reflexivity.
Qed.

Theorem ascii_substr_len s x y : is_ascii s = true -> substr_len_chars s x y = substr_len_bytes s x y.
Proof.
  intros H. unfold substr_len_chars. rewrite substr_len_chars_pl_spec, substr_len_bytes_Z, (runes_ascii s H).
  unfold ztake, zdrop. rewrite skipn_map, firstn_map, concat_map_sing. reflexivity.
Qed.

Theorem ascii_length s : is_ascii s = true -> builtin_length true s = builtin_length false s.
Proof. intros H. cbn [builtin_length]. apply rune_count_ascii, H. Qed.

Lemma is_ascii_ztake n s : is_ascii s = true -> is_ascii (ztake n s) = true.
Proof. apply forallb_firstn. Qed.

Lemma is_ascii_zdrop n s : is_ascii s = true -> is_ascii (zdrop n s) = true.
Proof. apply forallb_skipn. Qed.

Theorem ascii_index s t : is_ascii s = true -> builtin_index true s t = builtin_index false s t.
Proof.
  intros H. unfold builtin_index, strings_index.
  pose proof (strings_index_from_spec s t 0) as Hs. cbn zeta in Hs.
  set (i := strings_index_from s t 0) in *.
  destruct (i <? 0) eqn:E; [reflexivity|apply Z.ltb_ge in E].
  destruct Hs as [[Hi _]|[Hr _]]; [lia|].
  rewrite slice_ok by lia. cbn [rbind]. rewrite zdrop_0, Z.sub_0_r.
  rewrite rune_count_ascii by (apply is_ascii_ztake, H).
  rewrite zlen_ztake by lia. reflexivity.
Qed.
