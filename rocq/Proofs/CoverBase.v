(* C18 proofs, part 1: induction principle for statement trees, erasure of counter statements,
   and the basic facts about the loop of annotateStmts. *)
From Verif Require Import Lib.Base Model.Cover.

Section Base.
Context {E : Type}.

(* ---- induction over trees with nested statement lists ---- *)
Section Ind.
Variable P : cstmt E -> Prop.
Hypothesis Hsimple : forall k e st en, P (SSimple k e st en).
Hypothesis Hif : forall c st bs en body els, Forall P body -> Forall P els -> P (SIf c st bs en body els).
Hypothesis Hfor : forall pre c post st bs en body, Forall P body -> P (SFor pre c post st bs en body).
Hypothesis Hforin : forall h st bs en body, Forall P body -> P (SForIn h st bs en body).
Hypothesis Hwhile : forall c st bs en body, Forall P body -> P (SWhile c st bs en body).
Hypothesis Hdo : forall c st en body, Forall P body -> P (SDoWhile c st en body).
Hypothesis Hblock : forall st en body, Forall P body -> P (SBlock st en body).
Hypothesis Hcover : forall m i, P (SCover m i).

Fixpoint cstmt_ind' (s : cstmt E) : P s :=
  let go := fix go (l : list (cstmt E)) : Forall P l :=
    match l with
    | [] => Forall_nil P
    | x :: t => Forall_cons x (cstmt_ind' x) (go t)
    end in
  match s with
  | SSimple k e st en => Hsimple k e st en
  | SIf c st bs en body els => Hif c st bs en body els (go body) (go els)
  | SFor pre c post st bs en body => Hfor pre c post st bs en body (go body)
  | SForIn h st bs en body => Hforin h st bs en body (go body)
  | SWhile c st bs en body => Hwhile c st bs en body (go body)
  | SDoWhile c st en body => Hdo c st en body (go body)
  | SBlock st en body => Hblock st en body (go body)
  | SCover m i => Hcover m i
  end.
End Ind.

(* ---- vocabulary ---- *)
Definition is_cover (s : cstmt E) : bool := match s with SCover _ _ => true | _ => false end.

(* no counter statement anywhere: a tree as the parser produces it *)
Fixpoint nocov (s : cstmt E) : bool :=
  match s with
  | SCover _ _ => false
  | SIf _ _ _ _ body els => forallb nocov body && forallb nocov els
  | SFor _ _ _ _ _ _ body | SForIn _ _ _ _ body | SWhile _ _ _ _ body
  | SDoWhile _ _ _ body | SBlock _ _ body => forallb nocov body
  | SSimple _ _ _ _ => true
  end.

(* remove every counter statement *)
Section EraseLoop.
Variable f : cstmt E -> cstmt E.
Fixpoint erase_list (l : list (cstmt E)) : list (cstmt E) :=
  match l with
  | [] => []
  | SCover _ _ :: t => erase_list t
  | s :: t => f s :: erase_list t
  end.
End EraseLoop.
Fixpoint erase (s : cstmt E) : cstmt E :=
  match s with
  | SIf c st bs en body els => SIf c st bs en (erase_list erase body) (erase_list erase els)
  | SFor pre c post st bs en body => SFor pre c post st bs en (erase_list erase body)
  | SForIn h st bs en body => SForIn h st bs en (erase_list erase body)
  | SWhile c st bs en body => SWhile c st bs en (erase_list erase body)
  | SDoWhile c st en body => SDoWhile c st en (erase_list erase body)
  | SBlock st en body => SBlock st en (erase_list erase body)
  | s => s
  end.
Definition erase_stmts (l : list (cstmt E)) : list (cstmt E) := erase_list erase l.

(* number of statements in statement lists (nested bodies included; the init and step of a
   for statement are not in a statement list) *)
Fixpoint nstmts (s : cstmt E) : Z :=
  match s with
  | SIf _ _ _ _ body els =>
      1 + fold_right (fun x a => nstmts x + a) 0 body + fold_right (fun x a => nstmts x + a) 0 els
  | SFor _ _ _ _ _ _ body | SForIn _ _ _ _ body | SWhile _ _ _ _ body
  | SDoWhile _ _ _ body | SBlock _ _ body => 1 + fold_right (fun x a => nstmts x + a) 0 body
  | SSimple _ _ _ _ => 1
  | SCover _ _ => 0
  end.
Definition nstmts_list (l : list (cstmt E)) : Z := fold_right (fun x a => nstmts x + a) 0 l.

Lemma nstmts_list_app a b : nstmts_list (a ++ b) = nstmts_list a + nstmts_list b.
Proof. unfold nstmts_list. induction a as [|x a IH]; cbn [app fold_right]; lia. Qed.

Definition sum_num (bl : list block) : Z := fold_right (fun b a => b_num b + a) 0 bl.
Lemma sum_num_app a b : sum_num (a ++ b) = sum_num a + sum_num b.
Proof. unfold sum_num. induction a as [|x a IH]; cbn [app fold_right]; lia. Qed.

(* ---- erase: basic facts ---- *)
Lemma erase_list_app f (a b : list (cstmt E)) : erase_list f (a ++ b) = erase_list f a ++ erase_list f b.
Proof.
  induction a as [|x a IH]; [reflexivity|].
  destruct x; cbn [app erase_list]; rewrite ?IH; reflexivity.
Qed.

Lemma erase_list_nocov (l : list (cstmt E)) :
  Forall (fun s => nocov s = true -> erase s = s) l -> forallb nocov l = true -> erase_list erase l = l.
Proof.
  induction 1 as [|x l Hx _ IH]; [reflexivity|].
  cbn [forallb]. intros H. apply andb_prop in H as [H1 H2].
  destruct x; cbn [erase_list]; try (rewrite (Hx H1), (IH H2); reflexivity).
  discriminate H1.
Qed.

Lemma erase_nocov (s : cstmt E) : nocov s = true -> erase s = s.
Proof.
  induction s using cstmt_ind'; cbn [nocov erase]; intros Hn; try reflexivity.
  - apply andb_prop in Hn as [H1 H2]. rewrite !erase_list_nocov; auto.
  - rewrite erase_list_nocov; auto.
  - rewrite erase_list_nocov; auto.
  - rewrite erase_list_nocov; auto.
  - rewrite erase_list_nocov; auto.
  - rewrite erase_list_nocov; auto.
Qed.

Lemma erase_stmts_nocov (l : list (cstmt E)) : forallb nocov l = true -> erase_stmts l = l.
Proof.
  intros H. apply erase_list_nocov; [|exact H].
  apply Forall_forall. intros s _. apply erase_nocov.
Qed.

(* ---- the loop of annotateStmts ---- *)
Variable files : ftable.
Variable mode : cmode.

Definition annf : Type := cstmt E -> list block -> cstmt E * list block * bool.
Notation track := (track files mode).
Notation ann_loop := (ann_loop files mode).
Notation ann_stmt := (ann_stmt files mode).
Notation ann_stmts := (ann_stmts files mode).

Lemma track_eq bl (first last : cstmt E) num :
  exists b, track bl first last num = (SCover mode (zlen bl + 1), bl ++ [b]) /\ b_num b = num
    /\ b_path b = fst (file_line files (pline (start_of first)))
    /\ b_start b = mkpos (snd (file_line files (pline (start_of first)))) (pcol (start_of first))
    /\ b_end b = mkpos (snd (file_line files (pline (end_pos last)))) (pcol (end_pos last)).
Proof.
  unfold Cover.track.
  destruct (file_line files (pline (start_of first))) as [path sl] eqn:H1.
  destruct (file_line files (pline (end_pos last))) as [p2 el] eqn:H2.
  exists (mkblock path (mkpos sl (pcol (start_of first))) (mkpos el (pcol (end_pos last))) num).
  split; [|cbn; repeat split; reflexivity].
  rewrite zlen_app. reflexivity.
Qed.

(* [res] is only an output prefix *)
Lemma ann_loop_res (f : annf) ss : forall bl pend res,
  ann_loop f ss bl pend res =
  (res ++ fst (ann_loop f ss bl pend []), snd (ann_loop f ss bl pend [])).
Proof.
  induction ss as [|s t IH]; intros bl pend res; cbn [Cover.ann_loop].
  - destruct pend as [|p ps]; [cbn; rewrite app_nil_r; reflexivity|].
    destruct (track bl p (last_ne p ps) (zlen (p :: ps))) as [ctr bl']. reflexivity.
  - destruct (f s bl) as [[s' bl1] ends].
    destruct ends.
    + destruct (track bl1 _ s' _) as [ctr bl2].
      rewrite (IH bl2 [] (res ++ ctr :: pend ++ [s'])), (IH bl2 [] ([] ++ ctr :: pend ++ [s'])).
      cbn [fst snd app]. rewrite <- app_assoc. reflexivity.
    + apply IH.
Qed.

Definition nesting (s : cstmt E) : bool :=
  match s with SSimple _ _ _ _ | SCover _ _ => false | _ => true end.

(* unfolding equations with res = [] *)
Lemma ann_loop_nil (f : annf) bl : ann_loop f [] bl [] [] = ([], bl).
Proof. reflexivity. Qed.

Lemma ann_loop_flush (f : annf) bl p ps :
  ann_loop f [] bl (p :: ps) [] =
  (fst (track bl p (last_ne p ps) (zlen (p :: ps))) :: p :: ps,
   snd (track bl p (last_ne p ps) (zlen (p :: ps)))).
Proof.
  cbn [Cover.ann_loop]. destruct (track bl p (last_ne p ps) (zlen (p :: ps))); reflexivity.
Qed.

Lemma ann_loop_cons (f : annf) s t bl pend :
  ann_loop f (s :: t) bl pend [] =
  let '(s', bl1, ends) := f s bl in
  if ends then
    let tr := track bl1 (match pend with [] => s' | p :: _ => p end) s' (zlen (pend ++ [s'])) in
    (fst tr :: pend ++ [s'] ++ fst (ann_loop f t (snd tr) [] []), snd (ann_loop f t (snd tr) [] []))
  else ann_loop f t bl1 (pend ++ [s']) [].
Proof.
  cbn [Cover.ann_loop]. destruct (f s bl) as [[s' bl1] ends]. destruct ends; [|reflexivity].
  destruct (track bl1 _ s' _) as [ctr bl2]. cbn [fst snd].
  rewrite ann_loop_res. cbn [app]. rewrite <- app_assoc. reflexivity.
Qed.

End Base.
