(* C19: whatever Go's map iteration order is, the list of functions the resolver
   walks is an arrangement of the defined functions without repetition; hence the
   outcome of resolving is one of the finitely many outcomes of [resolve_order]
   over the permutations of the function list (what the model runner enumerates). *)
From Verif Require Import Lib.Base Model.Resolver Model.Determinism Proofs.Resolver Proofs.ResolverSound
  Proofs.ResolverExact Proofs.ResolverTopo Proofs.ResolverBound.
From Coq Require Import Permutation.
Open Scope Z_scope.

(* ---------- [perms] enumerates every permutation ------------------------------------ *)

Lemma In_insert_all {A} (x : A) l l1 l2 : l = l1 ++ l2 -> In (l1 ++ x :: l2) (insert_all x l).
Proof.
  revert l. induction l1 as [|y l1 IH]; intros l ->; cbn [app].
  - destruct l2; cbn [insert_all]; left; reflexivity.
  - cbn [insert_all]. right. apply in_map. apply IH. reflexivity.
Qed.

Lemma perms_complete {A} (l : list A) : forall l', Permutation l l' -> In l' (perms l).
Proof.
  induction l as [|x r IH]; intros l' Hp; cbn [perms].
  - apply Permutation_nil in Hp. subst. left; reflexivity.
  - assert (Hx : In x l') by (eapply Permutation_in; [exact Hp | left; reflexivity]).
    apply in_split in Hx. destruct Hx as [l1 [l2 ->]].
    apply Permutation_cons_app_inv in Hp.
    apply in_flat_map. exists (l1 ++ l2). split; [apply IH; exact Hp | apply In_insert_all; reflexivity].
Qed.

Lemma insert_all_perm {A} (x : A) l l' : In l' (insert_all x l) -> Permutation (x :: l) l'.
Proof.
  revert l'. induction l as [|y r IH]; intros l' H; cbn [insert_all] in H.
  - destruct H as [<-|[]]. apply Permutation_refl.
  - destruct H as [<-|H]; [apply Permutation_refl|].
    apply in_map_iff in H. destruct H as [m [<- Hm]].
    eapply Permutation_trans; [apply perm_swap | apply perm_skip; apply IH; exact Hm].
Qed.

Lemma perms_sound {A} (l : list A) : forall l', In l' (perms l) -> Permutation l l'.
Proof.
  induction l as [|x r IH]; intros l' H; cbn [perms] in H.
  - destruct H as [<-|[]]. apply Permutation_refl.
  - apply in_flat_map in H. destruct H as [m [Hm H]].
    eapply Permutation_trans; [apply perm_skip; apply IH; exact Hm | apply insert_all_perm; exact H].
Qed.

(* ---------- topoSort never lists a node twice ------------------------------------------ *)

Section TopoNoDup.
Variable pi : oracle.
Variable g : graph.

Definition sp_inv (ts : tstate) : Prop :=
  NoDup (t_sorted ts) /\ (forall x, In x (t_sorted ts) <-> In x (t_perm ts)).

Lemma visit_sp fuel : forall n ts ts',
  visit fuel pi g n ts = Some ts' -> sp_inv ts ->
  sp_inv ts' /\ (forall x, In x (t_temp ts) -> ~ In x (t_perm ts) -> ~ In x (t_perm ts')).
Proof.
  induction fuel as [|fuel IH]; intros n ts ts' H Hj; cbn [visit] in H; [discriminate|].
  destruct (mem n (t_perm ts)) eqn:Ep; [injection H as <-; split; [exact Hj | auto]|].
  destruct (mem n (t_temp ts)) eqn:Et; [injection H as <-; split; [exact Hj | auto]|].
  set (ts1 := {| t_unmarked := t_unmarked ts; t_perm := t_perm ts; t_temp := n :: t_temp ts;
                 t_sorted := t_sorted ts; t_ctr := S (t_ctr ts) |}) in *.
  match type of H with
  | match ?loop ?ms0 ts1 with _ => _ end = _ =>
      assert (Hgo : forall l a b, loop l a = Some b -> sp_inv a ->
                sp_inv b /\ t_temp b = t_temp a /\
                (forall x, In x (t_temp a) -> ~ In x (t_perm a) -> ~ In x (t_perm b)))
  end.
  { induction l as [|m ms IHms]; intros a b Hab Ha.
    - injection Hab as <-. split; [exact Ha|]. split; [reflexivity | auto].
    - destruct (visit fuel pi g m a) as [a'|] eqn:Ev; [|discriminate].
      destruct (IH m a a' Ev Ha) as [Ha' Hkeep].
      destruct (visit_vrel pi g fuel m a a' Ev) as [Htemp _].
      destruct (IHms a' b Hab Ha') as [Hb [Htb Hkeep']].
      split; [exact Hb|]. split; [congruence|].
      intros x Hx Hnp. apply Hkeep'; [rewrite Htemp; exact Hx | apply Hkeep; assumption]. }
  match type of H with
  | match ?loop ?ms0 ts1 with _ => _ end = _ => destruct (loop ms0 ts1) as [ts2|] eqn:Eloop; [|discriminate]
  end.
  injection H as <-.
  assert (Hj1 : sp_inv ts1) by exact Hj.
  destruct (Hgo _ _ _ Eloop Hj1) as [[Hnd Hiff] [Htemp Hkeep]]. cbn [t_temp t_perm] in Htemp, Hkeep.
  apply mem_not_In in Ep, Et.
  assert (Hn2 : ~ In n (t_perm ts2)) by (apply Hkeep; [left; reflexivity | exact Ep]).
  split; [split|]; cbn [t_sorted t_perm t_temp].
  - apply NoDup_snoc; [exact Hnd|]. intros Hc. apply Hn2. apply Hiff. exact Hc.
  - intros x. rewrite in_app_iff. cbn [In]. rewrite Hiff. tauto.
  - intros x Hx Hnp [<-|Hc]; [contradiction|]. revert Hc. apply Hkeep; [right; exact Hx | exact Hnp].
Qed.

Lemma topo_loop_sp fuel vfuel : forall ts ts',
  topo_loop fuel vfuel pi g ts = Some ts' -> sp_inv ts -> sp_inv ts'.
Proof.
  induction fuel as [|fuel IH]; intros ts ts' H Hj; cbn [topo_loop] in H.
  - destruct (t_unmarked ts); [injection H as <-; exact Hj | discriminate].
  - destruct (t_unmarked ts) as [|u us] eqn:Eu; [injection H as <-; exact Hj|].
    match type of H with
    | match visit vfuel pi g ?n ?ts1 with _ => _ end = _ => destruct (visit vfuel pi g n ts1) as [ts2|] eqn:Ev; [|discriminate]
    end.
    eapply IH; [exact H|]. eapply visit_sp; [exact Ev | exact Hj].
Qed.

Lemma topo_sort_nodup sorted ctr : topo_sort pi g = Some (sorted, ctr) -> NoDup sorted.
Proof.
  unfold topo_sort. destruct g as [|e r] eqn:Eg; [intros H; injection H as <- _; constructor|].
  rewrite <- Eg.
  match goal with
  | |- match topo_loop ?a ?b pi g ?ts0 with _ => _ end = _ -> _ =>
      destruct (topo_loop a b pi g ts0) as [ts|] eqn:E; [|discriminate]
  end.
  intros H. injection H as <- _.
  apply topo_loop_sp in E; [apply E|]. split; [constructor|]. intros x; split; intros [].
Qed.

End TopoNoDup.

Lemma NoDup_filter {A} (f : A -> bool) l : NoDup l -> NoDup (filter f l).
Proof.
  induction 1 as [|x l Hx Hnd IH]; cbn [filter]; [constructor|].
  destruct (f x); [|exact IH]. constructor; [|exact IH]. intros Hc. apply filter_In in Hc. apply Hx, Hc.
Qed.

Lemma NoDup_app_disj {A} (a b : list A) :
  NoDup a -> NoDup b -> (forall x, In x a -> ~ In x b) -> NoDup (a ++ b).
Proof.
  induction 1 as [|x a Hx Hnd IH]; intros Hb Hd; cbn [app]; [exact Hb|].
  constructor.
  - intros Hc. apply in_app_or in Hc. destruct Hc as [Hc|Hc]; [contradiction|]. apply (Hd x); [left; reflexivity | exact Hc].
  - apply IH; [exact Hb|]. intros y Hy. apply Hd. right; exact Hy.
Qed.

Lemma ordered_funcs_nodup pi P order :
  perm_oracle pi -> NoDup (fnames P) -> ordered_funcs pi P = Some order -> NoDup order.
Proof.
  intros Hpi Hnd H. unfold ordered_funcs in H.
  destruct (topo_sort pi (call_graph P)) as [[sorted ctr]|] eqn:Et; [|discriminate]. injection H as <-.
  apply topo_sort_nodup in Et.
  assert (Hf : NoDup (pi ctr (fnames P))).
  { eapply Permutation_NoDup; [apply Permutation_sym; apply Hpi | exact Hnd]. }
  apply NoDup_app_disj; [exact Et | apply NoDup_filter; exact Hf|].
  intros y Hy Hy'. apply filter_In in Hy'. destruct Hy' as [_ Hy']. apply negb_true_iff in Hy'.
  apply mem_not_In in Hy'. contradiction.
Qed.

(* ---------- only the defined functions in the order matter ------------------------------ *)

Definition real (P : program) (order : list name) : list name :=
  filter (fun fn => negb (is_empty fn) && is_func P fn) order.

Lemma is_func_find P fn : is_func P fn = false -> find_func P fn = None.
Proof.
  intros H. destruct (find_func P fn) as [[i fd]|] eqn:E; [|reflexivity].
  assert (Ht : is_func P fn = true) by (apply find_func_is_func; eauto). congruence.
Qed.

Lemma walk_funcs_real P order : forall s, walk_funcs P order s = walk_funcs P (real P order) s.
Proof.
  induction order as [|fn order IH]; intros s; [reflexivity|].
  unfold real. cbn [walk_funcs filter]. fold (real P order).
  destruct (is_empty fn) eqn:Ee; cbn [negb andb]; [apply IH|].
  destruct (is_func P fn) eqn:Ef.
  - cbn [walk_funcs]. rewrite Ee. destruct (find_func P fn) as [[i fd]|]; [|apply IH].
    destruct (run_steps P fn (flat_events (f_body fd)) s); try reflexivity. apply IH.
  - rewrite (is_func_find P fn Ef). apply IH.
Qed.

Lemma walk_ordered_real P order s : walk_ordered P order s = walk_ordered P (real P order) s.
Proof. unfold walk_ordered. rewrite walk_funcs_real. reflexivity. Qed.

Lemma pass_loop_real P order k : forall s u, pass_loop P order k s u = pass_loop P (real P order) k s u.
Proof.
  induction k as [|k IH]; intros s u; cbn [pass_loop]; rewrite walk_ordered_real; [reflexivity|].
  destruct (st_updates s =? u); [reflexivity|].
  destruct (walk_ordered P (real P order) s); try reflexivity. apply IH.
Qed.

Lemma resolve_order_real cut order P : resolve_order cut order P = resolve_order cut (real P order) P.
Proof.
  unfold resolve_order. destruct (first_dup [] (fnames P)); [reflexivity|].
  destruct (record_var P _ [] n_ARGV TArray) as [s1| | |]; cbn [rbind2]; try reflexivity.
  destruct (record_var P s1 [] n_ENVIRON TArray) as [s2| | |]; cbn [rbind2]; try reflexivity.
  destruct (record_var P s2 [] n_FIELDS TArray) as [s3| | |]; cbn [rbind2]; try reflexivity.
  rewrite walk_ordered_real. destruct (walk_ordered P (real P order) s3) as [s4| | |]; cbn [rbind2]; try reflexivity.
  rewrite pass_loop_real. reflexivity.
Qed.

Lemma real_perm P order :
  NoDup (fnames P) -> names_ok P -> NoDup order -> covers P order -> Permutation (fnames P) (real P order).
Proof.
  intros Hnd Hne Hno Hcov. apply NoDup_Permutation; [exact Hnd | apply NoDup_filter; exact Hno|].
  intros x. unfold real. rewrite filter_In. split.
  - intros Hx. unfold fnames in Hx. apply in_map_iff in Hx. destruct Hx as [fd [<- Hfd]].
    split; [apply Hcov; exact Hfd|]. apply andb_true_iff. split.
    + apply negb_true_iff. apply is_empty_false. apply Hne. exact Hfd.
    + apply is_func_In. unfold fnames. apply in_map. exact Hfd.
  - intros [_ Hx]. apply andb_true_iff in Hx. apply is_func_In. apply Hx.
Qed.

(* ENUMERATION: whatever the map iteration order, the outcome is among the
   outcomes of [resolve_order] over the permutations of the function names *)
Theorem outcome_enumerated cut pi P :
  perm_oracle pi -> names_ok P -> In (resolve_cut cut pi P) (order_outcomes cut P).
Proof.
  intros Hpi Hne. unfold resolve_cut, order_outcomes.
  destruct (first_dup [] (fnames P)) as [f|] eqn:Ed.
  - apply in_map_iff. exists (fnames P). split; [|apply perms_complete; apply Permutation_refl].
    unfold resolve_order. rewrite Ed. reflexivity.
  - pose proof (ordered_funcs_total pi P Hpi) as Ht.
    destruct (ordered_funcs pi P) as [order|] eqn:Eo; [|congruence].
    destruct (first_dup_none _ _ Ed) as [Hnd _].
    apply in_map_iff. exists (real P order). split; [symmetry; apply resolve_order_real|].
    apply perms_complete. apply real_perm; [exact Hnd | exact Hne | | eapply ordered_funcs_covers; eassumption].
    eapply ordered_funcs_nodup; eassumption.
Qed.
