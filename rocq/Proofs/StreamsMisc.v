(* C13 proofs, part 5: the close status table, one name = one stream, what is
   true and what is false about write failures and about the single writer. *)
From Verif Require Import Lib.Base Model.Streams Proofs.StreamsBase Proofs.StreamsSpec Proofs.StreamsStdout Proofs.StreamsOrder.

(* ---- close() ---- *)
(* iostream.go waitExitCode *)
Definition wait_code (w : wstatus) : Z :=
  match w with Exited e => e | Signaled sg => 256 + sg | CoreDumped sg => 512 + sg | WaitIOErr => -1 end.

Lemma wait_result_table w : fst (wait_result w false) = wait_code w.
Proof. destruct w; cbn; auto. rewrite andb_false_r. auto. Qed.

(* what close(n) returns, by what n denotes at that moment *)
Definition close_code (E : env) (s : state) (n : name) : Z :=
  match alookup n (st_ins s) with
  | Some i => if is_cmd i then wait_code (c_exit (e_spec E n)) else 0
  | None =>
      match alookup n (st_outs s) with
      | Some o => match os_kind o with KFile => 0 | KCmd => wait_code (c_exit (e_spec E n)) end
      | None => -1
      end
  end.

Theorem close_status E s n s' oc : good E s -> step E s (Close n) = (s', oc) ->
  oc = Running /\ exists rest, st_obs s' = ORet (close_code E s n) :: rest.
Proof.
  intros Hg. unfold close_code. cbn [step]. destruct (alookup n (st_ins s)) as [i|].
  - destruct (is_cmd i).
    + pose proof (wait_result_table (c_exit (e_spec E n))) as Hw. destruct (wait_result _ false) as [code err]. cbn [fst] in Hw. subst code.
      intros H; injection H as <- <-. split; auto. cbn [st_obs add_obs]. eauto.
    + intros H; injection H as <- <-. split; auto. cbn [st_obs add_obs]. eauto.
  - destruct (alookup n (st_outs s)) as [os|] eqn:El.
    + destruct (close_ostream E _ n os) as [[s1 code] err] eqn:Ec.
      destruct (close_ostream_good _ _ _ _ _ _ _ (good_aremove E s n Hg) (good_lookup _ _ _ _ Hg El) Ec) as (_ & Hc).
      intros H; injection H as <- <-. split; auto. cbn [st_obs add_obs]. eexists.
      f_equal. f_equal. rewrite Hc. destruct (os_kind os); auto. apply wait_result_table.
    + intros H; injection H as <- <-. split; auto. cbn [st_obs add_obs]. eauto.
Qed.

(* close() of a command stream, whatever happens to the final Flush of goawk's
   buffered data into the command's stdin (EPIPE because the command has closed
   or never read its stdin, an earlier sticky error, nothing buffered) and
   whatever state standard output is in: Close always goes on to Wait for the
   command, logs that (EvClose) and returns the command's own exit status;
   -1 only as waitExitCode says (I/O error of Wait, or a command that exited 0
   whose stdout copy failed). *)
Lemma deliver_kind E s n o data : os_kind (snd (deliver E s n o data)) = os_kind o.
Proof.
  unfold deliver. destruct data as [|b d]; auto. destruct (os_kind o) eqn:Ek.
  - destruct (os_off o); cbn [snd os_kind]; auto.
  - destruct (c_drain (e_spec E n)); cbn [snd os_kind]; auto.
    destruct (c_echo (e_spec E n)); cbn [snd]; auto. destruct (child_out _ _ _ _). cbn [snd os_kind]. auto.
Qed.

Lemma flush_ostream_kind E s n o : os_kind (snd (flush_ostream E s n o)) = os_kind o.
Proof.
  unfold flush_ostream. pose proof (deliver_kind E s n o (os_buf o)) as H. destruct (deliver _ _ _ _ _) as [s1 o1].
  cbn [snd os_kind] in *. auto.
Qed.

Theorem close_cmd_waits_and_reports E s n os s' oc :
  alookup n (st_ins s) = None -> alookup n (st_outs s) = Some os -> os_kind os = KCmd ->
  step E s (Close n) = (s', oc) ->
  oc = Running /\
  exists copy_failed rest l,
    let code := fst (wait_result (c_exit (e_spec E n)) copy_failed) in
    st_obs s' = ORet code :: rest /\ st_log s' = EvClose n false code :: l.
Proof.
  intros Hi Ho Hk. cbn [step]. rewrite Hi, Ho. unfold close_ostream.
  pose proof (flush_ostream_kind E (set_outs s (aremove n (st_outs s))) n os) as Hk1.
  destruct (flush_ostream E _ n os) as [s1 o1]. cbn [snd] in Hk1. rewrite Hk1, Hk.
  destruct (child_eof E s1 (os_cgfail o1)) as [s2 ok].
  destruct (wait_result (c_exit (e_spec E n)) (negb ok)) as [code err] eqn:Ew.
  intros H; injection H as <- <-. split; auto.
  exists (negb ok), (st_obs (if err || os_err o1 then print_errorf E (add_log s2 (EvClose n false code)) else add_log s2 (EvClose n false code))),
         (st_log s2).
  rewrite Ew. cbn [fst st_obs st_log add_obs]. split; auto.
  destruct (err || os_err o1); [unfold print_errorf; rewrite (proj1 (flush_stdout_log E _))|]; reflexivity.
Qed.

(* in particular: a non-zero exit status, a signal or a core dump is always reported as such *)
Theorem close_cmd_status_nonzero E s n os s' oc :
  alookup n (st_ins s) = None -> alookup n (st_outs s) = Some os -> os_kind os = KCmd ->
  c_exit (e_spec E n) <> Exited 0 ->
  step E s (Close n) = (s', oc) ->
  exists rest, st_obs s' = ORet (wait_code (c_exit (e_spec E n))) :: rest.
Proof.
  intros Hi Ho Hk Hne Hs. destruct (close_cmd_waits_and_reports _ _ _ _ _ _ Hi Ho Hk Hs) as (_ & cf & rest & l & Hobs & _).
  exists rest. rewrite Hobs. f_equal. f_equal. destruct (c_exit (e_spec E n)) as [e| | |]; cbn; auto.
  destruct (e =? 0) eqn:E0; auto. apply Z.eqb_eq in E0. subst. congruence.
Qed.

(* ---- one name, one stream ---- *)
(* while a stream is open for n, every print to n -- whether written > n,
   >> n or | n -- goes to that stream: nothing is opened, nothing is truncated *)
Theorem one_stream_per_name E s n r r' ps : amem n (st_outs s) = true ->
  step E s (Print (DRedir r n) ps) = step E s (Print (DRedir r' n) ps).
Proof.
  intros H. cbn [step]. unfold step_print, get_output_stream. rewrite H. reflexivity.
Qed.

(* and such a print adds nothing to the log but the write itself *)
Theorem print_to_open_stream E s n r ps os : amem n (st_ins s) = false -> alookup n (st_outs s) = Some os ->
  exists s' os', step E s (Print (DRedir r n) ps) = (set_outs s' (aset n os' (st_outs s')), if os_err os' then Fail else Running) /\
    write_ostream E (add_log s (EvWrite (match os_kind os with KFile => WFile n | KCmd => WCmd n end) (concat ps))) n os (concat ps) = (s', os').
Proof.
  intros Hi Ho. cbn [step]. unfold step_print, get_output_stream, amem at 2. rewrite Hi, Ho. rewrite Ho.
  destruct (write_ostream E _ n os (concat ps)) as [s' os'] eqn:Ew. eauto.
Qed.

(* ---- write failures ---- *)
(* buffered Output: once a Flush has failed, the next print to standard output fails the run *)
Theorem write_failure_after_failed_flush E cap s ps ops :
  e_mode E = Buf cap -> bw_err (st_out s) = true -> ps <> [] ->
  snd (run E s (Print DStdout ps :: ops)) = RError.
Proof.
  intros Hm He Hp. unfold run. cbn [exec step]. unfold step_print. cbn [get_output_stream].
  unfold write_stdout. rewrite Hm.
  assert (Ht : st_out (add_log (touch E s) (EvWrite WStdout (concat ps))) = st_out s).
  { cbn [st_out add_log]. unfold touch.
    destruct (negb (is_osfile (e_mode E)) && any_active (st_outs s)); cbn [st_outs set_overlap];
    match goal with |- context [if ?c then set_unmod _ else _] => destruct c end; auto. }
  rewrite Ht. destruct ps as [|p ps]; [contradiction|]. cbn [write_pieces_buf]. unfold bw_write_string. rewrite He. reflexivity.
Qed.
