(* C15: the source facts the model rests on, checked against tables regenerated from
   package interp on every run (rocq/Gen/DispatchLoop.v, translator/gen_c15.go).

   * the context poll is in the head of the only dispatch loop, right after the opcode fetch;
   * checkContext / checkContextNow / ExecuteContext / Execute read exactly as Model/Cancel.v
     transcribes them; p.ctxOps is written nowhere else; the context is polled nowhere else;
   * p.execute is called only from executeAll, execActions and execute itself (for-in bodies,
     function bodies): every re-entry goes through the polled loop with the same counter;
   * every other loop of package interp is classified by what bounds it.  The loops that are
     not bounded by the size of a value already in memory are exactly: the dispatch loop (polled),
     the record loop of execActions (one iteration per input record: polled in its head with
     the same counter, [record_loop_polls]), the input readers (one iteration per chunk of
     input / input file; blocking reads are outside the model) and the stack-growing loop.
   A change of the repository that adds a loop, a poll, a write of the counter or a call of
   execute changes the table and breaks one of these obligations. *)
From Coq Require Import List String ZArith Bool.
From Verif Require Import Gen.DispatchLoop.
Import ListNotations.
Open Scope string_scope.

(* ---- the dispatch loop ---- *)

Theorem dispatch_loop_head :
  dispatch_header = "for ip := 0; ip < len(code); " /\
  dispatch_head = ["op := code[ip]"; "ip++";
                   "if p.checkCtx { err := p.checkContext() if err != nil { return err } }"].
Proof. split; reflexivity. Qed.

(* the record loop of execActions starts with the same counting poll, before the record is fetched *)
Theorem record_loop_polls :
  record_loop_head = ["if p.checkCtx { err := p.checkContext() if err != nil { return err } }"].
Proof. reflexivity. Qed.

Definition loop_eqb (a b : string * string * Z) : bool :=
  let '(f1, h1, c1) := a in let '(f2, h2, c2) := b in
  String.eqb f1 f2 && String.eqb h1 h2 && Z.eqb c1 c2.

Theorem one_dispatch_loop :
  filter (fun l => String.eqb (snd (fst l)) dispatch_header) loops = [("interp.execute", dispatch_header, 2%Z)].
Proof. reflexivity. Qed.

(* ---- the counter and the poll as transcribed in Model/Cancel.v ---- *)

Theorem check_context_source :
  check_context_body = ["p.ctxOps++"; "if p.ctxOps < checkContextOps { return nil }"; "p.ctxOps = 0";
                        "return p.checkContextNow()"] /\
  check_now_body = ["select { case <-p.ctxDone: return p.ctx.Err() default: return nil }"].
Proof. split; reflexivity. Qed.

Theorem execute_context_source :
  execute_context = ["p.interp.resetCore()";
                     "p.interp.checkCtx = ctx != context.Background() && ctx != context.TODO()";
                     "p.interp.ctx = ctx"; "p.interp.ctxDone = ctx.Done()"; "p.interp.ctxOps = 0"] /\
  execute_plain = ["p.interp.resetCore()"; "p.interp.checkCtx = false"].
Proof. split; reflexivity. Qed.

Theorem counter_written_only_here :
  ctxops_writes = [("Interpreter.ExecuteContext", "p.interp.ctxOps = 0");
                   ("interp.checkContext", "p.ctxOps++"); ("interp.checkContext", "p.ctxOps = 0")].
Proof. reflexivity. Qed.

Theorem polled_only_here :
  poll_sites = [("interp.executeAll", "checkContextNow"); ("interp.executeAll", "checkContextNow");
                ("interp.executeAll", "checkContextNow"); ("interp.execActions", "checkContext");
                ("interp.checkContext", "checkContextNow"); ("interp.execute", "checkContext")].
Proof. reflexivity. Qed.

Theorem execute_called_only_here :
  execute_sites = [("interp.executeAll", "p.program.Compiled.Begin"); ("interp.executeAll", "p.program.Compiled.End");
                   ("interp.execActions", "action.Pattern[0]"); ("interp.execActions", "action.Pattern[0]");
                   ("interp.execActions", "action.Pattern[1]"); ("interp.execActions", "action.Body");
                   ("interp.execute", "loopCode"); ("interp.execute", "f.Body")].
Proof. reflexivity. Qed.

Theorem child_processes_under_the_context :
  command_sites = [("interp.execShell", "CommandContext", "p.checkCtx"); ("interp.execShell", "Command", "!(p.checkCtx)")].
Proof. reflexivity. Qed.

(* execShell: the Cmd of every child process (system(), cmd | getline, print | cmd) is built by
   exec.CommandContext under a context and by exec.Command without one, both into the same variable,
   and WaitDelay is set on EVERY path that returns it: Cmd.Wait then gives up on the output pipes
   250 ms after the shell has exited (or has been killed by the context), whoever still holds them;
   that is what makes waits for child processes both prompt under cancellation and identical
   with and without a context *)
Theorem exec_shell_sets_waitdelay_on_every_path :
  forallb (fun r => String.eqb (snd r) "yes") exec_shell_returns = true /\
  exec_shell_returns <> [] /\
  exec_shell_makes = [("CommandContext", "cmd"); ("Command", "cmd")] /\
  waitdelay_writes = [("interp.execShell", "cmd.WaitDelay = 250 * time.Millisecond")].
Proof. repeat split; try reflexivity. discriminate. Qed.

Theorem exec_shell_source :
  exec_shell_body =
  ["executable := p.shellCommand[0]"; "args := p.shellCommand[1:]"; "args = append(args, code)";
   "var cmd *exec.Cmd";
   "if p.checkCtx { cmd = exec.CommandContext(p.ctx, executable, args...) } else { cmd = exec.Command(executable, args...) }";
   "cmd.WaitDelay = 250 * time.Millisecond"; "return cmd"].
Proof. reflexivity. Qed.

(* the context's error originates in two places only: the poll, and system() whose wait for the
   child failed while the context is done *)
Theorem context_error_origins :
  ctx_err_sites = [("interp.checkContextNow", ""); ("interp.callBuiltin", "err != nil");
                   ("interp.callBuiltin", "err != nil && p.checkCtx && p.ctx.Err() != nil")].
Proof. reflexivity. Qed.

(* ---- every loop of package interp, by what bounds it ---- *)

Inductive bound : Type :=
| Dispatch        (* the dispatch loop: polls the context on every iteration *)
| Records         (* execActions: one iteration per input record; polls the context on every iteration *)
| Reenters        (* range over a value in memory whose body calls execute: every iteration with opcodes is polled *)
| Range           (* range over a slice, map or string already in memory *)
| Counted         (* i := a; i < b; i++ / i += 2 with b fixed *)
| Scan            (* an index advancing over len(data) / len(s) *)
| Input           (* one iteration per chunk of input or per input file (reading may block: outside the model) *)
| GrowStack.      (* doubles the stack until the pushed values fit *)

Definition contains (sub s : string) : bool :=
  match String.index 0 sub s with Some _ => true | None => false end.
Definition ends_with (suf s : string) : bool :=
  let n := String.length s in let k := String.length suf in
  if Nat.leb k n then String.eqb (String.substring (n - k) k s) suf else false.

(* the loops that need an argument, by name *)
Definition special : list (string * string * Z * bound) :=
  [ ("interp.execute", "for ip := 0; ip < len(code); ", 2%Z, Dispatch);
    ("interp.execActions", "for", 4%Z, Records);
    ("interp.execActions", "for i, action := range actions", 4%Z, Reenters);
    ("interp.execute", "for index := range array", 1%Z, Reenters);
    ("csvSplitter.scan", "for", 0%Z, Input);
    ("interp.nextLine", "for", 0%Z, Input);
    ("interp.pushNulls", "for p.sp+num-1 >= len(p.stack)", 0%Z, GrowStack);
    (* trimASCIISpace (interp/value.go): start only increases, up to len(s); end only decreases, down to start *)
    ("trimASCIISpace", "for start < len(s) && asciiSpace[s[start]] != 0", 0%Z, Scan);
    ("trimASCIISpace", "for end > start && asciiSpace[s[end-1]] != 0", 0%Z, Scan) ].

Fixpoint find_special (l : string * string * Z) (t : list (string * string * Z * bound)) : option bound :=
  match t with
  | [] => None
  | (x, b) :: t' => if loop_eqb l x then Some b else find_special l t'
  end.

Definition classify (l : string * string * Z) : option bound :=
  match find_special l special with
  | Some b => Some b
  | None =>
      let '(_, h, calls) := l in
      if negb (Z.eqb calls 0) then None                       (* a loop that re-enters execute must be listed *)
      else if contains " range " h || String.prefix "for range " h then Some Range
      else if contains "; " h && (ends_with "++" h || ends_with "+= 2" h) then Some Counted
      else if String.prefix "for i < len(" h || String.prefix "for ; i < len(" h then Some Scan
      else None
  end.

Definition is_some {A} (o : option A) : bool := match o with Some _ => true | None => false end.

Theorem loops_classified : forallb (fun l => is_some (classify l)) loops = true.
Proof. vm_compute. reflexivity. Qed.

Definition data_bounded (b : bound) : bool :=
  match b with Range | Counted | Scan | Reenters => true | _ => false end.

(* the loops not bounded by the size of a value in memory *)
Theorem loops_not_data_bounded :
  map (fun l => (fst (fst l), snd (fst l)))
      (filter (fun l => match classify l with Some b => negb (data_bounded b) | None => true end) loops)
  = [ ("csvSplitter.scan", "for"); ("csvSplitter.scan", "for"); ("csvSplitter.scan", "for");
      ("interp.execActions", "for");
      ("interp.execute", "for ip := 0; ip < len(code); ");
      ("interp.nextLine", "for");
      ("interp.pushNulls", "for p.sp+num-1 >= len(p.stack)") ].
Proof. vm_compute. reflexivity. Qed.

(* the loops whose body calls execute *)
Theorem loops_reentering :
  filter (fun l => negb (Z.eqb (snd l) 0)) loops
  = [ ("interp.execActions", "for", 4%Z); ("interp.execActions", "for i, action := range actions", 4%Z);
      ("interp.execute", "for ip := 0; ip < len(code); ", 2%Z); ("interp.execute", "for index := range array", 1%Z) ].
Proof. vm_compute. reflexivity. Qed.
