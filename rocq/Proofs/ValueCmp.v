(* C05: the comparison part.  String order is a strict total order; the numeric
   order on non-NaN doubles is a total order; the twelve comparison sites of vm.go
   all compute one specification function; the six operators are functions of one
   three-way outcome, hence mutually consistent. *)
From Verif Require Import Lib.Base Lib.Dyadic Lib.Utf8 Model.Value.

(* ------------------------------------------------------------------ *)
(* bytewise lexicographic order                                        *)
(* ------------------------------------------------------------------ *)

Lemma bytes_cmp_refl a : bytes_cmp a a = Eq.
Proof. induction a as [|x a IH]; cbn [bytes_cmp]; [reflexivity|]. rewrite Z.compare_refl. exact IH. Qed.

Lemma bytes_cmp_eq a b : bytes_cmp a b = Eq <-> a = b.
Proof.
  split; [|intros ->; apply bytes_cmp_refl].
  revert b; induction a as [|x a IH]; intros [|y b]; cbn [bytes_cmp]; intro H; try reflexivity; try discriminate.
  destruct (Z.compare x y) eqn:E; try discriminate.
  apply Z.compare_eq in E. subst y. f_equal. apply IH. exact H.
Qed.

Lemma bytes_cmp_antisym a b : bytes_cmp b a = CompOpp (bytes_cmp a b).
Proof.
  revert b; induction a as [|x a IH]; intros [|y b]; cbn [bytes_cmp]; try reflexivity.
  rewrite (Z.compare_antisym x y). destruct (Z.compare x y); cbn [CompOpp]; try reflexivity. apply IH.
Qed.

Lemma bytes_cmp_lt_trans a b c : bytes_cmp a b = Lt -> bytes_cmp b c = Lt -> bytes_cmp a c = Lt.
Proof.
  revert b c; induction a as [|x a IH]; intros [|y b] [|z c]; cbn [bytes_cmp]; intros H1 H2;
    try reflexivity; try discriminate.
  destruct (Z.compare x y) eqn:E1; try discriminate; destruct (Z.compare y z) eqn:E2; try discriminate.
  - apply Z.compare_eq in E1, E2. subst. rewrite Z.compare_refl. eapply IH; eassumption.
  - apply Z.compare_eq in E1. subst. rewrite E2. reflexivity.
  - apply Z.compare_eq in E2. subst. rewrite E1. reflexivity.
  - pose proof (Z.lt_trans x y z E1 E2) as Hxz. unfold Z.lt in Hxz. rewrite Hxz. reflexivity.
Qed.

(* the order Go's < on strings denotes: first differing byte decides, a proper prefix is smaller *)
Inductive lex_lt : bytes -> bytes -> Prop :=
| lex_nil y b : lex_lt [] (y :: b)
| lex_head x y a b : x < y -> lex_lt (x :: a) (y :: b)
| lex_tail x a b : lex_lt a b -> lex_lt (x :: a) (x :: b).

Lemma s_lt_lex a b : s_lt a b = true <-> lex_lt a b.
Proof.
  unfold s_lt. split.
  - revert b; induction a as [|x a IH]; intros [|y b]; cbn [bytes_cmp]; intro H; try discriminate.
    + constructor.
    + destruct (Z.compare x y) eqn:E; try discriminate.
      * apply Z.compare_eq in E. subst. apply lex_tail. apply IH. exact H.
      * apply lex_head. exact E.
  - induction 1 as [y b|x y a b Hxy|x a b _ IH]; cbn [bytes_cmp].
    + reflexivity.
    + unfold Z.lt in Hxy. rewrite Hxy. reflexivity.
    + rewrite Z.compare_refl. exact IH.
Qed.

(* strict total order *)
Theorem string_order_strict_total :
  (forall a, s_lt a a = false) /\
  (forall a b c, s_lt a b = true -> s_lt b c = true -> s_lt a c = true) /\
  (forall a b, (s_lt a b = true /\ a <> b /\ s_lt b a = false) \/
               (s_lt a b = false /\ a = b /\ s_lt b a = false) \/
               (s_lt a b = false /\ a <> b /\ s_lt b a = true)).
Proof.
  unfold s_lt. split; [|split].
  - intro a. rewrite bytes_cmp_refl. reflexivity.
  - intros a b c H1 H2.
    destruct (bytes_cmp a b) eqn:E1; try discriminate. destruct (bytes_cmp b c) eqn:E2; try discriminate.
    rewrite (bytes_cmp_lt_trans _ _ _ E1 E2). reflexivity.
  - intros a b. rewrite (bytes_cmp_antisym a b).
    destruct (bytes_cmp a b) eqn:E; cbn [CompOpp].
    + right; left. apply bytes_cmp_eq in E. auto.
    + left. repeat split; auto. intro Hab. apply bytes_cmp_eq in Hab. congruence.
    + right; right. repeat split; auto. intro Hab. apply bytes_cmp_eq in Hab. congruence.
Qed.

(* ------------------------------------------------------------------ *)
(* numeric order                                                       *)
(* ------------------------------------------------------------------ *)

Lemma fin_cmp_antisym m1 e1 m2 e2 : fin_cmp m2 e2 m1 e1 = CompOpp (fin_cmp m1 e1 m2 e2).
Proof. unfold fin_cmp. rewrite (Z.min_comm e2 e1). apply Z.compare_antisym. Qed.

Definition is_nan (x : fnum) : bool := match x with FNaN => true | _ => false end.

(* the three-way outcome of comparing two doubles; None = unordered *)
Definition f_order (x y : fnum) : option comparison :=
  match x, y with
  | FNaN, _ | _, FNaN => None
  | FFin m1 e1, FFin m2 e2 => Some (fin_cmp m1 e1 m2 e2)
  | FInf a, FInf b => Some (if Bool.eqb a b then Eq else if a then Lt else Gt)
  | FInf a, FFin _ _ => Some (if a then Lt else Gt)
  | FFin _ _, FInf b => Some (if b then Gt else Lt)
  end.

Definition decide (op : cmpop) (o : option comparison) : bool :=
  match op, o with
  | ONe, None => true
  | _, None => false
  | OEq, Some Eq => true | OEq, Some _ => false
  | ONe, Some Eq => false | ONe, Some _ => true
  | OLt, Some Lt => true | OLt, Some _ => false
  | OGt, Some Gt => true | OGt, Some _ => false
  | OLe, Some Gt => false | OLe, Some _ => true
  | OGe, Some Lt => false | OGe, Some _ => true
  end.

Lemma num_cmp_decide op x y : num_cmp op x y = decide op (f_order x y).
Proof.
  destruct x as [|a|m1 e1], y as [|b|m2 e2]; destruct op; cbn [num_cmp f_order decide feq flt negb orb];
    try reflexivity;
    try (destruct a; reflexivity); try (destruct b; reflexivity);
    try (destruct a, b; reflexivity).
  all: try (rewrite (fin_cmp_antisym m1 e1 m2 e2)); destruct (fin_cmp m1 e1 m2 e2); reflexivity.
Qed.

Lemma f_order_some x y : is_nan x = false -> is_nan y = false -> exists c, f_order x y = Some c.
Proof. destruct x, y; cbn; intros; try discriminate; eauto. Qed.

Lemma f_order_swap x y : f_order y x = option_map CompOpp (f_order x y).
Proof.
  destruct x as [|a|m1 e1], y as [|b|m2 e2]; cbn [f_order option_map]; try reflexivity.
  - destruct a, b; reflexivity.
  - destruct a; reflexivity.
  - destruct b; reflexivity.
  - rewrite (fin_cmp_antisym m1 e1 m2 e2). reflexivity.
Qed.

Lemma str_cmp_decide op a b : str_cmp op a b = decide op (Some (bytes_cmp a b)).
Proof. destruct op; cbn [str_cmp decide]; destruct (bytes_cmp a b); reflexivity. Qed.

(* ------------------------------------------------------------------ *)
(* the twelve sites                                                    *)
(* ------------------------------------------------------------------ *)

Lemma is_true_str_numeric v :
  is_true_str v = match numeric_operand v with Some x => (x, false) | None => (fzero, true) end.
Proof. destruct v as [|s|n|s]; cbn [is_true_str numeric_operand]; try reflexivity. destruct (parse_float s); reflexivity. Qed.

Definition rmap {A B} (f : A -> B) (r : res A) : res B :=
  match r with Ok a => Ok (f a) | Err m => Err m | Panic => Panic | Unmod => Unmod end.

Lemma twelve_sites_agree cf op l r :
  expr_site op cf l r = rmap boolean (spec_cmp cf op l r) /\
  jump_site op cf l r = spec_cmp cf op l r.
Proof.
  unfold spec_cmp.
  destruct op; cbn [expr_site jump_site];
    unfold site_Equals, site_NotEquals, site_Less, site_Greater, site_LessOrEqual, site_GreaterOrEqual,
           site_JumpEquals, site_JumpNotEquals, site_JumpLess, site_JumpGreater, site_JumpLessOrEqual,
           site_JumpGreaterOrEqual, to_string;
    rewrite !is_true_str_numeric;
    destruct (numeric_operand l) as [x|], (numeric_operand r) as [y|]; cbn [orb rmap];
    try (split; reflexivity);
    destruct (v_str cf l) as [sl| | |]; cbn [rbind rmap]; try (split; reflexivity);
    destruct (v_str cf r) as [sr| | |]; cbn [rbind rmap]; try (split; reflexivity);
    unfold s_eq, s_ne, s_lt, s_gt, s_le, s_ge, s_eq, s_gt, s_lt; cbn [str_cmp];
    destruct (bytes_cmp sl sr); split; reflexivity.
Qed.

(* ------------------------------------------------------------------ *)
(* comparison mode                                                     *)
(* ------------------------------------------------------------------ *)

Lemma numeric_operand_cases v :
  (exists x, numeric_operand v = Some x) <->
  (v = VNull \/ (exists n, v = VNum n) \/ (exists s f, v = VNumStr s /\ parse_float s = PFOk f)).
Proof.
  destruct v as [|s|n|s]; cbn [numeric_operand]; split.
  - intros _. left; reflexivity.
  - intros _. eauto.
  - intros [x Hx]. discriminate.
  - intros [H|[[n H]|[s' [f [H _]]]]]; discriminate.
  - intros _. right; left; eauto.
  - intros _. eauto.
  - intros [x Hx]. destruct (parse_float s) as [f| |] eqn:E; try discriminate. right; right; eauto.
  - intros [H|[[n H]|[s' [f [H Hp]]]]]; try discriminate. injection H as <-. rewrite Hp. eauto.
Qed.

(* the three-way outcome of a comparison of two values: numeric when both operands are
   numeric operands, else bytewise on the two string forms *)
Definition spec_order (cf : bytes) (l r : value) : res (option comparison) :=
  match numeric_operand l, numeric_operand r with
  | Some x, Some y => Ok (f_order x y)
  | _, _ => do sl <- v_str cf l; do sr <- v_str cf r; Ok (Some (bytes_cmp sl sr))
  end.

Lemma spec_cmp_order cf op l r : spec_cmp cf op l r = rmap (decide op) (spec_order cf l r).
Proof.
  unfold spec_cmp, spec_order.
  destruct (numeric_operand l) as [x|], (numeric_operand r) as [y|]; cbn [rmap];
    try (rewrite num_cmp_decide; reflexivity);
    destruct (v_str cf l) as [sl| | |]; cbn [rbind rmap]; try reflexivity;
    destruct (v_str cf r) as [sr| | |]; cbn [rbind rmap]; try reflexivity;
    rewrite str_cmp_decide; reflexivity.
Qed.

Lemma compare_mode cf op l r :
  (forall x y, numeric_operand l = Some x -> numeric_operand r = Some y ->
     jump_site op cf l r = Ok (num_cmp op x y)) /\
  (numeric_operand l = None \/ numeric_operand r = None ->
     jump_site op cf l r = do sl <- v_str cf l; do sr <- v_str cf r; Ok (str_cmp op sl sr)).
Proof.
  rewrite (proj2 (twelve_sites_agree cf op l r)). unfold spec_cmp. split.
  - intros x y -> ->. reflexivity.
  - intros [H|H]; rewrite H; [|destruct (numeric_operand l)]; reflexivity.
Qed.

(* a NaN takes part in the comparison as a number *)
Definition nan_operand (v : value) : Prop := numeric_operand v = Some FNaN.

Lemma spec_order_some cf l r o :
  ~ nan_operand l -> ~ nan_operand r -> spec_order cf l r = Ok o -> exists c, o = Some c.
Proof.
  unfold nan_operand, spec_order. intros Hl Hr.
  destruct (numeric_operand l) as [x|] eqn:El, (numeric_operand r) as [y|] eqn:Er.
  - intro H. injection H as <-. apply f_order_some.
    + destruct x; try reflexivity. congruence.
    + destruct y; try reflexivity. congruence.
  - destruct (v_str cf l); cbn [rbind]; try discriminate. destruct (v_str cf r); cbn [rbind]; try discriminate.
    intro H; injection H as <-; eauto.
  - destruct (v_str cf l); cbn [rbind]; try discriminate. destruct (v_str cf r); cbn [rbind]; try discriminate.
    intro H; injection H as <-; eauto.
  - destruct (v_str cf l); cbn [rbind]; try discriminate. destruct (v_str cf r); cbn [rbind]; try discriminate.
    intro H; injection H as <-; eauto.
Qed.

Lemma spec_order_swap cf l r o :
  spec_order cf l r = Ok o -> spec_order cf r l = Ok (option_map CompOpp o).
Proof.
  unfold spec_order.
  destruct (numeric_operand l) as [x|], (numeric_operand r) as [y|].
  - intro H; injection H as <-. rewrite f_order_swap. reflexivity.
  - destruct (v_str cf l) as [sl| | |]; cbn [rbind]; try discriminate.
    destruct (v_str cf r) as [sr| | |]; cbn [rbind]; try discriminate.
    intro H; injection H as <-. cbn [option_map]. rewrite (bytes_cmp_antisym sl sr). reflexivity.
  - destruct (v_str cf l) as [sl| | |]; cbn [rbind]; try discriminate.
    destruct (v_str cf r) as [sr| | |]; cbn [rbind]; try discriminate.
    intro H; injection H as <-. cbn [option_map]. rewrite (bytes_cmp_antisym sl sr). reflexivity.
  - destruct (v_str cf l) as [sl| | |]; cbn [rbind]; try discriminate.
    destruct (v_str cf r) as [sr| | |]; cbn [rbind]; try discriminate.
    intro H; injection H as <-. cbn [option_map]. rewrite (bytes_cmp_antisym sl sr). reflexivity.
Qed.

(* every site, as a function of the one outcome *)
Lemma site_outcome cf op l r o :
  spec_order cf l r = Ok o ->
  jump_site op cf l r = Ok (decide op o) /\ expr_site op cf l r = Ok (boolean (decide op o)).
Proof.
  intro H. destruct (twelve_sites_agree cf op l r) as [He Hj].
  rewrite He, Hj, spec_cmp_order, H. split; reflexivity.
Qed.

(* the consistency laws, on the sites themselves *)
Lemma ne_not_eq cf l r o :
  spec_order cf l r = Ok o ->
  exists b, jump_site OEq cf l r = Ok b /\ jump_site ONe cf l r = Ok (negb b).
Proof.
  intro H. exists (decide OEq o).
  rewrite (proj1 (site_outcome cf OEq l r o H)), (proj1 (site_outcome cf ONe l r o H)).
  split; [reflexivity|]. destruct o as [[]|]; reflexivity.
Qed.

Lemma lt_gt_swap cf l r o :
  spec_order cf l r = Ok o ->
  exists b, jump_site OLt cf l r = Ok b /\ jump_site OGt cf r l = Ok b.
Proof.
  intro H. exists (decide OLt o).
  rewrite (proj1 (site_outcome cf OLt l r o H)).
  rewrite (proj1 (site_outcome cf OGt r l _ (spec_order_swap cf l r o H))).
  split; [reflexivity|]. destruct o as [[]|]; reflexivity.
Qed.

Lemma trichotomy cf l r o :
  ~ nan_operand l -> ~ nan_operand r -> spec_order cf l r = Ok o ->
  exists lt eq gt, jump_site OLt cf l r = Ok lt /\ jump_site OEq cf l r = Ok eq /\ jump_site OGt cf l r = Ok gt /\
    ((lt = true /\ eq = false /\ gt = false) \/ (lt = false /\ eq = true /\ gt = false) \/
     (lt = false /\ eq = false /\ gt = true)).
Proof.
  intros Hl Hr H. destruct (spec_order_some cf l r o Hl Hr H) as [c ->].
  exists (decide OLt (Some c)), (decide OEq (Some c)), (decide OGt (Some c)).
  rewrite (proj1 (site_outcome cf OLt l r _ H)), (proj1 (site_outcome cf OEq l r _ H)),
          (proj1 (site_outcome cf OGt l r _ H)).
  repeat split. destruct c; cbn [decide]; tauto.
Qed.

Lemma le_not_gt cf l r o :
  ~ nan_operand l -> ~ nan_operand r -> spec_order cf l r = Ok o ->
  exists b, jump_site OGt cf l r = Ok b /\ jump_site OLe cf l r = Ok (negb b).
Proof.
  intros Hl Hr H. destruct (spec_order_some cf l r o Hl Hr H) as [c ->].
  exists (decide OGt (Some c)).
  rewrite (proj1 (site_outcome cf OGt l r _ H)), (proj1 (site_outcome cf OLe l r _ H)).
  split; [reflexivity|]. destruct c; reflexivity.
Qed.

Lemma ge_not_lt cf l r o :
  ~ nan_operand l -> ~ nan_operand r -> spec_order cf l r = Ok o ->
  exists b, jump_site OLt cf l r = Ok b /\ jump_site OGe cf l r = Ok (negb b).
Proof.
  intros Hl Hr H. destruct (spec_order_some cf l r o Hl Hr H) as [c ->].
  exists (decide OLt (Some c)).
  rewrite (proj1 (site_outcome cf OLt l r _ H)), (proj1 (site_outcome cf OGe l r _ H)).
  split; [reflexivity|]. destruct c; reflexivity.
Qed.

(* a fact about the opcodes: the fused jump of the opposite operator is the negation exactly
   when no operand is NaN.  (It is why the compiler must not replace "not (a < b)" by the
   opposite jump: it does so only for == / !=, where the negation is exact even for NaN.) *)
Definition inv_op (op : cmpop) : cmpop :=
  match op with OEq => ONe | ONe => OEq | OLt => OGe | OGe => OLt | OGt => OLe | OLe => OGt end.

Lemma inverse_jump_is_negation cf op l r o :
  ~ nan_operand l -> ~ nan_operand r -> spec_order cf l r = Ok o ->
  exists b, jump_site op cf l r = Ok b /\ jump_site (inv_op op) cf l r = Ok (negb b).
Proof.
  intros Hl Hr H. destruct (spec_order_some cf l r o Hl Hr H) as [c ->].
  exists (decide op (Some c)).
  rewrite (proj1 (site_outcome cf op l r _ H)), (proj1 (site_outcome cf (inv_op op) l r _ H)).
  split; [reflexivity|]. destruct op, c; reflexivity.
Qed.

(* what the compiler emits for a comparison in condition position, direct or inverted, enters
   the guarded code exactly when the comparison is true as an expression - NaN included *)
Lemma v_boolean_boolean b : v_boolean (boolean b) = b.
Proof. destruct b; reflexivity. Qed.

Lemma condition_forms_agree cf op l r :
  cond_direct op cf l r = spec_cmp cf op l r /\ cond_inverted op cf l r = spec_cmp cf op l r.
Proof.
  split; [exact (proj2 (twelve_sites_agree cf op l r))|].
  assert (Hord : forall op', expr_site op' cf l r = rmap boolean (spec_cmp cf op' l r) ->
            (do v <- expr_site op' cf l r; Ok (v_boolean v)) = spec_cmp cf op' l r).
  { intros op' ->. destruct (spec_cmp cf op' l r); cbn [rmap rbind]; try reflexivity.
    rewrite v_boolean_boolean. reflexivity. }
  destruct op; cbn [cond_inverted];
    try (apply Hord; exact (proj1 (twelve_sites_agree cf _ l r))).
  - change (site_JumpNotEquals cf l r) with (jump_site ONe cf l r).
    rewrite (proj2 (twelve_sites_agree cf ONe l r)), !spec_cmp_order.
    destruct (spec_order cf l r) as [o| | |]; cbn [rmap rbind]; try reflexivity.
    destruct o as [[]|]; reflexivity.
  - change (site_JumpEquals cf l r) with (jump_site OEq cf l r).
    rewrite (proj2 (twelve_sites_agree cf OEq l r)), !spec_cmp_order.
    destruct (spec_order cf l r) as [o| | |]; cbn [rmap rbind]; try reflexivity.
    destruct o as [[]|]; reflexivity.
Qed.
