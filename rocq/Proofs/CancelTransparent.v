(* C15 at program level: ExecuteContext with a context that is never cancelled (and a script
   that does not cancel it) returns what Execute returns and leaves the same interpreter state.
   Both are [execute_all]; they differ in the counter state only (checkCtx, ctxOps). *)
From Verif Require Import Lib.Base Model.Ast Model.Instr Model.Compiler Model.Prims Model.VM Model.Cancel
  Proofs.CodeAt Proofs.VMLemmas Proofs.Cancel Gen.Consts.

Set Implicit Arguments.

Section CancelTransparent.
  Variables value St err : Type.
  Variable P : prims value St err.
  Variable F : list cfunc.
  Variable cancel_req : St -> bool.
  Variable IO : ioprims value St err.
  Hypothesis never_req : forall s, cancel_req s = false.

  Notation run := (run P F).
  Notation run_ctx := (run_ctx P F cancel_req).
  Notation eval_pattern := (eval_pattern P F cancel_req).
  Notation match_pattern := (match_pattern P F cancel_req).
  Notation run_rules := (run_rules P F cancel_req IO).
  Notation exec_actions := (exec_actions P F cancel_req IO).
  Notation execute_all := (execute_all P F cancel_req IO).
  Notation mstate := (mstate value St).
  Notation cres := (cres value St err).

  (* the same answer from two silent counter states *)
  Definition same {A : Type} (f : cstate -> A * cstate) (cs cs0 : cstate) : Prop :=
    exists a cs' cs0', f cs = (a, cs') /\ f cs0 = (a, cs0') /\ silent cs' /\ silent cs0'.

  Lemma run_ctx_same k C ip stk m cs cs0 :
    silent cs -> silent cs0 -> same (run_ctx k C ip stk m) cs cs0.
  Proof.
    intros Hs Hs0.
    destruct (run_ctx_silent value St err P F cancel_req never_req k C ip stk m cs Hs) as (cs' & E & Hs').
    destruct (run_ctx_silent value St err P F cancel_req never_req k C ip stk m cs0 Hs0) as (cs0' & E0 & Hs0').
    exists (CRes (run k C ip stk m)), cs', cs0'. auto.
  Qed.

  Lemma eval_pattern_same f pat stk m cs cs0 :
    silent cs -> silent cs0 -> same (eval_pattern f pat stk m) cs cs0.
  Proof.
    intros Hs Hs0. destruct (run_ctx_same f pat 0 stk m Hs Hs0) as (a & cs' & cs0' & E & E0 & Hs' & Hs0').
    unfold same, Cancel.eval_pattern. rewrite E, E0.
    destruct a as [r|mb]; [destruct r as [stk' m'|v stk' m'|stk' m'|x0 m'| |]; [destruct stk'| | |destruct x0| |]|];
      do 3 eexists; repeat split; eauto.
  Qed.

  Lemma match_pattern_same f pats ir stk m cs cs0 :
    silent cs -> silent cs0 -> same (match_pattern f pats ir stk m) cs cs0.
  Proof.
    intros Hs Hs0. unfold same, Cancel.match_pattern.
    destruct pats as [|p0 [|p1 [|p2 ps]]].
    - do 3 eexists; repeat split; eauto.
    - destruct (eval_pattern_same f p0 stk m Hs Hs0) as (a & cs' & cs0' & E & E0 & Hs' & Hs0').
      rewrite E, E0. destruct a; do 3 eexists; repeat split; eauto.
    - assert (Hst : same (fun c => if ir then (POk true stk m, c) else eval_pattern f p0 stk m c) cs cs0).
      { destruct ir; [unfold same; do 3 eexists; repeat split; eauto|apply eval_pattern_same; assumption]. }
      destruct Hst as (a & cs' & cs0' & E & E0 & Hs' & Hs0'). cbv beta in E, E0. rewrite E, E0.
      destruct a as [b stk' m'|fl stk' m'|r]; [|do 3 eexists; repeat split; eauto|do 3 eexists; repeat split; eauto].
      destruct b; [|do 3 eexists; repeat split; eauto].
      destruct (eval_pattern_same f p1 stk' m' Hs' Hs0') as (a1 & cs1 & cs01 & E1 & E01 & Hs1 & Hs01).
      rewrite E1, E01. destruct a1; do 3 eexists; repeat split; eauto.
    - do 3 eexists; repeat split; eauto.
  Qed.

  Lemma run_rules_same f : forall acts inr stk m cs cs0,
    silent cs -> silent cs0 -> same (run_rules f acts inr stk m) cs cs0.
  Proof.
    induction acts as [|[pats body] rest IH]; intros inr stk m cs cs0 Hs Hs0.
    - unfold same. cbn. do 3 eexists; repeat split; eauto.
    - unfold same. cbn [Cancel.run_rules].
      destruct inr as [|ir inr0]; [do 3 eexists; repeat split; eauto|].
      destruct (match_pattern_same f pats ir stk m Hs Hs0) as (a & cs1 & cs01 & E & E0 & Hs1 & Hs01).
      rewrite E, E0.
      destruct a as [matched ir' stk1 m1|fl ir' stk1 m1|r];
        [|destruct fl; do 3 eexists; repeat split; eauto|do 3 eexists; repeat split; eauto].
      assert (Hgo : forall stk2 m2 c c0, silent c -> silent c0 ->
                same (fun c => let '(o, inr'', cs3) := run_rules f rest inr0 stk2 m2 c in (o, ir' :: inr'', cs3)) c c0).
      { intros stk2 m2 c c0 Hc Hc0.
        destruct (IH inr0 stk2 m2 c c0 Hc Hc0) as ([o inr2] & c' & c0' & Er & Er0 & Hc' & Hc0').
        unfold same. rewrite Er, Er0. do 3 eexists; repeat split; eauto. }
      destruct matched; [|apply (Hgo stk1 m1); assumption].
      assert (Hprint : same (fun c =>
                match io_print_line IO (ms m1) with
                | (s, EOk _) => let '(o, inr'', cs3) := run_rules f rest inr0 stk1 (with_ms m1 s) c in (o, ir' :: inr'', cs3)
                | (s, EErr e) => (LStop (CRes (VAbort (XError e) (with_ms m1 s))), ir' :: inr0, c)
                end) cs1 cs01).
      { destruct (io_print_line IO (ms m1)) as [s [u|e]].
        - apply (Hgo stk1 (with_ms m1 s)); assumption.
        - unfold same. do 3 eexists; repeat split; eauto. }
      destruct body as [[|i b]|]; [exact Hprint| |exact Hprint].
      destruct (run_ctx_same f (i :: b) 0 stk1 m1 Hs1 Hs01) as (x & cs2 & cs02 & Eb & Eb0 & Hs2 & Hs02).
      rewrite Eb, Eb0.
      destruct x as [r|mb]; [|do 3 eexists; repeat split; eauto].
      destruct r as [stk2 m2|v stk2 m2|stk2 m2|x0 m2| |]; try (do 3 eexists; repeat split; eauto; fail).
      + apply (Hgo stk2 m2); assumption.
      + destruct x0; do 3 eexists; repeat split; eauto.
  Qed.

  Lemma exec_actions_same f : forall n acts inr stk m cs cs0,
    silent cs -> silent cs0 -> same (exec_actions n f acts inr stk m) cs cs0.
  Proof.
    induction n as [|n IH]; intros acts inr stk m cs cs0 Hs Hs0.
    - unfold same. cbn. do 3 eexists; repeat split; eauto.
    - unfold same. cbn [Cancel.exec_actions].
      destruct (poll_silent cs Hs) as (c1 & Ep & Hc1). destruct (poll_silent cs0 Hs0) as (c01 & Ep0 & Hc01).
      rewrite Ep, Ep0.
      pose proof (tick_silent c1 Hc1) as Ht. pose proof (tick_silent c01 Hc01) as Ht0.
      clear Hs Hs0. remember (tick c1) as cs2 eqn:E2. remember (tick c01) as cs02 eqn:E02.
      clear E2 E02 Ep Ep0 Hc1 Hc01 c1 c01. rename Ht into Hs. rename Ht0 into Hs0.
      destruct (io_next_line IO (ms m)) as [s [[line|]|e]]; try (do 3 eexists; repeat split; eauto; fail).
      destruct (run_rules_same f acts inr stk (with_ms m (io_set_record IO s line)) Hs Hs0)
        as ([o inr'] & cs1 & cs01 & Er & Er0 & Hs1 & Hs01).
      rewrite Er, Er0.
      destruct o as [stk' m'|stk' m'|r].
      + apply IH; assumption.
      + apply IH; assumption.
      + do 3 eexists; repeat split; eauto.
  Qed.

  Lemma ctx_now_silent cs : silent cs -> ctx_now cs = false.
  Proof.
    intros [H|H]; unfold ctx_now, closed; rewrite H; [reflexivity|]. apply andb_false_r.
  Qed.

  Lemma classify_silent (r : cres) cs cs0 : silent cs -> silent cs0 -> classify r cs = classify r cs0.
  Proof.
    intros Hs Hs0. destruct r as [r|mb]; [|reflexivity].
    destruct r as [stk m|v stk m|stk m|x0 m| |]; cbn [classify];
      rewrite ?(ctx_now_silent Hs), ?(ctx_now_silent Hs0); try reflexivity.
  Qed.

  Theorem execute_all_same fuel cp m0 cs cs0 :
    silent cs -> silent cs0 -> same (execute_all fuel cp m0) cs cs0.
  Proof.
    intros Hs Hs0. unfold same, Cancel.execute_all.
    destruct (run_ctx_same fuel (c_begin cp) 0 [] m0 Hs Hs0) as (rb & cs1 & cs01 & Eb & Eb0 & Hs1 & Hs01).
    rewrite Eb, Eb0. rewrite (classify_silent rb Hs1 Hs01).
    assert (Hend : forall stk m c c0, silent c -> silent c0 ->
              same (fun c => let '(re, cs3) := run_ctx fuel (c_end cp) 0 stk m c in
                     match classify re cs3 with
                     | KFail r fin => (r, option_map (close IO) fin, cs3)
                     | KNil _ m3 | KExit m3 => (RStatus (io_exit_status IO (ms m3)), Some (close IO m3), cs3)
                     end) c c0).
    { intros stk m c c0 Hc Hc0.
      destruct (run_ctx_same fuel (c_end cp) 0 stk m Hc Hc0) as (re & c3 & c03 & Ee & Ee0 & Hc3 & Hc03).
      unfold same. rewrite Ee, Ee0. rewrite (classify_silent re Hc3 Hc03).
      destruct (classify re c03); do 3 eexists; repeat split; eauto. }
    destruct (classify rb cs01) as [stk m1|m1|r fin0].
    - destruct (c_actions cp) as [|a acts] eqn:Ea.
      + destruct (c_end cp) as [|i e] eqn:Ee; [do 3 eexists; repeat split; eauto|].
        destruct (exec_actions_same fuel fuel [] (repeat false (length (@nil (list code * option code)))) stk m1 Hs1 Hs01)
          as (ra & cs2 & cs02 & Ex & Ex0 & Hs2 & Hs02).
        rewrite Ex, Ex0. rewrite (classify_silent ra Hs2 Hs02).
        destruct (classify ra cs02); [apply Hend; assumption|apply Hend; assumption|do 3 eexists; repeat split; eauto].
      + destruct (exec_actions_same fuel fuel (a :: acts) (repeat false (length (a :: acts))) stk m1 Hs1 Hs01)
          as (ra & cs2 & cs02 & Ex & Ex0 & Hs2 & Hs02).
        rewrite Ex, Ex0. rewrite (classify_silent ra Hs2 Hs02).
        destruct (classify ra cs02); [apply Hend; assumption|apply Hend; assumption|do 3 eexists; repeat split; eauto].
    - destruct (c_actions cp) as [|a acts] eqn:Ea.
      + destruct (c_end cp) as [|i e] eqn:Ee; [do 3 eexists; repeat split; eauto|].
        apply Hend; assumption.
      + apply Hend; assumption.
    - do 3 eexists; repeat split; eauto.
  Qed.

  (* ExecuteContext with context.Background()/TODO() (cancellable = false) or with a context that is
     never cancelled (d = None) returns what Execute returns and leaves the same state *)
  Corollary execute_context_is_execute fuel cp m0 cancellable d stale :
    cancellable = false \/ d = None ->
    fst (execute_all fuel cp m0 (cs_execute_context cancellable d)) = fst (execute_all fuel cp m0 (cs_execute stale)).
  Proof.
    intros Hs.
    assert (H1 : silent (cs_execute_context cancellable d)) by (destruct Hs; [left|right]; assumption).
    assert (H2 : silent (cs_execute stale)) by (left; reflexivity).
    destruct (execute_all_same fuel cp m0 H1 H2) as (a & cs' & cs0' & E & E0 & _).
    rewrite E, E0. reflexivity.
  Qed.

  (* a call depends on its own context only: whatever counter state the previous call on the same
     Interpreter left behind, the call returns the same result and leaves the same state *)
  Theorem call_independent_of_previous fuel cp m0 prev1 prev2 c :
    fst (execute_all fuel cp m0 (call_cs prev1 c)) = fst (execute_all fuel cp m0 (call_cs prev2 c)).
  Proof.
    destruct c as [|b d]; [|reflexivity].
    assert (H1 : silent (call_cs prev1 CallExecute)) by (left; reflexivity).
    assert (H2 : silent (call_cs prev2 CallExecute)) by (left; reflexivity).
    destruct (execute_all_same fuel cp m0 H1 H2) as (a & cs' & cs0' & E & E0 & _).
    rewrite E, E0. reflexivity.
  Qed.

  (* hence a whole history of calls does not depend on the counter state it starts from, and every
     call of it is [execute_all] from the initial state of that call alone *)
  Theorem run_calls_independent_of_previous fuel cp reset : forall cs s prev1 prev2,
    run_calls P F cancel_req IO fuel cp reset s prev1 cs = run_calls P F cancel_req IO fuel cp reset s prev2 cs.
  Proof.
    induction cs as [|c t IH]; intros s prev1 prev2; [reflexivity|].
    cbn [Cancel.run_calls].
    pose proof (call_independent_of_previous fuel cp {| ms := reset s; frame := []; depth := 0 |} prev1 prev2 c) as H.
    destruct (execute_all fuel cp {| ms := reset s; frame := []; depth := 0 |} (call_cs prev1 c)) as [[r1 f1] c1].
    destruct (execute_all fuel cp {| ms := reset s; frame := []; depth := 0 |} (call_cs prev2 c)) as [[r2 f2] c2].
    cbn [fst] in H. inversion H; subst. f_equal.
    destruct f2 as [s'|]; [apply IH|reflexivity].
  Qed.

  (* closeAll is deferred: it has run whenever the call returns *)
  Theorem execute_all_closes fuel cp m0 cs x fin cs' :
    execute_all fuel cp m0 cs = (x, fin, cs') ->
    x <> RStuck -> x <> RFuel -> exists m : mstate, fin = Some (io_close_all IO (ms m)).
  Proof.
    clear never_req.
    intros H Hns Hnf. unfold Cancel.execute_all in H.
    assert (Hcl : forall (r : cres) c (x : xres value St err) fin,
              match classify r c with
              | KFail r0 fin0 => r0 = x /\ option_map (close IO) fin0 = fin
              | _ => False end -> x <> RStuck -> x <> RFuel -> exists m : mstate, fin = Some (io_close_all IO (ms m))).
    { intros r c x1 fin1 Hc H1 H2. destruct r as [r|mb].
      - destruct r as [stk m|v stk m|stk m|x0 m| |]; cbn [classify] in Hc; try contradiction;
          try (destruct Hc as [Hx Hf]; subst; cbn; eexists; reflexivity);
          try (destruct Hc as [Hx Hf]; congruence).
        destruct x0; try contradiction; destruct Hc as [Hx Hf]; subst; cbn; eexists; reflexivity.
      - cbn [classify] in Hc. destruct Hc as [Hx Hf]; subst. cbn. eexists; reflexivity. }
    assert (Hend : forall stk m c,
              (let '(re, cs3) := run_ctx fuel (c_end cp) 0 stk m c in
               match classify re cs3 with
               | KFail r fin => (r, option_map (close IO) fin, cs3)
               | KNil _ m3 | KExit m3 => (RStatus (io_exit_status IO (ms m3)), Some (close IO m3), cs3)
               end) = (x, fin, cs') -> exists m : mstate, fin = Some (io_close_all IO (ms m))).
    { intros stk m c E. destruct (run_ctx fuel (c_end cp) 0 stk m c) as [re c3].
      destruct (classify re c3) eqn:Ec; inversion E; subst; try (eexists; reflexivity).
      eapply (Hcl re cs'); [rewrite Ec; split; reflexivity|assumption|assumption]. }
    destruct (run_ctx fuel (c_begin cp) 0 [] m0 cs) as [rb cs1].
    destruct (classify rb cs1) as [stk m1|m1|r fin0] eqn:Ecb.
    - destruct (c_actions cp) as [|a acts].
      + destruct (c_end cp) as [|i e] eqn:Ee; [inversion H; subst; eexists; reflexivity|].
        destruct (exec_actions fuel fuel [] (repeat false (length (@nil (list code * option code)))) stk m1 cs1) as [ra cs2].
        destruct (classify ra cs2) eqn:Eca; [eapply Hend; exact H|eapply Hend; exact H|].
        inversion H; subst. eapply (Hcl ra cs'); [rewrite Eca; split; reflexivity|assumption|assumption].
      + destruct (exec_actions fuel fuel (a :: acts) (repeat false (length (a :: acts))) stk m1 cs1) as [ra cs2].
        destruct (classify ra cs2) eqn:Eca; [eapply Hend; exact H|eapply Hend; exact H|].
        inversion H; subst. eapply (Hcl ra cs'); [rewrite Eca; split; reflexivity|assumption|assumption].
    - destruct (c_actions cp) as [|a acts].
      + destruct (c_end cp) as [|i e] eqn:Ee; [inversion H; subst; eexists; reflexivity|].
        eapply Hend; exact H.
      + eapply Hend; exact H.
    - inversion H; subst. eapply (Hcl rb cs'); [rewrite Ecb; split; reflexivity|assumption|assumption].
  Qed.

End CancelTransparent.
