(* C09: the modelled parseFmtTypes on literal text and on a conversion
   specification written by [render]: translated bytes, argument types and the
   recorded offsets of '*' precisions. *)
From Verif Require Import Lib.Base Lib.Dyadic Lib.Utf8 Model.Printf
  Proofs.PrintfSpec Proofs.PrintfBase Proofs.PrintfInt Proofs.PrintfDir.

Definition prepend (l : bytes) (tys : list ty) (sts : list Z) (r : res pres) : res pres :=
  match r with
  | Ok (o, ts, st) => Ok (l ++ o, tys ++ ts, sts ++ st)
  | Err m => Err m | Panic => Panic | Unmod => Unmod
  end.

Lemma cons_out_prepend c tys sts r : cons_out c tys sts r = prepend [c] tys sts r.
Proof. destruct r as [[[o ts] st]| | |]; reflexivity. Qed.

Lemma prepend_prepend l1 t1 s1 l2 t2 s2 r :
  prepend l1 t1 s1 (prepend l2 t2 s2 r) = prepend (l1 ++ l2) (t1 ++ t2) (s1 ++ s2) r.
Proof. destruct r as [[[o ts] st]| | |]; cbn [prepend]; try reflexivity. rewrite <- ?app_assoc. reflexivity. Qed.

Lemma prepend_nil r : prepend [] [] [] r = r.
Proof. destruct r as [[[o ts] st]| | |]; reflexivity. Qed.

Lemma is_flagch_flag c : is_flagch c = is_flag c.
Proof.
  unfold is_flagch, is_flag.
  destruct (c =? 32), (c =? 45), (c =? 43), (c =? 35), (c =? 48); reflexivity.
Qed.

Ltac zl := repeat first [rewrite zlen_cons | rewrite zlen_app | rewrite zlen_nil].
Ltac pfin := f_equal; try (f_equal; zl; lia).
Ltac fin := cbn [app]; rewrite <- ?app_assoc; cbn [app]; pfin.

(* ---- literal text ---- *)
Lemma pft_lit s : forall pos, no_pct s = true -> pft PLit pos s = Ok (s, [], []).
Proof.
  induction s as [|c t IH]; intros pos H; [reflexivity|].
  cbn [no_pct forallb] in H. apply andb_true_iff in H as [Hc Ht]. apply negb_true_iff in Hc.
  cbn [pft]. rewrite Hc, (IH _ Ht). reflexivity.
Qed.

Lemma pft_lit_app pre : forall pos s, no_pct pre = true ->
  pft PLit pos (pre ++ s) = prepend pre [] [] (pft PLit (pos + zlen pre) s).
Proof.
  induction pre as [|c t IH]; intros pos s H.
  - cbn [app]. rewrite zlen_nil, Z.add_0_r, prepend_nil. reflexivity.
  - cbn [no_pct forallb] in H. apply andb_true_iff in H as [Hc Ht]. apply negb_true_iff in Hc.
    cbn [app pft]. rewrite Hc, (IH _ _ Ht). rewrite cons_out_prepend, prepend_prepend.
    rewrite zlen_cons. replace (pos + 1 + zlen t) with (pos + (1 + zlen t)) by lia. reflexivity.
Qed.

(* ---- flags, digits ---- *)
Lemma pft_flags fl : forall pos R, forallb is_flag fl = true ->
  pft PFlags pos (fl ++ R) = prepend fl [] [] (pft PFlags (pos + zlen fl) R).
Proof.
  induction fl as [|c t IH]; intros pos R H.
  - cbn [app]. rewrite zlen_nil, Z.add_0_r, prepend_nil. reflexivity.
  - cbn [forallb] in H. apply andb_true_iff in H as [Hc Ht]. rewrite <- is_flagch_flag in Hc.
    cbn [app pft]. rewrite Hc, (IH _ _ Ht). rewrite cons_out_prepend, prepend_prepend.
    rewrite zlen_cons. replace (pos + 1 + zlen t) with (pos + (1 + zlen t)) by lia. reflexivity.
Qed.

Lemma pft_pct_flags pos s : (match s with c :: _ => (c =? 37) = false | [] => True end) ->
  pft PPct pos s = pft PFlags pos s.
Proof. destruct s as [|c t]; intros H; [reflexivity|]. cbn [pft]. rewrite H. reflexivity. Qed.

Lemma pft_width_digits ds : forall pos R, forallb is_dig ds = true ->
  pft PWidth pos (ds ++ R) = prepend ds [] [] (pft PWidth (pos + zlen ds) R).
Proof.
  induction ds as [|c t IH]; intros pos R H.
  - cbn [app]. rewrite zlen_nil, Z.add_0_r, prepend_nil. reflexivity.
  - cbn [forallb] in H. apply andb_true_iff in H as [Hc Ht]. change (is_dig c) with (is_digit c) in Hc.
    cbn [app pft]. rewrite Hc, (IH _ _ Ht). rewrite cons_out_prepend, prepend_prepend.
    rewrite zlen_cons. replace (pos + 1 + zlen t) with (pos + (1 + zlen t)) by lia. reflexivity.
Qed.

Lemma pft_prec_digits ds : forall pos R, forallb is_dig ds = true ->
  pft PPrec pos (ds ++ R) = prepend ds [] [] (pft PPrec (pos + zlen ds) R).
Proof.
  induction ds as [|c t IH]; intros pos R H.
  - cbn [app]. rewrite zlen_nil, Z.add_0_r, prepend_nil. reflexivity.
  - cbn [forallb] in H. apply andb_true_iff in H as [Hc Ht]. change (is_dig c) with (is_digit c) in Hc.
    cbn [app pft]. rewrite Hc, (IH _ _ Ht). rewrite cons_out_prepend, prepend_prepend.
    rewrite zlen_cons. replace (pos + 1 + zlen t) with (pos + (1 + zlen t)) by lia. reflexivity.
Qed.

(* ---- the character at which the specification ends ---- *)
Definition is_g (cv : conv) : bool := match cv with Cg | CG => true | _ => false end.
(* g and G without a precision get C's default precision *)
Definition ins (cv : conv) (hp : bool) : bytes := if is_g cv && negb hp then [46; 54] else [].

(* in mode m the byte c is taken as the conversion character *)
Definition is_verb_pos (m : pmode) (c : Z) : bool :=
  match m with
  | PLit => false
  | PPct => negb (c =? 37) && negb (is_flagch c) && negb (c =? 42) && negb (is_digit c) && negb (c =? 46)
  | PFlags => negb (is_flagch c) && negb (c =? 42) && negb (is_digit c) && negb (c =? 46)
  | PWidth => negb (is_digit c) && negb (c =? 46)
  | PWidthDone => negb (c =? 46)
  | PDot => negb (c =? 42) && negb (is_digit c)
  | PPrec => negb (is_digit c)
  | PPrecDone => true
  end.

Lemma pft_at_verb m pos c R : is_verb_pos m c = true ->
  pft m pos (c :: R)
  = match verb_info c with
    | Some (c', t') =>
        if ((c' =? 103) || (c' =? 71)) && negb (has_prec m)
        then prepend [46; 54; c'] [t'] [] (pft PLit (pos + 3) R)
        else prepend [c'] [t'] [] (pft PLit (pos + 1) R)
    | None => Err (err_invalid c)
    end.
Proof.
  intros H.
  assert (V : forall c' t', cons_out 46 [] [] (cons_out 54 [] [] (cons_out c' [t'] [] (pft PLit (pos + 3) R)))
                            = prepend [46; 54; c'] [t'] [] (pft PLit (pos + 3) R)).
  { intros. rewrite !cons_out_prepend, !prepend_prepend. reflexivity. }
  destruct m; cbn [is_verb_pos] in H; try discriminate; cbn [pft];
    repeat (apply andb_true_iff in H as [H ?]);
    repeat match goal with Hx : negb _ = true |- _ => apply negb_true_iff in Hx; rewrite ?Hx end;
    destruct (verb_info c) as [[c' t']|]; try reflexivity;
    destruct (((c' =? 103) || (c' =? 71)) && negb _); rewrite ?V, ?cons_out_prepend; reflexivity.
Qed.

Lemma conv_byte_verb_pos m cv : m <> PLit -> is_verb_pos m (conv_byte cv) = true.
Proof. intros H. destruct m; try congruence; destruct cv; reflexivity. Qed.

Lemma pft_verb m pos cv R : m <> PLit ->
  pft m pos (conv_byte cv :: R)
  = prepend (ins cv (has_prec m) ++ [go_conv_byte cv]) [conv_ty cv] []
      (pft PLit (pos + zlen (ins cv (has_prec m) ++ [go_conv_byte cv])) R).
Proof.
  intros Hm. rewrite (pft_at_verb m pos _ R (conv_byte_verb_pos m cv Hm)). rewrite verb_info_conv.
  unfold ins. destruct cv; cbn [go_conv_byte is_g Z.eqb Pos.eqb orb andb]; try reflexivity;
    destruct (has_prec m); reflexivity.
Qed.

(* ---- flags, width, precision: what is consumed, and the mode afterwards ---- *)
Definition has_p (p : pr) : bool := match p with PrNone => false | _ => true end.
Definition p_tys (p : pr) : list ty := match p with PrStar => [TyP] | _ => [] end.
Definition p_stars (p : pr) (pos : Z) : list Z := match p with PrStar => [pos] | _ => [] end.
Definition wf_p (p : pr) : bool := match p with PrLit ds => forallb is_dig ds | _ => true end.
Definition w_tys (w : wd) : list ty := match w with WStar => [TyD] | _ => [] end.
Definition wf_w (w : wd) : bool :=
  match w with WLit (c :: ds) => is_dig c && negb (c =? 48) && forallb is_dig ds | WLit [] => false | _ => true end.

Definition mode_w (w : wd) : pmode := match w with WNone => PFlags | WLit _ => PWidth | WStar => PWidthDone end.
Definition mode_wp (w : wd) (p : pr) : pmode :=
  match p with PrNone => mode_w w | PrLit [] => PDot | PrLit _ => PPrec | PrStar => PPrecDone end.

Lemma has_prec_mode w p : has_prec (mode_wp w p) = has_p p.
Proof. destruct p as [|[|c t]|]; try reflexivity. destruct w; reflexivity. Qed.

Lemma is_dig_facts c : is_dig c = true -> (c =? 42) = false /\ (c =? 46) = false /\ (c =? 37) = false.
Proof.
  unfold is_dig. intros H. apply andb_true_iff in H as [A B]. apply Z.leb_le in A, B.
  repeat split; apply Z.eqb_neq; lia.
Qed.

Lemma pft_prec_part w pos p X : wf_p p = true ->
  pft (mode_w w) pos (render_p p ++ X)
  = prepend (render_p p) (p_tys p) (p_stars p pos) (pft (mode_wp w p) (pos + zlen (render_p p)) X).
Proof.
  intros Hwf. destruct p as [|ds|]; cbn [render_p p_tys p_stars app mode_wp].
  - rewrite zlen_nil, Z.add_0_r, prepend_nil. reflexivity.
  - assert (E : pft (mode_w w) pos (46 :: ds ++ X) = cons_out 46 [] [] (pft PDot (pos + 1) (ds ++ X)))
      by (destruct w; reflexivity).
    rewrite E. clear E. rewrite cons_out_prepend.
    destruct ds as [|c0 t0].
    + cbn [app]. pfin.
    + cbn [wf_p forallb] in Hwf. apply andb_true_iff in Hwf as [Hc0 Ht0].
      destruct (is_dig_facts c0 Hc0) as (N42 & _ & _). change (is_dig c0) with (is_digit c0) in Hc0.
      cbn [app pft]. rewrite N42, Hc0. rewrite cons_out_prepend. rewrite (pft_prec_digits t0 _ _ Ht0).
      rewrite !prepend_prepend. cbn [app]. pfin.
  - assert (E : pft (mode_w w) pos (46 :: 42 :: X)
                = cons_out 46 [] [] (cons_out 42 [TyP] [pos + 1 - 1] (pft PPrecDone (pos + 1 + 1) X)))
      by (destruct w; reflexivity).
    rewrite E. clear E. rewrite !cons_out_prepend, !prepend_prepend.
    replace (pos + 1 - 1) with pos by lia. cbn [app]. pfin.
Qed.

Lemma pft_width_part pos w X : wf_w w = true ->
  pft PFlags pos (render_w w ++ X)
  = prepend (render_w w) (w_tys w) [] (pft (mode_w w) (pos + zlen (render_w w)) X).
Proof.
  intros Hw. destruct w as [|ds|]; cbn [render_w w_tys app mode_w].
  - rewrite zlen_nil, Z.add_0_r, prepend_nil. reflexivity.
  - destruct ds as [|c0 t0]; [discriminate|]. cbn [wf_w] in Hw.
    apply andb_true_iff in Hw as [Hw Ht0]. apply andb_true_iff in Hw as [Hc0 N48]. apply negb_true_iff in N48.
    destruct (is_dig_facts c0 Hc0) as (N42 & N46 & N37).
    assert (Hfl : is_flagch c0 = false).
    { rewrite is_flagch_flag. apply is_dig_not_flag; [exact Hc0 | apply Z.eqb_neq; exact N48]. }
    change (is_dig c0) with (is_digit c0) in Hc0.
    cbn [app pft]. rewrite Hfl, N42, Hc0. rewrite cons_out_prepend.
    rewrite (pft_width_digits t0 _ _ Ht0). rewrite !prepend_prepend. cbn [app]. pfin.
  - assert (E : pft PFlags pos (42 :: X) = cons_out 42 [TyD] [] (pft PWidthDone (pos + 1) X)) by reflexivity.
    rewrite E. rewrite cons_out_prepend. pfin.
Qed.

(* flags ++ width ++ precision, whatever follows *)
Definition spec_text (fl : bytes) (w : wd) (p : pr) : bytes := fl ++ render_w w ++ render_p p.

Theorem pft_spec pos fl w p X : forallb is_flag fl = true -> wf_w w = true -> wf_p p = true ->
  pft PFlags pos (spec_text fl w p ++ X)
  = prepend (spec_text fl w p) (w_tys w ++ p_tys p) (p_stars p (pos + zlen fl + zlen (render_w w)))
      (pft (mode_wp w p) (pos + zlen (spec_text fl w p)) X).
Proof.
  intros Hfl Hw Hp. unfold spec_text. rewrite <- !app_assoc.
  rewrite (pft_flags _ _ _ Hfl). rewrite (pft_width_part _ _ _ Hw). rewrite (pft_prec_part _ _ _ _ Hp).
  rewrite !prepend_prepend. cbn [app]. rewrite <- ?app_assoc. pfin.
Qed.

(* the first byte of a specification (or of what follows an empty one) is not a second '%' *)
Lemma spec_head fl w p c X : forallb is_flag fl = true -> wf_w w = true -> wf_p p = true ->
  (fl = [] -> w = WNone -> p = PrNone -> (c =? 37) = false) ->
  match spec_text fl w p ++ c :: X with c0 :: _ => (c0 =? 37) = false | [] => True end.
Proof.
  intros Hfl Hw Hp Hc. unfold spec_text. destruct fl as [|f t].
  - cbn [app]. destruct w as [|ds|]; cbn [render_w app].
    + destruct p; cbn [render_p app]; try reflexivity. apply Hc; reflexivity.
    + destruct ds as [|c0 t0]; [discriminate|]. cbn [wf_w] in Hw.
      apply andb_true_iff in Hw as [Hw _]. apply andb_true_iff in Hw as [Hc0 _].
      cbn [app]. apply (is_dig_facts c0 Hc0).
    + reflexivity.
  - cbn [app forallb] in *. apply andb_true_iff in Hfl as [Hf _]. unfold is_flag in Hf.
    repeat (apply orb_true_iff in Hf as [Hf|Hf]); apply Z.eqb_eq in Hf; subst f; reflexivity.
Qed.

(* ---- a whole conversion specification, after its '%' ---- *)
Definition go_tail (d : dir) : bytes :=
  d_flags d ++ render_w (d_width d) ++ render_p (d_prec d) ++ ins (d_conv d) (has_p (d_prec d)) ++ [go_conv_byte (d_conv d)].
Definition dir_tys (d : dir) : list ty := w_tys (d_width d) ++ p_tys (d_prec d).
Definition dir_stars (d : dir) (pos : Z) : list Z :=
  p_stars (d_prec d) (pos + zlen (d_flags d) + zlen (render_w (d_width d))).

Lemma wf_dir_parts d : wf_dir d = true ->
  forallb is_flag (d_flags d) = true /\ wf_w (d_width d) = true /\ wf_p (d_prec d) = true.
Proof.
  unfold wf_dir. intros H. apply andb_true_iff in H as [H Hp]. apply andb_true_iff in H as [Hf Hw].
  repeat split; assumption.
Qed.

Theorem pft_dir pos d R : wf_dir d = true ->
  pft PPct pos (tail_of d (conv_byte (d_conv d)) ++ R)
  = prepend (go_tail d) (dir_tys d ++ [conv_ty (d_conv d)]) (dir_stars d pos)
      (pft PLit (pos + zlen (go_tail d)) R).
Proof.
  intros Hwf. destruct (wf_dir_parts d Hwf) as (Hfl & Hw & Hp).
  unfold tail_of, go_tail, dir_tys, dir_stars.
  assert (E : (d_flags d ++ render_w (d_width d) ++ render_p (d_prec d) ++ [conv_byte (d_conv d)]) ++ R
              = spec_text (d_flags d) (d_width d) (d_prec d) ++ conv_byte (d_conv d) :: R).
  { unfold spec_text. rewrite <- !app_assoc. reflexivity. }
  rewrite E. clear E.
  rewrite pft_pct_flags by (apply spec_head; try assumption; intros; destruct (d_conv d); reflexivity).
  rewrite (pft_spec _ _ _ _ _ Hfl Hw Hp).
  rewrite pft_verb by (destruct (d_prec d) as [|[|c t]|]; try discriminate; destruct (d_width d); discriminate).
  rewrite has_prec_mode. rewrite prepend_prepend. unfold spec_text.
  rewrite <- !app_assoc. rewrite app_nil_r. pfin.
Qed.
