(* C19 after the repair of F-C19-1/1b/2 and F-C19-3: the implementation sorts the keys
   of every map it iterates in an order-sensitive place, i.e. it is C16's generic
   resolver run with the oracle [sorting pi].
   (1) the resolver depends on its oracle only through the oracle's answers;
   (2) [sorting pi] answers like [name_order_oracle] whatever permutation oracle [pi] is;
   hence the WHOLE result of resolving - verdict, error, tables - is the same for
   any two map iteration orders: the full statement, no guard.
   (3) [sorting pi] is itself a permutation oracle, so every theorem of C16 applies
   to the implementation.
   (4) nativeFuncNames, filled from the native entries only, does not depend on the
   order of the map either. *)
From Verif Require Import Lib.Base Model.Resolver Model.Determinism Proofs.Resolver Proofs.ResolverExact
  Proofs.ResolverNoPanic Proofs.ResolverFlat Proofs.ResolverLoop Proofs.DeterminismSort Proofs.DeterminismPerm Proofs.Determinism.
From Coq Require Import Permutation.
Open Scope Z_scope.

(* ---------- (1) extensionality in the oracle ------------------------------------------ *)

Section Ext.
Variables pi pi' : oracle.
Hypothesis Hext : forall k l, pi k l = pi' k l.
Variable g : graph.

Lemma visit_ext fuel : forall n ts, visit fuel pi g n ts = visit fuel pi' g n ts.
Proof.
  induction fuel as [|fuel IH]; intros n ts; cbn [visit]; [reflexivity|].
  destruct (mem n (t_perm ts)); [reflexivity|]. destruct (mem n (t_temp ts)); [reflexivity|].
  rewrite <- Hext.
  match goal with
  | |- match ?L1 ?ms ?t1 with _ => _ end = match ?L2 ?ms ?t1 with _ => _ end =>
      assert (Hl : forall l a, L1 l a = L2 l a)
  end.
  { induction l as [|m r IHr]; intros a; [reflexivity|].
    rewrite IH. destruct (visit fuel pi' g m a); [apply IHr | reflexivity]. }
  rewrite Hl. reflexivity.
Qed.

Lemma topo_loop_ext fuel vfuel : forall ts, topo_loop fuel vfuel pi g ts = topo_loop fuel vfuel pi' g ts.
Proof.
  induction fuel as [|fuel IH]; intros ts; cbn [topo_loop].
  - reflexivity.
  - destruct (t_unmarked ts); [reflexivity|]. rewrite <- Hext, visit_ext.
    match goal with |- match ?x with _ => _ end = _ => destruct x; [apply IH | reflexivity] end.
Qed.

Lemma topo_sort_ext : topo_sort pi g = topo_sort pi' g.
Proof.
  unfold topo_sort. destruct g as [|e r] eqn:Eg; [reflexivity|]. rewrite <- Eg.
  rewrite <- Hext, topo_loop_ext. reflexivity.
Qed.

End Ext.

Lemma resolve_cut_ext cut pi pi' P :
  (forall k l, pi k l = pi' k l) -> resolve_cut cut pi P = resolve_cut cut pi' P.
Proof.
  intros Hext. unfold resolve_cut, ordered_funcs. rewrite (topo_sort_ext pi pi' Hext).
  destruct (first_dup [] (fnames P)); [reflexivity|].
  destruct (topo_sort pi' (call_graph P)) as [[sorted ctr]|]; [|reflexivity]. rewrite Hext. reflexivity.
Qed.

(* ---------- (2) sorting forgets the order the map delivered ------------------------------- *)

Lemma sorting_answers pi : perm_oracle pi -> forall k l, sorting pi k l = name_order_oracle k l.
Proof. intros Hpi k l. unfold sorting, name_order_oracle. apply sort_names_canonical. apply Hpi. Qed.

(* PARSING IS DETERMINISTIC - the full statement: the complete result (verdict, error,
   types, indexes) is the same for any two map iteration orders, for every program *)
Theorem parse_deterministic cut pi pi' P :
  perm_oracle pi -> perm_oracle pi' ->
  resolve_cut cut (sorting pi) P = resolve_cut cut (sorting pi') P.
Proof.
  intros Hpi Hpi'. apply resolve_cut_ext. intros k l.
  rewrite (sorting_answers pi Hpi), (sorting_answers pi' Hpi'). reflexivity.
Qed.

Theorem impl_is_sorted_order cut pi P :
  perm_oracle pi -> resolve_cut cut (sorting pi) P = resolve_cut cut name_order_oracle P.
Proof. intros Hpi. apply resolve_cut_ext. apply sorting_answers. exact Hpi. Qed.

Lemma same_result_refl r : same_result r r.
Proof. destruct r as [F|e| |]; cbn [same_result]; auto. split; [reflexivity|]. split; reflexivity. Qed.

(* ---------- (3) the implementation is an instance of C16's model -------------------------- *)

Lemma sorting_perm pi : perm_oracle pi -> perm_oracle (sorting pi).
Proof.
  intros Hpi k l. unfold sorting. eapply Permutation_trans; [apply sort_names_perm | apply Hpi].
Qed.

Lemma name_order_oracle_perm_c19 : perm_oracle name_order_oracle.
Proof. intros k l. apply sort_names_perm. Qed.

(* ---------- (4) the function names kept for the disassembler --------------------------------- *)

Lemma index_of_inj a b l : forall s i, index_of a l s = Some i -> index_of b l s = Some i -> a = b.
Proof.
  induction l as [|x r IH]; intros s i Ha Hb; cbn [index_of] in *; [discriminate|].
  destruct (neqb x a) eqn:Ea; destruct (neqb x b) eqn:Eb.
  - apply neqb_eq in Ea, Eb. congruence.
  - injection Ha as <-. exfalso. clear -Hb. assert (G : forall l s j, index_of b l s = Some j -> s <= j).
    { induction l as [|y l IHl]; intros s0 j H; cbn [index_of] in H; [discriminate|].
      destruct (neqb y b); [injection H as <-; lia | apply IHl in H; lia]. }
    apply G in Hb. lia.
  - injection Hb as <-. exfalso. clear -Ha. assert (G : forall l s j, index_of a l s = Some j -> s <= j).
    { induction l as [|y l IHl]; intros s0 j H; cbn [index_of] in H; [discriminate|].
      destruct (neqb y a); [injection H as <-; lia | apply IHl in H; lia]. }
    apply G in Ha. lia.
  - eapply IH; eassumption.
Qed.

Lemma shown_hit_unique P i n n' : shown_hit P i n = true -> shown_hit P i n' = true -> n = n'.
Proof.
  unfold shown_hit, func_info. intros H H'.
  destruct (find_func P n) as [[j fd]|]; [cbn in H; discriminate|].
  destruct (find_func P n') as [[j' fd']|]; [cbn in H'; discriminate|].
  destruct (index_of n _ 0) as [a|] eqn:Ea; [|discriminate].
  destruct (index_of n' _ 0) as [b|] eqn:Eb; [|discriminate].
  cbn [fi_native fi_index andb] in H, H'. apply Z.eqb_eq in H, H'. subst a b.
  eapply index_of_inj; eassumption.
Qed.

(* DISASSEMBLY NAMES - the full statement *)
Theorem name_shown_deterministic P order order' i :
  Permutation order order' -> name_shown P order i = name_shown P order' i.
Proof.
  intros Hp. apply name_shown_deterministic_partial; [exact Hp|].
  intros n n' _ _. apply shown_hit_unique.
Qed.

(* ---------- (5) the resolver as it is now: no cut-off, no guard ------------------------------ *)

(* C16 (Proofs/ResolverLoop.v): [resolve pi P = resolve_cut (pass_fuel P) pi P] and
   [resolve pi P <> RErr ETooManyIter]; everything above and in Proofs/Determinism.v is
   stated for every constant limit, so it carries over with the guards about the
   cut-off discharged. *)

Theorem impl_parse_deterministic pi pi' P :
  perm_oracle pi -> perm_oracle pi' -> resolve (sorting pi) P = resolve (sorting pi') P.
Proof. intros Hpi Hpi'. rewrite !resolve_is_cut. apply parse_deterministic; assumption. Qed.

Theorem impl_is_name_order pi P :
  perm_oracle pi -> resolve (sorting pi) P = resolve name_order_oracle P.
Proof. intros Hpi. rewrite !resolve_is_cut. apply impl_is_sorted_order. exact Hpi. Qed.

Theorem impl_accepted_deterministic pi pi' P F F' :
  perm_oracle pi -> perm_oracle pi' -> names_ok P ->
  resolve pi P = ROk F -> resolve pi' P = ROk F' -> final_equiv F F'.
Proof. rewrite !resolve_is_cut. apply accepted_deterministic. Qed.

Theorem impl_accepted_wf0 pi P F :
  perm_oracle pi -> names_ok P -> resolve pi P = ROk F -> wf0 P = true.
Proof. rewrite resolve_is_cut. apply accepted_wf0. Qed.

(* VERDICT under an arbitrary walk order: no guard any more *)
Theorem impl_verdict_any_order pi pi' P :
  perm_oracle pi -> perm_oracle pi' -> names_ok P ->
  ((exists F, resolve pi P = ROk F) <-> (exists F', resolve pi' P = ROk F')).
Proof.
  intros Hpi Hpi' Hne.
  pose proof (resolve_never_gives_up pi P) as Hn. pose proof (resolve_never_gives_up pi' P) as Hn'.
  rewrite resolve_is_cut in *. rewrite (resolve_is_cut pi' P) in *.
  apply verdict_deterministic_partial; assumption.
Qed.

Theorem impl_outcome_enumerated pi P :
  perm_oracle pi -> names_ok P -> In (resolve pi P) (order_outcomes (pass_fuel P) P).
Proof. rewrite resolve_is_cut. apply outcome_enumerated. Qed.

Theorem impl_error_any_order pi pi' P e e' :
  perm_oracle pi -> perm_oracle pi' -> names_ok P -> one_error (pass_fuel P) P = true ->
  resolve pi P = RErr e -> resolve pi' P = RErr e' -> e = e'.
Proof. rewrite !resolve_is_cut. apply error_deterministic_partial. Qed.

Theorem impl_single_function pi pi' P :
  perm_oracle pi -> perm_oracle pi' -> names_ok P -> (length (p_funcs P) <= 1)%nat ->
  resolve pi P = resolve pi' P.
Proof. rewrite !resolve_is_cut. apply single_function_deterministic. Qed.

Theorem impl_result_any_order pi pi' P :
  perm_oracle pi -> perm_oracle pi' -> names_ok P -> one_error (pass_fuel P) P = true ->
  same_result (resolve pi P) (resolve pi' P).
Proof.
  intros Hpi Hpi' Hne H1.
  pose proof (resolve_never_gives_up pi P) as Hn. pose proof (resolve_never_gives_up pi' P) as Hn'.
  rewrite resolve_is_cut in *. rewrite (resolve_is_cut pi' P) in *.
  apply parse_deterministic_partial; assumption.
Qed.
