(* C01: the compiler-correctness theorems, assembled from the simulation lemmas. *)
From Verif Require Import Lib.Base Lib.Dyadic Model.Ast Model.Instr Model.Compiler Model.Prims Model.VM Model.AstSem
  Proofs.CodeAt Proofs.VMLemmas Proofs.Reach Proofs.PrimsOk Proofs.CompLemmas Proofs.SimDefs Proofs.SimExpr
  Proofs.AstSemEq Proofs.SimAux Proofs.SimStmt.

Section CompilerCorrect.
  Variables value St err : Type.
  Variable P : prims value St err.
  Variable FN : list func.
  Hypothesis OK : prims_ok P.
  Hypothesis CI : concat_indep P.

  Notation F := (F FN).
  Notation Sim := (Sim P FN).
  Notation mstate := (mstate value St).

  Lemma sim_0 : Sim 0.
  Proof.
    repeat split; intro; intros; try exact I.
  Qed.

  Theorem sim_all : forall n, Sim n.
  Proof.
    induction n as [n IH] using (well_founded_induction Wf_nat.lt_wf).
    destruct n as [|n]; [apply sim_0|].
    assert (HS : forall k, (k <= n)%nat -> Sim k) by (intros k Hk; apply IH; lia).
    pose proof (HS n (Nat.le_refl n)) as HSn.
    split; [apply sim_expr_S; assumption|].
    split; [apply sim_exprs_S; assumption|].
    split; [apply sim_args_S; assumption|].
    split; [apply sim_index_S; assumption|].
    split; [apply sim_lref_S; assumption|].
    split; [apply sim_cond_S; assumption|].
    split; [apply sim_cat_S; assumption|].
    split; [apply sim_stmt_S; assumption|].
    split; [apply sim_stmts_S; assumption|].
    split; [apply sim_loop_S; assumption|].
    split; [apply sim_looptop_S; assumption|].
    apply sim_items_S; assumption.
  Qed.

  (* what the VM returns for an outcome of the syntax-tree semantics *)
  Definition vres_of_x (stk : list value) (r : xres value St err) : option (vres value St err) :=
    match r with
    | RNormal m' => Some (VDone stk m')
    | RReturn v m' => Some (VRet v stk m')
    | RAbort x m' => Some (VAbort x m')
    | _ => None
    end.

  Definition vres_of_e (stk : list value) (r : eres value St err value) : option (vres value St err) :=
    match r with
    | ENormal v m' => Some (VDone (v :: stk) m')
    | EAbort x m' => Some (VAbort x m')
    | _ => None
    end.

  (* a compiled expression (patterns are compiled this way) *)
  Theorem compile_expr_correct n e m stk r :
    vres_of_e stk (eval P FN n e m) = Some r ->
    exists k0, forall k, (k0 <= k)%nat -> run P F k (comp_expr e) 0 stk m = r.
  Proof.
    intros Hr. destruct (sim_all n) as (SE & _).
    pose proof (SE e m (comp_expr e) 0 stk (code_at_whole _)) as H.
    destruct (eval P FN n e m) as [v m'|x m'| |]; cbn [vres_of_e] in Hr; try discriminate; injection Hr as <-.
    - assert (Hs : stops P F (comp_expr e) 0 stk m (VDone (v :: stk) m')).
      { eapply reaches_stops; [exact H|apply stops_end; lia|discriminate]. }
      destruct Hs as [k0 Hk0]. exists k0. intros k Hk. eapply run_mono; [exact Hk0|discriminate|exact Hk].
    - destruct H as [k0 Hk0]. exists k0. intros k Hk. eapply run_mono; [exact Hk0|discriminate|exact Hk].
  Qed.

  (* a compiled statement list: BEGIN / END blocks, action bodies, function bodies *)
  Theorem compile_block_correct n ss m stk r :
    vres_of_x stk (exec_stmts P FN n false ss m) = Some r ->
    exists k0, forall k, (k0 <= k)%nat -> run P F k (comp_block ss) 0 stk m = r.
  Proof.
    intros Hr. destruct (sim_all n) as (_ & _ & _ & _ & _ & _ & _ & _ & SSs & _).
    pose proof (SSs ss LNone m (comp_block ss) 0 stk (code_at_whole _)) as H.
    unfold stmt_post in H. cbn [inl] in H.
    destruct (exec_stmts P FN n false ss m) as [m'|m'|m'|v m'|x m'| |]; cbn [vres_of_x] in Hr; try discriminate; injection Hr as <-.
    - assert (Hs : stops P F (comp_block ss) 0 stk m (VDone stk m')).
      { eapply reaches_stops; [exact H|apply stops_end; unfold comp_block; lia|discriminate]. }
      destruct Hs as [k0 Hk0]. exists k0. intros k Hk. eapply run_mono; [exact Hk0|discriminate|exact Hk].
    - destruct H as [k0 Hk0]. exists k0. intros k Hk. eapply run_mono; [exact Hk0|discriminate|exact Hk].
    - destruct H as [k0 Hk0]. exists k0. intros k Hk. eapply run_mono; [exact Hk0|discriminate|exact Hk].
  Qed.

  (* the stack discipline: a statement list that completes leaves the stack as it found it *)
  Corollary stack_balanced n ss m m' stk :
    exec_stmts P FN n false ss m = RNormal m' ->
    exists k, run P F k (comp_block ss) 0 stk m = VDone stk m'.
  Proof.
    intros H. destruct (compile_block_correct n ss m stk (VDone stk m')) as [k0 Hk0]; [rewrite H; reflexivity|].
    exists k0. apply Hk0. lia.
  Qed.

  (* whenever the syntax tree has a meaning, the compiled code does not get stuck *)
  Corollary compiled_never_stuck n ss m stk r :
    vres_of_x stk (exec_stmts P FN n false ss m) = Some r ->
    forall k, run P F k (comp_block ss) 0 stk m = VStuck -> False.
  Proof.
    intros Hr k Hk. destruct (compile_block_correct n ss m stk r Hr) as [k0 Hk0].
    assert (Hmono : run P F (Nat.max k k0) (comp_block ss) 0 stk m = VStuck).
    { eapply run_mono; [exact Hk|discriminate|apply Nat.le_max_l]. }
    rewrite (Hk0 _ (Nat.le_max_r k k0)) in Hmono.
    destruct (exec_stmts P FN n false ss m); cbn [vres_of_x] in Hr; try discriminate; injection Hr as <-; discriminate.
  Qed.

  (* two spellings with the same syntax-tree meaning have compiled code with the same behaviour *)
  Corollary spellings_agree n1 n2 ss1 ss2 m stk r :
    vres_of_x stk (exec_stmts P FN n1 false ss1 m) = Some r ->
    vres_of_x stk (exec_stmts P FN n2 false ss2 m) = Some r ->
    exists k0, forall k, (k0 <= k)%nat ->
      run P F k (comp_block ss1) 0 stk m = r /\ run P F k (comp_block ss2) 0 stk m = r.
  Proof.
    intros H1 H2.
    destruct (compile_block_correct n1 ss1 m stk r H1) as [k1 Hk1].
    destruct (compile_block_correct n2 ss2 m stk r H2) as [k2 Hk2].
    exists (Nat.max k1 k2). intros k Hk. split; [apply Hk1|apply Hk2]; lia.
  Qed.

End CompilerCorrect.

Arguments vres_of_x {value St err}.
Arguments vres_of_e {value St err}.
