(* C02: stack, frame and addressing lemmas for the verifier soundness proof; the effect of
   every straight-line instruction on the depth of the stack ([exec_simple_ok]). *)
From Coq Require Import ZifyBool.
From Verif Require Import Lib.Base Model.Ast Model.Instr Model.Compiler Model.Prims Model.VM
  Model.Verifier Proofs.CodeAt Gen.Consts.

(* ---- addressing ------------------------------------------------------------- *)

Lemma fetch_range C : forall ip i, fetch C ip = Some i -> 0 <= ip < csize C.
Proof.
  induction C as [|j C IH]; intros ip i H; cbn [fetch] in H; [discriminate|].
  cbn [csize]. pose proof (isize_pos j). pose proof (csize_nonneg C).
  destruct (ip =? 0) eqn:E0; [lia|].
  destruct (ip <? isize j) eqn:E1; [discriminate|].
  apply IH in H. lia.
Qed.

Lemma fetch_boundaries C : forall base ip i,
  fetch C ip = Some i -> In (base + ip, i) (boundaries C base).
Proof.
  induction C as [|j C IH]; intros base ip i H; cbn [fetch] in H; [discriminate|].
  cbn [boundaries]. destruct (ip =? 0) eqn:E0.
  - injection H as <-. left. f_equal. lia.
  - destruct (ip <? isize j) eqn:E1; [discriminate|]. right.
    replace (base + ip) with (base + isize j + (ip - isize j)) by lia. apply IH. exact H.
Qed.

Lemma is_target_cases C ip :
  is_target C ip = true -> ip = csize C \/ exists i, fetch C ip = Some i.
Proof.
  unfold is_target. intros H. destruct (ip =? csize C) eqn:E; [left; lia|].
  right. destruct (fetch C ip) as [i|]; [eauto|discriminate].
Qed.

Lemma is_target_start C : is_target C 0 = true.
Proof.
  unfold is_target. destruct C as [|i C]; [reflexivity|].
  cbn [fetch]. rewrite Z.eqb_refl. apply orb_true_r.
Qed.

Lemma look_is_true a ip d : look_is a ip d = true -> look a ip = Some d.
Proof. unfold look_is. destruct (look a ip) as [d'|]; [|discriminate]. intros H. f_equal. lia. Qed.

Lemma tgt_true C a ip d : tgt C a ip d = true -> is_target C ip = true /\ look a ip = Some d.
Proof.
  unfold tgt. intros H. apply andb_true_iff in H as [H1 H2]. split; [exact H1|apply look_is_true; exact H2].
Qed.

Lemma nth_z_Some {A} (l : list A) i x : nth_z l i = Some x -> 0 <= i /\ nth_error l (Z.to_nat i) = Some x.
Proof. unfold nth_z. destruct (i <? 0) eqn:E; [discriminate|]. intros H. split; [lia|exact H]. Qed.

(* ---- frames and stacks ------------------------------------------------------- *)

Section Base.
  Variables value St err : Type.
  Variable P : prims value St err.

  Notation mstate := (mstate value St).

  Lemma set_nth_ok : forall (l : list value) n v, (n < length l)%nat ->
    exists l', set_nth l n v = Some l' /\ length l' = length l.
  Proof.
    induction l as [|x l IH]; intros n v H; cbn [length] in H; [lia|].
    destruct n as [|n]; cbn [set_nth].
    - eexists. split; [reflexivity|reflexivity].
    - destruct (IH n v ltac:(lia)) as (l' & E & L). rewrite E. eexists. split; [reflexivity|]. cbn [length]. lia.
  Qed.

  Lemma frame_get_ok (m : mstate) i : 0 <= i < zlen (frame m) -> exists v, frame_get m i = Some v.
  Proof.
    unfold frame_get, zlen. intros H. destruct (i <? 0) eqn:E; [lia|].
    destruct (nth_error (frame m) (Z.to_nat i)) as [v|] eqn:En; [eauto|].
    apply nth_error_None in En. lia.
  Qed.

  Lemma frame_set_ok (m : mstate) i v : 0 <= i < zlen (frame m) ->
    exists m', frame_set m i v = Some m' /\ zlen (frame m') = zlen (frame m) /\ depth m' = depth m.
  Proof.
    unfold frame_set, zlen. intros H. destruct (i <? 0) eqn:E; [lia|].
    destruct (set_nth_ok (frame m) (Z.to_nat i) v ltac:(lia)) as (l' & El & L).
    rewrite El. eexists. split; [reflexivity|]. cbn [frame depth]. rewrite L. split; reflexivity.
  Qed.

  Lemma pop_n_ok : forall n (stk acc : list value), Z.of_nat n <= zlen stk ->
    exists vs t, pop_n n stk acc = Some (vs, t) /\ zlen t = zlen stk - Z.of_nat n /\
                 zlen vs = zlen acc + Z.of_nat n.
  Proof.
    unfold zlen. induction n as [|n IH]; intros stk acc H; cbn [pop_n].
    - exists acc, stk. split; [reflexivity|]. lia.
    - destruct stk as [|v stk]; cbn [length] in *; [lia|].
      destruct (IH stk (v :: acc) ltac:(lia)) as (vs & t & E & L1 & L2).
      exists vs, t. split; [exact E|]. cbn [length] in L2. lia.
  Qed.

  Lemma pop_n_z n (stk : list value) : 0 <= n -> n <= zlen stk ->
    exists vs t, pop_n (Z.to_nat n) stk [] = Some (vs, t) /\ zlen t = zlen stk - n /\ zlen vs = n.
  Proof.
    intros H0 H. destruct (pop_n_ok (Z.to_nat n) stk [] ltac:(lia)) as (vs & t & E & L1 & L2).
    exists vs, t. split; [exact E|]. unfold zlen in *. cbn [length] in L2. lia.
  Qed.

  (* ---- variable writes -------------------------------------------------------- *)

  Definition wres_ok (fl dp : Z) (w : wres value St err) : Prop :=
    match w with
    | WOk m' => zlen (frame m') = fl /\ depth m' = dp
    | WErr _ _ => True
    | WStuck => False
    end.

  Lemma var_write_ok cx dp (m : mstate) sc i v :
    var_ok cx sc i = true -> zlen (frame m) = cx_nlocals cx -> depth m = dp ->
    wres_ok (cx_nlocals cx) dp (var_write P m sc i v).
  Proof.
    intros Hv Hm <-. destruct sc; cbn [var_write var_ok] in *.
    - unfold local_ok_idx in Hv.
      destruct (frame_set_ok m i v ltac:(lia)) as (m' & E & L & D). rewrite E. cbn [wres_ok]. split; lia.
    - destruct (p_set_special P (ms m) i v) as [s [u|e]]; cbn [wres_ok with_ms frame depth]; auto.
    - cbn [wres_ok with_ms frame depth]. auto.
  Qed.

  (* ---- straight-line instructions --------------------------------------------- *)

  (* what the verifier assumes about the CallBuiltin primitive: it takes and leaves the
     numbers of values that interp/vm.go callBuiltin takes and leaves *)
  Record prims_shape : Prop := {
    sh_arity : forall b, p_builtin_arity P b = builtin_arity b;
    sh_nres : forall b s vs s' rs, p_builtin P b s vs = (s', EOk rs) -> length rs = builtin_nres b
  }.

  Definition sres_ok (n fl dp : Z) (r : sres value St err) : Prop :=
    match r with
    | SOk stk' m' => zlen stk' = n /\ zlen (frame m') = fl /\ depth m' = dp
    | SErr _ _ => True
    | SStuck => False
    end.

  Lemma lift_w_ok n fl dp stk w : zlen stk = n -> wres_ok fl dp w -> sres_ok n fl dp (lift_w stk w).
  Proof. intros Hn Hw. destruct w; cbn [lift_w sres_ok wres_ok] in *; intuition. Qed.

  Lemma lift_unit_ok n fl dp stk (m : mstate) r : zlen stk = n -> zlen (frame m) = fl -> depth m = dp ->
    sres_ok n fl dp (lift_unit stk m r).
  Proof. intros Hn Hf Hd. destruct r as [s [u|e]]; cbn [lift_unit sres_ok with_ms frame depth]; auto. Qed.

  Lemma lift_val_ok n fl dp stk (m : mstate) r : 1 + zlen stk = n -> zlen (frame m) = fl -> depth m = dp ->
    sres_ok n fl dp (lift_val stk m r).
  Proof.
    intros Hn Hf Hd. destruct r as [s [u|e]]; cbn [lift_val sres_ok with_ms frame depth]; auto.
    rewrite zlen_cons. auto.
  Qed.

  Lemma do_getline_ok (m : mstate) r stk : redir_pops r <= zlen stk ->
    exists t res, do_getline P m r stk = Some (t, res) /\ zlen t = zlen stk - redir_pops r.
  Proof.
    intros H. destruct r; cbn [do_getline redir_pops] in *;
      try (destruct stk as [|v stk]; [rewrite zlen_nil in H; lia|]; rewrite zlen_cons;
           eexists _, _; split; [reflexivity|lia]).
    eexists _, _. split; [reflexivity|lia].
  Qed.

End Base.

Arguments wres_ok {value St err}.
Arguments sres_ok {value St err}.
Arguments prims_shape {value St err}.
