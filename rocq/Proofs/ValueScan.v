(* C05: the two string->number routines.  Lexical lemmas shared by the proofs about
   parseFloatPrefix (the scanner), strconv's readFloat and parseFloat. *)
From Verif Require Import Lib.Base Lib.Dyadic Lib.Utf8 Model.Value.

(* ------------------------------------------------------------------ *)
(* span                                                                *)
(* ------------------------------------------------------------------ *)

Definition stops (p : Z -> bool) (r : bytes) : Prop :=
  match r with c :: _ => p c = false | [] => True end.

Lemma span_spec p s :
  s = fst (span p s) ++ snd (span p s) /\ forallb p (fst (span p s)) = true /\ stops p (snd (span p s)).
Proof.
  induction s as [|c t IH]; cbn [span].
  - repeat split.
  - destruct (p c) eqn:E.
    + destruct (span p t) as [a b]. cbn [fst snd] in *. destruct IH as [H1 [H2 H3]].
      repeat split; [rewrite H1 at 1; reflexivity| cbn [forallb]; rewrite E, H2; reflexivity | exact H3].
    + cbn [fst snd app forallb stops]. repeat split. exact E.
Qed.

Lemma span_stop p a r : forallb p a = true -> stops p r -> span p (a ++ r) = (a, r).
Proof.
  induction a as [|c a IH]; cbn [app forallb]; intros Ha Hr.
  - destruct r as [|c r]; cbn [span]; [reflexivity|]. cbn [stops] in Hr. rewrite Hr. reflexivity.
  - apply andb_true_iff in Ha as [Hc Ha]. cbn [span]. rewrite Hc, (IH Ha Hr). reflexivity.
Qed.

Lemma span_eq p s a r : span p s = (a, r) -> s = a ++ r /\ forallb p a = true /\ stops p r.
Proof. intro H. pose proof (span_spec p s) as S. rewrite H in S. exact S. Qed.

(* appending after a non-empty remainder changes nothing *)
Lemma span_app_rest p s w : snd (span p s) <> [] -> span p (s ++ w) = (fst (span p s), snd (span p s) ++ w).
Proof.
  induction s as [|c t IH]; cbn [span]; intro H.
  - cbn in H. congruence.
  - cbn [app span]. destruct (p c) eqn:E.
    + destruct (span p t) as [a b] eqn:Et. cbn [fst snd] in *. rewrite (IH H). reflexivity.
    + reflexivity.
Qed.

Lemma stops_app p r w : r <> [] -> stops p r -> stops p (r ++ w).
Proof. destruct r; [congruence|]. cbn. auto. Qed.

Lemma forallb_app' {A} (p : A -> bool) a b : forallb p (a ++ b) = forallb p a && forallb p b.
Proof. induction a as [|x a IH]; cbn [app forallb]; [reflexivity|]. rewrite IH, andb_assoc. reflexivity. Qed.

Lemma contains_app x a b : contains x (a ++ b) = contains x a || contains x b.
Proof. induction a as [|c a IH]; cbn [app contains]; [reflexivity|]. rewrite IH, orb_assoc. reflexivity. Qed.

Lemma contains_false_forall x s : contains x s = false <-> forallb (fun c => negb (c =? x)) s = true.
Proof.
  induction s as [|c s IH]; cbn [contains forallb]; [tauto|].
  rewrite orb_false_iff, andb_true_iff, IH, negb_true_iff. tauto.
Qed.

(* ------------------------------------------------------------------ *)
(* character classes                                                   *)
(* ------------------------------------------------------------------ *)

Lemma lower_cases c : lower c = c \/ lower c = c + 32.
Proof. unfold lower. destruct (Z.testbit c 5); auto. Qed.

Lemma lower_is v c (lo : Z) :
  lo = v - 32 -> Z.testbit v 5 = true -> Z.testbit lo 5 = false ->
  (lower c =? v) = (c =? v) || (c =? lo).
Proof.
  intros -> Hv Hlo.
  destruct (Z.eqb_spec c v) as [->|N1].
  - unfold lower. rewrite Hv, Z.eqb_refl. reflexivity.
  - destruct (Z.eqb_spec c (v - 32)) as [->|N2].
    + unfold lower. rewrite Hlo. cbn [orb]. apply Z.eqb_eq. lia.
    + cbn [orb]. apply Z.eqb_neq. destruct (lower_cases c) as [H|H]; rewrite H; lia.
Qed.

Lemma lower_x c : (lower c =? 120) = (c =? 120) || (c =? 88).
Proof. apply lower_is; reflexivity. Qed.
Lemma lower_e c : (lower c =? 101) = (c =? 101) || (c =? 69).
Proof. apply lower_is; reflexivity. Qed.
Lemma lower_p c : (lower c =? 112) = (c =? 112) || (c =? 80).
Proof. apply lower_is; reflexivity. Qed.

Lemma is_hex_letter_spec c :
  is_hex_letter c = ((97 <=? c) && (c <=? 102)) || ((65 <=? c) && (c <=? 70)).
Proof.
  unfold is_hex_letter.
  destruct ((97 <=? c) && (c <=? 102)) eqn:A.
  - assert (c = 97 \/ c = 98 \/ c = 99 \/ c = 100 \/ c = 101 \/ c = 102) as H by lia.
    destruct H as [->|[->|[->|[->|[->| ->]]]]]; reflexivity.
  - destruct ((65 <=? c) && (c <=? 70)) eqn:B.
    + assert (c = 65 \/ c = 66 \/ c = 67 \/ c = 68 \/ c = 69 \/ c = 70) as H by lia.
      destruct H as [->|[->|[->|[->|[->| ->]]]]]; reflexivity.
    + cbn [orb]. destruct (lower_cases c) as [H|H]; rewrite H; lia.
Qed.

Lemma is_hex_digit_spec c : is_hex_digit c = is_digit c || is_hex_letter c.
Proof. unfold is_hex_digit. rewrite is_hex_letter_spec, orb_assoc. reflexivity. Qed.

(* the digit class of readFloat's mantissa loop *)
Definition mant_digit (hex : bool) (c : Z) : bool := is_digit c || (hex && is_hex_letter c).

Lemma mant_digit_dec c : mant_digit false c = is_digit c.
Proof. unfold mant_digit. cbn [andb]. apply orb_false_r. Qed.
Lemma mant_digit_hex c : mant_digit true c = is_hex_digit c.
Proof. unfold mant_digit. cbn [andb]. symmetry. apply is_hex_digit_spec. Qed.

Lemma mant_digit_not_special hex c : mant_digit hex c = true -> c <> 95 /\ c <> 46.
Proof.
  unfold mant_digit. rewrite is_hex_letter_spec. unfold is_digit. intro H. lia.
Qed.

(* ------------------------------------------------------------------ *)
(* mantissa lexing: digits, optional point, digits                     *)
(* ------------------------------------------------------------------ *)

Definition lex_mant (p : Z -> bool) (u : bytes) : bytes * bytes * bytes * bytes :=
  let '(d1, r1) := span p u in
  let '(dot, r2) := opt_dot r1 in
  let '(d2, r3) := span p r2 in
  (d1, dot, d2, r3).

Lemma opt_dot_spec r : r = fst (opt_dot r) ++ snd (opt_dot r) /\
  ((fst (opt_dot r) = [46]) \/ (fst (opt_dot r) = [] /\ stops (fun c => c =? 46) r)).
Proof.
  destruct r as [|c t]; cbn [opt_dot].
  - split; [reflexivity|right; split; [reflexivity|exact I]].
  - destruct (Z.eqb_spec c 46) as [->|N]; cbn [fst snd app].
    + split; [reflexivity|left; reflexivity].
    + split; [reflexivity|right; split; [reflexivity|]]. cbn [stops]. apply Z.eqb_neq. exact N.
Qed.

Lemma lex_mant_spec p u d1 dot d2 r3 :
  lex_mant p u = (d1, dot, d2, r3) ->
  u = d1 ++ dot ++ d2 ++ r3 /\ forallb p d1 = true /\ forallb p d2 = true /\
  (dot = [46] \/ dot = []) /\ stops p r3 /\
  (dot = [] -> d2 = [] /\ stops (fun c => c =? 46) r3).
Proof.
  unfold lex_mant. destruct (span p u) as [a r1] eqn:E1. destruct (opt_dot r1) as [dt r2] eqn:E2.
  destruct (span p r2) as [b r] eqn:E3. intro H. injection H as <- <- <- <-.
  pose proof (span_eq _ _ _ _ E1) as [H1 [H2 H3]]. pose proof (span_eq _ _ _ _ E3) as [H4 [H5 H6]].
  pose proof (opt_dot_spec r1) as [H7 H8]. rewrite E2 in H7, H8. cbn [fst snd] in H7, H8.
  split; [rewrite H1, H7, H4; reflexivity|]. split; [exact H2|]. split; [exact H5|].
  split; [destruct H8 as [H8|[H8 _]]; auto|]. split; [exact H6|].
  intro Hd. destruct H8 as [H8|[_ H8]]; [congruence|].
  subst dt. cbn [app] in H7. subst r1.
  (* r2 does not start with a p-character (end of the first span), so the second span is empty *)
  destruct r2 as [|c r2'].
  - cbn [span] in E3. injection E3 as <- <-. split; [reflexivity|exact I].
  - cbn [stops] in H3. cbn [span] in E3. rewrite H3 in E3. injection E3 as <- <-. split; [reflexivity|exact H8].
Qed.

(* appending text that starts with a non-digit, non-point byte after a fully lexed mantissa *)
Lemma lex_mant_app p u w d1 dot d2 r3 :
  p 46 = false ->
  lex_mant p u = (d1, dot, d2, r3) ->
  (r3 = [] -> stops p w /\ stops (fun c => c =? 46) w) ->
  lex_mant p (u ++ w) = (d1, dot, d2, r3 ++ w).
Proof.
  intros Hp46 H Hw. pose proof (lex_mant_spec p u d1 dot d2 r3 H) as [Hu [H1 [H2 [Hd [H3 H4]]]]].
  subst u. unfold lex_mant.
  assert (St : stops p (r3 ++ w) /\ (dot = [] -> stops (fun c => c =? 46) (r3 ++ w))).
  { destruct r3 as [|c r3'].
    - destruct (Hw eq_refl) as [Ha Hb]. cbn [app]. split; auto.
    - split; [exact H3|]. intro Hd0. destruct (H4 Hd0) as [_ Hs]. exact Hs. }
  destruct St as [St1 St2].
  destruct Hd as [-> | ->].
  - (* with a point *)
    rewrite <- !app_assoc.
    rewrite (span_stop p d1 ([46] ++ d2 ++ r3 ++ w) H1) by (cbn [app stops]; exact Hp46).
    cbn [app opt_dot]. rewrite Z.eqb_refl.
    rewrite (span_stop p d2 (r3 ++ w) H2 St1). reflexivity.
  - (* without: d2 = [] *)
    destruct (H4 eq_refl) as [-> _]. specialize (St2 eq_refl). cbn [app]. rewrite <- app_assoc.
    rewrite (span_stop p d1 (r3 ++ w) H1 St1).
    destruct (r3 ++ w) as [|c t] eqn:E.
    + reflexivity.
    + cbn [stops] in St1, St2. cbn [opt_dot]. rewrite St2. cbn [span]. rewrite St1. reflexivity.
Qed.

Lemma span_prefix p a r : forallb p a = true -> span p (a ++ r) = (a ++ fst (span p r), snd (span p r)).
Proof.
  induction a as [|c a IH]; cbn [app forallb]; intro Ha.
  - destruct (span p r); reflexivity.
  - apply andb_true_iff in Ha as [Hc Ha]. cbn [span]. rewrite Hc, (IH Ha). reflexivity.
Qed.

(* ------------------------------------------------------------------ *)
(* readFloat on underscore-free text                                   *)
(* ------------------------------------------------------------------ *)

Lemma rf_loop_run hex run : forall rest sd sg und nd dp digs,
  forallb (mant_digit hex) run = true ->
  exists nd' dp' digs', rf_loop hex (run ++ rest) sd sg und nd dp digs =
                        rf_loop hex rest sd (sg || negb (is_nil run)) und nd' dp' digs'.
Proof.
  induction run as [|c run IH]; intros rest sd sg und nd dp digs Hr.
  - exists nd, dp, digs. cbn [app is_nil negb]. rewrite orb_false_r. reflexivity.
  - cbn [forallb] in Hr. apply andb_true_iff in Hr as [Hc Hr].
    destruct (mant_digit_not_special hex c Hc) as [N95 N46].
    cbn [app rf_loop].
    replace (c =? 95) with false by (symmetry; apply Z.eqb_neq; exact N95).
    replace (c =? 46) with false by (symmetry; apply Z.eqb_neq; exact N46).
    cbn [is_nil negb]. rewrite orb_true_r.
    unfold mant_digit in Hc.
    destruct (is_digit c) eqn:Ed.
    + destruct ((c =? 48) && (nd =? 0)).
      * destruct (IH rest sd true und nd (dp - 1) digs Hr) as [a [b [d H]]]. exists a, b, d. rewrite H. reflexivity.
      * destruct (IH rest sd true und (nd + 1) dp ((c - 48) :: digs) Hr) as [a [b [d H]]]. exists a, b, d. rewrite H. reflexivity.
    + cbn [orb] in Hc. rewrite Hc.
      destruct (IH rest sd true und (nd + 1) dp ((lower c - 97 + 10) :: digs) Hr) as [a [b [d H]]].
      exists a, b, d. rewrite H. reflexivity.
Qed.

Lemma rf_loop_stop hex rest sd sg und nd dp digs :
  stops (mant_digit hex) rest -> stops (fun c => c =? 95) rest ->
  (sd = true \/ stops (fun c => c =? 46) rest) ->
  rf_loop hex rest sd sg und nd dp digs = ((sd, sg, und, nd, dp, digs), rest).
Proof.
  destruct rest as [|c t]; [reflexivity|]. cbn [stops]. intros Hm H95 H46.
  cbn [rf_loop]. rewrite H95.
  unfold mant_digit in Hm. apply orb_false_iff in Hm as [Hd Hh]. rewrite Hd, Hh.
  destruct (c =? 46) eqn:E; [|reflexivity].
  destruct H46 as [-> | H46]; [reflexivity|congruence].
Qed.

Lemma stops_no_underscore r : contains 95 r = false -> stops (fun c => c =? 95) r.
Proof. destruct r as [|c t]; cbn [contains stops]; [auto|]. intro H. apply orb_false_iff in H as [H _]. exact H. Qed.

Lemma rf_loop_lex hex u d1 dot d2 r3 :
  contains 95 u = false -> lex_mant (mant_digit hex) u = (d1, dot, d2, r3) ->
  exists nd dp digs, rf_loop hex u false false false 0 0 [] =
     ((negb (is_nil dot), negb (is_nil d1 && is_nil d2), false, nd, dp, digs), r3).
Proof.
  intros Hu Hl.
  pose proof (lex_mant_spec _ _ _ _ _ _ Hl) as [Eu [H1 [H2 [Hd [H3 H4]]]]].
  assert (H95 : stops (fun c => c =? 95) r3).
  { apply stops_no_underscore. rewrite Eu, !contains_app in Hu.
    apply orb_false_iff in Hu as [_ Hu]. apply orb_false_iff in Hu as [_ Hu]. apply orb_false_iff in Hu as [_ Hu]. exact Hu. }
  subst u.
  destruct (rf_loop_run hex d1 (dot ++ d2 ++ r3) false false false 0 0 [] H1) as [nd1 [dp1 [dg1 E1]]].
  rewrite E1. cbn [orb].
  destruct Hd as [-> | ->].
  - cbn [app rf_loop]. cbn [Z.eqb Pos.eqb].
    destruct (rf_loop_run hex d2 r3 true (negb (is_nil d1)) false nd1 nd1 dg1 H2) as [nd2 [dp2 [dg2 E2]]].
    rewrite E2. rewrite rf_loop_stop by (auto).
    exists nd2, dp2, dg2. cbn [is_nil negb]. f_equal. f_equal. f_equal. f_equal. f_equal.
    destruct d1, d2; reflexivity.
  - destruct (H4 eq_refl) as [-> H46]. cbn [app].
    rewrite rf_loop_stop by (auto).
    exists nd1, dp1, dg1. cbn [is_nil negb]. f_equal. f_equal. f_equal. f_equal. f_equal.
    destruct d1; reflexivity.
Qed.

Lemma rf_exp_digits_span s : forall e und,
  contains 95 s = false -> exists e', rf_exp_digits s e und = (e', und, snd (span is_digit s)).
Proof.
  induction s as [|c t IH]; intros e und H.
  - exists e. reflexivity.
  - cbn [contains] in H. apply orb_false_iff in H as [Hc Ht]. cbn [rf_exp_digits span]. rewrite Hc.
    destruct (is_digit c).
    + destruct (IH (if e <? 10000 then e * 10 + (c - 48) else e) und Ht) as [e' He]. exists e'. rewrite He.
      destruct (span is_digit t); reflexivity.
    + exists e. reflexivity.
Qed.

Definition hex_of (u : bytes) : bool := (2 <? zlen u) && has_hex_prefix u.
Definition body_of (u : bytes) : bytes := if hex_of u then zdrop 2 u else u.

Lemma zlen_ge3 {A} (a b c : A) r : (2 <? zlen (a :: b :: c :: r)) = true.
Proof. apply Z.ltb_lt. rewrite !zlen_cons. pose proof (zlen_nonneg r). lia. Qed.

Lemma zlen_ge3' {A} (a b c : A) r : (3 <=? zlen (a :: b :: c :: r)) = true.
Proof. apply Z.leb_le. rewrite !zlen_cons. pose proof (zlen_nonneg r). lia. Qed.

Lemma hex_split u :
  (match u with
   | a :: b :: ((_ :: _) as r) => if (a =? 48) && (lower b =? 120) then (true, r) else (false, u)
   | _ => (false, u)
   end) = (hex_of u, body_of u).
Proof.
  unfold body_of, hex_of.
  destruct u as [|a [|b [|c r]]]; try reflexivity.
  rewrite zlen_ge3. cbn [andb has_hex_prefix]. rewrite lower_x.
  destruct ((a =? 48) && ((b =? 120) || (b =? 88))); reflexivity.
Qed.

Lemma opt_sign_cons c t : opt_sign (c :: t) = if (c =? 43) || (c =? 45) then ([c], t) else ([], c :: t).
Proof. reflexivity. Qed.

Lemma contains_zdrop x n s : contains x s = false -> contains x (zdrop n s) = false.
Proof.
  unfold zdrop. generalize (Z.to_nat n) as k. intro k. revert s.
  induction k as [|k IH]; intros s H; [exact H|].
  destruct s as [|c t]; [reflexivity|]. cbn [skipn]. apply IH.
  cbn [contains] in H. apply orb_false_iff in H as [_ H]. exact H.
Qed.

(* what an underscore-free text accepted by readFloat looks like, in terms of the lexing
   functions the scanner uses *)
Lemma read_float_accept s d :
  contains 95 s = false -> read_float s = Some (d, []) ->
  exists sg u d1 dot d2 r3,
    s <> [] /\ opt_sign s = (sg, u) /\
    lex_mant (mant_digit (hex_of u)) (body_of u) = (d1, dot, d2, r3) /\
    is_nil d1 && is_nil d2 = false /\
    ((r3 = [] /\ hex_of u = false) \/
     (exists c es ed, r3 = c :: es ++ ed /\ (lower c =? (if hex_of u then 112 else 101)) = true /\
        opt_sign (es ++ ed) = (es, ed) /\ ed <> [] /\ forallb is_digit ed = true)).
Proof.
  intros Hus Hrf. destruct s as [|c0 t0]; [discriminate|].
  unfold read_float in Hrf.
  set (u := if (c0 =? 43) || (c0 =? 45) then t0 else c0 :: t0) in *.
  assert (Hos : opt_sign (c0 :: t0) = (if (c0 =? 43) || (c0 =? 45) then [c0] else [], u)).
  { rewrite opt_sign_cons. subst u. destruct ((c0 =? 43) || (c0 =? 45)); reflexivity. }
  assert (Huu : contains 95 u = false).
  { subst u. destruct ((c0 =? 43) || (c0 =? 45)); [|exact Hus].
    cbn [contains] in Hus. apply orb_false_iff in Hus as [_ H]. exact H. }
  rewrite hex_split in Hrf.
  assert (Hub : contains 95 (body_of u) = false).
  { unfold body_of. destruct (hex_of u); [apply contains_zdrop|]; exact Huu. }
  destruct (lex_mant (mant_digit (hex_of u)) (body_of u)) as [[[d1 dot] d2] r3] eqn:Hl.
  destruct (rf_loop_lex _ _ _ _ _ _ Hub Hl) as [nd [dp [digs Hloop]]].
  rewrite Hloop in Hrf.
  pose proof (lex_mant_spec _ _ _ _ _ _ Hl) as [Eb _].
  assert (H95 : contains 95 r3 = false).
  { rewrite Eb, !contains_app in Hub.
    apply orb_false_iff in Hub as [_ Hub]. apply orb_false_iff in Hub as [_ Hub].
    apply orb_false_iff in Hub as [_ Hub]. exact Hub. }
  destruct (is_nil d1 && is_nil d2) eqn:Hnil; [discriminate|]. cbn [negb andb] in Hrf.
  exists (if (c0 =? 43) || (c0 =? 45) then [c0] else []), u, d1, dot, d2, r3.
  split; [discriminate|]. split; [exact Hos|]. split; [exact Hl|]. split; [first [exact Hnil|reflexivity]|].
  destruct r3 as [|c r1].
  - left. destruct (hex_of u); [discriminate|]. split; reflexivity.
  - right.
    destruct (lower c =? (if hex_of u then 112 else 101)) eqn:Ec.
    + destruct r1 as [|c1 r2]; [discriminate|].
      cbn [contains] in H95. apply orb_false_iff in H95 as [_ H95].
      set (r3' := if (c1 =? 43) || (c1 =? 45) then r2 else c1 :: r2) in *.
      assert (H95' : contains 95 r3' = false).
      { subst r3'. destruct ((c1 =? 43) || (c1 =? 45)); [|exact H95].
        cbn [contains] in H95. apply orb_false_iff in H95 as [_ H]. exact H. }
      destruct r3' as [|c2 r4] eqn:Er3; [discriminate|].
      destruct (is_digit c2) eqn:Ed2; [|discriminate].
      destruct (rf_exp_digits_span (c2 :: r4) 0 false H95') as [e' He]. rewrite He in Hrf.
      cbn [andb] in Hrf. injection Hrf as _ Hrest.
      change (snd (span is_digit (c2 :: r4)) = []) in Hrest.
      pose proof (span_spec is_digit (c2 :: r4)) as [Hs1 [Hs2 _]]. rewrite Hrest, app_nil_r in Hs1.
      exists c, (if (c1 =? 43) || (c1 =? 45) then [c1] else []), (c2 :: r4).
      split; [|split; [exact Ec|split; [|split; [discriminate|rewrite Hs1; exact Hs2]]]].
      * f_equal. subst r3'. destruct ((c1 =? 43) || (c1 =? 45)); [rewrite <- Er3|rewrite Er3]; reflexivity.
      * subst r3'. destruct ((c1 =? 43) || (c1 =? 45)) eqn:Es.
        -- cbn [app]. rewrite opt_sign_cons, Es. reflexivity.
        -- cbn [app]. injection Er3 as <- <-. rewrite opt_sign_cons, Es. reflexivity.
    + exfalso. destruct (hex_of u); [discriminate|]. cbn [andb] in Hrf. discriminate.
Qed.

(* ------------------------------------------------------------------ *)
(* the scanner, restated over the lexing function                      *)
(* ------------------------------------------------------------------ *)

Lemma span_ext p q s : (forall c, p c = q c) -> span p s = span q s.
Proof. intro H. induction s as [|c t IH]; cbn [span]; [reflexivity|]. rewrite <- H, IH. reflexivity. Qed.

Lemma lex_mant_ext p q u : (forall c, p c = q c) -> lex_mant p u = lex_mant q u.
Proof.
  intro H. unfold lex_mant. rewrite (span_ext p q u H). destruct (span q u) as [d1 r1].
  destruct (opt_dot r1) as [dot r2]. rewrite (span_ext p q r2 H). reflexivity.
Qed.

Definition scan_dec (start : Z) (sg u : bytes) : pscan :=
  let '(d1, dot, d2, r3) := lex_mant is_digit u in
  if is_nil d1 && is_nil d2 then PSZero
  else PSNum start (sg ++ d1 ++ dot ++ d2 ++ scan_exp 101 69 r3) false.

Definition scan_hex' (start : Z) (sg pre r : bytes) : pscan :=
  let '(d1, dot, d2, r3) := lex_mant is_hex_digit r in
  if is_nil d1 && is_nil d2 then PSZero
  else PSNum start (sg ++ pre ++ d1 ++ dot ++ d2 ++ scan_exp 112 80 r3) (is_nil (scan_exp 112 80 r3)).

Lemma scan_hex_eq start sg pre r : scan_hex start sg pre r = scan_hex' start sg pre r.
Proof.
  unfold scan_hex, scan_hex', lex_mant.
  destruct (span is_hex_digit r) as [d1 r1]. destruct (opt_dot r1) as [dot r2].
  destruct (span is_hex_digit r2) as [d2 r3]. reflexivity.
Qed.

Definition scan_t (start : Z) (t : bytes) : pscan :=
  let '(sg, u) := opt_sign t in
  if (3 <=? zlen u) && has_nan_prefix u then PSNaN
  else if (3 <=? zlen u) && has_inf_prefix u then
    match t with c :: _ => PSInf (c =? 45) | [] => PSPanic end
  else if hex_of u then scan_hex' start sg (ztake 2 u) (zdrop 2 u)
  else scan_dec start sg u.

Lemma scan_prefix_eq s :
  scan_prefix s = scan_t (zlen (fst (span ascii_space s))) (snd (span ascii_space s)).
Proof.
  unfold scan_prefix, scan_t, scan_dec, hex_of, lex_mant.
  destruct (span ascii_space s) as [ws t]. cbn [fst snd].
  destruct (opt_sign t) as [sg u].
  destruct ((3 <=? zlen u) && has_nan_prefix u); [reflexivity|].
  destruct ((3 <=? zlen u) && has_inf_prefix u); [reflexivity|].
  destruct ((2 <? zlen u) && has_hex_prefix u); [apply scan_hex_eq|].
  destruct (span is_digit u) as [d1 r1]. destruct (opt_dot r1) as [dot r2].
  destruct (span is_digit r2) as [d2 r3]. reflexivity.
Qed.

(* ------------------------------------------------------------------ *)
(* the exponent part                                                   *)
(* ------------------------------------------------------------------ *)

Definition sign_str (sg : bytes) : Prop := sg = [] \/ sg = [43] \/ sg = [45].

(* c [sign] digits+ *)
Definition exponent (lo up : Z) (x : bytes) : Prop :=
  exists c es ed, x = c :: es ++ ed /\ (c = lo \/ c = up) /\ sign_str es /\ ed <> [] /\ forallb is_digit ed = true.

Lemma digit_not_sign c : is_digit c = true -> is_sign c = false.
Proof. unfold is_digit, is_sign. intro H. lia. Qed.

Lemma opt_sign_shape es ed tail :
  sign_str es -> ed <> [] -> forallb is_digit ed = true -> opt_sign (es ++ ed ++ tail) = (es, ed ++ tail).
Proof.
  intros Hes Hne Hd. destruct ed as [|d ed']; [congruence|].
  cbn [forallb] in Hd. apply andb_true_iff in Hd as [Hd _].
  destruct Hes as [-> | [-> | ->]]; cbn [app opt_sign]; try reflexivity.
  rewrite (digit_not_sign d Hd). reflexivity.
Qed.

Lemma opt_sign_inv s es ed : opt_sign s = (es, ed) -> s = es ++ ed /\ sign_str es.
Proof.
  destruct s as [|c t]; cbn [opt_sign].
  - intro H; injection H as <- <-. split; [reflexivity|left; reflexivity].
  - destruct (is_sign c) eqn:E; intro H; injection H as <- <-.
    + split; [reflexivity|]. unfold is_sign in E. apply orb_true_iff in E as [E|E]; apply Z.eqb_eq in E; subst;
        [right; left|right; right]; reflexivity.
    + split; [reflexivity|left; reflexivity].
Qed.

Lemma scan_exp_shape lo up c es ed tail :
  (c = lo \/ c = up) -> sign_str es -> ed <> [] -> forallb is_digit ed = true ->
  scan_exp lo up (c :: es ++ ed ++ tail) = c :: es ++ ed ++ fst (span is_digit tail).
Proof.
  intros Hc Hes Hne Hd. unfold scan_exp.
  replace ((c =? lo) || (c =? up)) with true
    by (symmetry; apply orb_true_iff; destruct Hc as [-> | ->]; [left|right]; apply Z.eqb_refl).
  rewrite (opt_sign_shape es ed tail Hes Hne Hd).
  rewrite (span_prefix is_digit ed tail Hd).
  destruct ed as [|d ed']; [congruence|]. cbn [app is_nil]. reflexivity.
Qed.

(* the text scan_exp consumes is a prefix of its input and is empty or an exponent *)
Lemma scan_exp_spec lo up r :
  (exists r', r = scan_exp lo up r ++ r') /\ (scan_exp lo up r = [] \/ exponent lo up (scan_exp lo up r)).
Proof.
  unfold scan_exp. destruct r as [|c r4]; [split; [exists []; reflexivity|left; reflexivity]|].
  destruct ((c =? lo) || (c =? up)) eqn:Ec; [|split; [eexists; reflexivity|left; reflexivity]].
  destruct (opt_sign r4) as [es r5] eqn:Es. destruct (span is_digit r5) as [ed r6] eqn:Ed.
  destruct (opt_sign_inv _ _ _ Es) as [-> Hes]. destruct (span_eq _ _ _ _ Ed) as [-> [Hd _]].
  destruct ed as [|d ed']; cbn [is_nil]; [split; [eexists; reflexivity|left; reflexivity]|].
  split.
  - exists r6. cbn [app]. rewrite <- !app_assoc. reflexivity.
  - right. exists c, es, (d :: ed'). split; [reflexivity|]. split.
    + apply orb_true_iff in Ec as [E|E]; apply Z.eqb_eq in E; auto.
    + split; [exact Hes|]. split; [discriminate|exact Hd].
Qed.

Lemma scan_exp_blank lo up w :
  stops (fun c => (c =? lo) || (c =? up)) w -> scan_exp lo up w = [].
Proof. destruct w as [|c t]; [reflexivity|]. cbn [stops scan_exp]. intros ->. reflexivity. Qed.

(* ------------------------------------------------------------------ *)
(* the scanner on a fully lexed number followed by a blank             *)
(* ------------------------------------------------------------------ *)

Lemma span_stops_nil p w : stops p w -> span p w = ([], w).
Proof. intro H. exact (span_stop p [] w eq_refl H). Qed.

(* what may follow the number: nothing, or text starting with an ASCII blank *)
Definition blank_led (w : bytes) : Prop := match w with c :: _ => ascii_space c = true | [] => True end.

Lemma blank_led_stops w (p : Z -> bool) :
  (forall c, ascii_space c = true -> p c = false) -> blank_led w -> stops p w.
Proof. intros H Hw. destruct w as [|c t]; [exact I|]. cbn [stops blank_led] in *. auto. Qed.

Lemma blank_not_digit c : ascii_space c = true -> is_digit c = false.
Proof. unfold ascii_space, is_digit. intro H. lia. Qed.
Lemma blank_not_hex_digit c : ascii_space c = true -> is_hex_digit c = false.
Proof. unfold ascii_space, is_hex_digit, is_digit. intro H. lia. Qed.
Lemma blank_not c (x : Z) : 33 <= x -> ascii_space c = true -> (c =? x) = false.
Proof. unfold ascii_space. intros Hx H. lia. Qed.
Lemma blank_not2 c (x y : Z) : 33 <= x -> 33 <= y -> ascii_space c = true -> (c =? x) || (c =? y) = false.
Proof. unfold ascii_space. intros Hx Hy H. lia. Qed.

Lemma opt_sign_app t w sg u : t <> [] -> opt_sign t = (sg, u) -> opt_sign (t ++ w) = (sg, u ++ w).
Proof.
  destruct t as [|c t']; [congruence|]. intros _. cbn [app opt_sign].
  destruct (is_sign c); intro H; injection H as <- <-; reflexivity.
Qed.

Lemma zdrop2_app {A} (a b : A) (r w : list A) : zdrop 2 ((a :: b :: r) ++ w) = zdrop 2 (a :: b :: r) ++ w.
Proof. reflexivity. Qed.
Lemma ztake2_app {A} (a b : A) (r w : list A) : ztake 2 ((a :: b :: r) ++ w) = ztake 2 (a :: b :: r).
Proof. reflexivity. Qed.

Lemma hex_of_true_inv u : hex_of u = true ->
  exists b c r, u = 48 :: b :: c :: r /\ (b = 120 \/ b = 88).
Proof.
  unfold hex_of. intro H. apply andb_true_iff in H as [Hl Hp].
  destruct u as [|a [|b [|c r]]]; try (vm_compute in Hl; discriminate).
  cbn [has_hex_prefix] in Hp. apply andb_true_iff in Hp as [Ha Hb]. apply Z.eqb_eq in Ha. subst a.
  exists b, c, r. split; [reflexivity|]. apply orb_true_iff in Hb as [E|E]; apply Z.eqb_eq in E; auto.
Qed.

Lemma no_special_prefix h u' :
  (is_digit h = true \/ h = 46) ->
  (3 <=? zlen (h :: u')) && has_nan_prefix (h :: u') = false /\
  (3 <=? zlen (h :: u')) && has_inf_prefix (h :: u') = false.
Proof.
  intro Hh.
  assert (N : (h =? 110) || (h =? 78) = false /\ (h =? 105) || (h =? 73) = false).
  { unfold is_digit in Hh. split; lia. }
  destruct N as [N1 N2].
  destruct u' as [|b [|c r]]; cbn [has_nan_prefix has_inf_prefix]; rewrite ?N1, ?N2, ?andb_false_r; split; reflexivity.
Qed.

Lemma scan_t_full start t w sg u d1 dot d2 r3 :
  opt_sign t = (sg, u) ->
  lex_mant (mant_digit (hex_of u)) (body_of u) = (d1, dot, d2, r3) ->
  is_nil d1 && is_nil d2 = false ->
  (r3 = [] \/
   (exists c es ed, r3 = c :: es ++ ed /\ (lower c =? (if hex_of u then 112 else 101)) = true /\
        opt_sign (es ++ ed) = (es, ed) /\ ed <> [] /\ forallb is_digit ed = true)) ->
  blank_led w ->
  scan_t start (t ++ w) = PSNum start t (hex_of u && is_nil r3).
Proof.
  intros Hos Hl Hnil Hr3 Hw.
  destruct (opt_sign_inv _ _ _ Hos) as [Et Hsg].
  pose proof (lex_mant_spec _ _ _ _ _ _ Hl) as [Eb [Hd1 [Hd2 [Hdot [Hst Hnodot]]]]].
  (* the exponent part the scanner reads from r3 ++ w is r3 *)
  assert (Hexp : scan_exp (if hex_of u then 112 else 101) (if hex_of u then 80 else 69) (r3 ++ w) = r3).
  { destruct Hr3 as [-> | [c [es [ed [-> [Hc [Hose [Hne Hed]]]]]]]].
    - cbn [app]. apply scan_exp_blank. apply (blank_led_stops w); [|exact Hw].
      intros c Hc. destruct (hex_of u); apply blank_not2; try lia; exact Hc.
    - destruct (opt_sign_inv _ _ _ Hose) as [_ Hes].
      cbn [app]. rewrite <- app_assoc. rewrite scan_exp_shape; try assumption.
      + rewrite (span_stops_nil is_digit w) by (apply (blank_led_stops w); [apply blank_not_digit|exact Hw]).
        cbn [fst]. rewrite app_nil_r. reflexivity.
      + destruct (hex_of u); [rewrite lower_p in Hc|rewrite lower_e in Hc];
          apply orb_true_iff in Hc as [E|E]; apply Z.eqb_eq in E; auto. }
  unfold scan_t.
  destruct (hex_of u) eqn:Hhex.
  - (* hexadecimal *)
    destruct (hex_of_true_inv u Hhex) as [b [c [r [Eu Hb]]]].
    assert (Ht : t <> []) by (rewrite Et, Eu; destruct sg; discriminate).
    rewrite (opt_sign_app t w sg u Ht Hos).
    rewrite Eu. cbn [app].
    destruct (no_special_prefix 48 (b :: c :: r ++ w) (or_introl eq_refl)) as [N1 N2].
    rewrite N1, N2.
    replace (hex_of (48 :: b :: c :: r ++ w)) with true
      by (symmetry; unfold hex_of; rewrite zlen_ge3; cbn [andb has_hex_prefix];
          destruct Hb as [-> | ->]; reflexivity).
    change (zdrop 2 (48 :: b :: c :: r ++ w)) with ((c :: r) ++ w).
    change (ztake 2 (48 :: b :: c :: r ++ w)) with [48; b].
    unfold body_of in Hl, Eb. rewrite Hhex, Eu in Hl, Eb. change (zdrop 2 (48 :: b :: c :: r)) with (c :: r) in Hl, Eb.
    rewrite (lex_mant_ext _ _ _ mant_digit_hex) in Hl.
    unfold scan_hex'.
    rewrite (lex_mant_app is_hex_digit (c :: r) w d1 dot d2 r3 eq_refl Hl).
    + rewrite Hnil, Hexp. cbn [andb]. f_equal.
      rewrite Et, Eu. change (48 :: b :: c :: r) with ([48; b] ++ (c :: r)). rewrite Eb. reflexivity.
    + intros _. split; apply (blank_led_stops w); try exact Hw; [apply blank_not_hex_digit|intros x; apply blank_not; lia].
  - (* decimal *)
    unfold body_of in Hl, Eb. rewrite Hhex in Hl, Eb.
    rewrite (lex_mant_ext _ _ _ mant_digit_dec) in Hl.
    assert (Hhead : exists h u', u = h :: u' /\ (is_digit h = true \/ h = 46)).
    { rewrite Eb. destruct d1 as [|h d1'].
      - destruct d2 as [|h2 d2']; [discriminate|].
        destruct Hdot as [-> | ->]; [|destruct (Hnodot eq_refl) as [H _]; discriminate].
        exists 46, ((h2 :: d2') ++ r3). split; [reflexivity|right; reflexivity].
      - exists h, (d1' ++ dot ++ d2 ++ r3). split; [reflexivity|left].
        cbn [forallb] in Hd1. apply andb_true_iff in Hd1 as [H _]. rewrite mant_digit_dec in H. exact H. }
    destruct Hhead as [h [u' [Eu Hh]]].
    assert (Ht : t <> []) by (rewrite Et, Eu; destruct sg; discriminate).
    rewrite (opt_sign_app t w sg u Ht Hos).
    assert (Hhexw : hex_of (u ++ w) = false).
    { unfold hex_of in *. destruct u as [|a [|b [|c r]]].
      - discriminate.
      - destruct w as [|x w']; [reflexivity|]. cbn [app has_hex_prefix blank_led] in *.
        rewrite (blank_not2 x 120 88) by (try lia; exact Hw). rewrite !andb_false_r. reflexivity.
      - cbn [app]. destruct (has_hex_prefix (a :: b :: w)) eqn:E; [|apply andb_false_r].
        exfalso. assert (E' : has_hex_prefix [a; b] = true) by exact E. clear E.
        cbn [has_hex_prefix] in E'. apply andb_true_iff in E' as [Ea Eb'].
        apply Z.eqb_eq in Ea. subst a.
        assert (Hlex : lex_mant is_digit [48; b] = ([48], [], [], [b])).
        { apply orb_true_iff in Eb' as [E|E]; apply Z.eqb_eq in E; subst b; reflexivity. }
        rewrite Hlex in Hl. injection Hl as <- <- <- <-.
        destruct Hr3 as [H | [c [es [ed [H [Hc _]]]]]]; [discriminate|].
        injection H as <- _. rewrite lower_e in Hc.
        apply orb_true_iff in Eb' as [E|E]; apply Z.eqb_eq in E; subst b; discriminate.
      - rewrite zlen_ge3 in Hhex. cbn [andb] in Hhex. cbn [app]. rewrite zlen_ge3. exact Hhex. }
    rewrite Hhexw. rewrite Eu. cbn [app].
    destruct (no_special_prefix h (u' ++ w) Hh) as [N1 N2]. rewrite N1, N2.
    change (h :: u' ++ w) with ((h :: u') ++ w). rewrite <- Eu.
    unfold scan_dec.
    rewrite (lex_mant_app is_digit u w d1 dot d2 r3 eq_refl Hl).
    + rewrite Hnil, Hexp. cbn [andb]. f_equal. rewrite Et, Eb. reflexivity.
    + intros _. split; apply (blank_led_stops w); try exact Hw; [apply blank_not_digit|intros x; apply blank_not; lia].
Qed.

(* ------------------------------------------------------------------ *)
(* strconv special (inf / infinity / nan) against the scanner's tests  *)
(* ------------------------------------------------------------------ *)

Lemma ic_eq c p : 97 <= p <= 122 ->
  ((if (65 <=? c) && (c <=? 90) then c + 32 else c) =? p) = (c =? p) || (c =? p - 32).
Proof. intro Hp. destruct ((65 <=? c) && (c <=? 90)) eqn:E; lia. Qed.

Lemma cpl_nonneg s p : 0 <= common_prefix_len_ic s p.
Proof.
  revert p; induction s as [|c s IH]; intros [|q p]; cbn [common_prefix_len_ic]; try lia.
  destruct (_ =? q); [specialize (IH p)|]; lia.
Qed.

Lemma cpl_inf3 s : 3 <= common_prefix_len_ic s str_infinity ->
  exists a b c r, s = a :: b :: c :: r /\ has_inf_prefix s = true.
Proof.
  unfold str_infinity. intro H.
  destruct s as [|a s]; [cbn in H; lia|]. cbn [common_prefix_len_ic] in H. rewrite ic_eq in H by lia.
  destruct ((a =? 105) || (a =? 105 - 32)) eqn:Ea; [|lia].
  destruct s as [|b s]; [cbn in H; lia|]. cbn [common_prefix_len_ic] in H. rewrite ic_eq in H by lia.
  destruct ((b =? 110) || (b =? 110 - 32)) eqn:Eb; [|lia].
  destruct s as [|c s]; [cbn in H; lia|]. cbn [common_prefix_len_ic] in H. rewrite ic_eq in H by lia.
  destruct ((c =? 102) || (c =? 102 - 32)) eqn:Ec; [|lia].
  exists a, b, c, s. split; [reflexivity|]. cbn [has_inf_prefix].
  change (105 - 32) with 73 in Ea. change (110 - 32) with 78 in Eb. change (102 - 32) with 70 in Ec.
  rewrite Ea, Eb, Ec. reflexivity.
Qed.

Lemma cpl_nan3 s : common_prefix_len_ic s str_nan = 3 ->
  exists a b c r, s = a :: b :: c :: r /\ has_nan_prefix s = true.
Proof.
  unfold str_nan. intro H.
  destruct s as [|a s]; [cbn in H; lia|]. cbn [common_prefix_len_ic] in H. rewrite ic_eq in H by lia.
  destruct ((a =? 110) || (a =? 110 - 32)) eqn:Ea; [|lia].
  destruct s as [|b s]; [cbn in H; lia|]. cbn [common_prefix_len_ic] in H. rewrite ic_eq in H by lia.
  destruct ((b =? 97) || (b =? 97 - 32)) eqn:Eb; [|lia].
  destruct s as [|c s]; [cbn in H; lia|]. cbn [common_prefix_len_ic] in H. rewrite ic_eq in H by lia.
  destruct ((c =? 110) || (c =? 110 - 32)) eqn:Ec; [|lia].
  exists a, b, c, s. split; [reflexivity|]. cbn [has_nan_prefix].
  change (110 - 32) with 78 in Ea, Ec. change (97 - 32) with 65 in Eb.
  rewrite Ea, Eb, Ec. reflexivity.
Qed.

Lemma special_inf_some neg nsign s d n : special_inf neg nsign s = Some (d, n) ->
  d = DInf neg /\ 3 <= common_prefix_len_ic s str_infinity.
Proof.
  unfold special_inf. set (k := common_prefix_len_ic s str_infinity).
  destruct ((3 <? k) && (k <? 8)) eqn:E.
  - cbn [Z.eqb orb]. intro H. injection H as <- _. split; [reflexivity|lia].
  - destruct ((k =? 3) || (k =? 8)) eqn:E2; [|discriminate]. intro H. injection H as <- _. split; [reflexivity|lia].
Qed.

(* the scanner's verdict on a text strconv's special accepts, whatever follows it *)
Lemma scan_t_special start t w d n :
  special t = Some (d, n) ->
  (d = DNaN /\ scan_t start (t ++ w) = PSNaN) \/
  (exists neg, d = DInf neg /\ scan_t start (t ++ w) = PSInf neg).
Proof.
  destruct t as [|c t']; [discriminate|]. cbn [special].
  destruct (is_sign c) eqn:Es.
  - intro H. destruct (special_inf_some _ _ _ _ _ H) as [-> H3].
    destruct (cpl_inf3 t' H3) as [a [b [e [r [-> Hinf]]]]].
    right. exists (c =? 45). split; [reflexivity|].
    unfold scan_t. cbn [app opt_sign]. rewrite Es.
    assert (Hn : has_nan_prefix (a :: b :: e :: r ++ w) = false).
    { cbn [has_inf_prefix] in Hinf. cbn [has_nan_prefix].
      apply andb_true_iff in Hinf as [Hinf _]. apply andb_true_iff in Hinf as [Ha _].
      replace ((a =? 110) || (a =? 78)) with false by lia. reflexivity. }
    rewrite Hn, andb_false_r.
    replace (has_inf_prefix (a :: b :: e :: r ++ w)) with true by (symmetry; exact Hinf).
    rewrite zlen_ge3'. reflexivity.
  - destruct ((c =? 105) || (c =? 73)) eqn:Ei.
    + intro H. destruct (special_inf_some _ _ _ _ _ H) as [-> H3].
      destruct (cpl_inf3 _ H3) as [a [b [e [r [E Hinf]]]]]. injection E as <- ->.
      right. exists false. split; [reflexivity|].
      unfold scan_t. cbn [app opt_sign]. rewrite Es.
      assert (Hn : has_nan_prefix (c :: b :: e :: r ++ w) = false).
      { cbn [has_nan_prefix]. replace ((c =? 110) || (c =? 78)) with false by lia. reflexivity. }
      rewrite Hn, andb_false_r.
      replace (has_inf_prefix (c :: b :: e :: r ++ w)) with true by (symmetry; exact Hinf).
      rewrite zlen_ge3'. cbn [andb]. f_equal. unfold is_sign in Es. lia.
    + destruct ((c =? 110) || (c =? 78)) eqn:En; [|discriminate].
      destruct (common_prefix_len_ic (c :: t') str_nan =? 3) eqn:E3; [|discriminate].
      intro H. injection H as <- _. apply Z.eqb_eq in E3.
      destruct (cpl_nan3 _ E3) as [a [b [e [r [E Hnan]]]]]. injection E as <- ->.
      left. split; [reflexivity|].
      unfold scan_t. cbn [app opt_sign]. rewrite Es.
      replace (has_nan_prefix (c :: b :: e :: r ++ w)) with true by (symmetry; exact Hnan).
      rewrite zlen_ge3'. reflexivity.
Qed.

(* ------------------------------------------------------------------ *)
(* coherence of parseFloat and parseFloatPrefix                        *)
(* ------------------------------------------------------------------ *)

(* parseFloat trims with [ascii_trim] (Model/Value.v): the blanks the scanner skips *)

Lemma forallb_rev {A} (p : A -> bool) l : forallb p l = true -> forallb p (rev l) = true.
Proof.
  induction l as [|x l IH]; cbn [rev forallb]; [auto|]. intro H. apply andb_true_iff in H as [Hx Hl].
  rewrite forallb_app'. cbn [forallb]. rewrite (IH Hl), Hx. reflexivity.
Qed.

Lemma ascii_trim_decomp s : exists ws2,
  span ascii_space s = (fst (span ascii_space s), ascii_trim s ++ ws2) /\ blank_led ws2.
Proof.
  unfold ascii_trim. destruct (span ascii_space s) as [ws1 r] eqn:E1. cbn [fst snd].
  pose proof (span_spec ascii_space (rev r)) as [H1 [H2 _]].
  destruct (span ascii_space (rev r)) as [a b] eqn:E2. cbn [fst snd] in *.
  exists (rev a). split.
  - f_equal. rewrite <- rev_app_distr, <- H1, rev_involutive. reflexivity.
  - apply forallb_rev in H2. destruct (rev a) as [|c t]; [exact I|]. cbn [forallb] in H2.
    apply andb_true_iff in H2 as [H2 _]. exact H2.
Qed.

Lemma go_parse_desc_nil : go_parse_desc [] = None.
Proof. reflexivity. Qed.

Lemma special_hex_none sg b r : sign_str sg -> special (sg ++ 48 :: b :: r) = None.
Proof. intros [-> | [-> | ->]]; reflexivity. Qed.

Lemma contains_skip x c t : contains x (c :: t) = false -> contains x t = false.
Proof. cbn [contains]. intro H. apply orb_false_iff in H as [_ H]. exact H. Qed.

(* parseFloatPrefix = the scanner, then the value of its verdict *)
Definition pscan_value (r : pscan) : res fnum :=
  match r with
  | PSNaN => Ok FNaN
  | PSInf n => Ok (FInf n)
  | PSZero => Ok (FFin 0 0)
  | PSNum _ txt patch =>
      match go_parse_float (scan_text txt patch) with
      | GSyntax => Ok (FFin 0 0)
      | GVal v _ => Ok v
      end
  | PSPanic => Panic
  end.

Lemma parse_float_prefix_eq s : parse_float_prefix s = pscan_value (scan_prefix s).
Proof. reflexivity. Qed.

Lemma stops_p0 : stops is_hex_digit str_p0 /\ stops (fun c => c =? 46) str_p0.
Proof. split; reflexivity. Qed.

(* core: [t] is the trimmed text (non-empty), [text] what parseFloat hands to strconv *)
Lemma coherence_core start t w sg u text x rng :
  t <> [] -> opt_sign t = (sg, u) -> blank_led w ->
  (text = t \/
   (text = t ++ str_p0 /\ hex_of u = true /\ contains 112 t = false /\ contains 80 t = false)) ->
  contains 95 text = false -> go_parse_float text = GVal x rng ->
  pscan_value (scan_t start (t ++ w)) = Ok x.
Proof.
  intros Htne Hos Hw Htext H95 Hgo.
  destruct (opt_sign_inv _ _ _ Hos) as [Etsu Hsg].
  unfold go_parse_float in Hgo. destruct (go_parse_desc text) as [d|] eqn:Hd; [|discriminate].
  unfold go_parse_desc in Hd.
  destruct (special text) as [[d' n]|] eqn:Hsp.
  - (* inf / infinity / nan *)
    destruct (n =? zlen text); [|discriminate]. injection Hd as ->.
    assert (text = t) as ->.
    { destruct Htext as [H | [-> [Hh _]]]; [exact H|exfalso].
      destruct (hex_of_true_inv u Hh) as [b [c [r [Eu _]]]].
      rewrite Etsu, Eu, <- app_assoc in Hsp. cbn [app] in Hsp. rewrite (special_hex_none sg b _ Hsg) in Hsp. discriminate. }
    destruct (scan_t_special start t w d n Hsp) as [[-> Hs] | [neg [-> Hs]]]; rewrite Hs; cbn in Hgo |- *;
      injection Hgo as <-; reflexivity.
  - destruct (read_float text) as [[d' rest]|] eqn:Hrf; [|discriminate].
    destruct rest; [|discriminate]. cbn [is_nil] in Hd. injection Hd as ->.
    destruct (read_float_accept text d H95 Hrf) as [sg' [u' [d1 [dot [d2 [r3 [_ [Hos' [Hl [Hnil Hr3]]]]]]]]]].
    destruct Htext as [-> | [-> [Hh [N112 N80]]]].
    + (* the text is the trimmed string itself *)
      rewrite Hos in Hos'. injection Hos' as <- <-.
      assert (Hr3' : r3 = [] \/
        (exists c es ed, r3 = c :: es ++ ed /\ (lower c =? (if hex_of u then 112 else 101)) = true /\
           opt_sign (es ++ ed) = (es, ed) /\ ed <> [] /\ forallb is_digit ed = true))
        by (destruct Hr3 as [[H _]|H]; [left; exact H|right; exact H]).
      rewrite (scan_t_full start t w sg u d1 dot d2 r3 Hos Hl Hnil Hr3' Hw).
      assert (Hpatch : hex_of u && is_nil r3 = false).
      { destruct Hr3 as [[_ H]|[c [es [ed [-> _]]]]]; [rewrite H; reflexivity|apply andb_false_r]. }
      rewrite Hpatch. cbn [pscan_value scan_text]. unfold go_parse_float, go_parse_desc.
      rewrite Hsp, Hrf. cbn [is_nil]. destruct (desc_value d) as [v r]. injection Hgo as -> _. reflexivity.
    + (* "p0" was appended: the trimmed string is a hex mantissa without exponent *)
      rewrite (opt_sign_app t str_p0 sg u Htne Hos) in Hos'. injection Hos' as <- <-.
      destruct (hex_of_true_inv u Hh) as [b [c [r [Eu Hb]]]].
      assert (Hh' : hex_of (u ++ str_p0) = true).
      { rewrite Eu. unfold hex_of. cbn [app]. rewrite zlen_ge3. cbn [andb has_hex_prefix].
        destruct Hb as [-> | ->]; reflexivity. }
      rewrite Hh' in Hl, Hr3.
      assert (Hbody : body_of (u ++ str_p0) = body_of u ++ str_p0).
      { unfold body_of. rewrite Hh', Hh, Eu. reflexivity. }
      rewrite Hbody in Hl. rewrite (lex_mant_ext _ _ _ mant_digit_hex) in Hl.
      destruct (lex_mant is_hex_digit (body_of u)) as [[[a1 adot] a2] r3t] eqn:Hlt.
      rewrite (lex_mant_app is_hex_digit (body_of u) str_p0 a1 adot a2 r3t eq_refl Hlt (fun _ => stops_p0)) in Hl.
      injection Hl as <- <- <- <-.
      assert (r3t = []) as ->.
      { destruct r3t as [|c0 r3t']; [reflexivity|exfalso].
        destruct Hr3 as [[H _]|[c1 [es [ed [H [Hc _]]]]]]; [discriminate|].
        cbn [app] in H. injection H as <- _. rewrite lower_p in Hc.
        pose proof (lex_mant_spec _ _ _ _ _ _ Hlt) as [Eb _].
        assert (Hin : contains 112 (body_of u) = false /\ contains 80 (body_of u) = false).
        { unfold body_of. rewrite Hh. split; apply contains_zdrop.
          - rewrite Etsu, contains_app in N112. apply orb_false_iff in N112 as [_ H]. exact H.
          - rewrite Etsu, contains_app in N80. apply orb_false_iff in N80 as [_ H]. exact H. }
        destruct Hin as [I1 I2]. rewrite Eb, !contains_app in I1, I2. cbn [contains] in I1, I2.
        repeat (apply orb_false_iff in I1 as [? I1]). repeat (apply orb_false_iff in I2 as [? I2]).
        lia. }
      assert (Hl2 : lex_mant (mant_digit (hex_of u)) (body_of u) = (a1, adot, a2, [])).
      { rewrite Hh, (lex_mant_ext _ _ _ mant_digit_hex). exact Hlt. }
      rewrite (scan_t_full start t w sg u a1 adot a2 [] Hos Hl2 Hnil (or_introl eq_refl) Hw).
      rewrite Hh. cbn [andb is_nil pscan_value scan_text]. unfold go_parse_float, go_parse_desc.
      rewrite Hsp, Hrf. cbn [is_nil]. destruct (desc_value d) as [v r']. injection Hgo as -> _. reflexivity.
Qed.

Lemma parse_float_text_cases s :
  let t := ascii_trim s in
  match parse_float_text s with
  | None => exists c a b e, t = [c; a; b; e] /\ is_sign c = true /\ has_nan_prefix [a; b; e] = true
  | Some text =>
      (t = [] /\ text = []) \/
      (t <> [] /\ forall sg u, opt_sign t = (sg, u) ->
         text = t \/ (text = t ++ str_p0 /\ hex_of u = true /\ contains 112 t = false /\ contains 80 t = false))
  end.
Proof.
  unfold parse_float_text. set (t := ascii_trim s). cbv zeta.
  destruct t as [|c t'] eqn:Et; [left; split; reflexivity|].
  destruct ((1 <? zlen (c :: t')) && is_sign c) eqn:Hsigned.
  - apply andb_true_iff in Hsigned as [_ Hsc].
    destruct ((zlen (c :: t') =? 4) && has_nan_prefix t') eqn:Hnan.
    + apply andb_true_iff in Hnan as [Hlen Hn]. apply Z.eqb_eq in Hlen.
      destruct t' as [|a [|b [|e [|f r]]]]; try (vm_compute in Hlen; discriminate); try discriminate.
      * exists c, a, b, e. auto.
      * exfalso. rewrite !zlen_cons in Hlen. pose proof (zlen_nonneg r). lia.
    + destruct ((3 <? zlen (c :: t')) && has_hex_prefix t' &&
                (negb (contains 112 (c :: t')) && negb (contains 80 (c :: t')))) eqn:Hp.
      * right. split; [discriminate|]. intros sg u Hos. right.
        cbn [opt_sign] in Hos. rewrite Hsc in Hos. injection Hos as <- <-.
        apply andb_true_iff in Hp as [Hp Hnop]. apply andb_true_iff in Hp as [Hlen Hhp].
        apply andb_true_iff in Hnop as [N1 N2]. apply negb_true_iff in N1, N2.
        split; [reflexivity|]. split; [|auto].
        unfold hex_of. rewrite Hhp, andb_true_r. rewrite zlen_cons in Hlen. lia.
      * right. split; [discriminate|]. intros sg u _. left. reflexivity.
  - destruct ((2 <? zlen (c :: t')) && has_hex_prefix (c :: t') &&
              (negb (contains 112 (c :: t')) && negb (contains 80 (c :: t')))) eqn:Hp.
    + right. split; [discriminate|]. intros sg u Hos. right.
      apply andb_true_iff in Hp as [Hp Hnop]. apply andb_true_iff in Hp as [Hlen Hhp].
      apply andb_true_iff in Hnop as [N1 N2]. apply negb_true_iff in N1, N2.
      assert (c = 48) as ->.
      { destruct t'; [discriminate|]. cbn [has_hex_prefix] in Hhp. apply andb_true_iff in Hhp as [H _].
        apply Z.eqb_eq in H. exact H. }
      cbn in Hos. injection Hos as <- <-.
      split; [reflexivity|]. split; [|auto]. unfold hex_of. rewrite Hlen, Hhp. reflexivity.
    + right. split; [discriminate|]. intros sg u _. left. reflexivity.
Qed.

(* the agreement of the two routines: all strings *)
Theorem coherence s x :
  parse_float s = PFOk x -> parse_float_prefix s = Ok x.
Proof.
  intros Hpf.
  destruct (ascii_trim_decomp s) as [ws2 [Hspan Hw]].
  rewrite parse_float_prefix_eq, scan_prefix_eq. rewrite Hspan. cbn [fst snd].
  pose proof (parse_float_text_cases s) as Hc. cbv zeta in Hc.
  unfold parse_float in Hpf.
  destruct (parse_float_text s) as [text|].
  - destruct (go_parse_float text) as [|v r] eqn:Hgo; [discriminate|].
    destruct (contains 95 text) eqn:H95; [discriminate|]. injection Hpf as ->.
    destruct Hc as [[_ ->] | [Htne Hc]]; [discriminate|].
    destruct (opt_sign (ascii_trim s)) as [sg u] eqn:Hos.
    exact (coherence_core _ (ascii_trim s) ws2 sg u text x r Htne Hos Hw (Hc sg u eq_refl) H95 Hgo).
  - injection Hpf as <-. destruct Hc as [c [a [b [e [Et [Hsc Hn]]]]]].
    rewrite Et. unfold scan_t. cbn [app opt_sign]. rewrite Hsc, zlen_ge3'.
    replace (has_nan_prefix (a :: b :: e :: ws2)) with true by (symmetry; exact Hn). reflexivity.
Qed.
