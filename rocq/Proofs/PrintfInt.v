(* C09: Go's fmt.fmtInteger (as modelled) against the ISO C specification of
   the integer conversions, for every formatter state / resolved specification,
   every value, every width and precision. *)
From Verif Require Import Lib.Base Lib.Dyadic Lib.Utf8 Model.Printf Proofs.PrintfSpec Proofs.PrintfBase.

(* the formatter state doPrintf has built corresponds to the resolved C specification *)
Definition st_matches (f : fmts) (r : rspec) : Prop :=
  wid f = r_width r /\ (widP f = false -> r_width r = 0) /\ 0 <= r_width r /\
  fminus f = r_minus r /\ fplus f = r_plus r /\ fsharp f = r_sharp r /\ fspace f = r_space r /\
  (r_minus r = false -> fzero f = r_zero r) /\
  r_prec r = (if precP f then Some (prec f) else None) /\ 0 <= prec f.

Lemma pad_norm f b : ascii b = true -> (widP f = false -> wid f = 0) -> 0 <= wid f ->
  pad f b = if fminus f then b ++ rep (wid f - zlen b) (pad_char f)
            else rep (wid f - zlen b) (pad_char f) ++ b.
Proof.
  intros Ha Hw H0. unfold pad, write_padding. rewrite padding_rep, (rune_count_ascii b Ha).
  destruct (widP f) eqn:EP; cbn [negb orb].
  - destruct (wid f =? 0) eqn:E0.
    + apply Z.eqb_eq in E0. rewrite E0. rewrite rep_nonpos by (pose proof (zlen_nonneg b); lia).
      destruct (fminus f); [rewrite app_nil_r|]; reflexivity.
    + destruct (fminus f); reflexivity.
  - rewrite (Hw eq_refl). rewrite rep_nonpos by (pose proof (zlen_nonneg b); lia).
    destruct (fminus f); [rewrite app_nil_r|]; reflexivity.
Qed.

Definition sign_of (negative plus space : bool) : bytes :=
  if negative then [45] else if plus then [43] else if space then [32] else [].

Definition sharp_of (sharp : bool) (base : Z) (upper : bool) (ds : bytes) : bytes :=
  if sharp then
    if base =? 8 then (match ds with 48 :: _ => ds | _ => 48 :: ds end)
    else if base =? 16 then 48 :: (if upper then 88 else 120) :: ds
    else ds
  else ds.

Lemma ascii_sign n p s : ascii (sign_of n p s) = true.
Proof. unfold sign_of. destruct n, p, s; reflexivity. Qed.

Lemma ascii_sharp sh base up ds : ascii ds = true -> ascii (sharp_of sh base up ds) = true.
Proof.
  intros H. unfold sharp_of. destruct sh; [|exact H]. destruct (base =? 8).
  - rewrite match48. destruct ds as [|c t]; [reflexivity|]. destruct (c =? 48); [exact H|].
    cbn [ascii forallb]. exact H.
  - destruct (base =? 16); [|exact H]. destruct up; cbn [ascii forallb]; exact H.
Qed.

(* normal form of the modelled fmtInteger *)
Lemma fmt_integer_nf f v base signed upper :
  let negative := signed && (v <? 0) in
  let u := if negative then - v else v in
  0 <= u -> 2 <= base <= 16 ->
  (widP f = false -> wid f = 0) -> 0 <= wid f ->
  fmt_integer f v base signed upper =
    if precP f && (prec f =? 0) && (u =? 0) then rep (wid f) 32
    else
      let p := if precP f then prec f
               else if fzero f && negb (fminus f) && widP f
                    then (if negative || fplus f || fspace f then wid f - 1 else wid f)
                    else 0 in
      let ds := to_digits base u upper in
      let body := sign_of negative (fplus f) (fspace f) ++ sharp_of (fsharp f) base upper (rep (p - zlen ds) 48 ++ ds) in
      if fminus f then body ++ rep (wid f - zlen body) 32 else rep (wid f - zlen body) 32 ++ body.
Proof.
  intros negative u Hu Hb Hw H0. unfold fmt_integer. fold negative. fold u.
  rewrite !padding_rep. destruct (precP f && (prec f =? 0) && (u =? 0)); [reflexivity|].
  rewrite (digits_of_to_digits base u upper Hu ltac:(lia)).
  set (p := if precP f then prec f else _).
  set (ds := to_digits base u upper).
  assert (Hds : ascii (rep (p - zlen ds) 48 ++ ds) = true).
  { rewrite ascii_app, ascii_rep by lia. apply to_digits_ascii; assumption. }
  set (d1 := rep (p - zlen ds) 48 ++ ds) in *.
  change (if fsharp f then if base =? 8 then match d1 with 48 :: _ => d1 | _ => 48 :: d1 end
            else if base =? 16 then 48 :: (if upper then 88 else 120) :: d1 else d1 else d1)
    with (sharp_of (fsharp f) base upper d1).
  set (d2 := sharp_of (fsharp f) base upper d1).
  change (if negative then 45 :: d2 else if fplus f then 43 :: d2 else if fspace f then 32 :: d2 else d2)
    with (if negative then [45] ++ d2 else if fplus f then [43] ++ d2 else if fspace f then [32] ++ d2 else [] ++ d2).
  replace (if negative then [45] ++ d2 else if fplus f then [43] ++ d2 else if fspace f then [32] ++ d2 else [] ++ d2)
    with (sign_of negative (fplus f) (fspace f) ++ d2)
    by (unfold sign_of; destruct negative, (fplus f), (fspace f); reflexivity).
  rewrite pad_norm.
  - reflexivity.
  - rewrite ascii_app, ascii_sign. apply ascii_sharp. exact Hds.
  - exact Hw.
  - exact H0.
Qed.

Lemma zlen_sign n p s : zlen (sign_of n p s) = if n || p || s then 1 else 0.
Proof. unfold sign_of. destruct n, p, s; reflexivity. Qed.

(* ---- d, i ---- *)
Theorem fmt_integer_signed f r v : st_matches f r ->
  ~ (r_prec r = Some 0 /\ v = 0 /\ r_plus r || r_space r = true) ->
  fmt_integer f v 10 true false = c_signed r v.
Proof.
  intros (Hw & HwP & Hw0 & Hm & Hp & Hs & Hsp & Hz & Hpr & Hp0) Hg.
  rewrite fmt_integer_nf; [| cbn [andb]; destruct (v <? 0) eqn:E; [apply Z.ltb_lt in E|apply Z.ltb_ge in E]; lia
                          | lia | rewrite Hw; exact HwP | rewrite Hw; exact Hw0].
  cbn [andb]. replace (if v <? 0 then - v else v) with (Z.abs v)
    by (destruct (v <? 0) eqn:E; [apply Z.ltb_lt in E|apply Z.ltb_ge in E]; lia).
  unfold c_signed, c_digits, c_field. rewrite Hpr, <- Hm, <- Hp, <- Hsp, Hw in *. clear Hpr.
  set (ds := to_digits 10 (Z.abs v) false).
  pose proof (to_digits_nonempty 10 (Z.abs v) false) as Hne. fold ds in Hne.
  change (if v <? 0 then [45] else if fplus f then [43] else if fspace f then [32] else [])
    with (sign_of (v <? 0) (fplus f) (fspace f)).
  unfold sharp_of. replace (10 =? 8) with false by reflexivity. replace (10 =? 16) with false by reflexivity.
  replace (if fsharp f then rep _ 48 ++ ds else rep _ 48 ++ ds) with (rep (
      (if precP f then prec f else if fzero f && negb (fminus f) && widP f
        then if (v <? 0) || fplus f || fspace f then r_width r - 1 else r_width r else 0) - zlen ds) 48 ++ ds)
    by (destruct (fsharp f); reflexivity).
  destruct (precP f) eqn:EP.
  - (* explicit precision: the 0 flag is ignored *)
    cbn [andb]. rewrite (andb_comm (prec f =? 0)).
    destruct ((Z.abs v =? 0) && (prec f =? 0)) eqn:E0.
    + apply andb_true_iff in E0 as [Ea Eb]. apply Z.eqb_eq in Ea, Eb.
      assert (v = 0) by lia. subst v. cbn [Z.ltb Z.compare].
      destruct (fplus f || fspace f) eqn:Eps.
      * exfalso. apply Hg. rewrite Eb. auto.
      * apply orb_false_iff in Eps as [-> ->]. cbn [sign_of app zlen length Z.of_nat].
        rewrite Z.sub_0_r. destruct (fminus f); [reflexivity|].
        rewrite andb_false_r. rewrite app_nil_r. reflexivity.
    + rewrite andb_false_r. rewrite !zlen_app. destruct (fminus f); rewrite <- ?app_assoc; reflexivity.
  - (* no precision *)
    cbn [andb]. replace ((Z.abs v =? 0) && (1 =? 0)) with false by (rewrite andb_false_r; reflexivity).
    rewrite (rep_nonpos (1 - zlen ds)) by lia. cbn [app].
    rewrite andb_true_r.
    destruct (fminus f) eqn:EM.
    + cbn [negb andb]. rewrite andb_false_r. cbn [andb].
      rewrite (rep_nonpos (0 - zlen ds)) by lia. cbn [app]. rewrite !zlen_app. rewrite <- ?app_assoc. reflexivity.
    + cbn [negb]. rewrite andb_true_r. rewrite <- (Hz eq_refl).
      destruct (fzero f) eqn:EZ; cbn [andb].
      * destruct (widP f) eqn:EW.
        -- rewrite !zlen_app, zlen_rep, zlen_sign.
           destruct ((v <? 0) || fplus f || fspace f) eqn:ES.
           ++ rewrite (rep_nonpos (r_width r - _)) by lia. cbn [app].
              repeat (f_equal; try lia).
           ++ rewrite (rep_nonpos (r_width r - _)) by lia. cbn [app].
              repeat (f_equal; try lia).
        -- rewrite (HwP eq_refl). rewrite (rep_nonpos (0 - zlen ds)) by lia. cbn [app].
           rewrite !zlen_app. rewrite !rep_nonpos by (pose proof (zlen_nonneg (sign_of (v <? 0) (fplus f) (fspace f))); lia).
           reflexivity.
      * rewrite (rep_nonpos (0 - zlen ds)) by lia. cbn [app]. rewrite !zlen_app. reflexivity.
Qed.

(* ---- o u x X ---- *)
Definition cbase (c : conv) : Z := match c with Co => 8 | Cx | CX => 16 | _ => 10 end.
Definition cupper (c : conv) : bool := match c with CX => true | _ => false end.

(* the combinations in which fmt and C differ for the unsigned conversions *)
Definition unsigned_ok (r : rspec) (c : conv) (u : Z) : Prop :=
  r_plus r = false /\ r_space r = false /\
  match c with
  | Co => ~ (r_sharp r = true /\ r_prec r = Some 0 /\ u = 0)
  | Cx | CX => r_sharp r = true ->
               u <> 0 /\ (r_zero r = false \/ r_minus r = true \/ r_prec r <> None \/ r_width r = 0)
  | _ => True
  end.

Lemma rep_shift n c (l : bytes) : 1 <= n -> rep (n - 1) c ++ c :: l = rep n c ++ l.
Proof.
  intros H. replace n with ((n - 1) + 1) at 2 by lia. rewrite rep_succ by lia.
  change (c :: l) with ([c] ++ l). rewrite app_assoc, rep_snoc. reflexivity.
Qed.

Ltac uprep base upper :=
  match goal with
  | Hst : st_matches ?f ?r, Hok : unsigned_ok ?r ?c (?v mod two64) |- _ =>
    destruct Hst as (Hw & HwP & Hw0 & Hm & Hp & Hs & Hsp & Hz & Hpr & Hp0);
    destruct Hok as (Hg1 & Hg2 & Hg);
    assert (Hu : 0 <= v mod two64) by (apply Z.mod_pos_bound; reflexivity);
    rewrite fmt_integer_nf; [| cbn [andb]; exact Hu | lia | rewrite Hw; exact HwP | rewrite Hw; exact Hw0];
    cbn [andb orb]; rewrite Hp, Hsp, Hg1, Hg2; cbn [orb sign_of app];
    unfold c_unsigned, c_digits, c_field;
    rewrite ?Hpr, <- ?Hm, <- ?Hs, ?Hw in *; clear Hpr;
    pose proof (to_digits_nonempty base (v mod two64) upper) as Hne;
    set (u := v mod two64) in *;
    set (ds := to_digits base u upper) in *
  end.

Lemma fmt_integer_u f r v : st_matches f r -> unsigned_ok r Cu (v mod two64) ->
  fmt_integer f (v mod two64) 10 false false = c_unsigned r Cu v.
Proof.
  intros Hst Hok. uprep 10 false.
  assert (Hsh : forall d, sharp_of (fsharp f) 10 false d = d)
    by (intros d; unfold sharp_of; destruct (fsharp f); reflexivity).
  rewrite Hsh. clear Hsh.
  destruct (precP f) eqn:EP.
  - cbn [andb]. rewrite (andb_comm (prec f =? 0)).
    destruct ((u =? 0) && (prec f =? 0)) eqn:E0.
    + cbn [app zlen length Z.of_nat]. rewrite Z.sub_0_r. destruct (fminus f); [reflexivity|].
      rewrite andb_false_r, app_nil_r. reflexivity.
    + cbn [app zlen length Z.of_nat]. rewrite andb_false_r, Z.add_0_l. destruct (fminus f); reflexivity.
  - cbn [andb]. replace ((u =? 0) && (1 =? 0)) with false by (rewrite andb_false_r; reflexivity).
    rewrite (rep_nonpos (1 - zlen ds)) by lia. cbn [app zlen length Z.of_nat]. rewrite !andb_true_r, Z.add_0_l.
    destruct (fminus f) eqn:EM.
    + cbn [negb andb]. rewrite andb_false_r. cbn [andb]. rewrite (rep_nonpos (0 - zlen ds)) by lia. reflexivity.
    + cbn [negb]. rewrite andb_true_r. rewrite <- (Hz eq_refl) in *.
      destruct (fzero f) eqn:EZ; cbn [andb].
      * destruct (widP f) eqn:EW.
        -- rewrite !zlen_app, zlen_rep. rewrite (rep_nonpos (r_width r - _)) by lia. reflexivity.
        -- rewrite (HwP eq_refl). rewrite !rep_nonpos by (rewrite ?zlen_app, ?zlen_rep; lia). reflexivity.
      * rewrite (rep_nonpos (0 - zlen ds)) by lia. reflexivity.
Qed.

Lemma fmt_integer_o f r v : st_matches f r -> unsigned_ok r Co (v mod two64) ->
  fmt_integer f (v mod two64) 8 false false = c_unsigned r Co v.
Proof.
  intros Hst Hok. uprep 8 false.
  unfold sharp_of. replace (8 =? 8) with true by reflexivity.
  destruct (precP f) eqn:EP.
  - cbn [andb]. rewrite (andb_comm (prec f =? 0)).
    destruct ((u =? 0) && (prec f =? 0)) eqn:E0.
    + apply andb_true_iff in E0 as [Ea Eb]. apply Z.eqb_eq in Ea, Eb.
      destruct (fsharp f) eqn:ES; [exfalso; apply Hg; rewrite Eb; auto|].
      cbn [app zlen length Z.of_nat]. rewrite Z.sub_0_r. destruct (fminus f); [reflexivity|].
      rewrite andb_false_r, app_nil_r. reflexivity.
    + set (d2 := if fsharp f then match rep (prec f - zlen ds) 48 ++ ds with 48 :: _ => _ | _ => _ end else _).
      cbn [app zlen length Z.of_nat]. rewrite andb_false_r, Z.add_0_l. destruct (fminus f); reflexivity.
  - cbn [andb]. replace ((u =? 0) && (1 =? 0)) with false by (rewrite andb_false_r; reflexivity).
    rewrite (rep_nonpos (1 - zlen ds)) by lia. cbn [app]. rewrite !andb_true_r.
    destruct (fminus f) eqn:EM.
    + cbn [negb andb]. rewrite andb_false_r. cbn [andb]. rewrite (rep_nonpos (0 - zlen ds)) by lia. cbn [app].
      reflexivity.
    + cbn [negb]. rewrite andb_true_r. rewrite <- (Hz eq_refl) in *.
      destruct (fzero f && widP f) eqn:EZW.
      * apply andb_true_iff in EZW as [EZ EW]. rewrite EZ in *.
        destruct (fsharp f) eqn:ES.
        -- rewrite !match48. cbn [app zlen length Z.of_nat]. rewrite Z.add_0_l.
           destruct (Z_le_gt_dec (r_width r) (zlen ds)) as [Hle|Hgt].
           ++ rewrite (rep_nonpos (r_width r - zlen ds)) by lia. cbn [app].
              destruct ds as [|c0 t]; [rewrite zlen_nil in Hne; lia|].
              destruct (c0 =? 48); rewrite !rep_nonpos by (rewrite ?zlen_cons in *; lia); reflexivity.
           ++ assert (E1 : exists k, rep (r_width r - zlen ds) 48 ++ ds = 48 :: k).
              { exists (rep (r_width r - zlen ds - 1) 48 ++ ds).
                replace (r_width r - zlen ds) with ((r_width r - zlen ds - 1) + 1) at 1 by lia.
                rewrite rep_succ by lia. reflexivity. }
              destruct E1 as [k Ek]. rewrite Ek. cbv beta iota. rewrite Z.eqb_refl. rewrite <- Ek.
              rewrite zlen_app, zlen_rep. rewrite (rep_nonpos (r_width r - _)) by lia. cbn [app].
              destruct ds as [|c0 t]; [rewrite zlen_nil in Hne; lia|].
              destruct (c0 =? 48); [reflexivity|].
              rewrite (zlen_cons 48).
              replace (r_width r - (1 + zlen (c0 :: t))) with (r_width r - zlen (c0 :: t) - 1) by lia.
              rewrite rep_shift by lia. reflexivity.
        -- cbn [app zlen length Z.of_nat]. rewrite Z.add_0_l.
           rewrite !zlen_app, zlen_rep. rewrite (rep_nonpos (r_width r - _)) by lia. reflexivity.
      * rewrite (rep_nonpos (0 - zlen ds)) by lia. cbn [app].
        remember (if fsharp f then match ds with 48 :: _ => ds | _ => 48 :: ds end else ds) as d2 eqn:Ed2.
        cbn [app zlen length Z.of_nat].
        destruct (fzero f) eqn:EZ; [|rewrite Z.add_0_l; subst d2; reflexivity].
        cbn [andb] in EZW. rewrite (HwP EZW).
        rewrite !rep_nonpos by (match goal with |- _ - ?e <= 0 => assert (0 <= e) by (rewrite ?Z.add_0_l; apply zlen_nonneg); lia end).
        subst d2. reflexivity.
Qed.

Ltac rep_eq := repeat (first [reflexivity | match goal with
   | |- ?a :: _ = ?a :: _ => f_equal
   | |- ?a ++ _ = ?a ++ _ => f_equal
   | |- rep ?a ?c = rep ?b ?c => replace a with b by lia; reflexivity
   | |- rep _ ?c ++ _ = rep _ ?c ++ _ => f_equal
   end]).

Definition c_hex (r : rspec) (upper : bool) (v : Z) : bytes :=
  let u := v mod two64 in
  c_field r (match r_prec r with None => true | Some _ => false end)
    (if r_sharp r && negb (u =? 0) then [48; if upper then 88 else 120] else []) (c_digits r 16 u upper).

Lemma fmt_integer_hex f r v upper : st_matches f r -> unsigned_ok r Cx (v mod two64) ->
  fmt_integer f (v mod two64) 16 false upper = c_hex r upper v.
Proof.
  intros Hst Hok.
  destruct Hst as (Hw & HwP & Hw0 & Hm & Hp & Hs & Hsp & Hz & Hpr & Hp0).
  destruct Hok as (Hg1 & Hg2 & Hg).
  assert (Hu : 0 <= v mod two64) by (apply Z.mod_pos_bound; reflexivity).
  rewrite fmt_integer_nf; [| cbn [andb]; exact Hu | lia | rewrite Hw; exact HwP | rewrite Hw; exact Hw0].
  cbn [andb orb]. rewrite Hp, Hsp, Hg1, Hg2. cbn [orb sign_of app].
  unfold c_hex, c_digits, c_field.
  rewrite ?Hpr, <- ?Hm, <- ?Hs, ?Hw in *. clear Hpr.
  pose proof (to_digits_nonempty 16 (v mod two64) upper) as Hne.
  set (u := v mod two64) in *.
  set (ds := to_digits 16 u upper) in *.
  unfold sharp_of. replace (16 =? 8) with false by reflexivity. replace (16 =? 16) with true by reflexivity.
  set (x := if upper then 88 else 120).
  destruct (fsharp f) eqn:ES.
  - (* # : guarded to u <> 0 and no zero padding to the width *)
    destruct (Hg eq_refl) as [N Hx]. replace (u =? 0) with false by (symmetry; apply Z.eqb_neq; exact N).
    cbn [andb negb]. rewrite !andb_false_r. cbn [andb].
    change (zlen [48; x]) with 2.
    destruct (precP f) eqn:EP.
    + rewrite !zlen_cons, !zlen_app.
      destruct (fminus f); cbn [app]; rewrite <- ?app_assoc; cbn [app].
      * rep_eq.
      * rewrite andb_false_r. rep_eq.
    + rewrite (rep_nonpos (1 - zlen ds)) by lia. cbn [app]. rewrite !andb_true_r.
      destruct (fminus f) eqn:EM.
      * cbn [negb andb]. rewrite andb_false_r. cbn [andb]. rewrite (rep_nonpos (0 - zlen ds)) by lia. cbn [app].
        rewrite !zlen_cons. rep_eq.
      * cbn [negb]. rewrite andb_true_r. rewrite <- (Hz eq_refl) in *.
        destruct (fzero f) eqn:EZ.
        -- destruct Hx as [Hx|[Hx|[Hx|Hx]]]; try discriminate; try (exfalso; apply Hx; reflexivity).
           rewrite Hx in *. destruct (widP f); cbn [andb];
           rewrite !rep_nonpos by (pose proof (zlen_nonneg ds); rewrite ?zlen_cons, ?zlen_app, ?zlen_rep; cbn [zlen length Z.of_nat]; lia);
           reflexivity.
        -- cbn [andb]. rewrite (rep_nonpos (0 - zlen ds)) by lia. cbn [app]. rewrite !zlen_cons.
           rep_eq.
  - (* no # : as for u *)
    cbn [andb app zlen length Z.of_nat]. rewrite !Z.add_0_l.
    destruct (precP f) eqn:EP.
    + cbn [andb]. rewrite (andb_comm (prec f =? 0)).
      destruct ((u =? 0) && (prec f =? 0)) eqn:E0.
      * cbn [app zlen length Z.of_nat]. rewrite Z.sub_0_r. destruct (fminus f); [reflexivity|].
        rewrite andb_false_r, app_nil_r. reflexivity.
      * rewrite andb_false_r. destruct (fminus f); reflexivity.
    + cbn [andb]. replace ((u =? 0) && (1 =? 0)) with false by (rewrite andb_false_r; reflexivity).
      rewrite (rep_nonpos (1 - zlen ds)) by lia. cbn [app zlen length Z.of_nat]. rewrite !andb_true_r.
      destruct (fminus f) eqn:EM.
      * cbn [negb andb]. rewrite andb_false_r. cbn [andb]. rewrite (rep_nonpos (0 - zlen ds)) by lia. reflexivity.
      * cbn [negb]. rewrite andb_true_r. rewrite <- (Hz eq_refl) in *.
        destruct (fzero f) eqn:EZ; cbn [andb].
        -- destruct (widP f) eqn:EW.
           ++ rewrite !zlen_app, zlen_rep. rewrite (rep_nonpos (r_width r - _)) by lia. reflexivity.
           ++ rewrite (HwP eq_refl). rewrite !rep_nonpos by (rewrite ?zlen_app, ?zlen_rep; lia). reflexivity.
        -- rewrite (rep_nonpos (0 - zlen ds)) by lia. reflexivity.
Qed.

Lemma fmt_integer_x f r v : st_matches f r -> unsigned_ok r Cx (v mod two64) ->
  fmt_integer f (v mod two64) 16 false false = c_unsigned r Cx v.
Proof. exact (fun a b => fmt_integer_hex f r v false a b). Qed.

Lemma fmt_integer_X f r v : st_matches f r -> unsigned_ok r CX (v mod two64) ->
  fmt_integer f (v mod two64) 16 false true = c_unsigned r CX v.
Proof. exact (fun a b => fmt_integer_hex f r v true a b). Qed.

(* ---- math/big's Format (used by sprintf for %d beyond int64) ---- *)
Theorem big_format_signed f r v : st_matches f r -> v <> 0 ->
  big_format f v 10 false = c_signed r v.
Proof.
  intros (Hw & HwP & Hw0 & Hm & Hp & Hs & Hsp & Hz & Hpr & Hp0) Hv.
  unfold big_format, c_signed, c_digits, c_field.
  replace (10 =? 8) with false by reflexivity. replace (10 =? 16) with false by reflexivity.
  rewrite (digits_of_to_digits 10 (Z.abs v) false) by lia.
  rewrite Hpr, <- Hm, <- Hp, <- Hsp, Hw in *. clear Hpr.
  set (ds := to_digits 10 (Z.abs v) false).
  pose proof (to_digits_nonempty 10 (Z.abs v) false) as Hne. fold ds in Hne.
  change (if v <? 0 then [45] else if fplus f then [43] else if fspace f then [32] else [])
    with (sign_of (v <? 0) (fplus f) (fspace f)).
  set (sg := sign_of (v <? 0) (fplus f) (fspace f)).
  replace (if fsharp f then [] else []) with (@nil Z) by (destruct (fsharp f); reflexivity).
  replace (v =? 0) with false by (symmetry; apply Z.eqb_neq; exact Hv).
  replace (Z.abs v =? 0) with false by (symmetry; apply Z.eqb_neq; lia).
  rewrite !andb_false_r. cbn [andb app]. rewrite !padding_rep. change (zlen (@nil Z)) with 0.
  assert (Hsg : 0 <= zlen sg) by apply zlen_nonneg.
  destruct (precP f) eqn:EP; cbn [andb negb].
  - (* precision given *)
    rewrite andb_false_r.
    destruct (zlen ds <? prec f) eqn:EL.
    + apply Z.ltb_lt in EL. rewrite !zlen_app, zlen_rep.
      destruct (widP f) eqn:EW; cbn [andb].
      * destruct (zlen sg + 0 + (prec f - zlen ds) + zlen ds <? r_width r) eqn:EF.
        -- apply Z.ltb_lt in EF. destruct (fminus f); rewrite ?andb_false_r, <- ?app_assoc; rep_eq.
        -- apply Z.ltb_ge in EF. rewrite !(rep_nonpos (r_width r - _)) by lia. destruct (fminus f); rewrite ?andb_false_r, ?app_nil_r; reflexivity.
      * rewrite (HwP eq_refl). rewrite !(rep_nonpos (0 - _)) by lia. destruct (fminus f); rewrite ?andb_false_r, ?app_nil_r; reflexivity.
    + apply Z.ltb_ge in EL. rewrite (rep_nonpos (prec f - zlen ds)) by lia. rewrite (rep_nonpos 0) by lia. cbn [app].
      destruct (widP f) eqn:EW; cbn [andb].
      * destruct (zlen sg + 0 + 0 + zlen ds <? r_width r) eqn:EF.
        -- apply Z.ltb_lt in EF. destruct (fminus f); rewrite ?andb_false_r, <- ?app_assoc; rep_eq.
        -- apply Z.ltb_ge in EF. rewrite !(rep_nonpos (r_width r - _)) by lia. destruct (fminus f); rewrite ?andb_false_r, ?app_nil_r; reflexivity.
      * rewrite (HwP eq_refl). rewrite !(rep_nonpos (0 - _)) by lia. destruct (fminus f); rewrite ?andb_false_r, ?app_nil_r; reflexivity.
  - (* no precision *)
    rewrite (rep_nonpos (1 - zlen ds)) by lia. rewrite (rep_nonpos 0) by lia. cbn [app]. rewrite andb_true_r.
    destruct (widP f) eqn:EW; cbn [andb].
    + destruct (zlen sg + 0 + 0 + zlen ds <? r_width r) eqn:EF.
      * apply Z.ltb_lt in EF. destruct (fminus f) eqn:EM; [rewrite <- ?app_assoc; rep_eq|].
        rewrite <- (Hz eq_refl). destruct (fzero f); cbn [andb]; rewrite <- ?app_assoc; rep_eq.
      * apply Z.ltb_ge in EF. rewrite !(rep_nonpos (r_width r - _)) by lia.
        destruct (fminus f) eqn:EM; [rewrite ?app_nil_r; reflexivity|].
        destruct (r_zero r); reflexivity.
    + rewrite (HwP eq_refl). rewrite !(rep_nonpos (0 - _)) by lia.
      destruct (fminus f); [rewrite ?app_nil_r; reflexivity|]. destruct (r_zero r); reflexivity.
Qed.

(* ---- interp.nonFinite's Format ---- *)
Theorem nf_format_nonfinite f r x verb : st_matches f r ->
  (match x with FFin _ _ => False | _ => True end) ->
  nf_format f x verb = c_nonfinite r x ((verb =? 69) || (verb =? 71) || (verb =? 88)).
Proof.
  intros (Hw & HwP & Hw0 & Hm & Hp & Hs & Hsp & Hz & Hpr & Hp0) Hx.
  unfold nf_format, c_nonfinite, c_field. rewrite <- Hm, <- Hp, <- Hsp, Hw in *.
  generalize ((verb =? 69) || (verb =? 71) || (verb =? 88)). intros up.
  assert (G : forall sg word : bytes,
    (if widP f && (r_width r >? zlen (sg ++ word))
     then if fminus f then (sg ++ word) ++ padding (r_width r - zlen (sg ++ word)) 32
          else padding (r_width r - zlen (sg ++ word)) 32 ++ sg ++ word
     else sg ++ word)
    = (if fminus f then sg ++ word ++ rep (r_width r - (zlen sg + zlen word)) 32
       else if r_zero r && false then sg ++ rep (r_width r - (zlen sg + zlen word)) 48 ++ word
       else rep (r_width r - (zlen sg + zlen word)) 32 ++ sg ++ word)).
  { intros sg word. rewrite !padding_rep. rewrite andb_false_r. rewrite zlen_app.
    assert (Hl : 0 <= zlen sg + zlen word) by (pose proof (zlen_nonneg sg); pose proof (zlen_nonneg word); lia).
    destruct (widP f) eqn:EW; cbn [andb].
    - destruct (r_width r >? zlen sg + zlen word) eqn:EF.
      + destruct (fminus f); rewrite <- ?app_assoc; reflexivity.
      + rewrite Z.gtb_ltb in EF. apply Z.ltb_ge in EF. rewrite !rep_nonpos by lia.
        destruct (fminus f); rewrite <- ?app_assoc, ?app_nil_r; reflexivity.
    - rewrite (HwP eq_refl). rewrite !rep_nonpos by lia.
      destruct (fminus f); rewrite <- ?app_assoc, ?app_nil_r; reflexivity. }
  destruct x as [|neg|m e]; [| |contradiction]; apply G.
Qed.
