(* C16: the layout of a body as steps ([flat_event]) numbers the arguments of a
   call below the number of arguments, so the arity check at the call head is
   all that is needed for the parameter look-ups to be in range: the
   precondition [wf] follows from its part about call heads and names. *)
From Verif Require Import Lib.Base Model.Resolver Proofs.Resolver.
Open Scope Z_scope.

(* ---------- induction over events (nested through lists) -------------------------- *)

Definition arg_all (Pe : event -> Prop) (a : arg) : Prop :=
  match a with ArgVar _ => True | ArgExpr es => Forall Pe es end.

Section EventInd.
Variable Pe : event -> Prop.
Hypothesis Huse : forall v t, Pe (Use v t).
Hypothesis Hcall : forall f args, Forall (arg_all Pe) args -> Pe (Call f args).

Fixpoint event_ind' (e : event) : Pe e.
Proof.
  destruct e as [v t|f args].
  - apply Huse.
  - apply Hcall. induction args as [|a r IH]; constructor; [|exact IH].
    destruct a as [v|es]; cbn [arg_all]; [exact I|].
    induction es as [|e' es' IHes]; constructor; [apply event_ind' | exact IHes].
Defined.
End EventInd.

(* ---------- the layout, with names -------------------------------------------------- *)

Fixpoint flat_args (f : name) (i : nat) (l : list arg) : list step :=
  match l with
  | [] => []
  | ArgVar v :: r => SArgVar f i v :: flat_args f (S i) r
  | ArgExpr es :: r => SArgExpr f i :: flat_events es ++ flat_args f (S i) r
  end.

Lemma flat_event_call f args :
  flat_event (Call f args) = SCallHead f (zlen args) :: flat_args f 0 args.
Proof.
  cbn [flat_event]. f_equal. generalize 0%nat. induction args as [|a r IH]; intros i; [reflexivity|].
  destruct a as [v|es]; cbn [flat_args]; rewrite <- IH; reflexivity.
Qed.

(* ---------- the precondition without the per-argument part ------------------------- *)

Definition wf_step0 (P : program) (cur : name) (st : step) : bool :=
  match st with
  | SArgExpr _ _ => true
  | SArgVar _ _ v => global_ok P cur v
  | _ => wf_step P cur st
  end.

Definition wf0 (P : program) : bool :=
  match first_dup [] (fnames P) with Some _ => false | None => true end
  && forallb (fun fd => negb (is_empty (f_name fd))) (p_funcs P)
  && negb (is_func P n_ARGV) && negb (is_func P n_ENVIRON) && negb (is_func P n_FIELDS)
  && forallb (fun fd => forallb (wf_step0 P (f_name fd)) (flat_events (f_body fd))) (p_funcs P)
  && forallb (wf_step0 P []) (flat_events (p_main P)).

Section Flat.
Variable P : program.
Variable cur : name.

Definition steps_ok0 (l : list step) : Prop := forall st, In st l -> wf_step0 P cur st = true.
Definition steps_ok (l : list step) : Prop := forall st, In st l -> wf_step P cur st = true.

Lemma steps_ok0_app a b : steps_ok0 (a ++ b) <-> steps_ok0 a /\ steps_ok0 b.
Proof.
  unfold steps_ok0. split.
  - intros H. split; intros st Hst; apply H; apply in_or_app; auto.
  - intros [Ha Hb] st Hst. apply in_app_or in Hst. destruct Hst; auto.
Qed.

Lemma steps_ok_app a b : steps_ok a -> steps_ok b -> steps_ok (a ++ b).
Proof. intros Ha Hb st Hst. apply in_app_or in Hst. destruct Hst; auto. Qed.

Lemma flat_events_ok es :
  Forall (fun e => steps_ok0 (flat_event e) -> steps_ok (flat_event e)) es ->
  steps_ok0 (flat_events es) -> steps_ok (flat_events es).
Proof.
  unfold flat_events. induction es as [|e es IH]; intros Hall H; cbn [flat_map]; [intros st []|].
  inversion Hall as [|x y H1 H2]; subst. cbn [flat_map] in H. apply steps_ok0_app in H. destruct H as [Ha Hb].
  apply steps_ok_app; [apply H1; exact Ha | apply IH; assumption].
Qed.

(* arguments numbered below [bound] *)
Lemma flat_args_ok f (bound : nat) :
  (forall i, (i < bound)%nat -> arg_ok P f i = true) ->
  forall l i, (i + length l <= bound)%nat ->
  Forall (arg_all (fun e => steps_ok0 (flat_event e) -> steps_ok (flat_event e))) l ->
  steps_ok0 (flat_args f i l) -> steps_ok (flat_args f i l).
Proof.
  intros Hb. induction l as [|a r IH]; intros i Hi Hall H; cbn [flat_args]; [intros st []|].
  inversion Hall as [|x y H1 H2]; subst. cbn [length] in Hi.
  destruct a as [v|es]; cbn [flat_args] in H.
  - intros st [<-|Hst].
    + cbn [wf_step]. rewrite Hb by lia. cbn [andb]. apply (H (SArgVar f i v)). left; reflexivity.
    + apply (IH (S i)); [lia | exact H2 | | exact Hst]. intros st' Hst'. apply H. right; exact Hst'.
  - assert (H' : steps_ok0 (flat_events es ++ flat_args f (S i) r)).
    { intros st' Hst'. apply H. right; exact Hst'. }
    apply steps_ok0_app in H'. destruct H' as [Ha Hr].
    intros st [<-|Hst].
    + cbn [wf_step]. apply Hb. lia.
    + revert st Hst. apply steps_ok_app.
      * apply flat_events_ok; [exact H1 | exact Ha].
      * apply (IH (S i)); [lia | exact H2 | exact Hr].
Qed.

Lemma flat_event_ok e : steps_ok0 (flat_event e) -> steps_ok (flat_event e).
Proof.
  induction e as [v t|f args IH] using event_ind'.
  - intros H st Hst. cbn [flat_event] in *. destruct Hst as [<-|[]]. apply (H (SUse v t)). left; reflexivity.
  - rewrite flat_event_call. intros H.
    assert (Hhead : wf_step P cur (SCallHead f (zlen args)) = true) by (apply (H (SCallHead f (zlen args))); left; reflexivity).
    intros st [<-|Hst]; [exact Hhead|].
    cbn [wf_step] in Hhead. apply andb_true_iff in Hhead. destruct Hhead as [_ Hhead].
    destruct (func_info P f) as [fi|] eqn:Efi; [|discriminate].
    assert (Hr : steps_ok0 (flat_args f 0 args)) by (intros st' Hst'; apply H; right; exact Hst').
    destruct (fi_native fi) eqn:En.
    + (* native: no parameter look-up *)
      revert st Hst. apply (flat_args_ok f (length args)); [|lia | exact IH | exact Hr].
      intros i _. unfold arg_ok. rewrite Efi, En. reflexivity.
    + apply negb_true_iff in Hhead. apply Z.ltb_ge in Hhead. unfold zlen in Hhead.
      revert st Hst. apply (flat_args_ok f (length args)); [|lia | exact IH | exact Hr].
      intros i Hi. unfold arg_ok. rewrite Efi, En. cbn [orb].
      destruct (nth_error (fi_params fi) i) eqn:En2; [reflexivity|].
      apply nth_error_None in En2. lia.
Qed.

Lemma forallb_flat_events es :
  forallb (wf_step0 P cur) (flat_events es) = true -> forallb (wf_step P cur) (flat_events es) = true.
Proof.
  intros H. apply forallb_forall. rewrite forallb_forall in H.
  apply flat_events_ok; [|exact H]. apply Forall_forall. intros e _. apply flat_event_ok.
Qed.

End Flat.

(* the arity check at the call heads (and the name rules) imply the whole precondition *)
Theorem wf0_wf P : wf0 P = true -> wf P = true.
Proof.
  unfold wf0, wf. intros H.
  apply andb_true_iff in H; destruct H as [H HE].
  apply andb_true_iff in H; destruct H as [H HD].
  apply andb_true_iff in H; destruct H as [H HC3].
  apply andb_true_iff in H; destruct H as [H HC2].
  apply andb_true_iff in H; destruct H as [H HC1].
  apply andb_true_iff in H; destruct H as [HA HB].
  rewrite HA, HB, HC1, HC2, HC3. cbn [andb].
  apply andb_true_iff. split.
  - apply forallb_forall. intros fd Hfd. rewrite forallb_forall in HD. apply forallb_flat_events. apply HD. exact Hfd.
  - apply forallb_flat_events. assumption.
Qed.

Lemma wf_wf0 P : wf P = true -> wf0 P = true.
Proof.
  assert (G : forall cur st, wf_step P cur st = true -> wf_step0 P cur st = true).
  { intros cur st. destruct st as [v t|f n|f i|f i v]; cbn [wf_step wf_step0]; auto.
    intros H. apply andb_true_iff in H. apply H. }
  unfold wf0, wf. intros H.
  apply andb_true_iff in H; destruct H as [H HE].
  apply andb_true_iff in H; destruct H as [H HD].
  apply andb_true_iff in H; destruct H as [H HC3].
  apply andb_true_iff in H; destruct H as [H HC2].
  apply andb_true_iff in H; destruct H as [H HC1].
  apply andb_true_iff in H; destruct H as [HA HB].
  rewrite HA, HB, HC1, HC2, HC3. cbn [andb].
  apply andb_true_iff. split.
  - apply forallb_forall. intros fd Hfd. rewrite forallb_forall in HD. specialize (HD fd Hfd).
    apply forallb_forall. intros st Hst. apply G. rewrite forallb_forall in HD. apply HD. exact Hst.
  - apply forallb_forall. intros st Hst. apply G. rewrite forallb_forall in HE. apply HE. exact Hst.
Qed.
