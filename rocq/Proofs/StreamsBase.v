(* C13 proofs, part 1: finite maps, the sink, bufio.Writer, stream buffers. *)
From Verif Require Import Lib.Base Model.Streams.

(* ---- finite maps ---- *)
Lemma alookup_aremove_same {A} n (l : list (name * A)) : alookup n (aremove n l) = None.
Proof.
  induction l as [|[k v] l IH]; cbn [aremove alookup]; auto.
  destruct (k =? n) eqn:Ek; auto. cbn [alookup]. rewrite Ek. auto.
Qed.

Lemma alookup_aremove_other {A} n m (l : list (name * A)) : n <> m -> alookup m (aremove n l) = alookup m l.
Proof.
  intros Hne. induction l as [|[k v] l IH]; cbn [aremove alookup]; auto.
  destruct (k =? n) eqn:Ek.
  - apply Z.eqb_eq in Ek. subst k. destruct (n =? m) eqn:Em; auto. apply Z.eqb_eq in Em. contradiction.
  - cbn [alookup]. destruct (k =? m); auto.
Qed.

Lemma alookup_aset_same {A} n (v : A) l : alookup n (aset n v l) = Some v.
Proof. unfold aset. cbn [alookup]. rewrite Z.eqb_refl. auto. Qed.

Lemma alookup_aset_other {A} n m (v : A) l : n <> m -> alookup m (aset n v l) = alookup m l.
Proof.
  intros Hne. unfold aset. cbn [alookup]. destruct (n =? m) eqn:Em.
  - apply Z.eqb_eq in Em. contradiction.
  - apply alookup_aremove_other; auto.
Qed.

Lemma alookup_aset {A} n m (v : A) l : alookup m (aset n v l) = if n =? m then Some v else alookup m l.
Proof.
  destruct (n =? m) eqn:Em.
  - apply Z.eqb_eq in Em. subst. apply alookup_aset_same.
  - apply Z.eqb_neq in Em. apply alookup_aset_other; auto.
Qed.

Lemma alookup_aremove {A} n m (l : list (name * A)) : alookup m (aremove n l) = if n =? m then None else alookup m l.
Proof.
  destruct (n =? m) eqn:Em.
  - apply Z.eqb_eq in Em. subst. apply alookup_aremove_same.
  - apply Z.eqb_neq in Em. apply alookup_aremove_other; auto.
Qed.

Lemma amem_aset {A} n m (v : A) l : amem m (aset n v l) = (n =? m) || amem m l.
Proof. unfold amem. rewrite alookup_aset. destruct (n =? m); auto. Qed.

Lemma amem_aremove {A} n m (l : list (name * A)) : amem m (aremove n l) = negb (n =? m) && amem m l.
Proof. unfold amem. rewrite alookup_aremove. destruct (n =? m); auto. Qed.

Lemma alookup_In {A} n (v : A) l : alookup n l = Some v -> In (n, v) l.
Proof.
  induction l as [|[k w] l IH]; cbn [alookup]; [discriminate|].
  destruct (k =? n) eqn:Ek; intros H.
  - apply Z.eqb_eq in Ek. injection H as <-. subst. left; auto.
  - right; auto.
Qed.

Lemma In_aremove {A} n k (v : A) l : In (k, v) (aremove n l) -> In (k, v) l /\ k <> n.
Proof.
  induction l as [|[k' w] l IH]; cbn [aremove]; [intros []|].
  destruct (k' =? n) eqn:Ek.
  - intros H. destruct (IH H). split; auto. right; auto.
  - intros [H|H].
    + injection H as -> ->. split; [left; auto|]. apply Z.eqb_neq in Ek. auto.
    + destruct (IH H). split; auto. right; auto.
Qed.

Lemma In_aset {A} n k (v w : A) l : In (k, w) (aset n v l) -> (k = n /\ w = v) \/ (In (k, w) l /\ k <> n).
Proof.
  unfold aset. intros [H|H].
  - injection H as -> ->. left; auto.
  - right. apply In_aremove; auto.
Qed.

(* keys are unique *)
Definition keys_nodup {A} (l : list (name * A)) : Prop := NoDup (map fst l).

Lemma notin_keys_aremove {A} n (l : list (name * A)) : ~ In n (map fst (aremove n l)).
Proof.
  induction l as [|[k v] l IH]; cbn [aremove map]; auto.
  destruct (k =? n) eqn:Ek; auto. cbn [map fst]. intros [H|H]; auto.
  apply Z.eqb_neq in Ek. auto.
Qed.

Lemma keys_aremove_incl {A} n m (l : list (name * A)) : In m (map fst (aremove n l)) -> In m (map fst l).
Proof.
  induction l as [|[k v] l IH]; cbn [aremove map]; auto.
  destruct (k =? n); cbn [map fst]; intros H; [right; auto|].
  destruct H; [left; auto|right; auto].
Qed.

Lemma keys_nodup_aremove {A} n (l : list (name * A)) : keys_nodup l -> keys_nodup (aremove n l).
Proof.
  unfold keys_nodup. induction l as [|[k v] l IH]; cbn [aremove map]; auto.
  intros H. inversion H as [|? ? Hn Hd]; subst.
  destruct (k =? n); auto. cbn [map fst]. constructor; auto.
  intros Hin. apply Hn. eapply keys_aremove_incl; eauto.
Qed.

Lemma keys_nodup_aset {A} n (v : A) l : keys_nodup l -> keys_nodup (aset n v l).
Proof.
  intros H. unfold aset, keys_nodup. cbn [map fst]. constructor.
  - apply notin_keys_aremove.
  - apply keys_nodup_aremove; auto.
Qed.

Lemma In_alookup {A} n (v : A) l : keys_nodup l -> In (n, v) l -> alookup n l = Some v.
Proof.
  unfold keys_nodup. induction l as [|[k w] l IH]; cbn [map fst alookup]; [intros _ []|].
  intros Hnd [H|H].
  - injection H as -> ->. rewrite Z.eqb_refl. auto.
  - inversion Hnd as [|? ? Hn Hd]; subst. destruct (k =? n) eqn:Ek.
    + apply Z.eqb_eq in Ek. subst. exfalso. apply Hn. change n with (fst (n, v)). apply in_map; auto.
    + auto.
Qed.

(* ---- files ---- *)
Lemma fs_get_aset fs n b t : fs_get (aset n b fs) t = if n =? t then b else fs_get fs t.
Proof. unfold fs_get. rewrite alookup_aset. destruct (n =? t); auto. Qed.

Lemma fs_get_append fs n b t : fs_get (fs_append fs n b) t = if n =? t then fs_get fs n ++ b else fs_get fs t.
Proof. unfold fs_append. apply fs_get_aset. Qed.

Lemma write_at_end content data : write_at (length content) content data = content ++ data.
Proof.
  unfold write_at. rewrite firstn_all. rewrite Nat.sub_diag. cbn [repeat app].
  rewrite skipn_all2 by lia. rewrite app_nil_r. auto.
Qed.

(* ---- the sink ---- *)
Lemma sink_write_nolimit k p : sk_limit k = None ->
  sink_write k p = ({| sk_data := sk_data k ++ p; sk_limit := None |}, length p, true).
Proof. intros H. unfold sink_write. rewrite H. auto. Qed.

(* whatever happens, the sink only grows, by a prefix of what it is given *)
Lemma sink_write_prefix k p k' n ok : sink_write k p = (k', n, ok) ->
  sk_limit k' = sk_limit k /\ sk_data k' = sk_data k ++ firstn n p /\ (ok = true -> n = length p) /\ (n <= length p)%nat.
Proof.
  unfold sink_write. destruct (sk_limit k) as [L|] eqn:EL.
  - destruct (length p <=? L - length (sk_data k))%nat eqn:Ele; intros H; injection H as <- <- <-; cbn [sk_limit sk_data].
    + rewrite firstn_all. auto.
    + apply Nat.leb_gt in Ele. repeat split; auto; try discriminate; lia.
  - intros H; injection H as <- <- <-; cbn [sk_limit sk_data]. rewrite firstn_all. auto.
Qed.

(* ---- bufio.Writer ---- *)
(* everything handed to a healthy writer over a sink that never fails is in sink ++ buffer *)
Lemma bw_flush_nolimit w k : sk_limit k = None -> bw_err w = false ->
  exists w' k', bw_flush w k = (w', k', true) /\ sk_limit k' = None /\ bw_err w' = false /\ bw_buf w' = [] /\
    sk_data k' = sk_data k ++ bw_buf w.
Proof.
  intros Hl He. unfold bw_flush. rewrite He. destruct (bw_buf w) as [|b r] eqn:Eb.
  - exists w, k. rewrite app_nil_r. auto.
  - rewrite sink_write_nolimit by auto. eexists _, _. split; [reflexivity|]. cbn. auto.
Qed.

Lemma bw_bytes_nolimit cap p : forall w k, sk_limit k = None -> bw_err w = false ->
  exists w' k', bw_bytes cap w k p = (w', k', true) /\ sk_limit k' = None /\ bw_err w' = false /\
    sk_data k' ++ bw_buf w' = sk_data k ++ bw_buf w ++ p.
Proof.
  induction p as [|b p IH]; intros w k Hl He; cbn [bw_bytes].
  - exists w, k. rewrite app_nil_r. auto.
  - destruct (cap <=? length (bw_buf w))%nat.
    + destruct (bw_flush_nolimit w k Hl He) as (w1 & k1 & Ef & Hl1 & He1 & Hb1 & Hd1). rewrite Ef.
      destruct (IH {| bw_buf := bw_buf w1 ++ [b]; bw_err := bw_err w1 |} k1 Hl1 He1) as (w' & k' & E & Hl' & He' & Hd').
      exists w', k'. repeat split; auto. rewrite Hd'. cbn [bw_buf]. rewrite Hb1, Hd1. cbn [app].
      rewrite <- !app_assoc. auto.
    + destruct (IH {| bw_buf := bw_buf w ++ [b]; bw_err := bw_err w |} k Hl He) as (w' & k' & E & Hl' & He' & Hd').
      exists w', k'. repeat split; auto. rewrite Hd'. cbn [bw_buf]. rewrite <- !app_assoc. auto.
Qed.

Lemma bw_write_nolimit cap p w k : sk_limit k = None -> bw_err w = false ->
  exists w' k', bw_write cap w k p = (w', k', true) /\ sk_limit k' = None /\ bw_err w' = false /\
    sk_data k' ++ bw_buf w' = sk_data k ++ bw_buf w ++ p.
Proof.
  intros Hl He. unfold bw_write, bw_direct. rewrite He.
  destruct (length p <=? cap - length (bw_buf w))%nat.
  - eexists _, _. split; [reflexivity|]. cbn. auto.
  - destruct (bw_buf w) as [|b0 buf] eqn:Eb.
    + rewrite sink_write_nolimit by auto. eexists _, _. split; [reflexivity|]. cbn. rewrite Eb, app_nil_r. auto.
    + set (a := (cap - length (b0 :: buf))%nat).
      set (w0 := {| bw_buf := (b0 :: buf) ++ firstn a p; bw_err := false |}).
      destruct (bw_flush_nolimit w0 k Hl eq_refl) as (w1 & k1 & Ef & Hl1 & He1 & Hb1 & Hd1). rewrite Ef.
      destruct (length (skipn a p) <=? cap)%nat.
      * eexists _, _. split; [reflexivity|]. cbn [sk_limit bw_err bw_buf]. repeat split; auto.
        rewrite Hd1. subst w0. cbn [bw_buf]. rewrite <- !app_assoc. rewrite (firstn_skipn a p). auto.
      * rewrite sink_write_nolimit by auto. eexists _, _. split; [reflexivity|]. cbn [sk_limit sk_data]. repeat split; auto.
        rewrite Hb1, app_nil_r, Hd1. subst w0. cbn [bw_buf]. rewrite <- !app_assoc. rewrite (firstn_skipn a p). auto.
Qed.

Lemma write_pieces_buf_nolimit cap ps : forall w k, sk_limit k = None -> bw_err w = false ->
  exists w' k', write_pieces_buf cap w k ps = (w', k', true) /\ sk_limit k' = None /\ bw_err w' = false /\
    sk_data k' ++ bw_buf w' = sk_data k ++ bw_buf w ++ concat ps.
Proof.
  induction ps as [|p ps IH]; intros w k Hl He; cbn [write_pieces_buf concat].
  - exists w, k. rewrite app_nil_r. auto.
  - unfold bw_write_string. rewrite He.
    destruct (bw_bytes_nolimit cap p w k Hl He) as (w1 & k1 & E & Hl1 & He1 & Hd1). rewrite E.
    destruct (IH w1 k1 Hl1 He1) as (w' & k' & E' & Hl' & He' & Hd').
    exists w', k'. repeat split; auto. rewrite Hd'. rewrite app_assoc, Hd1. rewrite <- !app_assoc. auto.
Qed.

Lemma write_pieces_direct_nolimit ps : forall k, sk_limit k = None ->
  exists k', write_pieces_direct k ps = (k', true) /\ sk_limit k' = None /\ sk_data k' = sk_data k ++ concat ps.
Proof.
  induction ps as [|p ps IH]; intros k Hl; cbn [write_pieces_direct concat].
  - exists k. rewrite app_nil_r. auto.
  - rewrite sink_write_nolimit by auto.
    destruct (IH {| sk_data := sk_data k ++ p; sk_limit := None |} eq_refl) as (k' & E & Hl' & Hd').
    exists k'. repeat split; auto. rewrite Hd'. cbn [sk_data]. rewrite app_assoc. auto.
Qed.

(* ---- stream buffers: nothing is lost or reordered ---- *)
Lemma buf_bytes_spec cap buf p f r : buf_bytes cap buf p = (f, r) -> f ++ r = buf ++ p.
Proof.
  unfold buf_bytes. destruct (length p <=? cap - length buf)%nat.
  - intros H. injection H as <- <-. auto.
  - intros H. injection H as <- <-.
    rewrite <- !app_assoc. rewrite firstn_skipn. rewrite firstn_skipn. auto.
Qed.

(* ---- writeCSV's scratch writer: the chunks it hands on are the record, in order ---- *)
Lemma chunks_of_concat fuel n : forall p, concat (chunks_of fuel n p) = p.
Proof.
  induction fuel as [|f IH]; intros p; cbn [chunks_of].
  - cbn. apply app_nil_r.
  - destruct (length p <=? n)%nat.
    + cbn. apply app_nil_r.
    + cbn [concat]. rewrite IH. apply firstn_skipn.
Qed.

Lemma scratch_chunks_concat p : concat (scratch_chunks p) = p.
Proof. apply chunks_of_concat. Qed.

Lemma write_chunks_buf_nolimit cap cs : forall w k, sk_limit k = None -> bw_err w = false ->
  exists w' k', write_chunks_buf cap w k cs = (w', k', true) /\ sk_limit k' = None /\ bw_err w' = false /\
    sk_data k' ++ bw_buf w' = sk_data k ++ bw_buf w ++ concat cs.
Proof.
  induction cs as [|c cs IH]; intros w k Hl He; cbn [write_chunks_buf concat].
  - exists w, k. rewrite app_nil_r. auto.
  - destruct (bw_write_nolimit cap c w k Hl He) as (w1 & k1 & E & Hl1 & He1 & Hd1). rewrite E.
    destruct (IH w1 k1 Hl1 He1) as (w' & k' & E' & Hl' & He' & Hd').
    exists w', k'. repeat split; auto. rewrite Hd'. rewrite app_assoc, Hd1. rewrite <- !app_assoc. auto.
Qed.
