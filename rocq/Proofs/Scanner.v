(* Proofs about the bufio.Scanner model: fuel adequacy, and CHUNK INDEPENDENCE: for a stable
   split function the delivered tokens are a function of the concatenated input alone. *)
From Verif Require Import Lib.Base Model.Scanner.

(* ---------- list facts on zdrop / ztake ---------- *)

Lemma zdrop_app_le {A} n (a b : list A) : n <= zlen a -> zdrop n (a ++ b) = zdrop n a ++ b.
Proof.
  unfold zdrop, zlen; intros H. rewrite skipn_app.
  replace (Z.to_nat n - length a)%nat with O by lia. reflexivity.
Qed.

Lemma skipn_add {A} (x y : nat) (l : list A) : skipn (x + y) l = skipn y (skipn x l).
Proof.
  revert l; induction x as [|x IH]; intros l; [reflexivity|].
  destruct l as [|a l]; [cbn; destruct y; reflexivity|]. cbn [Nat.add skipn]. apply IH.
Qed.

Lemma zdrop_zdrop {A} a c (l : list A) : 0 <= a -> 0 <= c -> zdrop (a + c) l = zdrop c (zdrop a l).
Proof.
  unfold zdrop; intros Ha Hc. rewrite <- skipn_add. f_equal. lia.
Qed.

Lemma zdrop_app_zlen {A} a (p y : list A) : 0 <= a -> zdrop (zlen p + a) (p ++ y) = zdrop a y.
Proof.
  intros Ha. rewrite zdrop_zdrop by (try apply zlen_nonneg; lia).
  f_equal. unfold zdrop, zlen. rewrite Nat2Z.id. rewrite skipn_app.
  rewrite skipn_all. rewrite Nat.sub_diag. reflexivity.
Qed.

Lemma ztake_zdrop {A} k (l : list A) : ztake k l ++ zdrop k l = l.
Proof. unfold ztake, zdrop. apply firstn_skipn. Qed.

Lemma length_zdrop_lt {A} adv (b : list A) : 0 < adv -> adv <= zlen b -> (length (zdrop adv b) < length b)%nat.
Proof.
  unfold zdrop, zlen; intros H1 H2. rewrite skipn_length. lia.
Qed.

Lemma zlen_length_le {A} (a b : list A) : (length a <= length b)%nat <-> zlen a <= zlen b.
Proof. unfold zlen; lia. Qed.

Lemma nilb_true {A} (l : list A) : nilb l = true <-> l = [].
Proof. destruct l; cbn; split; congruence. Qed.

Lemma nilb_false {A} (l : list A) : nilb l = false <-> l <> [].
Proof. destruct l; cbn; split; congruence. Qed.

Section ScannerProofs.
  Variables St Tok : Type.
  Variable split : splitfn St Tok.

  Notation drain := (drain St Tok split).
  Notation drainF := (drainF St Tok split).
  Notation finish := (finish St Tok split).
  Notation scan_from := (scan_from St Tok split).
  Notation scan := (scan St Tok split).
  Notation reference := (reference St Tok split).
  Notation tcons := (tcons St Tok).
  Notation tapp := (tapp Tok).
  Notation sres := (sres St Tok).

  (* ---------- fuel ---------- *)

  Lemma drain_fuel_irrel : forall f1 f2 e st buf,
    (length buf < f1)%nat -> (length buf < f2)%nat -> drain f1 e st buf = drain f2 e st buf.
  Proof.
    induction f1 as [|f1 IH]; intros f2 e st buf H1 H2; [lia|].
    destruct f2 as [|f2]; [lia|].
    cbn [Scanner.drain].
    destruct (negb e && nilb buf); [reflexivity|].
    destruct (split st buf e) as [adv tok st'|]; [|reflexivity].
    destruct (adv <? 0) eqn:Hneg; [reflexivity|].
    destruct (zlen buf <? adv) eqn:Hfar; [reflexivity|].
    destruct tok as [t|]; [|reflexivity].
    destruct (adv =? 0) eqn:Hz; [reflexivity|].
    f_equal. apply Z.ltb_ge in Hneg, Hfar. apply Z.eqb_neq in Hz.
    assert (length (zdrop adv buf) < length buf)%nat by (apply length_zdrop_lt; lia).
    apply IH; lia.
  Qed.

  (* the loop without fuel *)
  Lemma drainF_unfold : forall e st buf,
    drainF e st buf =
      if negb e && nilb buf then ([], DMore st buf) else
      match split st buf e with
      | SPanic => ([], DStop SplitPanic)
      | SOk adv tok st' =>
        if adv <? 0 then ([], DStop ErrNegativeAdvance)
        else if zlen buf <? adv then ([], DStop ErrAdvanceTooFar)
        else match tok with
             | None => ([], DMore st' (zdrop adv buf))
             | Some t => if adv =? 0 then ([t], DStop Stall)
                         else tcons t (drainF e st' (zdrop adv buf))
             end
      end.
  Proof.
    intros e st buf. unfold Scanner.drainF at 1. cbn [Scanner.drain].
    destruct (negb e && nilb buf); [reflexivity|].
    destruct (split st buf e) as [adv tok st'|]; [|reflexivity].
    destruct (adv <? 0) eqn:Hneg; [reflexivity|].
    destruct (zlen buf <? adv) eqn:Hfar; [reflexivity|].
    destruct tok as [t|]; [|reflexivity].
    destruct (adv =? 0) eqn:Hz; [reflexivity|].
    f_equal. apply Z.ltb_ge in Hneg, Hfar. apply Z.eqb_neq in Hz.
    assert (length (zdrop adv buf) < length buf)%nat by (apply length_zdrop_lt; lia).
    unfold Scanner.drainF. apply drain_fuel_irrel; lia.
  Qed.

  (* the fuel given by drainF is never exhausted *)
  Lemma drainF_no_fuel : forall e st buf, snd (drainF e st buf) <> DStop OutOfFuel.
  Proof.
    intros e st buf. remember (length buf) as n eqn:Hn.
    revert st buf Hn. induction n as [n IH] using lt_wf_ind. intros st buf Hn.
    rewrite drainF_unfold.
    destruct (negb e && nilb buf); [cbn; discriminate|].
    destruct (split st buf e) as [adv tok st'|]; [|cbn; discriminate].
    destruct (adv <? 0) eqn:Hneg; [cbn; discriminate|].
    destruct (zlen buf <? adv) eqn:Hfar; [cbn; discriminate|].
    destruct tok as [t|]; [|cbn; discriminate].
    destruct (adv =? 0) eqn:Hz; [cbn; discriminate|].
    cbn [Scanner.tcons snd]. apply Z.ltb_ge in Hneg, Hfar. apply Z.eqb_neq in Hz.
    assert (length (zdrop adv buf) < length buf)%nat by (apply length_zdrop_lt; lia).
    eapply IH; [|reflexivity]. lia.
  Qed.

  (* ---------- well-behaved split functions ---------- *)

  (* never panics, advances within the data, advances when it delivers a token, and asks for
     more on empty data (Scan never calls it there, so this costs nothing) *)
  Record wb : Prop := {
    wb_ok : forall st d e, exists adv tok st',
        split st d e = SOk adv tok st' /\ 0 <= adv <= zlen d /\ (tok <> None -> 0 < adv);
    wb_empty : forall st, split st [] false = SOk 0 None st
  }.

  Definition dapp (ts : list Tok) (p : list Tok * dstop St) : list Tok * dstop St :=
    (ts ++ fst p, snd p).

  Lemma dapp_nil p : dapp [] p = p.
  Proof. destruct p; reflexivity. Qed.

  Lemma tcons_dapp t ts p : tcons t (dapp ts p) = dapp (t :: ts) p.
  Proof. reflexivity. Qed.

  Lemma drainF_wb : wb -> forall e st buf,
    drainF e st buf =
      match split st buf e with
      | SPanic => ([], DStop SplitPanic)
      | SOk adv None st' => ([], DMore st' (zdrop adv buf))
      | SOk adv (Some t) st' => tcons t (drainF e st' (zdrop adv buf))
      end.
  Proof.
    intros W e st buf. rewrite drainF_unfold.
    destruct (negb e && nilb buf) eqn:Hc.
    - apply andb_true_iff in Hc as [He Hb]. apply nilb_true in Hb. subst buf.
      destruct e; [discriminate|]. rewrite (wb_empty W). reflexivity.
    - destruct (wb_ok W st buf e) as (adv & tok & st' & Hs & Hb & Hp). rewrite Hs.
      replace (adv <? 0) with false by (symmetry; apply Z.ltb_ge; lia).
      replace (zlen buf <? adv) with false by (symmetry; apply Z.ltb_ge; lia).
      destruct tok as [t|]; [|reflexivity].
      replace (adv =? 0) with false; [reflexivity|].
      symmetry; apply Z.eqb_neq. assert (0 < adv) by (apply Hp; discriminate). lia.
  Qed.

  (* a well-behaved split function never stops the token loop with an error *)
  Lemma drainF_wb_more : wb -> forall e st buf, exists ts st' b', drainF e st buf = (ts, DMore st' b').
  Proof.
    intros W e st buf. remember (length buf) as n eqn:Hn.
    revert st buf Hn. induction n as [n IH] using lt_wf_ind. intros st buf Hn.
    rewrite (drainF_wb W).
    destruct (wb_ok W st buf e) as (adv & tok & st' & Hs & Hb & Hp). rewrite Hs.
    destruct tok as [t|].
    - assert (0 < adv) by (apply Hp; discriminate).
      assert (length (zdrop adv buf) < length buf)%nat by (apply length_zdrop_lt; lia).
      destruct (IH (length (zdrop adv buf)) ltac:(lia) st' (zdrop adv buf) eq_refl) as (ts & s2 & b2 & E).
      rewrite E. exists (t :: ts), s2, b2. reflexivity.
    - exists [], st', (zdrop adv buf). reflexivity.
  Qed.

  (* ---------- stability ---------- *)

  Definition shift (k : Z) (r : sres) : sres :=
    match r with SOk a t s => SOk (k + a) t s | SPanic => SPanic end.

  (* in state st the bytes p are passed over without any effect (when the whole remaining
     input is presented, atEOF = true) *)
  Definition skips (st : St) (p : bytes) : Prop :=
    forall x, split st (p ++ x) true = shift (zlen p) (split st x true).

  (* [st_tok]: a token decided before EOF is the token decided when the complete remaining
     input is presented at EOF, whatever that input is - except that the latter may swallow k
     more bytes, which the next call would have skipped anyway.
     [st_more]: a nil-token return before EOF (need more data / skip) commits to nothing: the
     answer on the complete input is the answer from the state and position it left. *)
  Record stable : Prop := {
    st_wb : wb;
    st_tok : forall st d adv t st', split st d false = SOk adv (Some t) st' ->
      forall d', exists k, 0 <= k /\
        split st (d ++ d') true = SOk (adv + k) (Some t) st' /\
        skips st' (ztake k (zdrop adv (d ++ d')));
    st_more : forall st d adv st', split st d false = SOk adv None st' ->
      forall d', split st (d ++ d') true = shift adv (split st' (zdrop adv d ++ d') true)
  }.

  Lemma shift_0 r : shift 0 r = r.
  Proof. destruct r; reflexivity. Qed.

  Lemma skips_nil st : skips st [].
  Proof. intros x. cbn [app]. rewrite zlen_nil, shift_0. reflexivity. Qed.

  (* the common case: tokens decided before EOF persist verbatim, and a nil token before EOF
     means "advance 0, state untouched" *)
  Lemma stable_simple : wb ->
    (forall st d adv t st', split st d false = SOk adv (Some t) st' ->
       forall d', split st (d ++ d') true = SOk adv (Some t) st') ->
    (forall st d adv st', split st d false = SOk adv None st' -> adv = 0 /\ st' = st) ->
    stable.
  Proof.
    intros W Ht Hm. split; [exact W| |].
    - intros st d adv t st' Hs d'. exists 0. split; [lia|]. split.
      + rewrite Z.add_0_r. apply Ht. exact Hs.
      + replace (ztake 0 (zdrop adv (d ++ d'))) with (@nil Z) by reflexivity. apply skips_nil.
    - intros st d adv st' Hs d'. destruct (Hm _ _ _ _ Hs) as [-> ->].
      rewrite shift_0. reflexivity.
  Qed.

  Lemma skips_drain : wb -> forall st p, skips st p ->
    forall y, drainF true st (p ++ y) = drainF true st y.
  Proof.
    intros W st p Hs y. rewrite (drainF_wb W true st (p ++ y)), (drainF_wb W true st y).
    rewrite Hs. destruct (wb_ok W st y true) as (a & tok & st2 & E & Hb & _). rewrite E.
    cbn [shift]. rewrite zdrop_app_zlen by lia. reflexivity.
  Qed.

  (* what was decided on a prefix of the data is what the complete data decides at EOF *)
  Lemma drain_extend : stable -> forall n b, (length b <= n)%nat ->
    forall st ts st' b', drainF false st b = (ts, DMore st' b') ->
    forall d, drainF true st (b ++ d) = dapp ts (drainF true st' (b' ++ d)).
  Proof.
    intros S. pose proof (st_wb S) as W.
    induction n as [|n IH]; intros b Hlen st ts st' b' Hd d.
    - assert (b = []) by (destruct b; [reflexivity|cbn in Hlen; lia]). subst b.
      rewrite (drainF_wb W), (wb_empty W) in Hd. injection Hd as <- <- <-.
      rewrite dapp_nil. reflexivity.
    - rewrite (drainF_wb W) in Hd.
      destruct (wb_ok W st b false) as (adv & tok & st1 & Hs & Hb & Hp). rewrite Hs in Hd.
      destruct tok as [t|].
      + assert (Hadv : 0 < adv) by (apply Hp; discriminate).
        destruct (drainF false st1 (zdrop adv b)) as [ts1 r1] eqn:E1.
        cbn [Scanner.tcons fst snd] in Hd. injection Hd as <- ->.
        destruct (st_tok S _ _ _ _ _ Hs d) as (k & Hk & Hsk & Hskip).
        rewrite (drainF_wb W true st (b ++ d)), Hsk.
        rewrite zdrop_zdrop by lia.
        pose proof (skips_drain W _ _ Hskip (zdrop k (zdrop adv (b ++ d)))) as Hsd.
        rewrite ztake_zdrop in Hsd. rewrite <- Hsd.
        rewrite zdrop_app_le by lia.
        assert (length (zdrop adv b) < length b)%nat by (apply length_zdrop_lt; lia).
        rewrite (IH (zdrop adv b) ltac:(lia) st1 ts1 st' b' E1 d).
        reflexivity.
      + injection Hd as <- <- <-. rewrite dapp_nil.
        rewrite (drainF_wb W true st (b ++ d)), (drainF_wb W true st1 (zdrop adv b ++ d)).
        rewrite (st_more S _ _ _ _ Hs d).
        destruct (wb_ok W st1 (zdrop adv b ++ d) true) as (a2 & tok2 & st2 & E2 & Hb2 & _). rewrite E2.
        cbn [shift]. rewrite zdrop_zdrop by lia. rewrite zdrop_app_le by lia. reflexivity.
  Qed.

  Lemma finish_extend : stable -> forall o st b ts st' b',
    drainF false st b = (ts, DMore st' b') ->
    forall d, finish o st (b ++ d) = tapp ts (finish o st' (b' ++ d)).
  Proof.
    intros S o st b ts st' b' Hd d. unfold Scanner.finish.
    rewrite (drain_extend S (length b) b (le_n _) st ts st' b' Hd d).
    unfold dapp, Scanner.tapp. cbn [fst snd]. reflexivity.
  Qed.

  (* ---------- readers ---------- *)

  (* the reader never returns more than 100 empty reads in a row (otherwise Scan gives up with
     io.ErrNoProgress, which is the reader's fault) *)
  Fixpoint reader_ok (last_eof : bool) (e : nat) (chunks : list bytes) : Prop :=
    match chunks with
    | [] => True
    | c :: cs =>
      if nilb c then
        if last_eof && nilb cs then True
        else (e < max_empty_reads)%nat /\ reader_ok last_eof (S e) cs
      else reader_ok last_eof O cs
    end.

  Lemma scan_from_reference : stable -> forall last_eof chunks st b e,
    reader_ok last_eof e chunks ->
    scan_from last_eof st b e chunks = finish Done st (b ++ concat chunks).
  Proof.
    intros S last_eof. pose proof (st_wb S) as W.
    induction chunks as [|c cs IH]; intros st b e Hr.
    - cbn [Scanner.scan_from concat]. rewrite app_nil_r. reflexivity.
    - cbn [Scanner.scan_from concat]. cbn [reader_ok] in Hr.
      destruct (nilb c) eqn:Hc.
      + apply nilb_true in Hc. subst c. cbn [app].
        destruct (last_eof && nilb cs) eqn:Hl.
        * apply andb_true_iff in Hl as [_ Hn]. apply nilb_true in Hn. subst cs.
          cbn [concat]. rewrite app_nil_r. reflexivity.
        * destruct Hr as [He Hr].
          replace (Nat.leb max_empty_reads e) with false by (symmetry; apply Nat.leb_gt; exact He).
          apply IH. exact Hr.
      + destruct (last_eof && nilb cs) eqn:Hl.
        * apply andb_true_iff in Hl as [_ Hn]. apply nilb_true in Hn. subst cs.
          cbn [concat]. rewrite app_nil_r. reflexivity.
        * destruct (drainF_wb_more W false st (b ++ c)) as (ts & st' & b' & Hd).
          rewrite Hd. rewrite (IH st' b' O Hr).
          rewrite app_assoc. rewrite (finish_extend S Done st (b ++ c) ts st' b' Hd).
          reflexivity.
  Qed.

  (* CHUNK INDEPENDENCE *)
  Theorem scan_reference : stable -> forall last_eof st0 chunks,
    reader_ok last_eof O chunks ->
    scan last_eof st0 chunks = reference st0 (concat chunks).
  Proof.
    intros S last_eof st0 chunks Hr. unfold Scanner.scan, Scanner.reference.
    rewrite (scan_from_reference S last_eof chunks st0 [] O Hr). reflexivity.
  Qed.

  Theorem chunk_independence : stable -> forall last_eof st0 chunks,
    reader_ok last_eof O chunks ->
    scan last_eof st0 chunks = scan false st0 [concat chunks].
  Proof.
    intros S last_eof st0 chunks Hr.
    rewrite (scan_reference S last_eof st0 chunks Hr).
    rewrite (scan_reference S false st0 [concat chunks]).
    - cbn [concat]. rewrite app_nil_r. reflexivity.
    - cbn [reader_ok]. destruct (nilb (concat chunks)); cbn; [|exact I].
      split; [unfold max_empty_reads; lia|exact I].
  Qed.

  (* a stable split function never makes Scan fail *)
  Lemma reference_done : wb -> forall st0 data, snd (reference st0 data) = Done.
  Proof.
    intros W st0 data. unfold Scanner.reference, Scanner.finish.
    destruct (drainF_wb_more W true st0 data) as (ts & st' & b' & E). rewrite E. reflexivity.
  Qed.

  (* a well-behaved split function never makes Scan fail, whatever the delivery *)
  Lemma scan_from_done : wb -> forall last_eof chunks st b e,
    reader_ok last_eof e chunks -> snd (scan_from last_eof st b e chunks) = Done.
  Proof.
    intros W last_eof.
    assert (F : forall st b, snd (finish Done st b) = Done).
    { intros st b. unfold Scanner.finish.
      destruct (drainF_wb_more W true st b) as (ts & s2 & b2 & E). rewrite E. reflexivity. }
    induction chunks as [|c cs IH]; intros st b e Hr; cbn [Scanner.scan_from]; [apply F|].
    cbn [reader_ok] in Hr. destruct (nilb c).
    - destruct (last_eof && nilb cs); [apply F|]. destruct Hr as [He Hr].
      replace (Nat.leb max_empty_reads e) with false by (symmetry; apply Nat.leb_gt; exact He).
      apply IH. exact Hr.
    - destruct (last_eof && nilb cs); [apply F|].
      destruct (drainF_wb_more W false st (b ++ c)) as (ts & s2 & b2 & E). rewrite E.
      unfold Scanner.tapp. cbn [snd]. apply IH. exact Hr.
  Qed.

  (* ---------- losslessness for any chunking (no stability needed) ---------- *)

  (* every token stands for exactly the bytes consumed with it, nothing is skipped, and at EOF
     nothing is left behind *)
  Record consuming (w : Tok -> bytes) : Prop := {
    co_wb : wb;
    co_tok : forall st d e adv t st', split st d e = SOk adv (Some t) st' -> ztake adv d = w t;
    co_more : forall st d e adv st', split st d e = SOk adv None st' -> adv = 0 /\ (e = true -> d = [])
  }.

  Lemma drain_consumes w : consuming w -> forall e st buf ts st' b',
    drainF e st buf = (ts, DMore st' b') ->
    buf = concat (map w ts) ++ b' /\ (e = true -> b' = []).
  Proof.
    intros C e. pose proof (co_wb w C) as W.
    intros st buf. remember (length buf) as n eqn:Hn.
    revert st buf Hn. induction n as [n IH] using lt_wf_ind. intros st buf Hn ts st' b' Hd.
    rewrite (drainF_wb W) in Hd.
    destruct (wb_ok W st buf e) as (adv & tok & st1 & Hs & Hb & Hp). rewrite Hs in Hd.
    destruct tok as [t|].
    - assert (0 < adv) by (apply Hp; discriminate).
      destruct (drainF e st1 (zdrop adv buf)) as [ts1 r1] eqn:E1.
      cbn [Scanner.tcons fst snd] in Hd. injection Hd as <- ->.
      assert (length (zdrop adv buf) < length buf)%nat by (apply length_zdrop_lt; lia).
      destruct (IH (length (zdrop adv buf)) ltac:(lia) st1 (zdrop adv buf) eq_refl ts1 st' b' E1) as [H1 H2].
      split; [|exact H2].
      cbn [map concat]. rewrite <- (co_tok w C _ _ _ _ _ _ Hs). rewrite <- app_assoc, <- H1.
      symmetry. apply ztake_zdrop.
    - injection Hd as <- <- <-. destruct (co_more w C _ _ _ _ _ Hs) as [-> He].
      cbn [map concat app]. split; [reflexivity|]. intros ->. rewrite (He eq_refl). reflexivity.
  Qed.

  Theorem scan_lossless w : consuming w -> forall last_eof chunks st b e,
    reader_ok last_eof e chunks ->
    let r := scan_from last_eof st b e chunks in
    snd r = Done /\ concat (map w (fst r)) = b ++ concat chunks.
  Proof.
    intros C last_eof. pose proof (co_wb w C) as W.
    assert (Hfin : forall st b, snd (finish Done st b) = Done /\ concat (map w (fst (finish Done st b))) = b).
    { intros st b. unfold Scanner.finish.
      destruct (drainF_wb_more W true st b) as (ts & st' & b' & E). rewrite E. cbn [fst snd].
      destruct (drain_consumes w C true st b ts st' b' E) as [H1 H2].
      rewrite (H2 eq_refl), app_nil_r in H1. split; [reflexivity|congruence]. }
    induction chunks as [|c cs IH]; intros st b e Hr; cbn zeta.
    - cbn [Scanner.scan_from concat]. rewrite app_nil_r. apply Hfin.
    - cbn [Scanner.scan_from concat]. cbn [reader_ok] in Hr.
      destruct (nilb c) eqn:Hc.
      + apply nilb_true in Hc. subst c. cbn [app].
        destruct (last_eof && nilb cs) eqn:Hl.
        * apply andb_true_iff in Hl as [_ Hn]. apply nilb_true in Hn. subst cs.
          cbn [concat]. rewrite app_nil_r. apply Hfin.
        * destruct Hr as [He Hr].
          replace (Nat.leb max_empty_reads e) with false by (symmetry; apply Nat.leb_gt; exact He).
          apply IH. exact Hr.
      + destruct (last_eof && nilb cs) eqn:Hl.
        * apply andb_true_iff in Hl as [_ Hn]. apply nilb_true in Hn. subst cs.
          cbn [concat]. rewrite app_nil_r. apply Hfin.
        * destruct (drainF_wb_more W false st (b ++ c)) as (ts & st' & b' & Hd).
          rewrite Hd. destruct (IH st' b' O Hr) as [H1 H2]. cbn zeta in H1, H2.
          unfold Scanner.tapp. cbn [fst snd]. split; [exact H1|].
          rewrite map_app, concat_app, H2.
          destruct (drain_consumes w C false st (b ++ c) ts st' b' Hd) as [H3 _].
          rewrite (app_assoc b c), H3, <- app_assoc. reflexivity.
  Qed.

End ScannerProofs.

(* ---------- observing tokens through a function ---------- *)

Section ScanMap.
  Variables St Tok1 Tok2 : Type.
  Variable g : Tok1 -> Tok2.
  Variable split1 : splitfn St Tok1.
  Variable split2 : splitfn St Tok2.

  Definition map_sres (r : sres St Tok1) : sres St Tok2 :=
    match r with SOk a t s => SOk a (option_map g t) s | SPanic => SPanic end.

  Hypothesis split_map : forall st d e, split2 st d e = map_sres (split1 st d e).

  Definition map_dr (p : list Tok1 * dstop St) : list Tok2 * dstop St := (map g (fst p), snd p).
  Definition map_r (p : list Tok1 * stop) : list Tok2 * stop := (map g (fst p), snd p).

  Lemma drain_map : forall fuel e st buf,
    drain St Tok2 split2 fuel e st buf = map_dr (drain St Tok1 split1 fuel e st buf).
  Proof.
    induction fuel as [|f IH]; intros e st buf; [reflexivity|].
    cbn [drain]. destruct (negb e && nilb buf); [reflexivity|].
    rewrite split_map. destruct (split1 st buf e) as [adv tok st'|]; [|reflexivity].
    cbn [map_sres]. destruct (adv <? 0); [reflexivity|]. destruct (zlen buf <? adv); [reflexivity|].
    destruct tok as [t|]; [|reflexivity]. cbn [option_map].
    destruct (adv =? 0); [reflexivity|]. rewrite IH.
    unfold map_dr, tcons. cbn [fst snd map]. reflexivity.
  Qed.

  Lemma finish_map o st buf :
    finish St Tok2 split2 o st buf = map_r (finish St Tok1 split1 o st buf).
  Proof.
    unfold finish, drainF. rewrite drain_map. unfold map_r, map_dr. cbn [fst snd]. reflexivity.
  Qed.

  Lemma scan_from_map last_eof : forall chunks st buf e,
    scan_from St Tok2 split2 last_eof st buf e chunks
    = map_r (scan_from St Tok1 split1 last_eof st buf e chunks).
  Proof.
    induction chunks as [|c cs IH]; intros st buf e; cbn [scan_from].
    - apply finish_map.
    - destruct (nilb c).
      + destruct (last_eof && nilb cs); [apply finish_map|].
        destruct (Nat.leb max_empty_reads e); [apply finish_map|]. apply IH.
      + destruct (last_eof && nilb cs); [apply finish_map|].
        unfold drainF. rewrite drain_map.
        destruct (drain St Tok1 split1 (S (length (buf ++ c))) false st (buf ++ c)) as [ts r].
        unfold map_dr. cbn [fst snd]. destruct r as [st' buf'|s].
        * rewrite IH. unfold map_r, tapp. cbn [fst snd]. rewrite map_app. reflexivity.
        * reflexivity.
  Qed.

  Lemma scan_map last_eof st0 chunks :
    scan St Tok2 split2 last_eof st0 chunks = map_r (scan St Tok1 split1 last_eof st0 chunks).
  Proof. apply scan_from_map. Qed.
End ScanMap.
